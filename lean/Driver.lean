import Driver.Main
