import Tramp.Model.Bytes
import Tramp.Model.Fee
import Tramp.Model.Classify
import Tramp.Model.Node
import Tramp.Model.Provider
import Tramp.Model.Config
import Tramp.Model.Spec
import Tramp.Model.Height
