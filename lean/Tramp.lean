import Tramp.Model.Bytes
import Tramp.Model.Fee
import Tramp.Model.Classify
