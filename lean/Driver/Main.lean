/-
`driver <file>`: reads protocol lines `input => observed`, recomputes `observed` from the Lean
model, prints one `DIVERGE` line per disagreement and a final `SUMMARY`.
Lines starting with `#` are comments. Exit code 0 always (the caller reads the summary);
exit 2 on I/O or protocol errors.
-/
import Driver.Pure
import Driver.Prov
import Driver.Height
import Driver.Wire
import Driver.Config
import Driver.System

open Driver

def evalLine (input observed : String) : Option String :=
  let ws := words input
  match ws with
  | "sy" :: _ => evalSystem ws observed
  | "pw" :: _ => evalProv ws
  | "pa" :: _ => evalProv ws
  | "hw" :: _ => evalHeight ws
  | "wf" :: _ => evalWire ws
  | "wd" :: _ => evalWire ws
  | "cf" :: _ => evalConfig ws
  | "hx" :: _ => evalConfig ws
  | _ => evalPure ws

def bump (m : List (String × Nat)) (k : String) : List (String × Nat) :=
  match m with
  | [] => [(k, 1)]
  | (k', n) :: rest => if k' == k then (k', n + 1) :: rest else (k', n) :: bump rest k

partial def loop (h : IO.FS.Stream) (cover : IO.Ref (List (String × Nat))) (n d bad : Nat) (lineNo : Nat) : IO (Nat × Nat × Nat) := do
  let line ← h.getLine
  if line.isEmpty then return (n, d, bad)
  let line := line.trimAscii.toString
  if line.isEmpty || line.startsWith "#" then loop h cover n d bad (lineNo + 1)
  else
    match splitArrow line with
    | none =>
      IO.println s!"BADLINE {lineNo}: {line}"
      loop h cover n d (bad + 1) (lineNo + 1)
    | some (input, observed) =>
      match evalLine input observed with
      | none =>
        IO.println s!"BADLINE {lineNo}: {line}"
        loop h cover n d (bad + 1) (lineNo + 1)
      | some model =>
        if model == observed then
          -- model-branch coverage of accepted system traces
          if input.startsWith "sy " then
            match evalSystemFull (words input) observed with
            | some (_, tags) => cover.modify fun m => tags.foldl bump m
            | none => pure ()
          loop h cover (n + 1) d bad (lineNo + 1)
        else
          IO.println s!"DIVERGE {lineNo}: {input} impl=[{observed}] model=[{model}]"
          loop h cover (n + 1) (d + 1) bad (lineNo + 1)

def main (args : List String) : IO UInt32 := do
  match args with
  | [path] =>
    let hdl ← IO.FS.Handle.mk path .read
    let cover ← IO.mkRef ([] : List (String × Nat))
    let (n, d, bad) ← loop (IO.FS.Stream.ofHandle hdl) cover 0 0 0 1
    IO.println s!"SUMMARY cases={n} diverged={d} badlines={bad}"
    for (k, c) in (← cover.get) do IO.println s!"COVER {k} {c}"
    return (if bad > 0 then 2 else 0)
  | _ =>
    IO.eprintln "usage: driver <file>"
    return 2
