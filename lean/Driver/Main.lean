/-
`driver <file>`: reads protocol lines `input => observed`, recomputes `observed` from the Lean
model, prints one `DIVERGE` line per disagreement and a final `SUMMARY`.
Lines starting with `#` are comments. Exit code 0 always (the caller reads the summary);
exit 2 on I/O or protocol errors.
-/
import Driver.Pure
import Driver.Prov
import Driver.Height
import Driver.Wire
import Driver.Config
import Driver.System

open Driver

def evalLine (input observed : String) : Option String :=
  let ws := words input
  match ws with
  | "sy" :: _ => evalSystem ws observed
  | "pw" :: _ => evalProv ws
  | "pa" :: _ => evalProv ws
  | "hw" :: _ => evalHeight ws
  | "wf" :: _ => evalWire ws
  | "wd" :: _ => evalWire ws
  | "cf" :: _ => evalConfig ws
  | "hx" :: _ => evalConfig ws
  | _ => evalPure ws

partial def loop (h : IO.FS.Stream) (n d bad : Nat) (lineNo : Nat) : IO (Nat × Nat × Nat) := do
  let line ← h.getLine
  if line.isEmpty then return (n, d, bad)
  let line := line.trimAscii.toString
  if line.isEmpty || line.startsWith "#" then loop h n d bad (lineNo + 1)
  else
    match splitArrow line with
    | none =>
      IO.println s!"BADLINE {lineNo}: {line}"
      loop h n d (bad + 1) (lineNo + 1)
    | some (input, observed) =>
      match evalLine input observed with
      | none =>
        IO.println s!"BADLINE {lineNo}: {line}"
        loop h n d (bad + 1) (lineNo + 1)
      | some model =>
        if model == observed then loop h (n + 1) d bad (lineNo + 1)
        else
          IO.println s!"DIVERGE {lineNo}: {input} impl=[{observed}] model=[{model}]"
          loop h (n + 1) (d + 1) bad (lineNo + 1)

def main (args : List String) : IO UInt32 := do
  match args with
  | [path] =>
    let hdl ← IO.FS.Handle.mk path .read
    let (n, d, bad) ← loop (IO.FS.Stream.ofHandle hdl) 0 0 0 1
    IO.println s!"SUMMARY cases={n} diverged={d} badlines={bad}"
    return (if bad > 0 then 2 else 0)
  | _ =>
    IO.eprintln "usage: driver <file>"
    return 2
