/- Line evaluators for the provider suite: whole schedules (`pw`) and pay arguments (`pa`). -/
import Tramp.Model.Provider
import Tramp.Model.Config
import Driver.Util

namespace Driver
open Tramp

def parsePart (s : String) : Option Part :=
  match s.splitOn ":" with
  | [i, st] => do
    let i ← i.toNat?
    if st = "p" then pure ⟨i, .pending⟩
    else if st = "f" then pure ⟨i, .failed⟩
    else if st.startsWith "c" then do let x ← (st.drop 1).toString.toNat?; pure ⟨i, .complete x⟩
    else none
  | _ => none

def parseParts (s : String) : Option (List Part) :=
  if s = "-" then some [] else (s.splitOn ",").mapM parsePart

def parseReq (s : String) : Option PReq :=
  if s = "lp" then some .listPending
  else if s = "lc" then some .listComplete
  else if s = "pay" then some .pay
  else if s.startsWith "w" then (s.drop 1).toString.toNat?.map .waitPart
  else none

def showReq : PReq → String
  | .listPending => "lp" | .listComplete => "lc" | .pay => "pay" | .waitPart i => s!"w{i}"

def parseAct (s : String) : Option PAct :=
  if s.startsWith "s:" then (parseReq (s.drop 2).toString).map .serve
  else if s.startsWith "e:" then (parseReq (s.drop 2).toString).map .serveErr
  else if s.startsWith "d:" then (parseReq (s.drop 2).toString).map .deliver
  else if s.startsWith "pe:" then
    let k := (s.drop 3).toString
    if k = "pending" then some (.payEnd .payPending)
    else if k = "failed" then some (.payEnd (.payFailed false))
    else if k = "failedwarn" then some (.payEnd (.payFailed true))
    else if k = "err" then some (.payEnd .rpcErr)
    else if k = "conn" then some (.payEnd .rpcErr)      -- the connection could not be opened: same continuation
    else if k.startsWith "complete" then (k.drop 8).toString.toNat?.map (fun x => .payEnd (.payComplete x))
    else none
  else if s.startsWith "r" then
    match (s.drop 1).toString.splitOn ":" with
    | [i, st] => do
      let i ← i.toNat?
      if st = "f" then pure (.resolve i .failed)
      else if st.startsWith "c" then do let x ← (st.drop 1).toString.toNat?; pure (.resolve i (.complete x))
      else none
    | _ => none
  else if s.startsWith "c" then (s.drop 1).toString.toNat?.map .create
  else none

def insertSorted (x : String) : List String → List String
  | [] => [x]
  | y :: ys => if x ≤ y then x :: y :: ys else y :: insertSorted x ys

def sortStrings (xs : List String) : List String := xs.foldr insertSorted []

def showObs (s : PSys) : String :=
  let out := sortStrings (s.pc.outstanding.map showReq)
  let ret := match s.pc with
    | .retWait (.some x) => s!"some:{x}"
    | .retWait .none => "none"
    | .retWait .err => "err"
    | .retPay (.ok x) => s!"ok:{x}"
    | .retPay .err => "perr"
    | _ => "-"
  s!"out=[{",".intercalate out}] ret={ret}"

def runSched (s : PSys) : List String → List String → Option (List String)
  | [], acc => some acc.reverse
  | a :: as, acc =>
    match parseAct a with
    | none => none
    | some act =>
      match pstep Variant.current s act with
      | none => some ((s!"model-rejects:{a}" :: acc).reverse)
      | some s' => runSched s' as (showObs s' :: acc)

def showOptNat : Option Nat → String
  | none => "-" | some n => toString n

def evalProv (ws : List String) : Option String :=
  match ws with
  | "pw" :: kind :: parts :: acts => do
    let ps ← parseParts parts
    let s0 := if kind = "pay" then PSys.initPay ps else PSys.initWait Variant.current ps
    let acts := acts.filter (· ≠ "-")
    let obs ← runSched s0 acts [showObs s0]
    pure (" | ".intercalate obs)
  | ["pa", secs, _xpay, amount, maxfee, maxdelay] => do
    let secs ← secs.toNat?
    let amount ← parseOptNat amount
    let maxfee ← maxfee.toNat?
    let maxdelay ← maxdelay.toNat?
    pure s!"{retryFor secs} {showOptNat amount} {maxfee} {maxdelay} lnbc1fake"
  | _ => none

end Driver
