/- Line evaluators for the e2e suite (`cf`, `hx`). -/
import Tramp.Model.Config
import Tramp.Model.Classify
import Driver.Pure

namespace Driver
open Tramp

def evalConfig (ws : List String) : Option String :=
  match ws with
  | ["cf", cltv, policy, base, ppm, mpp, pay, noself, xpay, x] => do
    let cltv ← parseInt cltv; let policy ← parseInt policy; let base ← parseInt base; let ppm ← parseInt ppm
    let mpp ← parseInt mpp; let pay ← parseInt pay; let noself ← parseBool noself; let xpay ← parseBool xpay
    let x ← x.toNat?
    match configure ⟨cltv, policy, base, ppm, mpp, pay, noself, xpay⟩ with
    | none => pure "refused"
    | some c =>
      let amount := 1000000
      let need := amount + c.feeBase + amount * c.feePpm / 1000000
      let pol :=
        if need > amount then
          (if c.mppTimeout = 0 then "fail:2019" else s!"{c.feeBase},{c.feePpm},{c.policyDelta}")
        else "-"
      let maxdelay := min (min (x - c.cltvDelta) 65535) c.policyDelta
      let payobs :=
        if x ≥ c.policyDelta then (if c.mppTimeout = 0 then "ttf" else s!"{c.retryFor},{maxdelay}") else "-"
      let selfobs := if c.allowSelf then "held" else "fail"
      let mppobs := if c.mppTimeout ≤ 2 then "ok" else "-"
      pure s!"started pol={pol} pay={payobs} self={selfobs} mpp={mppobs}"
  | ["hx", payload] => do
    let b ← parseHex payload
    -- an undecodable payload is answered `continue` (the request cannot be ours); a decodable one
    -- carrying no parsable invoice is a non-trampoline htlc
    match tryFromPrefixed b with
    | .ok es =>
      match classify (fun _ => none) true
          { onion := { payload := es, hasScid := false, forwardMsat := some 0, totalMsat := some 0 },
            htlc := { amountMsat := 0, cltvExpiry := 0, cltvRel := 0, hash := [] } } with
      | .cont _ => pure "continue"
      | .failTNF => pure "fail"
      | .tramp _ _ => pure "held"
    | _ => pure "continue"
  | _ => none

end Driver
