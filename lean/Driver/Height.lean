/- Line evaluator for the height suite (`hw`). -/
import Tramp.Model.Height
import Driver.Util

namespace Driver
open Tramp

def parseHAct (s : String) : Option HAct :=
  if s = "s" then some .serve
  else if s = "e" then some .serveErr
  else if s = "d" then some .deliver
  else if s.startsWith "n" then (s.drop 1).toString.toNat?.map .setNode
  else if s.startsWith "a" then (s.drop 1).toString.toNat?.map .advance
  else if s.startsWith "b" then (s.drop 1).toString.toNat?.map .notify
  else none

def showHObs (s : HSt) : String :=
  let h := match s.phase with
    | .starting => "-" | .dead => "-" | _ => toString s.height
  let out := if s.outstanding then "1" else "0"
  let dead := if s.phase == .dead then " dead" else ""
  s!"h={h} out={out}{dead}"

def runH (s : HSt) : List String → List String → Option (List String)
  | [], acc => some acc.reverse
  | a :: as, acc =>
    match parseHAct a with
    | none => none
    | some act =>
      match hstep s act with
      | none => some ((s!"model-rejects:{a}" :: acc).reverse)
      | some s' => runH s' as (showHObs s' :: acc)

def evalHeight (ws : List String) : Option String :=
  match ws with
  | "hw" :: h0 :: acts => do
    let h0 ← h0.toNat?
    let acts := acts.filter (· ≠ "-")
    -- the first action of every schedule sets the node height; init value is irrelevant before a serve
    let obs ← runH (HSt.init h0) acts [showHObs (HSt.init h0)]
    pure (" | ".intercalate obs)
  | _ => none

end Driver
