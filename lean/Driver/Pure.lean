/- Line evaluators for the pure suites (tlv, fee, classify). -/
import Tramp.Model.Classify
import Driver.Util

namespace Driver
open Tramp

def showCsRes : Res (Nat × Bytes) → String :=
  showRes fun (n, r) => s!"{n} {showHex r}"

def showClass : Class → String
  | .cont none => "cont -"
  | .cont (some p) => s!"cont {showHex p}"
  | .failTNF => "failtnf"
  | .tramp i f => s!"tramp {showHex i.bolt11} {i.amount} {f}"

def parseBool (s : String) : Option Bool :=
  if s = "1" then some true else if s = "0" then some false else none

/-- `pv` token: `none` or `hash,amount|-,sigOk,selfLast,payee` -/
def parseView (s : String) : Option (Option InvoiceView) :=
  if s = "none" then some none
  else match s.splitOn "," with
    | [h, a, sg, sl, p] => do
      let h ← parseHex h
      let a ← parseOptNat a
      let sg ← parseBool sg
      let sl ← parseBool sl
      let p ← p.toNat?
      pure (some { hash := h, amount := a, sigOk := sg, selfLastHop := sl, payee := p })
    | _ => none

def parseInt (s : String) : Option Int :=
  if s.startsWith "-" then (s.drop 1).toString.toNat?.map (fun n => - (Int.ofNat n))
  else s.toNat?.map Int.ofNat

/-- model output for one input line; `none` = unparsable line -/
def evalPure (ws : List String) : Option String :=
  match ws with
  | ["fb", h] => do let b ← parseHex h; pure (showRes showEntries (fromBytes b))
  | ["tf", h] => do let b ← parseHex h; pure (showRes showEntries (tryFromPrefixed b))
  | ["tb", es] => do let es ← parseEntries es; pure (showHex (toBytes es))
  | ["tu", h] => do let b ← parseHex h; pure (showRes toString (getTu64 b))
  | ["gcs", h] => do let b ← parseHex h; pure (showCsRes (getCompactSize b))
  | ["pcs", n] => do let n ← n.toNat?; pure (showHex (putCompactSize n))
  | ["get", es, t] => do
      let es ← parseEntries es; let t ← t.toNat?
      pure (match getEntry es t with | none => "none" | some e => s!"{e.typ}:{showHex e.value}")
  | ["rm", es, t] => do
      let es ← parseEntries es; let t ← t.toNat?
      pure (showEntries (removeEntry es t))
  -- fee: the build profile token is informational (the current code does not depend on it)
  | ["fs", _mode, b, p, t, a] => do
      let b ← b.toNat?; let p ← p.toNat?; let t ← t.toNat?; let a ← a.toNat?
      pure (showRes (fun (x : Bool) => if x then "true" else "false") (feeSufficient b p t a))
  | ["ef", "tnf"] => pure (showHex (encodeFailure .tnf))
  | ["ef", "ttf"] => pure (showHex (encodeFailure .ttf))
  | ["ef", "foei", b, p, d] => do
      let b ← b.toNat?; let p ← p.toNat?; let d ← d.toNat?
      pure (showHex (encodeFailure (.foei b p d)))
  -- classify: cl allowSelf hasScid fwd total htlcHash payloadEntries blob view
  | ["cl", allow, scid, fwd, tot, hh, pl, blob, view] => do
      let allow ← parseBool allow; let scid ← parseBool scid
      let fwd ← parseOptNat fwd; let tot ← parseOptNat tot
      let hh ← parseHex hh; let pl ← parseEntries pl
      let blob ← parseHex blob; let view ← parseView view
      let parse : Bytes → Option InvoiceView := fun b => if b = blob then view else none
      let req : Req := { onion := { payload := pl, hasScid := scid, forwardMsat := fwd, totalMsat := tot },
                         htlc := { amountMsat := 0, cltvExpiry := 0, cltvRel := 0, hash := hh } }
      pure (showClass (classify parse allow req))
  | _ => none

end Driver
