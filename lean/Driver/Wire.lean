/- Line evaluators for the wire suite (`wf`, `wd`). -/
import Tramp.Model.Wire
import Driver.Util

namespace Driver
open Tramp

def parseDAct (s : String) : Option DAct :=
  if s.startsWith "r" then
    match (s.drop 1).toString.splitOn ":" with
    | [t, i] => do let t ← t.toNat?; let i ← i.toNat?; pure (.recv ⟨t, i⟩)
    | _ => none
  else if s.startsWith "c" then (s.drop 1).toString.toNat?.map .complete
  else none

def evalWire (ws : List String) : Option String :=
  match ws with
  | ["wf", chunks] => do
    let cs ← (chunks.splitOn ",").mapM parseHex
    let (msgs, _) := feedChunks [] cs
    pure (if msgs.isEmpty then "-" else ";".intercalate (msgs.map showHex))
  | "wd" :: acts => do
    let as ← acts.mapM parseDAct
    match drun ⟨[], []⟩ as with
    | some s => pure (" ".intercalate (s.replies.map fun r => toString r.id))
    | none => pure "model-rejects"
  | _ => none

end Driver
