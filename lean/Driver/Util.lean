/- Parsing/printing helpers for the line protocol. Core Lean only. -/
import Tramp.Model.Bytes

namespace Driver
open Tramp

def hexDigit (c : Char) : Option Nat :=
  if '0' ≤ c ∧ c ≤ '9' then some (c.toNat - '0'.toNat)
  else if 'a' ≤ c ∧ c ≤ 'f' then some (c.toNat - 'a'.toNat + 10)
  else if 'A' ≤ c ∧ c ≤ 'F' then some (c.toNat - 'A'.toNat + 10)
  else none

def hexCharsToBytes : List Char → Option Bytes
  | [] => some []
  | [_] => none
  | a :: b :: rest => do
    let x ← hexDigit a
    let y ← hexDigit b
    let r ← hexCharsToBytes rest
    pure (UInt8.ofNat (x * 16 + y) :: r)

/-- "-" is the empty string -/
def parseHex (s : String) : Option Bytes :=
  if s = "-" then some [] else hexCharsToBytes s.toList

def nibble (n : Nat) : Char :=
  if n < 10 then Char.ofNat ('0'.toNat + n) else Char.ofNat ('a'.toNat + n - 10)

def showHex (bs : Bytes) : String :=
  if bs.isEmpty then "-"
  else String.ofList (bs.flatMap fun b => [nibble (b.toNat / 16), nibble (b.toNat % 16)])

/-- entries: `-` for none, else `typ:hex;typ:hex` -/
def parseEntry (s : String) : Option Entry :=
  match s.splitOn ":" with
  | [t, v] => do
    let t ← t.toNat?
    let v ← parseHex v
    pure { typ := t, value := v }
  | _ => none

def parseEntries (s : String) : Option (List Entry) :=
  if s = "-" then some [] else (s.splitOn ";").mapM parseEntry

def showEntries (es : List Entry) : String :=
  if es.isEmpty then "-"
  else ";".intercalate (es.map fun e => s!"{e.typ}:{showHex e.value}")

def showRes {α} (f : α → String) : Res α → String
  | .ok a => "ok " ++ f a
  | .err => "err"
  | .panic => "panic"

def parseOptNat (s : String) : Option (Option Nat) :=
  if s = "-" then some none else s.toNat?.map some

def words (s : String) : List String :=
  (s.splitOn " ").filter (· ≠ "")

/-- split a protocol line `input => observed` -/
def splitArrow (line : String) : Option (String × String) :=
  match line.splitOn " => " with
  | [a, b] => some (a, b)
  | _ => none

end Driver
