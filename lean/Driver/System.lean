/-
Trace acceptance for the system suite (`sy`): the schedule the harness ran on the real code is
replayed on M7. After every harness action the model takes the corresponding action and then runs
the plugin-internal steps (`select!` branches, reading parameters/height, due timers) to quiescence
— the single-threaded test runtime only ever shows quiescent states. Where the code resolves a
choice internally (two ready `select!` branches; which of two tasks with an identical request a
reply belongs to) every alternative is followed and those contradicting the observation are dropped.
-/
import Tramp.Model.System
import Driver.Prov
import Driver.Pure

namespace Driver
open Tramp

def modeTok : DsMode → String
  | .createOrReplace => "cor"
  | .mustCreate => "mc"
  | .mustReplace none => "mr"
  | .mustReplace (some g) => s!"mr{g}"

def sreqTok : SReq → String
  | .dsList => "dl"
  | .dsWriteState (.pending aid _) m => s!"wsP{aid}:{modeTok m}"
  | .dsWriteState .free m => s!"wsF:{modeTok m}"
  | .dsWriteState (.succeeded pre) m => s!"wsS{pre}:{modeTok m}"
  | .dsWriteAttempt aid m => s!"wa{aid}:{modeTok m}"
  | .prov q => showReq q

/-- outstanding requests in issue order (the harness numbers identical requests by arrival) -/
abbrev Order := List (TaskRef × SReq)

def currentReqs (v : SVariant) (s : SState) : List (TaskRef × SReq) :=
  (match s.active with
   | some (_, o) => (o.pc.outstanding v).map (fun q => (TaskRef.owner, q))
   | none => []) ++
  s.bks.map (fun b => (TaskRef.bk b.id, b.pc.request v))

def updateOrder (v : SVariant) (s : SState) (ord : Order) : Order :=
  let cur := currentReqs v s
  let kept := ord.filter (fun x => cur.contains x)
  kept ++ cur.filter (fun x => !kept.contains x)

/-- tokens with ordinals, in issue order -/
def orderTokens (ord : Order) : List (String × TaskRef × SReq) :=
  let rec go (l : Order) (seen : List String) (acc : List (String × TaskRef × SReq)) : List (String × TaskRef × SReq) :=
    match l with
    | [] => acc.reverse
    | (t, q) :: rest =>
      let base := sreqTok q
      let k := (seen.filter (· == base)).length
      let tok := if k == 0 then base else s!"{base}#{k}"
      go rest (base :: seen) ((tok, t, q) :: acc)
  go ord [] []

def showResp (c : Cfg) : Resp → String
  | .resolve pre => s!"res:{pre}"
  | .fail r =>
    let r' : FailReason := match r with
      | .foei _ _ _ => .foei c.feeBase c.feePpm c.policyDelta
      | x => x
    "fail:" ++ showHex (encodeFailure r')

def insertById (x : Nat × String) : List (Nat × String) → List (Nat × String)
  | [] => [x]
  | y :: ys => if x.1 ≤ y.1 then x :: y :: ys else y :: insertById x ys

def showObsS (c : Cfg) (ord : Order) (outs : List Out) (extra : List (Nat × String) := []) : String :=
  let toks := sortStrings ((orderTokens ord).map (·.1))
  let resps := (extra ++ outs.filterMap fun o => match o with
    | .resp i r => some (i.id, showResp c r)
    | _ => none).foldr insertById []
  let pays := outs.filterMap fun o => match o with
    | .pay b a mf md => some s!"{b}:{showOptNat a}:{mf}:{md}"
    | _ => none
  s!"out=[{",".intercalate toks}] resp=[{",".intercalate (resps.map fun (i, r) => s!"{i}={r}")}] pay=[{",".intercalate pays}]"

structure Cand where
  s : SState
  ord : Order
  outs : List Out
  extra : List (Nat × String) := []     -- answers given outside the per-hash component (non-trampoline HTLCs)

/-- The harness attaches an amount TLV iff the invoice is amountless or the requested amount differs
    from the invoice's 1 000 000 msat. `none`: the amounts cannot be reconciled (M3 `reconcileAmount`),
    the HTLC is not a trampoline payment and is answered `continue` at once. -/
def arrivalAmount (hasAmount : Bool) (a : Nat) : Option Nat :=
  let inv : Option Nat := if hasAmount then some 1000000 else none
  let tlv : Option Nat := if !hasAmount then some a else if a ≠ 1000000 then some a else none
  reconcileAmount inv tlv

def arAmount (tok : String) : Option Nat :=
  match (tok.drop 3).toString.splitOn ":" with
  | [_, a, _, _, _, _] => a.toNat?
  | _ => none

/-- plugin-internal actions enabled in `s` -/
def internalActs : List SAct := [.timerFire, .takeFail, .takeReady, .readParams, .readHeight]

/-- run internal steps to quiescence, following every alternative (fuel bounds the depth) -/
def closure (c : Cfg) (v : SVariant) : Nat → Cand → List Cand
  | 0, x => [x]
  | fuel + 1, x =>
    let nexts := internalActs.filterMap fun a =>
      match sstep c v x.s a with
      | some (s', o) => some ({ s := s', ord := x.ord, outs := x.outs ++ o } : Cand)
      | none => none
    if nexts.isEmpty then [x] else nexts.flatMap (closure c v fuel)

def parseFault (k : String) : Option Fault :=
  if k = "fR" then some .writeReject else if k = "fA" then some .writeLostAck
  else if k = "fL" then some .writeLost else if k = "fE" then some .readErr else none

def parsePayEnd (k : String) : Option PReply :=
  if k = "pending" then some .payPending
  else if k = "failed" then some (.payFailed false)
  else if k = "failedwarn" then some (.payFailed true)
  else if k = "err" then some .rpcErr
  else if k.startsWith "complete" then (k.drop 8).toString.toNat?.map .payComplete
  else none

/-- the model actions a harness token may stand for (several when the task is ambiguous) -/
def tokenActs (hasAmount : Bool) (x : Cand) (tok : String) : Option (List SAct) :=
  if tok.startsWith "ar:" then
    match (tok.drop 3).toString.splitOn ":" with
    | [b, a, h, e, r, t] => do
      let b ← b.toNat?; let a ← a.toNat?; let h ← h.toNat?; let e ← e.toNat?
      let r ← parseInt r
      let t ← parseOptNat t
      pure [.arrive ⟨b, a, hasAmount⟩ h e r (t.getD h)]
    | _ => none
  else if tok.startsWith "tm" then (tok.drop 2).toString.toNat?.map fun d => [.tickMono d]
  else if tok.startsWith "tw" then (tok.drop 2).toString.toNat?.map fun d => [.tickWall d]
  else if tok.startsWith "bl" then (tok.drop 2).toString.toNat?.map fun d => [.block d]
  else if tok = "cr" then some [.crash]
  else if tok.startsWith "pe:" then (parsePayEnd (tok.drop 3).toString).map fun r => [.payEnd r]
  else if tok.startsWith "s:" then
    let t := (tok.drop 2).toString
    some ((orderTokens x.ord).filterMap fun (tk, task, q) => if tk == t then some (.serve task q) else none)
  else if tok.startsWith "d:" then
    let t := (tok.drop 2).toString
    some ((orderTokens x.ord).filterMap fun (tk, task, q) => if tk == t then some (.deliver task q) else none)
  else if tok.startsWith "f" && (tok.drop 2).toString.startsWith ":" then do
    let f ← parseFault (tok.take 2).toString
    let t := (tok.drop 3).toString
    pure ((orderTokens x.ord).filterMap fun (tk, task, q) => if tk == t then some (.fault task q f) else none)
  else if tok.startsWith "r" then
    match (tok.drop 1).toString.splitOn ":" with
    | [i, st] => do
      let i ← i.toNat?
      if st = "f" then pure [.resolve i .failed]
      else if st.startsWith "c" then do let p ← (st.drop 1).toString.toNat?; pure [.resolve i (.complete p)]
      else none
    | _ => none
  else if tok.startsWith "c" then (tok.drop 1).toString.toNat?.map fun i => [.create i]
  else none

def stepCands (c : Cfg) (v : SVariant) (hasAmount : Bool) (cands : List Cand) (tok : String) : Option (List Cand) := do
  let mut out : List Cand := []
  if tok.startsWith "ar:" then
    match arAmount tok with
    | some a =>
      if (arrivalAmount hasAmount a).isNone then
        return cands.map fun x => { x with s := { x.s with nextInv := x.s.nextInv + 1 }, outs := [], extra := [(x.s.nextInv, "cont:-")] }
    | none => pure ()
  for x in cands do
    let acts ← tokenActs hasAmount x tok
    for a in acts do
      match sstep c v x.s a with
      | some (s', o) =>
        let x' : Cand := { s := s', ord := x.ord, outs := o }
        out := out ++ (closure c v 6 x').map fun y => { y with ord := updateOrder v y.s y.ord }
      | none => pure ()
  pure out

def splitBar (s : String) : List String := (s.splitOn " | ")

def runSys (c : Cfg) (v : SVariant) (hasAmount : Bool) : List Cand → List String → List String → Nat → String → String
  | _, [], _, _, acc => acc
  | _, _ :: _, [], _, acc => acc ++ " | <missing observation>"
  | cands, tok :: toks, ob :: obs, n, acc =>
    match stepCands c v hasAmount cands tok with
    | none => acc ++ s!" | <unparsable action {tok}>"
    | some nexts =>
      let good := nexts.filter fun x => showObsS c x.ord x.outs x.extra == ob
      if good.isEmpty then
        let alt := match nexts with
          | [] => s!"<model cannot take step {n} `{tok}`>"
          | x :: _ => s!"<step {n} `{tok}`: model {showObsS c x.ord x.outs x.extra}>"
        acc ++ " | " ++ alt
      else runSys c v hasAmount good toks obs (n + 1) (acc ++ " | " ++ ob)

/-- returns the model's observation string: equal to `observed` iff the trace is accepted -/
def evalSystem (ws : List String) (observed : String) : Option String :=
  match ws with
  | "sy" :: hdr :: acts =>
    match (hdr.splitOn ",").mapM String.toNat? with
    | some [cl, pol, base, ppm, mpp, open_] =>
      let c : Cfg := { cltvDelta := cl, policyDelta := pol, feeBase := base, feePpm := ppm, mppTimeout := mpp }
      let acts := acts.filter (· ≠ "-")
      match splitBar observed with
      | [] => none
      | ob0 :: obs =>
        let x0 : Cand := { s := { SState.init with height := 1000 }, ord := [], outs := [] }
        let first := showObsS c [] []
        if first != ob0 then some first
        else some (runSys c SVariant.current (open_ == 0) [x0] acts obs 1 first)
    | _ => none
  | _ => none

end Driver
