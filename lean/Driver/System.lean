/-
Trace acceptance for the system suite (`sy`): the schedule the harness ran on the real code is
replayed on M7. After every harness action the model takes the corresponding action and then runs
the plugin-internal steps (`select!` branches, reading parameters/height, due timers) to quiescence
— the single-threaded test runtime only ever shows quiescent states. Where the code resolves a
choice internally (two ready `select!` branches; which of two tasks with an identical request a
reply belongs to) every alternative is followed and those contradicting the observation are dropped.
-/
import Tramp.Model.System
import Driver.Prov
import Driver.Pure

namespace Driver
open Tramp

def modeTok : DsMode → String
  | .createOrReplace => "cor"
  | .mustCreate => "mc"
  | .mustReplace none => "mr"
  | .mustReplace (some g) => s!"mr{g}"

def sreqTok : SReq → String
  | .dsList => "dl"
  | .dsWriteState (.pending aid _) m => s!"wsP{aid}:{modeTok m}"
  | .dsWriteState .free m => s!"wsF:{modeTok m}"
  | .dsWriteState (.succeeded pre) m => s!"wsS{pre}:{modeTok m}"
  | .dsWriteAttempt aid m => s!"wa{aid}:{modeTok m}"
  | .prov q => showReq q

/-- outstanding requests in issue order (the harness numbers identical requests by arrival) -/
abbrev Order := List (TaskRef × SReq)

def currentReqs (v : SVariant) (s : SState) : List (TaskRef × SReq) :=
  (match s.active with
   | some (_, o) => (o.pc.outstanding v).map (fun q => (TaskRef.owner, q))
   | none => []) ++
  s.bks.map (fun b => (TaskRef.bk b.id, b.pc.request v))

def updateOrder (v : SVariant) (s : SState) (ord : Order) : Order :=
  let cur := currentReqs v s
  let kept := ord.filter (fun x => cur.contains x)
  kept ++ cur.filter (fun x => !kept.contains x)

/-- tokens with ordinals, in issue order -/
def orderTokens (ord : Order) : List (String × TaskRef × SReq) :=
  let rec go (l : Order) (seen : List String) (acc : List (String × TaskRef × SReq)) : List (String × TaskRef × SReq) :=
    match l with
    | [] => acc.reverse
    | (t, q) :: rest =>
      let base := sreqTok q
      let k := (seen.filter (· == base)).length
      let tok := if k == 0 then base else s!"{base}#{k}"
      go rest (base :: seen) ((tok, t, q) :: acc)
  go ord [] []

def showResp (c : Cfg) : Resp → String
  | .resolve pre => s!"res:{pre}"
  | .fail r =>
    let r' : FailReason := match r with
      | .foei _ _ _ => .foei c.feeBase c.feePpm c.policyDelta
      | x => x
    "fail:" ++ showHex (encodeFailure r')

def insertById (x : Nat × String) : List (Nat × String) → List (Nat × String)
  | [] => [x]
  | y :: ys => if x.1 ≤ y.1 then x :: y :: ys else y :: insertById x ys

def showObsS (c : Cfg) (ord : Order) (outs : List Out) (extra : List (Nat × String) := []) : String :=
  let toks := sortStrings ((orderTokens ord).map (·.1))
  let resps := (extra ++ outs.filterMap fun o => match o with
    | .resp i r => some (i.id, showResp c r)
    | _ => none).foldr insertById []
  let pays := outs.filterMap fun o => match o with
    | .pay b a mf md => some s!"{b}:{showOptNat a}:{mf}:{md}"
    | _ => none
  s!"out=[{",".intercalate toks}] resp=[{",".intercalate (resps.map fun (i, r) => s!"{i}={r}")}] pay=[{",".intercalate pays}]"

/-! ### model-branch coverage: which arm of the model each accepted step went through -/

def wKind : WPc → String
  | .seqPending => "seqPending" | .seqComplete _ => "seqComplete" | .conc _ _ => "conc"
  | .waiting _ => "waiting" | .ret (.some _) => "ret-some" | .ret .none => "ret-none" | .ret .err => "ret-err"

def pKind : PPc → String
  | .paying => "paying" | .inWait _ w => "inWait-" ++ wKind w | .retWait _ => "retWait"
  | .retPay (.ok _) => "retPay-ok" | .retPay .err => "retPay-err"

def pcKind : OPc → String
  | .fetch => "fetch" | .rWait _ _ _ w => "rWait-" ++ wKind w | .rFailA _ _ _ => "rFailA" | .rFailS _ _ _ => "rFailS"
  | .waitHtlcs _ => "waitHtlcs" | .gotReady => "gotReady" | .gotParams _ _ => "gotParams" | .addS _ _ _ _ => "addS"
  | .addA _ _ _ _ => "addA" | .paying _ _ p => "paying-" ++ pKind p | .panicked => "panicked"

def provReplyKind : PReply → String
  | .pendingIds [] => "pendingIds-empty" | .pendingIds _ => "pendingIds" | .completePres [] => "completePres-empty"
  | .completePres _ => "completePres" | .waitPre _ => "waitPre" | .waitCode => "waitCode" | .payComplete _ => "payComplete"
  | .payPending => "payPending" | .payFailed true => "payFailed-warn" | .payFailed false => "payFailed" | .rpcErr => "rpcErr"

def replyKind : SReply → String
  | .listed none => "listed-absent" | .listed (some (.free, _)) => "listed-free" | .listed (some (.pending _ _, _)) => "listed-pending"
  | .listed (some (.succeeded _, _)) => "listed-succeeded" | .listErr => "listErr" | .written _ => "written" | .writeErr => "writeErr"
  | .prov r => provReplyKind r

def respKind : Resp → String
  | .resolve _ => "resolve" | .fail .tnf => "tnf" | .fail .ttf => "ttf" | .fail (.foei _ _ _) => "foei"

def bpcKind : BPc → String
  | .succS _ _ => "succS" | .succA _ => "succA" | .failA _ _ => "failA" | .failS _ _ => "failS"

def nextKind : ONext → String
  | .stay pc => "stay-" ++ pcKind pc | .pay _ _ _ => "pay" | .finish r => "finish-" ++ respKind r
  | .finishBk r b => "finishBk-" ++ respKind r ++ "-" ++ bpcKind b | .panic => "panic"

def reqKind : SReq → String
  | .dsList => "dsList" | .dsWriteState (.pending _ _) m => "wsPending-" ++ modeTok' m | .dsWriteState .free m => "wsFree-" ++ modeTok' m
  | .dsWriteState (.succeeded _) m => "wsSucceeded-" ++ modeTok' m | .dsWriteAttempt _ m => "wa-" ++ modeTok' m
  | .prov .listPending => "listPending" | .prov .listComplete => "listComplete" | .prov (.waitPart _) => "waitPart" | .prov .pay => "pay"
where modeTok' : DsMode → String
  | .createOrReplace => "cor" | .mustCreate => "mc" | .mustReplace none => "mr" | .mustReplace (some _) => "mrGen"

def faultKind : Fault → String
  | .writeReject => "writeReject" | .writeLostAck => "writeLostAck" | .writeLost => "writeLost" | .readErr => "readErr"

/-- the arm of the model a step goes through (computed in the state BEFORE the step) -/
def stepTag (c : Cfg) (v : SVariant) (s : SState) : SAct → String
  | .arrive info _amount _expiry relExp total =>
    match s.active with
    | none => "arrive:new" ++ (if decide (relExp < (c.policyDelta : Int)) then ":rel-low" else "") ++ (if !feeOk c total info.amount then ":total-low" else "")
    | some (e, o) =>
      "arrive:" ++ pcKind o.pc ++ (if info != e.info then ":info-mismatch" else "") ++ (if decide (relExp < (c.policyDelta : Int)) then ":rel-low" else "")
        ++ (if !feeOk c total info.amount then ":total-low" else "") ++ (if e.isFailReq then ":already-failing" else "") ++ (if e.isReady then ":already-ready" else "")
  | .tickMono _ => "tickMono" | .tickWall _ => "tickWall" | .block _ => "block"
  | .crash => "crash:" ++ (match s.active with | some (_, o) => pcKind o.pc | none => "idle") ++ (if s.bks.isEmpty then "" else "+bk")
  | .create _ => "create" | .resolve _ .failed => "resolve-failed" | .resolve _ _ => "resolve-complete"
  | .payEnd r => "payEnd:" ++ provReplyKind r
  | .serve .owner q => "serve:owner:" ++ reqKind q ++ ">" ++ (match nodeServe s q with | some (_, r) => replyKind r | none => "blocked")
  | .serve (.bk id) q => "serve:bk:" ++ (match findBk s.bks id with | some b => bpcKind b.pc | none => "?") ++ ">" ++ (match nodeServe s q with | some (_, r) => replyKind r | none => "blocked")
  | .fault .owner q f => "fault:owner:" ++ faultKind f ++ ":" ++ reqKind q
  | .fault (.bk _) q f => "fault:bk:" ++ faultKind f ++ ":" ++ reqKind q
  | .deliver .owner q =>
    match s.active with
    | some (_, o) =>
      match lookupS o.served q with
      | some r => "deliver:" ++ pcKind o.pc ++ ":" ++ replyKind r ++ ">" ++ nextKind (ownerCont c v s o.pc q r)
      | none => "deliver:unserved"
    | none => "deliver:idle"
  | .deliver (.bk id) _ =>
    match findBk s.bks id with
    | some b => "deliverBk:" ++ bpcKind b.pc ++ ":" ++ (match b.served with | some r => replyKind r ++ (match bkCont b.pc r with | some _ => ">next" | none => ">done") | none => "unserved")
    | none => "deliverBk:?"
  | .timerFire => "timerFire" | .takeFail => "takeFail" | .takeReady => "takeReady" | .readParams => "readParams" | .readHeight => "readHeight"

structure Cand where
  s : SState
  ord : Order
  outs : List Out
  extra : List (Nat × String) := []     -- answers given outside the per-hash component (non-trampoline HTLCs)
  tags : List String := []              -- model arms this step went through (coverage)

/-- The harness attaches an amount TLV iff the invoice is amountless or the requested amount differs
    from the invoice's 1 000 000 msat. `none`: the amounts cannot be reconciled (M3 `reconcileAmount`),
    the HTLC is not a trampoline payment and is answered `continue` at once. -/
def arrivalAmount (hasAmount : Bool) (a : Nat) : Option Nat :=
  let inv : Option Nat := if hasAmount then some 1000000 else none
  let tlv : Option Nat := if !hasAmount then some a else if a ≠ 1000000 then some a else none
  reconcileAmount inv tlv

def arAmount (tok : String) : Option Nat :=
  match (tok.drop 3).toString.splitOn ":" with
  | [_, a, _, _, _, _] => a.toNat?
  | [_, a, _, _, _, _, _] => a.toNat?
  | _ => none

/-- plugin-internal actions enabled in `s` -/
def internalActs : List SAct := [.timerFire, .takeFail, .takeReady, .readParams, .readHeight]

/-- run internal steps to quiescence, following every alternative (fuel bounds the depth) -/
def closure (c : Cfg) (v : SVariant) : Nat → Cand → List Cand
  | 0, x => [x]
  | fuel + 1, x =>
    let nexts := internalActs.filterMap fun a =>
      match sstep c v x.s a with
      | some (s', o) => some ({ s := s', ord := x.ord, outs := x.outs ++ o, extra := x.extra, tags := x.tags ++ [stepTag c v x.s a] } : Cand)
      | none => none
    if nexts.isEmpty then [x] else nexts.flatMap (closure c v fuel)

def parseFault (k : String) : Option Fault :=
  if k = "fR" then some .writeReject else if k = "fA" then some .writeLostAck
  else if k = "fL" then some .writeLost else if k = "fE" then some .readErr else none

def parsePayEnd (k : String) : Option PReply :=
  if k = "pending" then some .payPending
  else if k = "failed" then some (.payFailed false)
  else if k = "failedwarn" then some (.payFailed true)
  else if k = "err" then some .rpcErr
  else if k = "conn" then some .rpcErr      -- the connection could not be opened: same continuation
  else if k.startsWith "complete" then (k.drop 8).toString.toNat?.map .payComplete
  else none

/-- the model actions a harness token may stand for (several when the task is ambiguous) -/
def tokenActs (hasAmount : Bool) (x : Cand) (tok : String) : Option (List SAct) :=
  if tok.startsWith "ar:" then
    match (tok.drop 3).toString.splitOn ":" with
    | [b, a, h, e, r, t] => do
      let b ← b.toNat?; let a ← a.toNat?; let h ← h.toNat?; let e ← e.toNat?
      let r ← parseInt r
      let t ← parseOptNat t
      pure [.arrive ⟨b, a, hasAmount⟩ h e r (t.getD h)]
    | [b, a, h, e, r, t, f] => do     -- 7th field: the onion's forward amount = the declared total when none is given
      let b ← b.toNat?; let a ← a.toNat?; let h ← h.toNat?; let e ← e.toNat?
      let r ← parseInt r
      let t ← parseOptNat t
      let f ← f.toNat?
      pure [.arrive ⟨b, a, hasAmount⟩ h e r (t.getD f)]
    | _ => none
  else if tok.startsWith "tm" then (tok.drop 2).toString.toNat?.map fun d => [.tickMono d]
  else if tok.startsWith "tw" then (tok.drop 2).toString.toNat?.map fun d => [.tickWall (d : Int)]
  else if tok.startsWith "tb" then (tok.drop 2).toString.toNat?.map fun d => [.tickWall (-(d : Int))]     -- clock stepped back
  else if tok.startsWith "bl" then (tok.drop 2).toString.toNat?.map fun d => [.block d]
  else if tok = "cr" then some [.crash]
  else if tok.startsWith "pe:" then (parsePayEnd (tok.drop 3).toString).map fun r => [.payEnd r]
  else if tok.startsWith "s:" then
    let t := (tok.drop 2).toString
    some ((orderTokens x.ord).filterMap fun (tk, task, q) => if tk == t then some (.serve task q) else none)
  else if tok.startsWith "d:" then
    let t := (tok.drop 2).toString
    some ((orderTokens x.ord).filterMap fun (tk, task, q) => if tk == t then some (.deliver task q) else none)
  else if tok.startsWith "f" && (tok.drop 2).toString.startsWith ":" then do
    let f ← parseFault (tok.take 2).toString
    let t := (tok.drop 3).toString
    pure ((orderTokens x.ord).filterMap fun (tk, task, q) => if tk == t then some (.fault task q f) else none)
  else if tok.startsWith "r" then
    match (tok.drop 1).toString.splitOn ":" with
    | [i, st] => do
      let i ← i.toNat?
      if st = "f" then pure [.resolve i .failed]
      else if st.startsWith "c" then do let p ← (st.drop 1).toString.toNat?; pure [.resolve i (.complete p)]
      else none
    | _ => none
  else if tok.startsWith "c" then (tok.drop 1).toString.toNat?.map fun i => [.create i]
  else none

def stepCands (c : Cfg) (v : SVariant) (hasAmount : Bool) (cands : List Cand) (tok : String) : Option (List Cand) := do
  let mut out : List Cand := []
  if tok.startsWith "ar:" then
    match arAmount tok with
    | some a =>
      if (arrivalAmount hasAmount a).isNone then
        return cands.map fun x => { x with s := { x.s with nextInv := x.s.nextInv + 1 }, outs := [], extra := [(x.s.nextInv, "cont:-")], tags := ["arrive:not-trampoline"] }
    | none => pure ()
  for x in cands do
    let acts ← tokenActs hasAmount x tok
    for a in acts do
      match sstep c v x.s a with
      | some (s', o) =>
        let x' : Cand := { s := s', ord := x.ord, outs := o, tags := [stepTag c v x.s a] }
        out := out ++ (closure c v 6 x').map fun y => { y with ord := updateOrder v y.s y.ord }
      | none => pure ()
  pure out

def splitBar (s : String) : List String := (s.splitOn " | ")

def runSys (c : Cfg) (v : SVariant) (hasAmount : Bool) : List Cand → List String → List String → Nat → String → List String → String × List String
  | _, [], _, _, acc, tg => (acc, tg)
  | _, _ :: _, [], _, acc, tg => (acc ++ " | <missing observation>", tg)
  | cands, tok :: toks, ob :: obs, n, acc, tg =>
    match stepCands c v hasAmount cands tok with
    | none => (acc ++ s!" | <unparsable action {tok}>", tg)
    | some nexts =>
      let good := nexts.filter fun x => showObsS c x.ord x.outs x.extra == ob
      match good with
      | [] =>
        let alt := match nexts with
          | [] => s!"<model cannot take step {n} `{tok}`>"
          | x :: _ => s!"<step {n} `{tok}`: model {showObsS c x.ord x.outs x.extra}>"
        (acc ++ " | " ++ alt, tg)
      | g :: _ => runSys c v hasAmount good toks obs (n + 1) (acc ++ " | " ++ ob) (tg ++ g.tags)

/-- returns the model's observation string (equal to `observed` iff the trace is accepted) and the
    model arms the accepted steps went through -/
def evalSystemFull (ws : List String) (observed : String) : Option (String × List String) :=
  match ws with
  | "sy" :: hdr :: acts =>
    match (hdr.splitOn ",").mapM String.toNat? with
    | some (cl :: pol :: base :: ppm :: mpp :: open_ :: _) =>     -- an optional 7th field (second, frozen hash) does not concern this component
      let c : Cfg := { cltvDelta := cl, policyDelta := pol, feeBase := base, feePpm := ppm, mppTimeout := mpp }
      let acts := acts.filter (· ≠ "-")
      match splitBar observed with
      | [] => none
      | ob0 :: obs =>
        let x0 : Cand := { s := { SState.init with height := 1000, wall := 1000000 }, ord := [], outs := [] }
        let first := showObsS c [] []
        if first != ob0 then some (first, [])
        else some (runSys c SVariant.current (open_ == 0) [x0] acts obs 1 first [])
    | _ => none
  | _ => none

def evalSystem (ws : List String) (observed : String) : Option String := (evalSystemFull ws observed).map (·.1)

end Driver
