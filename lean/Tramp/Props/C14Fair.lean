/-
C06 over the whole plugin (C14 ∧ C06): in every fair infinite run of the product of all payment
hashes — steps of any hashes interleaved in any way, new HTLCs of any hash arriving at any time,
write faults anywhere, no crash — every HTLC of every hash that is held at some point is answered
later (`c14_fair_run_answers`).

Proof: the projection of the run on hash `h` is a fair run of component `h` in the sense of
`FairRun` — a step of another hash leaves component `h` as it is (`gstep_proj`), which is the
component's own step "no time passes" — and `FairRun.c06_fair_run_answers` applies. The fairness
hypotheses are per hash: nothing is assumed about how the scheduler or the node divide their
attention between payments, only that none is starved for ever.
-/
import Tramp.Props.C06Fair
import Tramp.Props.C14Live

namespace Tramp

/-- an infinite run of the whole plugin, fair to every payment hash -/
structure GFairRun (c : Cfg) where
  st  : Nat → GState
  act : Nat → GAct
  out : Nat → List (Nat × Out)
  step : ∀ n, gstep c .current (st n) (act n) = some (st (n + 1), out n)
  reach0 : GReach c (st 0)
  faults : ∀ n, (act n).writeFaultOnly
  nocrash : ∀ n, act n ≠ .crash ∧ ∀ h, act n ≠ .comp h .crash
  fairOwner : ∀ h n a, a.isOwnerStep = true →
    (∀ m, n ≤ m → (sstep c .current ((st m).comps h) a).isSome = true) → ∃ m, n ≤ m ∧ act m = .comp h a
  fairServe : ∀ h n q, (∀ m, n ≤ m → (sstep c .current ((st m).comps h) (.serve .owner q)).isSome = true) →
    ∃ m, n ≤ m ∧ (act m = .comp h (.serve .owner q) ∨ ∃ f, act m = .comp h (.fault .owner q f))
  fairPart : ∀ h n id p, findPart ((st n).comps h).parts id = some p → p.st = .pending →
    ∃ m st', n ≤ m ∧ act m = .comp h (.resolve id st')
  fairPay : ∀ h n, ((st n).comps h).payRunning = true → ∃ m r, n ≤ m ∧ act m = .comp h (.payEnd r)
  time : ∀ h n d, ∃ m, n ≤ m ∧ d ≤ ((st m).comps h).mono

namespace GFairRun

variable {c : Cfg} (G : GFairRun c)

/-- the step of component `h` that a global action amounts to; a step of another hash is "no time passes" -/
def cact (h : Nat) (n : Nat) : SAct := (projAct h (G.act n)).getD (.tickMono 0)

def cout (h : Nat) (n : Nat) : List Out :=
  match sstep c .current ((G.st n).comps h) (G.cact h n) with
  | some (_, o) => o
  | none => []

theorem cstep (h n : Nat) :
    sstep c .current ((G.st n).comps h) (G.cact h n) = some ((G.st (n + 1)).comps h, G.cout h n) := by
  have hp := gstep_proj c (G.st n) (G.st (n + 1)) (G.act n) (G.out n) h (G.step n)
  unfold cout cact
  cases hpa : projAct h (G.act n) with
  | some sa =>
    rw [hpa] at hp; simp only at hp
    obtain ⟨o, hs⟩ := hp
    simp only [Option.getD_some, hs]
  | none =>
    rw [hpa] at hp; simp only at hp
    simp only [Option.getD_none, sstep, hp]
    rfl

theorem cact_comp (h n : Nat) (a : SAct) (ha : G.act n = .comp h a) : G.cact h n = a := by
  simp [cact, ha, projAct]

/-- outputs of component `h` are the outputs tagged `h` of the whole plugin -/
theorem cout_mem (h n : Nat) (o : Out) (ho : o ∈ G.cout h n) : (h, o) ∈ G.out n := by
  have hs := G.cstep h n
  have hg := G.step n
  cases ha : G.act n with
  | comp k a =>
    rw [ha] at hg
    simp only [gstep] at hg
    by_cases hk : k = h
    · subst hk
      have hc : G.cact k n = a := G.cact_comp k n a ha
      rw [hc] at hs
      rw [hs] at hg
      simp only [Option.some.injEq, Prod.mk.injEq] at hg
      rw [← hg.2]
      exact List.mem_map.mpr ⟨o, ho, rfl⟩
    · have hc : G.cact h n = .tickMono 0 := by simp [cact, ha, projAct, hk]
      rw [hc] at hs
      simp only [sstep, Option.some.injEq, Prod.mk.injEq] at hs
      rw [← hs.2] at ho; simp at ho
  | tickMono dt =>
    have hc : G.cact h n = .tickMono dt := by simp [cact, ha, projAct]
    rw [hc] at hs; simp only [sstep, Option.some.injEq, Prod.mk.injEq] at hs
    rw [← hs.2] at ho; simp at ho
  | tickWall dt =>
    have hc : G.cact h n = .tickWall dt := by simp [cact, ha, projAct]
    rw [hc] at hs; simp only [sstep, Option.some.injEq, Prod.mk.injEq] at hs
    rw [← hs.2] at ho; simp at ho
  | block b =>
    have hc : G.cact h n = .block b := by simp [cact, ha, projAct]
    rw [hc] at hs; simp only [sstep, Option.some.injEq, Prod.mk.injEq] at hs
    rw [← hs.2] at ho; simp at ho
  | crash => exact absurd ha (G.nocrash n).1

/-- the projection on hash `h` is a fair run of component `h` -/
def proj (h : Nat) : FairRun c where
  st := fun n => (G.st n).comps h
  act := G.cact h
  out := G.cout h
  step := G.cstep h
  reach0 := G.reach0.comp h
  faults := by
    intro n
    have hf := G.faults n
    unfold cact
    cases ha : G.act n with
    | comp k a =>
      rw [ha] at hf
      by_cases hk : k = h
      · simp [projAct, hk]; exact hf
      · simp [projAct, hk]; trivial
    | tickMono dt => simp [projAct]; trivial
    | tickWall dt => simp [projAct]; trivial
    | block b => simp [projAct]; trivial
    | crash => exact absurd ha (G.nocrash n).1
  nocrash := by
    intro n
    unfold cact
    cases ha : G.act n with
    | comp k a =>
      by_cases hk : k = h
      · subst hk
        simp only [projAct, if_true, Option.getD_some]
        intro hcr; subst hcr
        exact (G.nocrash n).2 k ha
      · simp [projAct, hk]
    | tickMono dt => simp [projAct]
    | tickWall dt => simp [projAct]
    | block b => simp [projAct]
    | crash => exact absurd ha (G.nocrash n).1
  fairOwner := by
    intro n a ha hen
    obtain ⟨m, hm, hact⟩ := G.fairOwner h n a ha hen
    exact ⟨m, hm, G.cact_comp h m a hact⟩
  fairServe := by
    intro n q hen
    obtain ⟨m, hm, hact⟩ := G.fairServe h n q hen
    refine ⟨m, hm, ?_⟩
    rcases hact with hact | ⟨f, hact⟩
    · exact Or.inl (G.cact_comp h m _ hact)
    · exact Or.inr ⟨f, G.cact_comp h m _ hact⟩
  fairPart := by
    intro n id p hf hp
    obtain ⟨m, st', hm, hact⟩ := G.fairPart h n id p hf hp
    exact ⟨m, st', hm, G.cact_comp h m _ hact⟩
  fairPay := by
    intro n hr
    obtain ⟨m, r, hm, hact⟩ := G.fairPay h n hr
    exact ⟨m, r, hm, G.cact_comp h m _ hact⟩
  time := G.time h

/-- **C06 for the whole plugin.** In a run that is fair to every payment hash, every HTLC of every
    hash that is held at some point is answered later. -/
theorem c14_fair_run_answers (h n : Nat) (e : PEntry) (o : Owner)
    (hact : ((G.st n).comps h).active = some (e, o)) (i : Inv) (hi : i ∈ e.listeners) :
    ∃ m r, n ≤ m ∧ (h, Out.resp i r) ∈ G.out m := by
  obtain ⟨m, r, hm, ho⟩ := (G.proj h).c06_fair_run_answers n e o hact i hi
  exact ⟨m, r, hm, G.cout_mem h m _ ho⟩

end GFairRun

/-! ### the hypotheses are consistent: the run of the whole plugin in which only time passes
(a run of one component in which an HTLC is held and answered is `fairDemo`) -/

def idleAt (n : Nat) : SState := { SState.init with mono := n }

def idleRun : GFairRun demoCfg where
  st := fun n => { comps := fun _ => idleAt n }
  act := fun _ => .tickMono 1
  out := fun _ => []
  step := by intro n; rfl
  reach0 := ⟨[], [], by intro a ha; simp at ha, rfl⟩
  faults := by intro n; trivial
  nocrash := by intro n; exact ⟨by simp, by intro h; simp⟩
  fairOwner := by
    intro h n a ha hen
    exfalso
    have h0 := hen n (Nat.le_refl _)
    cases hs : sstep demoCfg .current (idleAt n) a with
    | none => simp only at h0; rw [hs] at h0; simp at h0
    | some p =>
      obtain ⟨e, o, hact⟩ := ownerStep_active (s' := p.1) (outs := p.2) ha hs
      simp [idleAt, SState.init] at hact
  fairServe := by
    intro h n q hen
    exfalso
    have h0 := hen n (Nat.le_refl _)
    simp only [sstep] at h0
    split at h0
    · simp at h0
    · cases hn : nodeServe (idleAt n) q <;> simp [stepServeOwner, idleAt, SState.init, hn] at h0
  fairPart := by intro h n id p hf; simp [idleAt, SState.init, findPart] at hf
  fairPay := by intro h n hr; simp [idleAt, SState.init] at hr
  time := by intro h n d; exact ⟨n + d, by omega, by simp [idleAt]⟩

end Tramp
