/-
C06 over the whole plugin (C14 ∧ C06): in every fair infinite run of the product of all payment
hashes — steps of any hashes interleaved in any way, new HTLCs of any hash arriving at any time,
write faults anywhere, no crash — every HTLC of every hash that is held at some point is answered
later (`c14_fair_run_answers`).

Proof: the projection of the run on hash `h` is a fair run of component `h` in the sense of
`FairRun` — a step of another hash leaves component `h` as it is (`gstep_proj`), which is the
component's own step "no time passes" — and `FairRun.c06_fair_run_answers` applies. The fairness
hypotheses are per hash: nothing is assumed about how the scheduler or the node divide their
attention between payments, only that none is starved for ever.
-/
import Tramp.Props.C06Fair
import Tramp.Props.C14Live

namespace Tramp

/-- an infinite run of the whole plugin, fair to every payment hash -/
structure GFairRun (c : Cfg) where
  st  : Nat → GState
  act : Nat → GAct
  out : Nat → List (Nat × Out)
  step : ∀ n, gstep c .current (st n) (act n) = some (st (n + 1), out n)
  reach0 : GReach c (st 0)
  faults : ∀ n, (act n).writeFaultOnly
  nocrash : ∀ n, act n ≠ .crash ∧ ∀ h, act n ≠ .comp h .crash
  fairOwner : ∀ h n a, a.isOwnerStep = true →
    (∀ m, n ≤ m → (sstep c .current ((st m).comps h) a).isSome = true) → ∃ m, n ≤ m ∧ act m = .comp h a
  fairServe : ∀ h n q, (∀ m, n ≤ m → (sstep c .current ((st m).comps h) (.serve .owner q)).isSome = true) →
    ∃ m, n ≤ m ∧ (act m = .comp h (.serve .owner q) ∨ ∃ f, act m = .comp h (.fault .owner q f))
  fairPart : ∀ h n id p, findPart ((st n).comps h).parts id = some p → p.st = .pending →
    ∃ m st', n ≤ m ∧ act m = .comp h (.resolve id st')
  fairPay : ∀ h n, ((st n).comps h).payRunning = true → ∃ m r, n ≤ m ∧ act m = .comp h (.payEnd r)
  time : ∀ h n d, ∃ m, n ≤ m ∧ d ≤ ((st m).comps h).mono

namespace GFairRun

variable {c : Cfg} (G : GFairRun c)

/-- the step of component `h` that a global action amounts to; a step of another hash is "no time passes" -/
def cact (h : Nat) (n : Nat) : SAct := (projAct h (G.act n)).getD (.tickMono 0)

def cout (h : Nat) (n : Nat) : List Out :=
  match sstep c .current ((G.st n).comps h) (G.cact h n) with
  | some (_, o) => o
  | none => []

theorem cstep (h n : Nat) :
    sstep c .current ((G.st n).comps h) (G.cact h n) = some ((G.st (n + 1)).comps h, G.cout h n) := by
  have hp := gstep_proj c (G.st n) (G.st (n + 1)) (G.act n) (G.out n) h (G.step n)
  unfold cout cact
  cases hpa : projAct h (G.act n) with
  | some sa =>
    rw [hpa] at hp; simp only at hp
    obtain ⟨o, hs⟩ := hp
    simp only [Option.getD_some, hs]
  | none =>
    rw [hpa] at hp; simp only at hp
    simp only [Option.getD_none, sstep, hp]
    rfl

theorem cact_comp (h n : Nat) (a : SAct) (ha : G.act n = .comp h a) : G.cact h n = a := by
  simp [cact, ha, projAct]

/-- outputs of component `h` are the outputs tagged `h` of the whole plugin -/
theorem cout_mem (h n : Nat) (o : Out) (ho : o ∈ G.cout h n) : (h, o) ∈ G.out n := by
  have hs := G.cstep h n
  have hg := G.step n
  cases ha : G.act n with
  | comp k a =>
    rw [ha] at hg
    simp only [gstep] at hg
    by_cases hk : k = h
    · subst hk
      have hc : G.cact k n = a := G.cact_comp k n a ha
      rw [hc] at hs
      rw [hs] at hg
      simp only [Option.some.injEq, Prod.mk.injEq] at hg
      rw [← hg.2]
      exact List.mem_map.mpr ⟨o, ho, rfl⟩
    · have hc : G.cact h n = .tickMono 0 := by simp [cact, ha, projAct, hk]
      rw [hc] at hs
      simp only [sstep, Option.some.injEq, Prod.mk.injEq] at hs
      rw [← hs.2] at ho; simp at ho
  | tickMono dt =>
    have hc : G.cact h n = .tickMono dt := by simp [cact, ha, projAct]
    rw [hc] at hs; simp only [sstep, Option.some.injEq, Prod.mk.injEq] at hs
    rw [← hs.2] at ho; simp at ho
  | tickWall dt =>
    have hc : G.cact h n = .tickWall dt := by simp [cact, ha, projAct]
    rw [hc] at hs; simp only [sstep, Option.some.injEq, Prod.mk.injEq] at hs
    rw [← hs.2] at ho; simp at ho
  | block b =>
    have hc : G.cact h n = .block b := by simp [cact, ha, projAct]
    rw [hc] at hs; simp only [sstep, Option.some.injEq, Prod.mk.injEq] at hs
    rw [← hs.2] at ho; simp at ho
  | crash => exact absurd ha (G.nocrash n).1

/-- and conversely -/
theorem out_mem (h n : Nat) (o : Out) (ho : (h, o) ∈ G.out n) : o ∈ G.cout h n := by
  have hs := G.cstep h n
  have hg := G.step n
  cases ha : G.act n with
  | comp k a =>
    rw [ha] at hg
    simp only [gstep] at hg
    cases hst : sstep c .current ((G.st n).comps k) a with
    | none => rw [hst] at hg; simp at hg
    | some p =>
      obtain ⟨s', outs⟩ := p
      rw [hst] at hg
      simp only [Option.some.injEq, Prod.mk.injEq] at hg
      rw [← hg.2] at ho
      obtain ⟨o', ho', heq⟩ := List.mem_map.mp ho
      simp only [Prod.mk.injEq] at heq
      obtain ⟨rfl, rfl⟩ := heq
      have hc : G.cact k n = a := G.cact_comp k n a ha
      rw [hc, hst] at hs
      simp only [Option.some.injEq, Prod.mk.injEq] at hs
      rw [← hs.2]; exact ho'
  | tickMono dt => rw [ha] at hg; simp [gstep, sharedStep] at hg; rw [hg.2] at ho; simp at ho
  | tickWall dt => rw [ha] at hg; simp [gstep, sharedStep] at hg; rw [hg.2] at ho; simp at ho
  | block b => rw [ha] at hg; simp [gstep, sharedStep] at hg; rw [hg.2] at ho; simp at ho
  | crash => exact absurd ha (G.nocrash n).1

/-- the projection on hash `h` is a fair run of component `h` -/
def proj (h : Nat) : FairRun c where
  st := fun n => (G.st n).comps h
  act := G.cact h
  out := G.cout h
  step := G.cstep h
  reach0 := G.reach0.comp h
  faults := by
    intro n
    have hf := G.faults n
    unfold cact
    cases ha : G.act n with
    | comp k a =>
      rw [ha] at hf
      by_cases hk : k = h
      · simp [projAct, hk]; exact hf
      · simp [projAct, hk]; trivial
    | tickMono dt => simp [projAct]; trivial
    | tickWall dt => simp [projAct]; trivial
    | block b => simp [projAct]; trivial
    | crash => exact absurd ha (G.nocrash n).1
  nocrash := by
    intro n
    unfold cact
    cases ha : G.act n with
    | comp k a =>
      by_cases hk : k = h
      · subst hk
        simp only [projAct, if_true, Option.getD_some]
        intro hcr; subst hcr
        exact (G.nocrash n).2 k ha
      · simp [projAct, hk]
    | tickMono dt => simp [projAct]
    | tickWall dt => simp [projAct]
    | block b => simp [projAct]
    | crash => exact absurd ha (G.nocrash n).1
  fairOwner := by
    intro n a ha hen
    obtain ⟨m, hm, hact⟩ := G.fairOwner h n a ha hen
    exact ⟨m, hm, G.cact_comp h m a hact⟩
  fairServe := by
    intro n q hen
    obtain ⟨m, hm, hact⟩ := G.fairServe h n q hen
    refine ⟨m, hm, ?_⟩
    rcases hact with hact | ⟨f, hact⟩
    · exact Or.inl (G.cact_comp h m _ hact)
    · exact Or.inr ⟨f, G.cact_comp h m _ hact⟩
  fairPart := by
    intro n id p hf hp
    obtain ⟨m, st', hm, hact⟩ := G.fairPart h n id p hf hp
    exact ⟨m, st', hm, G.cact_comp h m _ hact⟩
  fairPay := by
    intro n hr
    obtain ⟨m, r, hm, hact⟩ := G.fairPay h n hr
    exact ⟨m, r, hm, G.cact_comp h m _ hact⟩
  time := G.time h

/-- **C06 for the whole plugin.** In a run that is fair to every payment hash, every HTLC of every
    hash that is held at some point is answered later. -/
theorem c14_fair_run_answers (h n : Nat) (e : PEntry) (o : Owner)
    (hact : ((G.st n).comps h).active = some (e, o)) (i : Inv) (hi : i ∈ e.listeners) :
    ∃ m r, n ≤ m ∧ (h, Out.resp i r) ∈ G.out m := by
  obtain ⟨m, r, hm, ho⟩ := (G.proj h).c06_fair_run_answers n e o hact i hi
  exact ⟨m, r, hm, G.cout_mem h m _ ho⟩

/-- … and at exactly one step of the whole run. -/
theorem c14_fair_run_exactly_once (h n : Nat) (e : PEntry) (o : Owner)
    (hact : ((G.st n).comps h).active = some (e, o)) (i : Inv) (hi : i ∈ e.listeners) :
    ∃ m r, n ≤ m ∧ (h, Out.resp i r) ∈ G.out m ∧
      ∀ m' i' r', i'.id = i.id → (h, Out.resp i' r') ∈ G.out m' → m' = m := by
  obtain ⟨m, r, hm, ho, huniq⟩ := (G.proj h).c06_fair_run_exactly_once n e o hact i hi
  exact ⟨m, r, hm, G.cout_mem h m _ ho, fun m' i' r' hid ho' => huniq m' i' r' hid (G.out_mem h m' _ ho')⟩

end GFairRun

/-! ### the hypotheses are consistent: the run of the whole plugin in which only time passes
(a run of one component in which an HTLC is held and answered is `fairDemo`) -/

def idleAt (n : Nat) : SState := { SState.init with mono := n }

def idleRun : GFairRun demoCfg where
  st := fun n => { comps := fun _ => idleAt n }
  act := fun _ => .tickMono 1
  out := fun _ => []
  step := by intro n; rfl
  reach0 := ⟨[], [], by intro a ha; simp at ha, rfl⟩
  faults := by intro n; trivial
  nocrash := by intro n; exact ⟨by simp, by intro h; simp⟩
  fairOwner := by
    intro h n a ha hen
    exfalso
    have h0 := hen n (Nat.le_refl _)
    cases hs : sstep demoCfg .current (idleAt n) a with
    | none => simp only at h0; rw [hs] at h0; simp at h0
    | some p =>
      obtain ⟨e, o, hact⟩ := ownerStep_active (s' := p.1) (outs := p.2) ha hs
      simp [idleAt, SState.init] at hact
  fairServe := by
    intro h n q hen
    exfalso
    have h0 := hen n (Nat.le_refl _)
    simp only [sstep] at h0
    split at h0
    · simp at h0
    · cases hn : nodeServe (idleAt n) q <;> simp [stepServeOwner, idleAt, SState.init, hn] at h0
  fairPart := by intro h n id p hf; simp [idleAt, SState.init, findPart] at hf
  fairPay := by intro h n hr; simp [idleAt, SState.init] at hr
  time := by intro h n d; exact ⟨n + d, by omega, by simp [idleAt]⟩

/-! ### a fair run of the whole plugin in which an HTLC is held and answered

Hash 1 runs `fairDemo` (arrival of an incomplete set, fetch, a minute passes, timeout, failed back)
while every other hash stays untouched; the ticks are the plugin-wide ones. -/

def demoOtherMono (n : Nat) : Nat := if n ≤ 3 then 0 else if n = 4 then 60 else 60 + (n - 5)

def demoG (n : Nat) : GState := { comps := fun k => if k = 1 then fairDemoSt n else { SState.init with mono := demoOtherMono n } }

def demoGAct : Nat → GAct
  | 0 => .comp 1 (fairDemoAct 0)
  | 1 => .comp 1 (fairDemoAct 1)
  | 2 => .comp 1 (fairDemoAct 2)
  | 3 => .tickMono 60
  | 4 => .comp 1 (fairDemoAct 4)
  | _ => .tickMono 1

def demoGOut (n : Nat) : List (Nat × Out) := (fairDemoOut n).map (fun o => (1, o))

theorem demoOtherMono_tail (k : Nat) : demoOtherMono (5 + k) = 60 + k := by
  unfold demoOtherMono; rw [if_neg (by omega), if_neg (by omega)]; omega

theorem demoGAct_tail (k : Nat) : demoGAct (5 + k) = .tickMono 1 := by
  have : 5 + k = k + 5 := by omega
  rw [this]; rfl

theorem fairDemoAct_tail (k : Nat) : fairDemoAct (5 + k) = .tickMono 1 := by
  have : 5 + k = k + 5 := by omega
  rw [this]; rfl

theorem gstate_ext {a b : GState} (h : ∀ k, a.comps k = b.comps k) : a = b := by
  cases a; cases b; simp only [GState.mk.injEq]; funext k; exact h k

/-- a step of hash 1 alone -/
theorem demoG_comp_step (n : Nat) (a : SAct) (ha : fairDemoAct n = a) (hm : demoOtherMono (n + 1) = demoOtherMono n) :
    gstep demoCfg .current (demoG n) (.comp 1 a) = some (demoG (n + 1), demoGOut n) := by
  have hs := fairDemo_step n
  rw [ha] at hs
  have h1 : (demoG n).comps 1 = fairDemoSt n := by simp [demoG]
  simp only [gstep, h1, hs, demoGOut]
  congr 1
  congr 1
  apply gstate_ext
  intro k
  by_cases hk : k = 1
  · subst hk; simp [setComp, demoG]
  · simp [setComp, demoG, hk, hm]

/-- a plugin-wide tick -/
theorem demoG_tick_step (n dt : Nat) (ha : fairDemoAct n = .tickMono dt) (hm : demoOtherMono (n + 1) = demoOtherMono n + dt) :
    gstep demoCfg .current (demoG n) (.tickMono dt) = some (demoG (n + 1), demoGOut n) := by
  have hs := fairDemo_step n
  rw [ha] at hs
  simp only [sstep, Option.some.injEq, Prod.mk.injEq] at hs
  simp only [gstep, sharedStep, demoGOut, ← hs.2, List.map_nil]
  congr 1
  congr 1
  apply gstate_ext
  intro k
  by_cases hk : k = 1
  · subst hk; simp only [demoG, if_true]; exact hs.1
  · simp [demoG, hk, hm]

theorem demoG_step (n : Nat) : gstep demoCfg .current (demoG n) (demoGAct n) = some (demoG (n + 1), demoGOut n) := by
  by_cases h : 5 ≤ n
  · obtain ⟨k, rfl⟩ := Nat.exists_eq_add_of_le h
    rw [demoGAct_tail]
    exact demoG_tick_step (5 + k) 1 (fairDemoAct_tail k)
      (by rw [show 5 + k + 1 = 5 + (k + 1) by omega, demoOtherMono_tail, demoOtherMono_tail]; omega)
  · have : n = 0 ∨ n = 1 ∨ n = 2 ∨ n = 3 ∨ n = 4 := by omega
    rcases this with rfl | rfl | rfl | rfl | rfl
    · exact demoG_comp_step 0 _ rfl (by decide)
    · exact demoG_comp_step 1 _ rfl (by decide)
    · exact demoG_comp_step 2 _ rfl (by decide)
    · exact demoG_tick_step 3 60 rfl (by decide)
    · exact demoG_comp_step 4 _ rfl (by decide)

theorem demoG_other (n k : Nat) (hk : k ≠ 1) : (demoG n).comps k = { SState.init with mono := demoOtherMono n } := by
  simp [demoG, hk]

theorem demoG_one (n : Nat) : (demoG n).comps 1 = fairDemoSt n := by simp [demoG]

def demoGRun : GFairRun demoCfg where
  st := demoG
  act := demoGAct
  out := demoGOut
  step := demoG_step
  reach0 := ⟨[], [], by intro a ha; simp at ha, by
    show some (ginit, []) = some (demoG 0, [])
    congr 1; congr 1
    apply gstate_ext; intro k
    by_cases hk : k = 1
    · subst hk; rfl
    · show SState.init = (demoG 0).comps k
      rw [demoG_other 0 k hk]; rfl⟩
  faults := by
    intro n
    by_cases h : 5 ≤ n
    · obtain ⟨k, rfl⟩ := Nat.exists_eq_add_of_le h; rw [demoGAct_tail]; trivial
    · have : n = 0 ∨ n = 1 ∨ n = 2 ∨ n = 3 ∨ n = 4 := by omega
      rcases this with rfl | rfl | rfl | rfl | rfl <;> trivial
  nocrash := by
    intro n
    by_cases h : 5 ≤ n
    · obtain ⟨k, rfl⟩ := Nat.exists_eq_add_of_le h; rw [demoGAct_tail]; exact ⟨(fun hh => by cases hh), (fun h hh => by cases hh)⟩
    · have : n = 0 ∨ n = 1 ∨ n = 2 ∨ n = 3 ∨ n = 4 := by omega
      rcases this with rfl | rfl | rfl | rfl | rfl <;>
        exact ⟨(fun hh => by first | cases hh | simp [demoGAct, fairDemoAct] at hh), (fun h hh => by first | cases hh | simp [demoGAct, fairDemoAct] at hh)⟩
  fairOwner := by
    intro h n a ha hen
    exfalso
    have h0 := hen (5 + n) (by omega)
    have hidle : ((demoG (5 + n)).comps h).active = none := by
      by_cases hk : h = 1
      · subst hk; rw [demoG_one]; exact (fairDemo_tail n).1
      · rw [demoG_other _ _ hk]; rfl
    cases hs : sstep demoCfg .current ((demoG (5 + n)).comps h) a with
    | none => rw [hs] at h0; simp at h0
    | some p =>
      obtain ⟨e, o, hact⟩ := ownerStep_active (s' := p.1) (outs := p.2) ha hs
      rw [hidle] at hact; simp at hact
  fairServe := by
    intro h n q hen
    exfalso
    have h0 := hen (5 + n) (by omega)
    have hidle : ((demoG (5 + n)).comps h).active = none := by
      by_cases hk : h = 1
      · subst hk; rw [demoG_one]; exact (fairDemo_tail n).1
      · rw [demoG_other _ _ hk]; rfl
    simp only [sstep] at h0
    split at h0
    · simp at h0
    · cases hn : nodeServe ((demoG (5 + n)).comps h) q <;> simp [stepServeOwner, hidle, hn] at h0
  fairPart := by
    intro h n id p hf
    by_cases hk : h = 1
    · subst hk; rw [demoG_one, (fairDemo_node n).1] at hf; simp [findPart] at hf
    · rw [demoG_other _ _ hk] at hf; simp [SState.init, findPart] at hf
  fairPay := by
    intro h n hr
    by_cases hk : h = 1
    · subst hk; rw [demoG_one, (fairDemo_node n).2] at hr; simp at hr
    · rw [demoG_other _ _ hk] at hr; simp [SState.init] at hr
  time := by
    intro h n d
    refine ⟨5 + (n + d), by omega, ?_⟩
    by_cases hk : h = 1
    · subst hk; rw [demoG_one, (fairDemo_tail (n + d)).2.2.2]; omega
    · rw [demoG_other _ _ hk]; show d ≤ demoOtherMono (5 + (n + d)); rw [demoOtherMono_tail]; omega

/-- the HTLC of hash 1 held after step 0 is answered, at exactly one step (step 4) -/
example : ∃ m r, 1 ≤ m ∧ (1, Out.resp ⟨0, 500000, 1400⟩ r) ∈ demoGRun.out m ∧
    ∀ m' i' r', i'.id = 0 → (1, Out.resp i' r') ∈ demoGRun.out m' → m' = m :=
  demoGRun.c14_fair_run_exactly_once 1 1 _ _ (by show (fairDemoSt 1).active = some _; rfl) ⟨0, 500000, 1400⟩ (by decide)

end Tramp
