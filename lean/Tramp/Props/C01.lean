/-
C01 — An incoming HTLC is settled only with a preimage of its own payment hash.

Statement: whenever the plugin tells the node to settle an incoming HTLC, the key it supplies hashes
(SHA-256) to that HTLC's payment hash and comes from a completed outgoing payment, or the durable
record of one, for that same hash. Consequently the plugin never pays an invoice on behalf of an HTLC
whose payment hash differs from the invoice's payment hash.

In M7 one component = one payment hash `h`; by `c10_hash_eq` (C10) every invocation that enters the
component has `h` as its own hash and its invoice is for `h`. SHA-256 is not modelled: E2 says the
node marks a part of hash `h` complete only with a preimage of `h`; `c01_key_valid` makes that
explicit with an arbitrary predicate `valid` ("hashes to h").
-/
import Tramp.Props.Sys
import Tramp.Props.C10

namespace Tramp

/-- every settlement handed to the node carries the preimage of a part of THIS hash that is complete
    at that instant (the durable record of one is covered too: invariant (S) ties it to such a part) -/
theorem c01_resolve_key (c : Cfg) (s s' : SState) (a : SAct) (outs : List Out) (i : Inv) (pre : Nat)
    (hr : Reach c s) (hs : sstep c .current s a = some (s', outs)) (ho : Out.resp i (.resolve pre) ∈ outs) :
    HasComplete s.parts pre := by
  cases hr.emit a hs with
  | silent h => rw [h] at ho; simp at ho
  | answered e o r hact houts _ hok =>
    rw [houts] at ho
    have ⟨hr', _⟩ := mem_respAll ho
    subst hr'
    exact hok
  | paid e o aid g mf md _ _ houts _ _ _ => rw [houts] at ho; simp [payOut] at ho

/-- E2 made explicit: if the environment completes parts only with keys satisfying `valid`
    ("SHA-256 of the key is this payment hash"), every key the plugin settles with satisfies it. -/
def PartsValid (valid : Nat → Prop) (ps : List Part) : Prop := ∀ p ∈ ps, ∀ x, p.st = .complete x → valid x

def ActsValid (valid : Nat → Prop) (acts : List SAct) : Prop := ∀ id x, SAct.resolve id (.complete x) ∈ acts → valid x

theorem partsValid_step (c : Cfg) (valid : Nat → Prop) {s s' : SState} {outs : List Out} (a : SAct)
    (hv : ∀ id x, a = .resolve id (.complete x) → valid x)
    (hs : sstep c .current s a = some (s', outs)) (h : PartsValid valid s.parts) : PartsValid valid s'.parts := by
  rcases sstep_parts c .current a hs with hp | ⟨id, _, hp⟩ | ⟨id, st, ha, _, hp⟩
  · rw [hp]; exact h
  · rw [hp]; intro p hp' x hx
    simp only [List.mem_append, List.mem_singleton] at hp'
    rcases hp' with hp' | rfl
    · exact h p hp' x hx
    · simp at hx
  · rw [hp]; intro q hq x hx
    obtain ⟨p, hp', _, hcase⟩ := resolvePart_mem hq
    rcases hcase with rfl | ⟨_, hqs⟩
    · exact h _ hp' x hx
    · rw [hqs] at hx; subst hx; exact hv id x ha

theorem c01_key_valid (c : Cfg) (valid : Nat → Prop) (acts : List SAct) (s s' : SState) (a : SAct) (outs : List Out)
    (i : Inv) (pre : Nat) (hf : WriteFaultsOnly acts) (hv : ActsValid valid acts)
    (hr : srun c .current SState.init acts = some s)
    (hs : sstep c .current s a = some (s', outs)) (ho : Out.resp i (.resolve pre) ∈ outs) : valid pre := by
  have hpv : PartsValid valid s.parts := by
    have gen : ∀ (acts : List SAct) (s0 s : SState), ActsValid valid acts → PartsValid valid s0.parts →
        srun c .current s0 acts = some s → PartsValid valid s.parts := by
      intro acts
      induction acts with
      | nil => intro s0 s _ h hr; simp [srun] at hr; subst hr; exact h
      | cons a as ih =>
        intro s0 s hv h hr
        simp only [srun] at hr
        split at hr
        · rename_i s1 o1 h1
          exact ih s1 s (fun id x hm => hv id x (by simp [hm]))
            (partsValid_step c valid a (fun id x ha => hv id x (by simp [ha])) h1 h) hr
        · simp at hr
    exact gen acts _ s hv (by intro p hp; simp [SState.init] at hp) hr
  obtain ⟨p, hp, hst⟩ := c01_resolve_key c s s' a outs i pre ⟨acts, hf, hr⟩ hs ho
  exact hpv p hp pre hst

/-- the invoice paid is the invoice of the table entry, i.e. of the HTLCs being held: the `pay`
    request is built from the entry's own `TrampolineInfo` -/
theorem c01_pay_is_entry_invoice (c : Cfg) (s s' : SState) (a : SAct) (outs : List Out) (b : Nat) (am : Option Nat)
    (mf md : Nat) (hr : Reach c s) (hs : sstep c .current s a = some (s', outs)) (ho : Out.pay b am mf md ∈ outs) :
    ∃ e o, s.active = some (e, o) ∧ b = e.info.bolt11 := by
  cases hr.emit a hs with
  | silent h => rw [h] at ho; simp at ho
  | answered e o r _ houts _ _ => rw [houts] at ho; exact absurd ho pay_not_mem_respAll
  | paid e o aid g mf' md' hact _ houts _ _ _ =>
    rw [houts] at ho
    simp only [payOut, List.mem_singleton, Out.pay.injEq] at ho
    exact ⟨e, o, hact, ho.1⟩

end Tramp
