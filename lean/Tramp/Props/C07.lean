/-
C07 — All HTLCs aggregated into one payment receive the same resolution.

Statement: all HTLCs the plugin is holding for the same payment hash when that payment is decided
receive the identical response: the same preimage, or the same failure. If an HTLC of a
still-incomplete set triggers a rejection (conflicting invoice or amount, expiry too low, declared
total too low), the whole set is failed back together and no outgoing payment is started for it.
-/
import Tramp.Props.Sys

namespace Tramp

/-- whenever any held HTLC is answered, ALL HTLCs held for the hash are answered in that same step,
    with one and the same response, and the table entry is gone -/
theorem c07_same_response (c : Cfg) (s s' : SState) (a : SAct) (outs : List Out) (i : Inv) (r : Resp)
    (hr : Reach c s) (hs : sstep c .current s a = some (s', outs)) (ho : Out.resp i r ∈ outs) :
    ∃ e o, s.active = some (e, o) ∧ outs = e.listeners.map (fun j => Out.resp j r) ∧ s'.active = none := by
  cases hr.emit a hs with
  | silent h => rw [h] at ho; simp at ho
  | answered e o r' hact houts hnone _ =>
    rw [houts] at ho
    have ⟨hr', _⟩ := mem_respAll ho
    subst hr'
    exact ⟨e, o, hact, houts, hnone⟩
  | paid e o aid g mf md _ _ houts _ _ _ => rw [houts] at ho; simp [payOut] at ho

/-- a rejection raised while the set is incomplete (`fail()` called before readiness was ever
    signalled) is permanent for this table entry: readiness is never signalled afterwards… -/
theorem c07_reject_sticks (c : Cfg) (e : PEntry) (i : Inv) (info : SInfo) (relExp : Int) (total : Nat)
    (h : e.isFailReq = true ∧ e.readySent = false) :
    ((e.checks c info relExp total).add c i).isFailReq = true ∧ ((e.checks c info relExp total).add c i).readySent = false := by
  have hchk : (e.checks c info relExp total).isFailReq = true ∧ (e.checks c info relExp total).readySent = false := by
    unfold PEntry.checks PEntry.failIf PEntry.fail
    repeat' split
    all_goals simp_all
  unfold PEntry.add
  split
  · rename_i hc
    simp only [PEntry.canReady, PEntry.push, Bool.and_eq_true, Bool.not_eq_true'] at hc
    rw [hchk.1] at hc; simp at hc
  · simp only [PEntry.push]; exact hchk

/-- …and a pay request is issued only by an owner whose entry has signalled readiness: so a set that
    was rejected while incomplete is never paid; by `c07_same_response` it is failed back together. -/
theorem c07_reject_no_pay (c : Cfg) (s s' : SState) (a : SAct) (outs : List Out) (b : Nat) (am : Option Nat)
    (mf md : Nat) (hr : Reach c s) (hs : sstep c .current s a = some (s', outs)) (ho : Out.pay b am mf md ∈ outs) :
    ∃ e o, s.active = some (e, o) ∧ e.readySent = true := by
  cases hr.emit a hs with
  | silent h => rw [h] at ho; simp at ho
  | answered e o r _ houts _ _ => rw [houts] at ho; exact absurd ho pay_not_mem_respAll
  | paid e o aid g mf' md' hact hpc _ _ _ _ =>
    exact ⟨e, o, hact, (hr.einv.1 e o hact).past (by rw [hpc]; rfl)⟩

/-- the first rejection fixes the failure everybody gets: the fail channel holds at most one message -/
theorem c07_single_shot (e : PEntry) (r1 r2 : Resp) : ((e.fail r1).fail r2) = e.fail r1 := by
  unfold PEntry.fail
  by_cases h : e.isFailReq = true <;> simp [h]

end Tramp
