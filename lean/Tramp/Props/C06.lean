/-
C06 — Every htlc_accepted call gets exactly one response; no input panics or hangs it.

Statement: every htlc_accepted invocation eventually yields exactly one well-formed response
(continue, fail or resolve) for arbitrary payload bytes, amounts and expiries and under every
interleaving, provided the node's RPC keeps answering (with results or errors). No request can make
the handler panic, deadlock or stay unanswered, and HTLCs of sets that never complete are answered no
later than one MPP timeout after the plugin has read the payment's stored state.

What is proved (safety + the progress lemmas a liveness argument needs):
  * no panic: byte-level functions are total (C18, C12), classification is a total function, and no
    reachable state of M7 has a panicked task (`c06_no_panic`) — write faults included;
  * at most one response per call, and it is one of continue/fail/resolve (`c06_at_most_once`,
    `c06_immediate_or_held`); over whole runs — any interleaving, crash points, write faults — the ids
    answered are pairwise distinct and each is the id of a call that did arrive
    (`c06_at_most_once_run`);
  * no deadlock on the plugin's own channels: the two sends made under the table lock never find
    their capacity-1 channel full (`c06_nonblocking_sends`);
  * progress: a live owner always has an RPC in flight, or an enabled internal step, or an armed
    timer (`c06_owner_progress`); a set that never completes is answered when the timer fires, and the
    timer is armed at most one MPP timeout ahead (C11).
Partial: "eventually" needs fairness of the tokio scheduler and of the node (E8) — not provable about
a model without a scheduler; suite `system` drains every schedule (the environment answers everything,
time passes) and requires every call to be answered; suite `e2e` does it at process level.
Known finding K4: with a READ fault on the restart path the owner hits `todo!()`.
-/
import Tramp.Proofs.SysPanic
import Tramp.Proofs.SysOnce
import Tramp.Proofs.SysMeasure
import Tramp.Props.Sys
import Tramp.Props.C18
import Tramp.Props.C12
import Tramp.Props.C13

namespace Tramp

/-- no reachable state has a panicked task -/
theorem c06_no_panic (c : Cfg) (s : SState) (hr : Reach c s) : s.panicked = false := by
  obtain ⟨acts, hf, hrun⟩ := hr
  have := no_panic_run c acts _ s (sinv_init _) hf hrun
  rw [this]; rfl

/-- the byte-level entry points never panic, for any bytes and any numbers -/
theorem c06_bytes_total (bs : Bytes) (base ppm total inv : Nat) :
    fromBytes bs ≠ .panic ∧ tryFromPrefixed bs ≠ .panic ∧ (∃ b, feeSufficient base ppm total inv = .ok b) :=
  ⟨c18_total_fromBytes bs, c18_total_tryFrom bs, c12_total base ppm total inv⟩

/-- every request is either answered at once with continue/fail, or held as a trampoline HTLC -/
theorem c06_immediate_or_held (parse : Bytes → Option InvoiceView) (allow : Bool) (req : Req) :
    (∃ i f, classify parse allow req = .tramp i f) ∨ (∃ p, classify parse allow req = .cont p) ∨
    classify parse allow req = .failTNF := by
  rcases c13_immediate parse allow req with h | h | h
  · exact Or.inl h
  · exact Or.inr (Or.inl h)
  · exact Or.inr (Or.inr h.1)

theorem count_id_one : ∀ (l : List Inv), (l.map (·.id)).Nodup → ∀ {i : Inv}, i ∈ l → ∀ (r : Resp),
    ((respAll ⟨⟨0, 0, false⟩, l, false, false, false, none, 0, 0, false⟩ r).filter
      (fun x => match x with | .resp j _ => j.id == i.id | _ => false)).length = 1 ∧ True
  | [], _, _, hm, _ => by simp at hm
  | j :: js, hnd, i, hmem, r => by
    refine ⟨?_, trivial⟩
    simp only [List.map_cons, List.nodup_cons, List.mem_map, not_exists, not_and] at hnd
    simp only [List.mem_cons] at hmem
    simp only [respAll, List.map_cons, List.filter_cons]
    rcases hmem with rfl | hmem
    · simp only [beq_self_eq_true, if_true, List.length_cons]
      have : List.filter (fun x => match x with | Out.resp j _ => j.id == i.id | _ => false) (js.map fun i => Out.resp i r) = [] := by
        rw [List.filter_eq_nil_iff]
        intro x hx
        simp only [List.mem_map] at hx
        obtain ⟨y, hy, rfl⟩ := hx
        simp only [beq_iff_eq]
        exact fun hh => hnd.1 y hy hh
      rw [this]; rfl
    · have hne : (j.id == i.id) = false := by
        simp only [beq_eq_false_iff_ne, ne_eq]
        exact fun hh => hnd.1 i hmem hh.symm
      simp only [hne, Bool.false_eq_true, if_false]
      have := (count_id_one js hnd.2 hmem r).1
      simpa [respAll] using this

/-- a held HTLC is answered at most once: the step that answers it removes the whole entry, and the
    ids of the calls held are pairwise distinct and below the counter that numbers later calls -/
theorem c06_at_most_once (c : Cfg) (s s' : SState) (a : SAct) (outs : List Out) (i : Inv) (r : Resp)
    (hr : Reach c s) (hs : sstep c .current s a = some (s', outs)) (ho : Out.resp i r ∈ outs) :
    s'.active = none ∧
    (∃ e o, s.active = some (e, o) ∧ i ∈ e.listeners ∧ (e.listeners.map (·.id)).Nodup ∧ i.id < s.nextInv) ∧
    (outs.filter (fun x => match x with | .resp j _ => j.id == i.id | _ => false)).length = 1 := by
  cases hr.emit a hs with
  | silent h => rw [h] at ho; simp at ho
  | paid e o aid g mf md _ _ houts _ _ _ => rw [houts] at ho; simp [payOut] at ho
  | answered e o r' hact houts hnone _ =>
    rw [houts] at ho
    have ⟨_, hmem⟩ := mem_respAll ho
    have he := hr.einv.1 e o hact
    refine ⟨hnone, ⟨e, o, hact, hmem, he.ids.1, he.ids.2 i hmem⟩, ?_⟩
    rw [houts]
    have := (count_id_one e.listeners he.ids.1 hmem r').1
    simpa [respAll] using this

/-- Over EVERY run (any interleaving, any number of HTLCs and lifecycles, crash points, write
    faults) no call is answered twice, and only calls that arrived are answered: the ids in the
    response outputs of the whole history are pairwise distinct and below the call counter. -/
theorem c06_at_most_once_run (c : Cfg) (acts : List SAct) (s : SState) (outs : List Out)
    (hf : WriteFaultsOnly acts) (hr : srunO c .current SState.init acts = some (s, outs)) :
    (respIds outs).Nodup ∧ ∀ x ∈ respIds outs, x < s.nextInv := by
  have h0 := einv_reachable c [] SState.init rfl
  have := once_run c acts SState.init s [] outs (sinv_init _) h0.1 h0.2 once_init hf hr
  simp only [List.nil_append] at this
  exact ⟨this.nodup, this.below⟩

/-- non-vacuity: in the demo run extended by the delivery of the pay result, call 0 is answered (once) -/
example : ∃ s outs, srunO demoCfg .current SState.init (demoActs ++ [.deliver .owner (.prov .pay)]) = some (s, outs) ∧
    respIds outs = [0] := ⟨_, _, rfl, rfl⟩

/-- the sends made while the table lock is held never block: the fail channel is empty whenever
    `fail()` is about to send, the ready channel is empty whenever `add_htlc` is about to send -/
theorem c06_nonblocking_sends (c : Cfg) (s : SState) (e : PEntry) (o : Owner) (hr : Reach c s)
    (hact : s.active = some (e, o)) :
    (e.isFailReq = false → e.failBuf = none) ∧ (e.canReady c = true → e.readyBuf = false) := by
  have he := hr.einv.1 e o hact
  refine ⟨?_, ?_⟩
  · intro hf
    cases hb : e.failBuf with
    | none => rfl
    | some r => have := (he.failBuf r hb).1; rw [hf] at this; simp at this
  · intro hc
    simp only [PEntry.canReady, Bool.and_eq_true, Bool.not_eq_true'] at hc
    cases hb : e.readyBuf with
    | false => rfl
    | true =>
      have := he.sentOr (he.readyBuf hb)
      rcases this with h | h
      · rw [hc.1.1] at h; simp at h
      · rw [hc.1.2] at h; simp at h

/-- a live owner is never stuck on the plugin's side: it waits for the node (an RPC is in flight), or
    sits in the `select!` with its timer armed, or has an enabled internal step -/
theorem c06_owner_progress (c : Cfg) (s : SState) (e : PEntry) (o : Owner) (hact : s.active = some (e, o)) :
    o.pc = .panicked ∨
    (∃ w aid g t, o.pc = .rWait aid g t w) ∨ (∃ aid g p, o.pc = .paying aid g p) ∨
    (o.pc.outstanding .current ≠ []) ∨
    (∃ d, o.pc = .waitHtlcs d ∧ (s.mono ≥ d → (sstep c .current s .timerFire).isSome)) ∨
    (sstep c .current s .readParams).isSome ∨ (sstep c .current s .readHeight).isSome := by
  cases hpc : o.pc with
  | panicked => exact Or.inl rfl
  | rWait aid g t w => exact Or.inr (Or.inl ⟨w, aid, g, t, rfl⟩)
  | paying aid g p => exact Or.inr (Or.inr (Or.inl ⟨aid, g, p, rfl⟩))
  | fetch => exact Or.inr (Or.inr (Or.inr (Or.inl (by simp [OPc.outstanding]))))
  | rFailA aid g t => exact Or.inr (Or.inr (Or.inr (Or.inl (by simp [OPc.outstanding]))))
  | rFailS aid g t => exact Or.inr (Or.inr (Or.inr (Or.inl (by simp [OPc.outstanding]))))
  | addS aid t mf md => exact Or.inr (Or.inr (Or.inr (Or.inl (by simp [OPc.outstanding]))))
  | addA aid g mf md => exact Or.inr (Or.inr (Or.inr (Or.inl (by simp [OPc.outstanding]))))
  | waitHtlcs d =>
    refine Or.inr (Or.inr (Or.inr (Or.inr (Or.inl ⟨d, rfl, ?_⟩))))
    intro hd; simp [sstep, hact, hpc, hd]
  | gotReady => exact Or.inr (Or.inr (Or.inr (Or.inr (Or.inr (Or.inl (by simp [sstep, hact, hpc]))))))
  | gotParams mf exp => exact Or.inr (Or.inr (Or.inr (Or.inr (Or.inr (Or.inr (by simp [sstep, hact, hpc]))))))

/-- measure of the live lifecycle (nothing live: the minimum) -/
def ownerMeas (s : SState) : Nat × Nat :=
  match s.active with
  | some (_, o) => o.pc.meas
  | none => (0, 0)

/-- the steps the owner task itself takes -/
def SAct.isOwnerStep : SAct → Bool
  | .deliver .owner _ => true
  | .timerFire | .takeFail | .takeReady | .readParams | .readHeight => true
  | _ => false

theorem ofact_matches {s : SState} {pc : OPc} {q : SReq} {r : SReply} (h : OFact s pc (q, r)) :
    ∀ pq, q = .prov pq → ∃ pr, r = .prov pr := by
  intro pq hq; subst hq
  cases r with
  | prov pr => exact ⟨pr, rfl⟩
  | listed cell => simp [OFact] at h
  | listErr => simp [OFact] at h
  | written g => simp [OFact] at h
  | writeErr => simp [OFact] at h

/-- No livelock: from every reachable state, every step of the owner task — consuming a reply, a
    `select!` branch, reading the parameters or the height — ends the lifecycle (all its HTLCs
    answered, or the K-finding panic which needs a read fault and is excluded by `c06_no_panic`) or
    strictly decreases the well-founded measure `ownerMeas`: a lifecycle takes finitely many steps. -/
theorem c06_owner_steps_decrease (c : Cfg) (s s' : SState) (a : SAct) (outs : List Out) (hr : Reach c s)
    (ha : a.isOwnerStep = true) (hs : sstep c .current s a = some (s', outs)) :
    s'.active = none ∨ lt2 (ownerMeas s') (ownerMeas s) := by
  have hinv := hr.inv
  cases a with
  | deliver t q =>
    cases t with
    | bk id => simp [SAct.isOwnerStep] at ha
    | owner =>
      have hs0 := hs
      simp only [sstep, stepDeliverOwner] at hs
      cases hact : s.active with
      | none => rw [hact] at hs; simp at hs
      | some p =>
        obtain ⟨e, o⟩ := p
        rw [hact] at hs
        simp only at hs
        split at hs
        · rename_i hout
          cases hl : lookupS o.served q with
          | none => rw [hl] at hs; simp at hs
          | some r =>
            rw [hl] at hs
            simp only [Option.some.injEq] at hs
            have hmem : (q, r) ∈ o.served := by
              unfold lookupS at hl
              cases hf : o.served.find? (fun x => x.1 == q) with
              | none => rw [hf] at hl; simp at hl
              | some x =>
                rw [hf] at hl; simp at hl
                have h1 := List.find?_some hf
                have h2 := List.mem_of_find?_eq_some hf
                simp at h1; subst h1; subst hl; exact h2
            have hfact := ((hinv.owner e o hact).2 (q, r) hmem).2
            have hq : q ∈ o.pc.outstanding .current := by simpa using hout
            have hm := ownerCont_meas c .current s o.pc q r hq (ofact_matches hfact)
            cases hn : ownerCont c .current s o.pc q r with
            | stay pc' =>
              rw [hn] at hs; simp only [applyONext, Prod.mk.injEq] at hs; rw [← hs.1]
              right; simp only [ownerMeas, hact]; exact hm.1 pc' hn
            | pay pc' mf md =>
              rw [hn] at hs; simp only [applyONext, Prod.mk.injEq] at hs; rw [← hs.1]
              right; simp only [ownerMeas, hact]; exact hm.2 pc' mf md hn
            | finish r' => rw [hn] at hs; simp only [applyONext, Prod.mk.injEq] at hs; rw [← hs.1]; left; rfl
            | finishBk r' b => rw [hn] at hs; simp only [applyONext, Prod.mk.injEq] at hs; rw [← hs.1]; left; rfl
            | panic =>
              exfalso
              rw [hn] at hs; simp only [applyONext, Prod.mk.injEq] at hs
              have hp : s'.panicked = true := by rw [← hs.1]
              have hr' : Reach c s' := hr.extend [.deliver .owner q] (by intro x hx; simp at hx; subst hx; trivial)
                (by simp [srun, hs0])
              have := c06_no_panic c s' hr'
              rw [hp] at this; simp at this
        · simp at hs
  | timerFire =>
    simp only [sstep] at hs
    repeat' split at hs
    all_goals first
      | (simp only [Option.some.injEq, Prod.mk.injEq] at hs; rw [← hs.1]; left; rfl)
      | simp at hs
  | takeFail =>
    simp only [sstep] at hs
    repeat' split at hs
    all_goals first
      | (simp only [Option.some.injEq, Prod.mk.injEq] at hs; rw [← hs.1]; left; rfl)
      | simp at hs
  | takeReady =>
    simp only [sstep] at hs
    cases hact : s.active with
    | none => rw [hact] at hs; simp at hs
    | some p =>
      obtain ⟨e, o⟩ := p
      rw [hact] at hs
      simp only at hs
      repeat' split at hs
      all_goals first
        | (simp only [Option.some.injEq, Prod.mk.injEq] at hs; rw [← hs.1]; right
           rename_i hpc _; simp [ownerMeas, hact, hpc, OPc.meas, lt2])
        | simp at hs
  | readParams =>
    simp only [sstep] at hs
    cases hact : s.active with
    | none => rw [hact] at hs; simp at hs
    | some p =>
      obtain ⟨e, o⟩ := p
      rw [hact] at hs
      simp only at hs
      repeat' split at hs
      all_goals first
        | (simp only [Option.some.injEq, Prod.mk.injEq] at hs; rw [← hs.1]; right
           rename_i hpc; simp [ownerMeas, hact, hpc, OPc.meas, lt2])
        | simp at hs
  | readHeight =>
    simp only [sstep] at hs
    cases hact : s.active with
    | none => rw [hact] at hs; simp at hs
    | some p =>
      obtain ⟨e, o⟩ := p
      rw [hact] at hs
      simp only at hs
      repeat' split at hs
      all_goals first
        | (simp only [Option.some.injEq, Prod.mk.injEq] at hs; rw [← hs.1]; right
           rename_i hpc; simp [ownerMeas, hact, hpc, OPc.meas, lt2])
        | simp at hs
  | arrive _ _ _ _ _ => simp [SAct.isOwnerStep] at ha
  | tickMono _ => simp [SAct.isOwnerStep] at ha
  | tickWall _ => simp [SAct.isOwnerStep] at ha
  | block _ => simp [SAct.isOwnerStep] at ha
  | crash => simp [SAct.isOwnerStep] at ha
  | create _ => simp [SAct.isOwnerStep] at ha
  | resolve _ _ => simp [SAct.isOwnerStep] at ha
  | payEnd _ => simp [SAct.isOwnerStep] at ha
  | serve _ _ => simp [SAct.isOwnerStep] at ha
  | fault _ _ _ => simp [SAct.isOwnerStep] at ha

/-- non-vacuity: in the demo run the reply to the listdatastore request is an owner step from a
    reachable state, and it takes the measure from (30, 0) down to (12, 0) -/
example : ∃ s s' outs, Reach demoCfg s ∧
    sstep demoCfg .current s (.deliver .owner .dsList) = some (s', outs) ∧
    ownerMeas s = (30, 0) ∧ ownerMeas s' = (12, 0) ∧ lt2 (ownerMeas s') (ownerMeas s) := by
  refine ⟨_, _, _, ⟨[.arrive ⟨0, 1000000, true⟩ 1006000 1400 300 1006000, .serve .owner .dsList], ?_, rfl⟩, rfl, rfl, rfl, ?_⟩
  · intro a ha; simp at ha; rcases ha with rfl | rfl <;> trivial
  · show lt2 (12, 0) (30, 0); simp [lt2]

/-- the measure is well-founded: there is no infinite descending chain of owner steps -/
theorem c06_measure_wf : WellFounded (fun s' s : SState => lt2 (ownerMeas s') (ownerMeas s)) :=
  InvImage.wf ownerMeas lt2_wf

/-- Pinned tree: adding up the amounts of two HTLCs overflows and panics (defect fixed by F7). -/
theorem c06_pinned_overflow_panics :
    ∃ acts s, srun demoCfg .pinned SState.init acts = some s ∧ s.panicked = true := by
  refine ⟨[.arrive ⟨0, 1000000, true⟩ (2 ^ 63) 1400 300 (2 ^ 63), .arrive ⟨0, 1000000, true⟩ (2 ^ 63) 1400 300 (2 ^ 63)], _, rfl, ?_⟩
  decide

/-- K4 on the model: a read fault on the restart path makes the owner panic; its HTLCs stay unanswered. -/
theorem c06_todo_counterexample :
    ∃ acts s, srun demoCfg .current SState.init acts = some s ∧ s.panicked = true ∧
      (∃ e o, s.active = some (e, o) ∧ o.pc = .panicked ∧ e.listeners ≠ []) := by
  refine ⟨demoActs.take 11 ++ [.crash, .arrive ⟨0, 1000000, true⟩ 1006000 1400 300 1006000,
      .serve .owner .dsList, .deliver .owner .dsList, .fault .owner (.prov .listPending) .readErr,
      .deliver .owner (.prov .listPending)], _, rfl, rfl, _, _, rfl, rfl, by decide⟩

end Tramp
