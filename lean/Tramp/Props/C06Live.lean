/-
C06, deadlock freedom — "no request can make the handler … deadlock or stay unanswered, provided the
node's RPC keeps answering".

From EVERY reachable state in which HTLCs are held there is a finite continuation, made only of things
the environment is always able to do (the node answers an outstanding request truthfully, a pending
part resolves, the pay command ends, time passes) and of the plugin's own steps — no crash, no fault —
after which every held HTLC has been answered (`c06_can_always_answer`).

It rests on three inductive facts: a lifecycle step strictly decreases a well-founded measure
(`ownerCont_meas`), what the owner waits for can always be provided (`LInv`: a pay command it waits on
is running or has answered, every part it waits on exists), and no reachable state has panicked.
What this does not give is that the real scheduler and the real node *take* these steps: that is
fairness (E8), assumed.
-/
import Tramp.Props.C06
import Tramp.Proofs.SysLive

namespace Tramp

theorem Reach.linv {c : Cfg} {s : SState} (h : Reach c s) : LInv s := by
  obtain ⟨acts, hf, hr⟩ := h
  exact linv_run c acts SState.init s linv_init (sinv_init _) hf hr

theorem lookupS_append_none {l : List (SReq × SReply)} {q : SReq} (r : SReply) (h : lookupS l q = none) :
    lookupS (l ++ [(q, r)]) q = some r := by
  unfold lookupS at *
  rw [List.find?_append]
  cases hf : l.find? (fun y => y.1 == q) with
  | some y => rw [hf] at h; simp at h
  | none => simp

/-- one action taken from a reachable state leads to a reachable state -/
theorem Reach.step {c : Cfg} {s s' : SState} {outs : List Out} (h : Reach c s) (a : SAct) (hf : a.writeFaultOnly)
    (hs : sstep c .current s a = some (s', outs)) : Reach c s' :=
  h.extend [a] (by intro x hx; simp at hx; subst hx; exact hf) (by simp [srun, hs])

/-- the node can always answer this request of the owner: the step and its effect on the owner -/
theorem serve_owner_ok (c : Cfg) (s s1 : SState) (e : PEntry) (o : Owner) (q : SReq) (r : SReply)
    (hact : s.active = some (e, o)) (hq : q ∈ o.pc.outstanding .current) (hnp : q ≠ .prov .pay)
    (hl : lookupS o.served q = none) (hn : nodeServe s q = some (s1, r)) :
    sstep c .current s (.serve .owner q) =
      some ({ s1 with active := some (e, { o with served := o.served ++ [(q, r)] }) }, []) := by
  have hne : (q == SReq.prov PReq.pay) = false := by simpa using hnp
  have hc : (o.pc.outstanding .current).contains q = true := by simpa using hq
  simp [sstep, hne, stepServeOwner, hact, hn, hq, hl]

/-- consuming a served reply: the lifecycle ends answering everybody, or goes on with a smaller measure -/
theorem deliver_owner_ok (c : Cfg) (s : SState) (e : PEntry) (o : Owner) (q : SReq) (r : SReply) (hr : Reach c s)
    (hact : s.active = some (e, o)) (hq : q ∈ o.pc.outstanding .current) (hl : lookupS o.served q = some r) :
    ∃ s1 outs, sstep c .current s (.deliver .owner q) = some (s1, outs) ∧
      ((s1.active = none ∧ ∃ rr, outs = respAll e rr) ∨
       (∃ o1, s1.active = some (e, o1) ∧ lt2 o1.pc.meas o.pc.meas)) := by
  have hc : (o.pc.outstanding .current).contains q = true := by simpa using hq
  have hinv := hr.inv
  have hfact := ((hinv.owner e o hact).2 (q, r) (lookupS_mem hl)).2
  have hm := ownerCont_meas c .current s o.pc q r hq (ofact_matches hfact)
  have hstep : sstep c .current s (.deliver .owner q) = some (applyONext .current s e o q (ownerCont c .current s o.pc q r)) := by
    simp [sstep, stepDeliverOwner, hact, hq, hl]
  cases hn : ownerCont c .current s o.pc q r with
  | stay pc' =>
    rw [hn] at hstep
    exact ⟨_, _, hstep, Or.inr ⟨_, rfl, hm.1 pc' hn⟩⟩
  | pay pc' mf md =>
    rw [hn] at hstep
    exact ⟨_, _, hstep, Or.inr ⟨_, rfl, hm.2 pc' mf md hn⟩⟩
  | finish rr =>
    rw [hn] at hstep
    exact ⟨_, _, hstep, Or.inl ⟨rfl, rr, rfl⟩⟩
  | finishBk rr b =>
    rw [hn] at hstep
    exact ⟨_, _, hstep, Or.inl ⟨rfl, rr, rfl⟩⟩
  | panic =>
    exfalso
    rw [hn] at hstep
    have h1 := panicked_step c (.deliver .owner q) hinv hstep
    have h0 := c06_no_panic c s hr
    simp [applyONext, h0] at h1

theorem srunO_srun (c : Cfg) (v : SVariant) (acts : List SAct) (s s' : SState) (outs : List Out)
    (h : srunO c v s acts = some (s', outs)) : srun c v s acts = some s' := by
  induction acts generalizing s outs with
  | nil => simp [srunO] at h; simp [srun, h.1]
  | cons a as ih =>
    simp only [srunO] at h
    cases h1 : sstep c v s a with
    | none => rw [h1] at h; simp at h
    | some p =>
      obtain ⟨s1, o1⟩ := p
      rw [h1] at h; simp only at h
      cases h2 : srunO c v s1 as with
      | none => rw [h2] at h; simp at h
      | some p2 =>
        obtain ⟨s2, o2⟩ := p2
        rw [h2] at h; simp only [Option.some.injEq, Prod.mk.injEq] at h
        simp only [srun, h1]
        obtain ⟨rfl, _⟩ := h
        exact ih s1 o2 h2

/-- a continuation after which every held HTLC is answered, or the lifecycle is strictly further on -/
def Progress (c : Cfg) (s : SState) (e : PEntry) (o : Owner) : Prop :=
  ∃ acts s1 outs, WriteFaultsOnly acts ∧ (∀ a ∈ acts, a ≠ .crash) ∧ srunO c .current s acts = some (s1, outs) ∧
    ((s1.active = none ∧ ∀ i ∈ e.listeners, ∃ rr, Out.resp i rr ∈ outs) ∨
     (∃ e1 o1, s1.active = some (e1, o1) ∧ e1.listeners = e.listeners ∧ lt2 o1.pc.meas o.pc.meas))

theorem respAll_covers (e : PEntry) (r : Resp) : ∀ i ∈ e.listeners, ∃ rr, Out.resp i rr ∈ respAll e r := by
  intro i hi; exact ⟨r, by unfold respAll; exact List.mem_map.mpr ⟨i, hi, rfl⟩⟩

/-- a served reply is waiting: consuming it is progress -/
theorem progress_deliver (c : Cfg) (s : SState) (e : PEntry) (o : Owner) (q : SReq) (r : SReply) (hr : Reach c s)
    (hact : s.active = some (e, o)) (hq : q ∈ o.pc.outstanding .current) (hl : lookupS o.served q = some r) :
    Progress c s e o := by
  obtain ⟨s1, outs, hs, hres⟩ := deliver_owner_ok c s e o q r hr hact hq hl
  refine ⟨[.deliver .owner q], s1, outs, by intro a ha; simp at ha; subst ha; trivial,
    by intro a ha; simp at ha; subst ha; simp, by simp [srunO, hs], ?_⟩
  rcases hres with ⟨hn, rr, ho⟩ | ⟨o1, ha1, hlt⟩
  · left; exact ⟨hn, by rw [ho]; exact respAll_covers e rr⟩
  · right; exact ⟨e, o1, ha1, rfl, hlt⟩

/-- a silent environment step that leaves the owner where it is can be put in front -/
theorem progress_prepend (c : Cfg) (s s0 : SState) (e e0 : PEntry) (o o0 : Owner) (a : SAct) (outs0 : List Out)
    (hf : a.writeFaultOnly) (hnc : a ≠ .crash) (hs : sstep c .current s a = some (s0, outs0))
    (hl : e0.listeners = e.listeners) (hpc : o0.pc = o.pc) (h : Progress c s0 e0 o0) : Progress c s e o := by
  obtain ⟨acts, s1, outs, hfa, hnca, hrun, hres⟩ := h
  refine ⟨a :: acts, s1, outs0 ++ outs, ?_, ?_, ?_, ?_⟩
  · intro x hx; simp at hx; rcases hx with rfl | hx; exact hf; exact hfa x hx
  · intro x hx; simp at hx; rcases hx with rfl | hx; exact hnc; exact hnca x hx
  · simp [srunO, hs, hrun]
  · rcases hres with ⟨hn, hall⟩ | ⟨e1, o1, ha1, hl1, hlt⟩
    · left; refine ⟨hn, ?_⟩
      intro i hi
      obtain ⟨rr, hrr⟩ := hall i (by rw [hl]; exact hi)
      exact ⟨rr, List.mem_append.mpr (Or.inr hrr)⟩
    · right; exact ⟨e1, o1, ha1, by rw [hl1, hl], by rw [← hpc]; exact hlt⟩

/-- the node answers an outstanding request (anything but `pay`), the owner consumes the reply -/
theorem progress_serve (c : Cfg) (s s1 : SState) (e : PEntry) (o : Owner) (q : SReq) (r : SReply) (hr : Reach c s)
    (hact : s.active = some (e, o)) (hq : q ∈ o.pc.outstanding .current) (hnp : q ≠ .prov .pay)
    (hl : lookupS o.served q = none) (hn : nodeServe s q = some (s1, r)) : Progress c s e o := by
  have hs := serve_owner_ok c s s1 e o q r hact hq hnp hl hn
  have hr1 : Reach c _ := hr.step (.serve .owner q) trivial hs
  refine progress_prepend c s _ e e o { o with served := o.served ++ [(q, r)] } (.serve .owner q) [] trivial (by simp) hs rfl rfl ?_
  exact progress_deliver c _ e _ q r hr1 rfl hq (lookupS_append_none r hl)

/-- the same, whether or not the reply has been computed already -/
theorem progress_request (c : Cfg) (s : SState) (e : PEntry) (o : Owner) (q : SReq) (hr : Reach c s)
    (hact : s.active = some (e, o)) (hq : q ∈ o.pc.outstanding .current) (hnp : q ≠ .prov .pay)
    (hn : ∃ s1 r, nodeServe s q = some (s1, r)) : Progress c s e o := by
  cases hl : lookupS o.served q with
  | some r => exact progress_deliver c s e o q r hr hact hq hl
  | none => obtain ⟨s1, r, hn⟩ := hn; exact progress_serve c s s1 e o q r hr hact hq hnp hl hn

theorem nodeServe_ds_some (s : SState) (q : SReq) (h : ∀ pq, q ≠ .prov pq) : ∃ s1 r, nodeServe s q = some (s1, r) := by
  cases q with
  | dsList => exact ⟨_, _, rfl⟩
  | dsWriteState v m =>
    simp only [nodeServe]
    cases hd : dsWrite s.ds m v with
    | mk ds' og => cases og with
      | some g => exact ⟨_, _, rfl⟩
      | none => exact ⟨_, _, rfl⟩
  | dsWriteAttempt a m =>
    simp only [nodeServe]
    cases ha : attemptWrite s.attempts a m with
    | some as' => exact ⟨_, _, rfl⟩
    | none => exact ⟨_, _, rfl⟩
  | prov pq => exact absurd rfl (h pq)

theorem findPart_resolve_failed {ps : List Part} {id : Nat} {p : Part} (h : findPart ps id = some p) (hp : p.st = .pending) :
    ∃ p', findPart (resolvePart ps id .failed) id = some p' ∧ p'.st = .failed := by
  unfold findPart resolvePart at *
  rw [List.find?_map]
  have hid : (p.id == id) = true := by simpa using List.find?_some h
  have hcomp : ((fun q : Part => q.id == id) ∘ fun q : Part => if q.id == id && q.st == .pending then { q with st := PStatus.failed } else q)
      = fun q : Part => q.id == id := by
    funext q; simp only [Function.comp]; split <;> rfl
  rw [hcomp, h]
  refine ⟨_, rfl, ?_⟩
  simp [hid, hp]

/-- inside `wait_payment` (after a restart or behind the pay wrapper): the node can serve the next request -/
theorem progress_wait (c : Cfg) (s : SState) (e : PEntry) (o : Owner) (w : WPc) (hr : Reach c s)
    (hact : s.active = some (e, o)) (hout : o.pc.outstanding .current = w.outstanding.map SReq.prov)
    (hwi : WInv s.parts False w) (hnr : w.notRet) (hex : WEx s.parts (some w)) : Progress c s e o := by
  cases w with
  | seqPending =>
    refine progress_request c s e o (.prov .listPending) hr hact (by rw [hout]; simp [WPc.outstanding]) (by simp) ?_
    exact ⟨s, .prov (.pendingIds (pendingIds s.parts)), by simp [nodeServe, serveRead]⟩
  | seqComplete pend =>
    refine progress_request c s e o (.prov .listComplete) hr hact (by rw [hout]; simp [WPc.outstanding]) (by simp) ?_
    exact ⟨s, .prov (.completePres (completePres s.parts)), by simp [nodeServe, serveRead]⟩
  | conc a b => exact absurd hwi (by simp [WInv])
  | ret r => exact absurd hnr (by simp [WPc.notRet])
  | waiting rem =>
    obtain ⟨hne, hall⟩ := hex
    cases rem with
    | nil => exact absurd rfl hne
    | cons id rest =>
      have hq : SReq.prov (.waitPart id) ∈ o.pc.outstanding .current := by rw [hout]; simp [WPc.outstanding]
      cases hl : lookupS o.served (.prov (.waitPart id)) with
      | some r => exact progress_deliver c s e o _ r hr hact hq hl
      | none =>
        obtain ⟨p, hfp, _⟩ := has_findPart (hall id (by simp))
        cases hst : p.st with
        | complete x =>
          exact progress_serve c s s e o _ (.prov (.waitPre x)) hr hact hq (by simp) hl (by simp [nodeServe, serveRead, hfp, hst])
        | failed =>
          exact progress_serve c s s e o _ (.prov .waitCode) hr hact hq (by simp) hl (by simp [nodeServe, serveRead, hfp, hst])
        | pending =>
          -- the part resolves (fails), then the node answers the waitsendpay
          have hs0 : sstep c .current s (.resolve id .failed) = some ({ s with parts := resolvePart s.parts id .failed }, []) := by
            simp [sstep]
          obtain ⟨p', hfp', hst'⟩ := findPart_resolve_failed hfp hst
          have hr0 : Reach c _ := hr.step (.resolve id .failed) trivial hs0
          refine progress_prepend c s { s with parts := resolvePart s.parts id .failed } e e o o (.resolve id .failed) [] trivial (by simp) hs0 rfl rfl ?_
          exact progress_serve c { s with parts := resolvePart s.parts id .failed } { s with parts := resolvePart s.parts id .failed } e o _ (.prov .waitCode) hr0 hact hq (by simp) hl
            (by simp [nodeServe, serveRead, hfp', hst'])

/-- from every reachable state with a live lifecycle there is a continuation that answers everybody
    or takes the lifecycle strictly further -/
theorem progress_any (c : Cfg) (s : SState) (e : PEntry) (o : Owner) (hr : Reach c s) (hact : s.active = some (e, o)) :
    Progress c s e o := by
  have hinv := hr.inv
  have hown := (hinv.owner e o hact).1
  have hl := hr.linv e o hact
  have ds : ∀ q, q ∈ o.pc.outstanding .current → (∀ pq, q ≠ .prov pq) → Progress c s e o := fun q hq hnp =>
    progress_request c s e o q hr hact hq (hnp .pay) (nodeServe_ds_some s q hnp)
  cases hpc : o.pc with
  | fetch => exact ds .dsList (by rw [hpc]; simp [OPc.outstanding]) (by simp)
  | rFailA aid g t => exact ds _ (by rw [hpc]; simp [OPc.outstanding]; rfl) (by simp)
  | rFailS aid g t => exact ds _ (by rw [hpc]; simp [OPc.outstanding]; rfl) (by simp)
  | addS aid t mf md => exact ds _ (by rw [hpc]; simp [OPc.outstanding]; rfl) (by simp)
  | addA aid g mf md => exact ds _ (by rw [hpc]; simp [OPc.outstanding]; rfl) (by simp)
  | waitHtlcs d =>
    -- time passes, the timer fires: everybody is answered with temporary_trampoline_failure
    refine ⟨[.tickMono (d - s.mono), .timerFire], { s with mono := s.mono + (d - s.mono), active := none }, respAll e (.fail .ttf),
      by intro a ha; simp at ha; rcases ha with rfl | rfl <;> trivial,
      by intro a ha; simp at ha; rcases ha with rfl | rfl <;> simp, ?_, Or.inl ⟨rfl, respAll_covers e _⟩⟩
    have hdue : s.mono + (d - s.mono) ≥ d := by omega
    simp [srunO, sstep, hact, hpc, hdue]
  | gotReady =>
    refine ⟨[.readParams], { s with active := some (e, { pc := .gotParams (e.received - e.info.amount) e.cltv, served := [] }) }, [],
      by intro a ha; simp at ha; subst ha; trivial, by intro a ha; simp at ha; subst ha; simp,
      by simp [srunO, sstep, hact, hpc], Or.inr ⟨e, _, rfl, rfl, by rw [hpc]; simp [OPc.meas, lt2]⟩⟩
  | gotParams mf exp =>
    refine ⟨[.readHeight], { s with active := some (e, { pc := .addS s.nextAid s.wall mf (maxDelay c exp s.height), served := [] }), nextAid := s.nextAid + 1 }, [],
      by intro a ha; simp at ha; subst ha; trivial, by intro a ha; simp at ha; subst ha; simp,
      by simp [srunO, sstep, hact, hpc], Or.inr ⟨e, _, rfl, rfl, by rw [hpc]; simp [OPc.meas, lt2]⟩⟩
  | rWait aid g t w =>
    rw [hpc] at hown
    have hwex := hl.wex; rw [hpc] at hwex
    exact progress_wait c s e o w hr hact (by rw [hpc]; rfl) hown.1 hown.2.1 hwex
  | paying aid g p =>
    cases p with
    | inWait f w =>
      rw [hpc] at hown
      have hwex := hl.wex; rw [hpc] at hwex
      exact progress_wait c s e o w hr hact (by rw [hpc]; rfl) hown.2.1 hown.2.2.1 hwex
    | paying =>
      have hq : SReq.prov .pay ∈ o.pc.outstanding .current := by rw [hpc]; simp [OPc.outstanding, PPc.outstanding]
      cases hls : lookupS o.served (.prov .pay) with
      | some r => exact progress_deliver c s e o _ r hr hact hq hls
      | none =>
        have hrun : s.payRunning = true := by
          rcases hl.pay (by rw [hpc]; rfl) with h1 | h1
          · exact h1
          · rw [hls] at h1; simp at h1
        -- the pay command ends (here: FAILED), the wrapper goes on to wait_payment
        have hs0 : sstep c .current s (.payEnd (.payFailed false)) =
            some ({ s with payRunning := false,
                           active := some (e, { pc := .paying aid g .paying, served := o.served ++ [(.prov .pay, .prov (.payFailed false))] }) }, []) := by
          simp [sstep, hact, hpc, hrun, hls, payReplyOk]
        have hr0 : Reach c _ := hr.step (.payEnd (.payFailed false)) trivial hs0
        refine progress_prepend c s _ e e o { pc := .paying aid g .paying, served := o.served ++ [(.prov .pay, .prov (.payFailed false))] }
          (.payEnd (.payFailed false)) [] trivial (by simp) hs0 rfl (by simp [hpc]) ?_
        exact progress_deliver c _ e _ (.prov .pay) (.prov (.payFailed false)) hr0 rfl (by simp [OPc.outstanding, PPc.outstanding])
          (lookupS_append_none _ hls)
    | retWait r => rw [hpc] at hown; simp [OPcInv] at hown
    | retPay r => rw [hpc] at hown; simp [OPcInv] at hown
  | panicked =>
    have h1 := hl.np hpc
    have h0 := c06_no_panic c s hr
    rw [h0] at h1; simp at h1

/-- **Deadlock freedom.** From every reachable state in which HTLCs are held there is a finite
    continuation — the node answers outstanding requests truthfully, pending parts resolve, the pay
    command ends, time passes, the plugin takes its own steps; no crash, no fault — after which the
    lifecycle is over and EVERY held HTLC has been answered. -/
theorem c06_can_always_answer (c : Cfg) (s : SState) (e : PEntry) (o : Owner) (hr : Reach c s)
    (hact : s.active = some (e, o)) :
    ∃ acts s' outs, WriteFaultsOnly acts ∧ (∀ a ∈ acts, a ≠ .crash) ∧ srunO c .current s acts = some (s', outs) ∧
      s'.active = none ∧ ∀ i ∈ e.listeners, ∃ rr, Out.resp i rr ∈ outs := by
  have main : ∀ m : Nat × Nat, ∀ (s : SState) (e : PEntry) (o : Owner), o.pc.meas = m → Reach c s → s.active = some (e, o) →
      ∃ acts s' outs, WriteFaultsOnly acts ∧ (∀ a ∈ acts, a ≠ .crash) ∧ srunO c .current s acts = some (s', outs) ∧
        s'.active = none ∧ ∀ i ∈ e.listeners, ∃ rr, Out.resp i rr ∈ outs := by
    intro m
    induction m using lt2_wf.induction with
    | _ m ih =>
      intro s e o hm hr hact
      obtain ⟨acts, s1, outs, hf, hnc, hrun, hres⟩ := progress_any c s e o hr hact
      rcases hres with ⟨hn, hall⟩ | ⟨e1, o1, ha1, hl1, hlt⟩
      · exact ⟨acts, s1, outs, hf, hnc, hrun, hn, hall⟩
      · have hr1 : Reach c s1 := hr.extend acts hf (srunO_srun c .current acts s s1 outs hrun)
        obtain ⟨acts2, s2, outs2, hf2, hnc2, hrun2, hn2, hall2⟩ :=
          ih o1.pc.meas (by rw [← hm]; exact hlt) s1 e1 o1 rfl hr1 ha1
        refine ⟨acts ++ acts2, s2, outs ++ outs2, ?_, ?_, srunO_append c .current acts acts2 s s1 s2 outs outs2 hrun hrun2, hn2, ?_⟩
        · intro a ha; rcases List.mem_append.mp ha with h | h; exact hf a h; exact hf2 a h
        · intro a ha; rcases List.mem_append.mp ha with h | h; exact hnc a h; exact hnc2 a h
        · intro i hi
          obtain ⟨rr, hrr⟩ := hall2 i (by rw [hl1]; exact hi)
          exact ⟨rr, List.mem_append.mpr (Or.inr hrr)⟩
  exact main o.pc.meas s e o rfl hr hact

/-- non-vacuity: the state after a partial HTLC arrived is reachable and has a held HTLC -/
example : ∃ s e o, Reach demoCfg s ∧ s.active = some (e, o) ∧ e.listeners.length = 1 := by
  refine ⟨_, _, _, ⟨[.arrive ⟨0, 1000000, true⟩ 500000 1400 300 1006000], ?_, rfl⟩, rfl, rfl⟩
  intro a ha; simp at ha; subst ha; trivial

end Tramp
