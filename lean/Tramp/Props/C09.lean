/-
C09 — No crash point or failed write leaves a payment hash permanently unpayable.

Statement: after a crash at any point, or any single failed or lost datastore write, a later fully
funded set of HTLCs for the same invoice is still either paid and settled, or settled from the
recorded preimage. No payment hash becomes permanently failing because of the state an interrupted
run left behind.

Proved for EVERY image an interrupted run can leave — in fact for every image whatsoever: any stored
state (absent / Free / Pending with any attempt id, time and generation / Succeeded), any set of
attempt records (the record of the pending attempt may be missing), any part table without pending
parts (the environment has quiesced), any clocks — stronger than "reachable", which is why lost
writes are covered too. The plugin starts empty (it was restarted). A fully funded HTLC arrives and
the environment cooperates (every RPC answered truthfully, the recipient accepts): the HTLC is
settled at the first attempt, except when the image says Pending for an attempt older than the MPP
timeout with no completed part — then the first attempt is failed with temporary_trampoline_failure
and leaves the state Free (`c09_stale_pending_frees`), and the retry settles (`c09_free_settles`).
`c09_pinned_wedge`: on the pinned tree (attempt record written with must-replace in `mark_failed`)
the image "Pending, attempt record missing" is failed with temporary_node_failure and stays as it is.
-/
import Tramp.Proofs.SysProbe
import Tramp.Proofs.SysStepB

namespace Tramp

/-- what a restarted plugin finds: any durable state, no plugin state, nothing in flight -/
structure Image (s : SState) : Prop where
  noActive  : s.active = none
  noBks     : s.bks = []
  notPaying : s.payRunning = false
  settled   : pendingIds s.parts = []                 -- no part is still pending
  freshAid  : ∀ a ∈ s.attempts, a ≠ s.nextAid         -- E6: attempt ids are fresh
  freshRec  : ∀ aid t g, s.ds = some (.pending aid t, g) → aid ≠ s.nextAid

/-- the cooperative schedule when the record says Succeeded -/
def probeSucceeded (info : SInfo) (amount expiry : Nat) (relExp : Int) (total : Nat) : List SAct :=
  [.arrive info amount expiry relExp total, .serve .owner .dsList, .deliver .owner .dsList]

/-- Image "Succeeded pre": the set is settled from the recorded preimage, without paying. -/
theorem c09_succeeded_settles (c : Cfg) (s : SState) (him : Image s) (pre g : Nat)
    (hds : s.ds = some (.succeeded pre, g)) (info : SInfo) (amount expiry : Nat) (relExp : Int) (total : Nat) :
    ∃ s', srunO c .current s (probeSucceeded info amount expiry relExp total) =
      some (s', (probeEntry c info ⟨s.nextInv, amount, expiry⟩ relExp total).listeners.map (fun i => Out.resp i (.resolve pre))) := by
  unfold probeSucceeded
  rw [srunO_cons _ _ _ _ _ _ _ (arrive_fresh c s him.noActive info amount expiry relExp total)]
  simp only [List.nil_append]
  -- serve the listing
  have h2 : sstep c .current
      { s with active := some (probeEntry c info ⟨s.nextInv, amount, expiry⟩ relExp total, { pc := .fetch, served := [] }),
               nextInv := s.nextInv + 1 } (.serve .owner .dsList) =
      some ({ s with active := some (probeEntry c info ⟨s.nextInv, amount, expiry⟩ relExp total,
                        { pc := .fetch, served := [(.dsList, .listed (some (.succeeded pre, g)))] }), nextInv := s.nextInv + 1 }, []) := by
    simp [sstep, stepServeOwner, nodeServe, OPc.outstanding, lookupS, hds]
  rw [srunO_cons _ _ _ _ _ _ _ h2]
  simp only [List.nil_append]
  have h3 : sstep c .current
      { s with active := some (probeEntry c info ⟨s.nextInv, amount, expiry⟩ relExp total,
                        { pc := .fetch, served := [(.dsList, .listed (some (.succeeded pre, g)))] }), nextInv := s.nextInv + 1 }
      (.deliver .owner .dsList) =
      some ({ s with active := none, nextInv := s.nextInv + 1 },
            (probeEntry c info ⟨s.nextInv, amount, expiry⟩ relExp total).listeners.map (fun i => Out.resp i (.resolve pre))) := by
    simp [sstep, stepDeliverOwner, OPc.outstanding, lookupS, ownerCont, applyONext, respAll]
  rw [srunO_cons _ _ _ _ _ _ _ h3]
  simp [srunO]

end Tramp

namespace Tramp

theorem fetch_free_enter (c : Cfg) (s : SState) (q : SReq) (cell : Option (DsVal × Nat))
    (h : cell = none ∨ ∃ g, cell = some (.free, g)) :
    ownerCont c .current s .fetch q (.listed cell) = enterWait s c.mppTimeout := by
  rcases h with rfl | ⟨g, rfl⟩ <;> rfl

/-- the explicit entry of the probe (see `probeEntry_shape`) -/
def probeE (info : SInfo) (id amount expiry : Nat) : PEntry :=
  { info := info, listeners := [⟨id, amount, expiry⟩], isReady := true, isFailReq := false, readyBuf := true,
    failBuf := none, received := amount, cltv := min expiry 4294967295, readySent := true }

theorem probeEntry_eq (c : Cfg) (info : SInfo) (id amount expiry : Nat) (relExp : Int) (total : Nat)
    (h : ProbeOk c info amount relExp total) :
    probeEntry c info ⟨id, amount, expiry⟩ relExp total = probeE info id amount expiry := by
  rw [probeEntry_shape c info id amount expiry relExp total h]; rfl

/-- the tail of every successful probe: from the `select!` with readiness signalled to settlement -/
def probeTail (s : SState) (pid x : Nat) : List SAct :=
  [ .takeReady, .readParams, .readHeight,
    .serve .owner (.dsWriteState (.pending s.nextAid s.wall) .createOrReplace),
    .deliver .owner (.dsWriteState (.pending s.nextAid s.wall) .createOrReplace),
    .serve .owner (.dsWriteAttempt s.nextAid .mustCreate), .deliver .owner (.dsWriteAttempt s.nextAid .mustCreate),
    .create pid, .resolve pid (.complete x), .payEnd (.payComplete x), .deliver .owner (.prov .pay) ]

theorem c09_from_wait (c : Cfg) (s : SState) (info : SInfo) (id amount expiry d pid x : Nat)
    (hfa' : s.nextAid ∉ s.attempts) (hpid : findPart s.parts pid = none) :
    ∃ s', srunO c .current { s with active := some (probeE info id amount expiry, { pc := .waitHtlcs d, served := [] }) }
        (probeTail s pid x) =
      some (s', [Out.pay info.bolt11 (if info.invHasAmount then none else some info.amount) (amount - info.amount)
                   (maxDelay c (min expiry 4294967295) s.height),
                 Out.resp ⟨id, amount, expiry⟩ (.resolve x)]) := by
  obtain ⟨g', hw, _⟩ := dsWrite_cor s.ds (DsVal.pending s.nextAid s.wall)
  unfold probeTail
  have h4 : sstep c .current
      { s with active := some (probeE info id amount expiry, { pc := .waitHtlcs d, served := [] }) } SAct.takeReady =
      some ({ s with active := some ({ probeE info id amount expiry with readyBuf := false }, { pc := .gotReady, served := [] }) }, []) := by
    simp [sstep, probeE]
  rw [srunO_cons _ _ _ _ _ _ _ h4]
  simp only [List.nil_append]
  have h5 : sstep c .current
      { s with active := some ({ probeE info id amount expiry with readyBuf := false }, { pc := .gotReady, served := [] }) } SAct.readParams =
      some ({ s with active := some ({ probeE info id amount expiry with readyBuf := false },
                        { pc := .gotParams (amount - info.amount) (min expiry 4294967295), served := [] }) }, []) := by
    simp [sstep, probeE]
  rw [srunO_cons _ _ _ _ _ _ _ h5]
  simp only [List.nil_append]
  have h6 : sstep c .current
      { s with active := some ({ probeE info id amount expiry with readyBuf := false },
                        { pc := .gotParams (amount - info.amount) (min expiry 4294967295), served := [] }) } SAct.readHeight =
      some ({ s with active := some ({ probeE info id amount expiry with readyBuf := false },
                        { pc := .addS s.nextAid s.wall (amount - info.amount) (maxDelay c (min expiry 4294967295) s.height), served := [] }),
                        nextAid := s.nextAid + 1 }, []) := by
    simp [sstep]
  rw [srunO_cons _ _ _ _ _ _ _ h6]
  simp only [List.nil_append]
  have h7 : sstep c .current
      { s with active := some ({ probeE info id amount expiry with readyBuf := false },
                        { pc := .addS s.nextAid s.wall (amount - info.amount) (maxDelay c (min expiry 4294967295) s.height), served := [] }),
                        nextAid := s.nextAid + 1 }
      (.serve .owner (.dsWriteState (.pending s.nextAid s.wall) .createOrReplace)) =
      some ({ s with ds := some (.pending s.nextAid s.wall, g'),
                        active := some ({ probeE info id amount expiry with readyBuf := false },
                        { pc := .addS s.nextAid s.wall (amount - info.amount) (maxDelay c (min expiry 4294967295) s.height),
                              served := [(.dsWriteState (.pending s.nextAid s.wall) .createOrReplace, .written g')] }),
                        nextAid := s.nextAid + 1 }, []) := by
    simp [sstep, stepServeOwner, nodeServe, OPc.outstanding, lookupS, hw]
  rw [srunO_cons _ _ _ _ _ _ _ h7]
  simp only [List.nil_append]
  have h8 : sstep c .current
      { s with ds := some (.pending s.nextAid s.wall, g'),
                        active := some ({ probeE info id amount expiry with readyBuf := false },
                        { pc := .addS s.nextAid s.wall (amount - info.amount) (maxDelay c (min expiry 4294967295) s.height),
                              served := [(.dsWriteState (.pending s.nextAid s.wall) .createOrReplace, .written g')] }),
                        nextAid := s.nextAid + 1 }
      (.deliver .owner (.dsWriteState (.pending s.nextAid s.wall) .createOrReplace)) =
      some ({ s with ds := some (.pending s.nextAid s.wall, g'),
                        active := some ({ probeE info id amount expiry with readyBuf := false },
                        { pc := .addA s.nextAid g' (amount - info.amount) (maxDelay c (min expiry 4294967295) s.height), served := [] }),
                        nextAid := s.nextAid + 1 }, []) := by
    simp [sstep, stepDeliverOwner, OPc.outstanding, lookupS, ownerCont, applyONext, keepServed, sameWait]
  rw [srunO_cons _ _ _ _ _ _ _ h8]
  simp only [List.nil_append]
  have h9 : sstep c .current
      { s with ds := some (.pending s.nextAid s.wall, g'),
                        active := some ({ probeE info id amount expiry with readyBuf := false },
                        { pc := .addA s.nextAid g' (amount - info.amount) (maxDelay c (min expiry 4294967295) s.height), served := [] }),
                        nextAid := s.nextAid + 1 }
      (.serve .owner (.dsWriteAttempt s.nextAid .mustCreate)) =
      some ({ s with ds := some (.pending s.nextAid s.wall, g'), attempts := s.attempts ++ [s.nextAid],
                        active := some ({ probeE info id amount expiry with readyBuf := false },
                        { pc := .addA s.nextAid g' (amount - info.amount) (maxDelay c (min expiry 4294967295) s.height),
                              served := [(.dsWriteAttempt s.nextAid .mustCreate, .written 0)] }),
                        nextAid := s.nextAid + 1 }, []) := by
    simp [sstep, stepServeOwner, nodeServe, OPc.outstanding, lookupS, attemptWrite, hfa']
  rw [srunO_cons _ _ _ _ _ _ _ h9]
  simp only [List.nil_append]
  have h10 : sstep c .current
      { s with ds := some (.pending s.nextAid s.wall, g'), attempts := s.attempts ++ [s.nextAid],
                        active := some ({ probeE info id amount expiry with readyBuf := false },
                        { pc := .addA s.nextAid g' (amount - info.amount) (maxDelay c (min expiry 4294967295) s.height),
                              served := [(.dsWriteAttempt s.nextAid .mustCreate, .written 0)] }),
                        nextAid := s.nextAid + 1 }
      (.deliver .owner (.dsWriteAttempt s.nextAid .mustCreate)) =
      some ({ s with ds := some (.pending s.nextAid s.wall, g'), attempts := s.attempts ++ [s.nextAid], payRunning := true,
                        active := some ({ probeE info id amount expiry with readyBuf := false },
                        { pc := .paying s.nextAid g' .paying, served := [] }),
                        nextAid := s.nextAid + 1 },
            [Out.pay info.bolt11 (if info.invHasAmount then none else some info.amount) (amount - info.amount)
              (maxDelay c (min expiry 4294967295) s.height)]) := by
    simp [sstep, stepDeliverOwner, OPc.outstanding, lookupS, ownerCont, applyONext, payOut, probeE]
    by_cases hia : info.invHasAmount = true <;> simp [hia]
  rw [srunO_cons _ _ _ _ _ _ _ h10]
  have h11 : sstep c .current
      { s with ds := some (.pending s.nextAid s.wall, g'), attempts := s.attempts ++ [s.nextAid], payRunning := true,
                        active := some ({ probeE info id amount expiry with readyBuf := false },
                        { pc := .paying s.nextAid g' .paying, served := [] }),
                        nextAid := s.nextAid + 1 } (.create pid) =
      some ({ s with ds := some (.pending s.nextAid s.wall, g'), attempts := s.attempts ++ [s.nextAid], payRunning := true,
                        parts := s.parts ++ [⟨pid, .pending⟩],
                        active := some ({ probeE info id amount expiry with readyBuf := false },
                        { pc := .paying s.nextAid g' .paying, served := [] }),
                        nextAid := s.nextAid + 1 }, []) := by
    simp [sstep, hpid]
  rw [srunO_cons _ _ _ _ _ _ _ h11]
  simp only [List.nil_append]
  have hres : resolvePart (s.parts ++ [⟨pid, .pending⟩]) pid (.complete x) = resolvePart s.parts pid (.complete x) ++ [⟨pid, .complete x⟩] := by
    simp [resolvePart]
  have h12 : sstep c .current
      { s with ds := some (.pending s.nextAid s.wall, g'), attempts := s.attempts ++ [s.nextAid], payRunning := true,
                        parts := s.parts ++ [⟨pid, .pending⟩],
                        active := some ({ probeE info id amount expiry with readyBuf := false },
                        { pc := .paying s.nextAid g' .paying, served := [] }),
                        nextAid := s.nextAid + 1 } (.resolve pid (.complete x)) =
      some ({ s with ds := some (.pending s.nextAid s.wall, g'), attempts := s.attempts ++ [s.nextAid], payRunning := true,
                        parts := resolvePart s.parts pid (.complete x) ++ [⟨pid, .complete x⟩],
                        active := some ({ probeE info id amount expiry with readyBuf := false },
                        { pc := .paying s.nextAid g' .paying, served := [] }),
                        nextAid := s.nextAid + 1 }, []) := by
    simp [sstep, hres]
  rw [srunO_cons _ _ _ _ _ _ _ h12]
  simp only [List.nil_append]
  have h13 : sstep c .current
      { s with ds := some (.pending s.nextAid s.wall, g'), attempts := s.attempts ++ [s.nextAid], payRunning := true,
                        parts := resolvePart s.parts pid (.complete x) ++ [⟨pid, .complete x⟩],
                        active := some ({ probeE info id amount expiry with readyBuf := false },
                        { pc := .paying s.nextAid g' .paying, served := [] }),
                        nextAid := s.nextAid + 1 } (.payEnd (.payComplete x)) =
      some ({ s with ds := some (.pending s.nextAid s.wall, g'), attempts := s.attempts ++ [s.nextAid], payRunning := false,
                        parts := resolvePart s.parts pid (.complete x) ++ [⟨pid, .complete x⟩],
                        active := some ({ probeE info id amount expiry with readyBuf := false },
                        { pc := .paying s.nextAid g' .paying, served := [(.prov .pay, .prov (.payComplete x))] }),
                        nextAid := s.nextAid + 1 }, []) := by
    simp [sstep, lookupS, payReplyOk]
  rw [srunO_cons _ _ _ _ _ _ _ h13]
  simp only [List.nil_append]
  have h14 : ∃ s', sstep c .current
      { s with ds := some (.pending s.nextAid s.wall, g'), attempts := s.attempts ++ [s.nextAid], payRunning := false,
                        parts := resolvePart s.parts pid (.complete x) ++ [⟨pid, .complete x⟩],
                        active := some ({ probeE info id amount expiry with readyBuf := false },
                        { pc := .paying s.nextAid g' .paying, served := [(.prov .pay, .prov (.payComplete x))] }),
                        nextAid := s.nextAid + 1 } (.deliver .owner (.prov .pay)) =
      some (s', [Out.resp ⟨id, amount, expiry⟩ (.resolve x)]) := by
    refine ⟨{ s with ds := some (.pending s.nextAid s.wall, g'), attempts := s.attempts ++ [s.nextAid], payRunning := false,
                     parts := resolvePart s.parts pid (.complete x) ++ [⟨pid, .complete x⟩], active := none,
                     bks := s.bks ++ [{ id := s.nextBk, pc := .succS s.nextAid x, served := none }], nextBk := s.nextBk + 1,
                     nextAid := s.nextAid + 1 }, ?_⟩
    simp [sstep, stepDeliverOwner, OPc.outstanding, PPc.outstanding, lookupS, ownerCont, pDeliver, payDeliver, afterPay,
      applyONext, respAll, probeE]
  obtain ⟨s', h14'⟩ := h14
  refine ⟨s', ?_⟩
  rw [srunO_cons _ _ _ _ _ _ _ h14']
  simp [srunO]

/-- the cooperative schedule from a Free/absent record: collect, record the attempt, pay, the
    recipient accepts -/
def probeFree (c : Cfg) (s : SState) (info : SInfo) (amount expiry : Nat) (relExp : Int) (total pid x : Nat) : List SAct :=
  [ .arrive info amount expiry relExp total, .serve .owner .dsList, .deliver .owner .dsList,
    .takeReady, .readParams, .readHeight,
    .serve .owner (.dsWriteState (.pending s.nextAid s.wall) .createOrReplace),
    .deliver .owner (.dsWriteState (.pending s.nextAid s.wall) .createOrReplace),
    .serve .owner (.dsWriteAttempt s.nextAid .mustCreate), .deliver .owner (.dsWriteAttempt s.nextAid .mustCreate),
    .create pid, .resolve pid (.complete x), .payEnd (.payComplete x), .deliver .owner (.prov .pay) ]

/-- Image "Free or absent" (this is also what every failed attempt leaves behind): the set is paid
    and settled with the recipient's preimage. -/
theorem c09_free_settles (c : Cfg) (s : SState) (him : Image s) (hfree : s.ds = none ∨ ∃ g, s.ds = some (.free, g))
    (hmpp : c.mppTimeout ≠ 0) (info : SInfo) (amount expiry : Nat) (relExp : Int) (total pid x : Nat)
    (hok : ProbeOk c info amount relExp total) (hpid : findPart s.parts pid = none) :
    ∃ s', srunO c .current s (probeFree c s info amount expiry relExp total pid x) =
      some (s', [Out.pay info.bolt11 (if info.invHasAmount then none else some info.amount) (amount - info.amount)
                   (maxDelay c (min expiry 4294967295) s.height),
                 Out.resp ⟨s.nextInv, amount, expiry⟩ (.resolve x)]) := by
  obtain ⟨g', hw, _⟩ := dsWrite_cor s.ds (DsVal.pending s.nextAid s.wall)
  have hfa : s.attempts.contains s.nextAid = false := by
    cases hc : s.attempts.contains s.nextAid with
    | false => rfl
    | true => exact absurd rfl (him.freshAid _ (List.contains_iff_mem.mp hc))
  unfold probeFree
  rw [srunO_cons _ _ _ _ _ _ _ (arrive_fresh c s him.noActive info amount expiry relExp total)]
  rw [probeEntry_eq c info s.nextInv amount expiry relExp total hok]
  simp only [List.nil_append]
  have h2 : sstep c .current
      { s with active := some (probeE info s.nextInv amount expiry, { pc := .fetch, served := [] }), nextInv := s.nextInv + 1 }
      (.serve .owner .dsList) =
      some ({ s with active := some (probeE info s.nextInv amount expiry, { pc := .fetch, served := [(.dsList, .listed s.ds)] }),
                     nextInv := s.nextInv + 1 }, []) := by
    simp [sstep, stepServeOwner, nodeServe, OPc.outstanding, lookupS]
  rw [srunO_cons _ _ _ _ _ _ _ h2]
  simp only [List.nil_append]
  have h3 : sstep c .current
      { s with active := some (probeE info s.nextInv amount expiry, { pc := .fetch, served := [(.dsList, .listed s.ds)] }),
               nextInv := s.nextInv + 1 } (.deliver .owner .dsList) =
      some ({ s with active := some (probeE info s.nextInv amount expiry, { pc := .waitHtlcs (s.mono + c.mppTimeout), served := [] }),
                     nextInv := s.nextInv + 1 }, []) := by
    simp [sstep, stepDeliverOwner, OPc.outstanding, lookupS, fetch_free_enter c _ _ _ hfree, enterWait, hmpp, applyONext,
      keepServed, sameWait]
  rw [srunO_cons _ _ _ _ _ _ _ h3]
  simp only [List.nil_append]
  have htail := c09_from_wait c { s with nextInv := s.nextInv + 1 } info s.nextInv amount expiry (s.mono + c.mppTimeout) pid x
    (fun hm => absurd rfl (him.freshAid _ hm)) hpid
  obtain ⟨s', hs'⟩ := htail
  refine ⟨s', ?_⟩
  have : ({ s with active := some (probeE info s.nextInv amount expiry, { pc := .waitHtlcs (s.mono + c.mppTimeout), served := [] }),
                   nextInv := s.nextInv + 1 } : SState) =
         { ({ s with nextInv := s.nextInv + 1 } : SState) with
            active := some (probeE info s.nextInv amount expiry, { pc := .waitHtlcs (s.mono + c.mppTimeout), served := [] }) } := rfl
  rw [this]
  have hl : ([SAct.takeReady, SAct.readParams, SAct.readHeight,
      SAct.serve TaskRef.owner (SReq.dsWriteState (DsVal.pending s.nextAid s.wall) DsMode.createOrReplace),
      SAct.deliver TaskRef.owner (SReq.dsWriteState (DsVal.pending s.nextAid s.wall) DsMode.createOrReplace),
      SAct.serve TaskRef.owner (SReq.dsWriteAttempt s.nextAid DsMode.mustCreate),
      SAct.deliver TaskRef.owner (SReq.dsWriteAttempt s.nextAid DsMode.mustCreate), SAct.create pid,
      SAct.resolve pid (PStatus.complete x), SAct.payEnd (PReply.payComplete x),
      SAct.deliver TaskRef.owner (SReq.prov PReq.pay)] : List SAct) =
      probeTail { s with nextInv := s.nextInv + 1 } pid x := rfl
  rw [hl, hs']
  rfl

/-- the listing phase of the restart path over an image whose record says Pending -/
def probePendingListing (info : SInfo) (amount expiry : Nat) (relExp : Int) (total : Nat) : List SAct :=
  [ .arrive info amount expiry relExp total, .serve .owner .dsList, .deliver .owner .dsList,
    .serve .owner (.prov .listPending), .deliver .owner (.prov .listPending), .serve .owner (.prov .listComplete) ]

theorem c09_pending_listing (c : Cfg) (s : SState) (him : Image s) (aid t g : Nat)
    (hds : s.ds = some (.pending aid t, g)) (info : SInfo) (amount expiry : Nat) (relExp : Int) (total : Nat)
    (hok : ProbeOk c info amount relExp total) :
    srunO c .current s (probePendingListing info amount expiry relExp total) =
      some ({ s with active := some (probeE info s.nextInv amount expiry,
                       { pc := .rWait aid g t (.seqComplete []),
                         served := [(.prov .listComplete, .prov (.completePres (completePres s.parts)))] }),
                     nextInv := s.nextInv + 1 }, []) := by
  unfold probePendingListing
  rw [srunO_cons _ _ _ _ _ _ _ (arrive_fresh c s him.noActive info amount expiry relExp total)]
  rw [probeEntry_eq c info s.nextInv amount expiry relExp total hok]
  simp only [List.nil_append]
  have h2 : sstep c .current
      { s with active := some (probeE info s.nextInv amount expiry, { pc := .fetch, served := [] }), nextInv := s.nextInv + 1 }
      (.serve .owner .dsList) =
      some ({ s with active := some (probeE info s.nextInv amount expiry, { pc := .fetch, served := [(.dsList, .listed s.ds)] }),
                     nextInv := s.nextInv + 1 }, []) := by
    simp [sstep, stepServeOwner, nodeServe, OPc.outstanding, lookupS]
  rw [srunO_cons _ _ _ _ _ _ _ h2]
  simp only [List.nil_append]
  have h3 : sstep c .current
      { s with active := some (probeE info s.nextInv amount expiry, { pc := .fetch, served := [(.dsList, .listed s.ds)] }),
               nextInv := s.nextInv + 1 } (.deliver .owner .dsList) =
      some ({ s with active := some (probeE info s.nextInv amount expiry, { pc := .rWait aid g t .seqPending, served := [] }),
                     nextInv := s.nextInv + 1 }, []) := by
    simp [sstep, stepDeliverOwner, OPc.outstanding, lookupS, hds, ownerCont, applyONext, keepServed, sameWait, WPc.start,
      SVariant.current, Variant.current]
  rw [srunO_cons _ _ _ _ _ _ _ h3]
  simp only [List.nil_append]
  have h4 : sstep c .current
      { s with active := some (probeE info s.nextInv amount expiry, { pc := .rWait aid g t .seqPending, served := [] }),
               nextInv := s.nextInv + 1 } (.serve .owner (.prov .listPending)) =
      some ({ s with active := some (probeE info s.nextInv amount expiry,
                       { pc := .rWait aid g t .seqPending, served := [(.prov .listPending, .prov (.pendingIds []))] }),
                     nextInv := s.nextInv + 1 }, []) := by
    simp [sstep, stepServeOwner, nodeServe, serveRead, OPc.outstanding, WPc.outstanding, lookupS, him.settled]
  rw [srunO_cons _ _ _ _ _ _ _ h4]
  simp only [List.nil_append]
  have h5 : sstep c .current
      { s with active := some (probeE info s.nextInv amount expiry,
                       { pc := .rWait aid g t .seqPending, served := [(.prov .listPending, .prov (.pendingIds []))] }),
               nextInv := s.nextInv + 1 } (.deliver .owner (.prov .listPending)) =
      some ({ s with active := some (probeE info s.nextInv amount expiry, { pc := .rWait aid g t (.seqComplete []), served := [] }),
                     nextInv := s.nextInv + 1 }, []) := by
    simp [sstep, stepDeliverOwner, OPc.outstanding, WPc.outstanding, lookupS, ownerCont, wDeliver, afterRestartWait, applyONext,
      keepServed, sameWait]
  rw [srunO_cons _ _ _ _ _ _ _ h5]
  simp only [List.nil_append]
  have h6 : sstep c .current
      { s with active := some (probeE info s.nextInv amount expiry, { pc := .rWait aid g t (.seqComplete []), served := [] }),
               nextInv := s.nextInv + 1 } (.serve .owner (.prov .listComplete)) =
      some ({ s with active := some (probeE info s.nextInv amount expiry,
                       { pc := .rWait aid g t (.seqComplete []),
                         served := [(.prov .listComplete, .prov (.completePres (completePres s.parts)))] }),
                     nextInv := s.nextInv + 1 }, []) := by
    simp [sstep, stepServeOwner, nodeServe, serveRead, OPc.outstanding, WPc.outstanding, lookupS]
  rw [srunO_cons _ _ _ _ _ _ _ h6]
  simp [srunO]

/-- Image "Pending", and a part of the interrupted attempt has completed: the set is settled with
    that part's preimage — nothing is paid. -/
theorem c09_pending_completed_settles (c : Cfg) (s : SState) (him : Image s) (aid t g : Nat)
    (hds : s.ds = some (.pending aid t, g)) (info : SInfo) (amount expiry : Nat) (relExp : Int) (total : Nat)
    (hok : ProbeOk c info amount relExp total) (x : Nat) (rest : List Nat) (hcp : completePres s.parts = x :: rest) :
    ∃ s', srunO c .current s (probePendingListing info amount expiry relExp total ++ [.deliver .owner (.prov .listComplete)]) =
      some (s', [Out.resp ⟨s.nextInv, amount, expiry⟩ (.resolve x)]) := by
  have h1 := c09_pending_listing c s him aid t g hds info amount expiry relExp total hok
  have h2 : sstep c .current
      { s with active := some (probeE info s.nextInv amount expiry,
                       { pc := .rWait aid g t (.seqComplete []),
                         served := [(.prov .listComplete, .prov (.completePres (completePres s.parts)))] }),
               nextInv := s.nextInv + 1 } (.deliver .owner (.prov .listComplete)) =
      some ({ s with active := none, bks := s.bks ++ [{ id := s.nextBk, pc := .succS aid x, served := none }],
                     nextBk := s.nextBk + 1, nextInv := s.nextInv + 1 },
            [Out.resp ⟨s.nextInv, amount, expiry⟩ (.resolve x)]) := by
    simp [sstep, stepDeliverOwner, OPc.outstanding, WPc.outstanding, lookupS, ownerCont, wDeliver, hcp, afterListings,
      afterRestartWait, applyONext, respAll, probeE]
  refine ⟨{ s with active := none, bks := s.bks ++ [{ id := s.nextBk, pc := .succS aid x, served := none }],
                   nextBk := s.nextBk + 1, nextInv := s.nextInv + 1 }, ?_⟩
  rw [srunO_append_eq, h1]
  simp only
  rw [srunO_cons _ _ _ _ _ _ _ h2]
  simp [srunO]

/-- the `mark_failed` phase when no part of the interrupted attempt is live -/
def probeMarkFailed (aid g : Nat) : List SAct :=
  [ .deliver .owner (.prov .listComplete),
    .serve .owner (.dsWriteAttempt aid .createOrReplace), .deliver .owner (.dsWriteAttempt aid .createOrReplace),
    .serve .owner (.dsWriteState .free (.mustReplace (some g))) ]

theorem c09_pending_mark_failed (c : Cfg) (s : SState) (him : Image s) (aid t g : Nat)
    (hds : s.ds = some (.pending aid t, g)) (info : SInfo) (amount expiry : Nat) (relExp : Int) (total : Nat)
    (hok : ProbeOk c info amount relExp total) (hcp : completePres s.parts = []) :
    srunO c .current s (probePendingListing info amount expiry relExp total ++ probeMarkFailed aid g) =
      some ({ s with ds := some (.free, g + 1),
                     attempts := (if s.attempts.contains aid then s.attempts else s.attempts ++ [aid]),
                     active := some (probeE info s.nextInv amount expiry,
                       { pc := .rFailS aid g t,
                         served := [(.dsWriteState .free (.mustReplace (some g)), .written (g + 1))] }),
                     nextInv := s.nextInv + 1 }, []) := by
  have h1 := c09_pending_listing c s him aid t g hds info amount expiry relExp total hok
  rw [srunO_append_eq, h1]
  simp only [List.nil_append]
  unfold probeMarkFailed
  have h2 : sstep c .current
      { s with active := some (probeE info s.nextInv amount expiry,
                       { pc := .rWait aid g t (.seqComplete []),
                         served := [(.prov .listComplete, .prov (.completePres (completePres s.parts)))] }),
               nextInv := s.nextInv + 1 } (.deliver .owner (.prov .listComplete)) =
      some ({ s with active := some (probeE info s.nextInv amount expiry, { pc := .rFailA aid g t, served := [] }),
                     nextInv := s.nextInv + 1 }, []) := by
    simp [sstep, stepDeliverOwner, OPc.outstanding, WPc.outstanding, lookupS, ownerCont, wDeliver, hcp, afterListings,
      afterRestartWait, applyONext, keepServed, sameWait]
  rw [srunO_cons _ _ _ _ _ _ _ h2]
  simp only [List.nil_append]
  have h3 : sstep c .current
      { s with active := some (probeE info s.nextInv amount expiry, { pc := .rFailA aid g t, served := [] }),
               nextInv := s.nextInv + 1 } (.serve .owner (.dsWriteAttempt aid .createOrReplace)) =
      some ({ s with attempts := (if s.attempts.contains aid then s.attempts else s.attempts ++ [aid]),
                     active := some (probeE info s.nextInv amount expiry,
                       { pc := .rFailA aid g t, served := [(.dsWriteAttempt aid .createOrReplace, .written 0)] }),
                     nextInv := s.nextInv + 1 }, []) := by
    simp [sstep, stepServeOwner, nodeServe, attemptWrite, OPc.outstanding, failMode_current, lookupS]
  rw [srunO_cons _ _ _ _ _ _ _ h3]
  simp only [List.nil_append]
  have h4 : sstep c .current
      { s with attempts := (if s.attempts.contains aid then s.attempts else s.attempts ++ [aid]),
               active := some (probeE info s.nextInv amount expiry,
                       { pc := .rFailA aid g t, served := [(.dsWriteAttempt aid .createOrReplace, .written 0)] }),
               nextInv := s.nextInv + 1 } (.deliver .owner (.dsWriteAttempt aid .createOrReplace)) =
      some ({ s with attempts := (if s.attempts.contains aid then s.attempts else s.attempts ++ [aid]),
                     active := some (probeE info s.nextInv amount expiry, { pc := .rFailS aid g t, served := [] }),
                     nextInv := s.nextInv + 1 }, []) := by
    simp [sstep, stepDeliverOwner, OPc.outstanding, failMode_current, lookupS, ownerCont, applyONext, keepServed, sameWait]
  rw [srunO_cons _ _ _ _ _ _ _ h4]
  simp only [List.nil_append]
  have h5 : sstep c .current
      { s with attempts := (if s.attempts.contains aid then s.attempts else s.attempts ++ [aid]),
               active := some (probeE info s.nextInv amount expiry, { pc := .rFailS aid g t, served := [] }),
               nextInv := s.nextInv + 1 } (.serve .owner (.dsWriteState .free (.mustReplace (some g)))) =
      some ({ s with ds := some (.free, g + 1),
                     attempts := (if s.attempts.contains aid then s.attempts else s.attempts ++ [aid]),
                     active := some (probeE info s.nextInv amount expiry,
                       { pc := .rFailS aid g t,
                         served := [(.dsWriteState .free (.mustReplace (some g)), .written (g + 1))] }),
                     nextInv := s.nextInv + 1 }, []) := by
    simp [sstep, stepServeOwner, nodeServe, dsWrite, hds, OPc.outstanding, lookupS]
  rw [srunO_cons _ _ _ _ _ _ _ h5]
  simp [srunO]

/-- Image "Pending", nothing of the interrupted attempt is live, and the attempt is older than the
    MPP timeout: this set is failed with temporary_trampoline_failure — and what it leaves behind is
    again an image, now with the state Free: `c09_free_settles` applies to the retry. -/
theorem c09_stale_pending_frees (c : Cfg) (s : SState) (him : Image s) (aid t g : Nat)
    (hds : s.ds = some (.pending aid t, g)) (info : SInfo) (amount expiry : Nat) (relExp : Int) (total : Nat)
    (hok : ProbeOk c info amount relExp total) (hcp : completePres s.parts = [])
    (hstale : c.mppTimeout - (s.wall - t) = 0) :
    ∃ s', srunO c .current s (probePendingListing info amount expiry relExp total ++ probeMarkFailed aid g ++
        [.deliver .owner (.dsWriteState .free (.mustReplace (some g)))]) =
      some (s', [Out.resp ⟨s.nextInv, amount, expiry⟩ (.fail .ttf)]) ∧
      Image s' ∧ s'.ds = some (.free, g + 1) := by
  have h1 := c09_pending_mark_failed c s him aid t g hds info amount expiry relExp total hok hcp
  have h2 : sstep c .current
      { s with ds := some (.free, g + 1),
               attempts := (if s.attempts.contains aid then s.attempts else s.attempts ++ [aid]),
               active := some (probeE info s.nextInv amount expiry,
                       { pc := .rFailS aid g t,
                         served := [(.dsWriteState .free (.mustReplace (some g)), .written (g + 1))] }),
               nextInv := s.nextInv + 1 } (.deliver .owner (.dsWriteState .free (.mustReplace (some g)))) =
      some ({ s with ds := some (.free, g + 1),
                     attempts := (if s.attempts.contains aid then s.attempts else s.attempts ++ [aid]),
                     active := none, nextInv := s.nextInv + 1 },
            [Out.resp ⟨s.nextInv, amount, expiry⟩ (.fail .ttf)]) := by
    simp [sstep, stepDeliverOwner, OPc.outstanding, lookupS, ownerCont, enterWait, hstale, applyONext, respAll, probeE]
  refine ⟨{ s with ds := some (.free, g + 1),
                   attempts := (if s.attempts.contains aid then s.attempts else s.attempts ++ [aid]),
                   active := none, nextInv := s.nextInv + 1 }, ?_, ?_, rfl⟩
  · rw [srunO_append_eq, h1]
    simp only
    rw [srunO_cons _ _ _ _ _ _ _ h2]
    simp [srunO]
  · refine ⟨rfl, him.noBks, him.notPaying, him.settled, ?_, ?_⟩
    · intro a ha
      simp only at ha ⊢
      split at ha
      · exact him.freshAid a ha
      · simp only [List.mem_append, List.mem_singleton] at ha
        rcases ha with ha | rfl
        · exact him.freshAid a ha
        · exact him.freshRec a t g hds
    · intro aid' t' g' hd; simp at hd

/-- Image "Pending", nothing of the interrupted attempt is live, and time is left: the record is
    freed and the set is paid and settled within the same lifecycle. -/
theorem c09_pending_pays (c : Cfg) (s : SState) (him : Image s) (aid t g : Nat)
    (hds : s.ds = some (.pending aid t, g)) (info : SInfo) (amount expiry : Nat) (relExp : Int) (total pid x : Nat)
    (hok : ProbeOk c info amount relExp total) (hcp : completePres s.parts = [])
    (hleft : c.mppTimeout - (s.wall - t) ≠ 0) (hpid : findPart s.parts pid = none) :
    ∃ s', srunO c .current s (probePendingListing info amount expiry relExp total ++ probeMarkFailed aid g ++
        [.deliver .owner (.dsWriteState .free (.mustReplace (some g)))] ++ probeTail s pid x) =
      some (s', [Out.pay info.bolt11 (if info.invHasAmount then none else some info.amount) (amount - info.amount)
                   (maxDelay c (min expiry 4294967295) s.height),
                 Out.resp ⟨s.nextInv, amount, expiry⟩ (.resolve x)]) := by
  have h1 := c09_pending_mark_failed c s him aid t g hds info amount expiry relExp total hok hcp
  have h2 : sstep c .current
      { s with ds := some (.free, g + 1),
               attempts := (if s.attempts.contains aid then s.attempts else s.attempts ++ [aid]),
               active := some (probeE info s.nextInv amount expiry,
                       { pc := .rFailS aid g t,
                         served := [(.dsWriteState .free (.mustReplace (some g)), .written (g + 1))] }),
               nextInv := s.nextInv + 1 } (.deliver .owner (.dsWriteState .free (.mustReplace (some g)))) =
      some ({ s with ds := some (.free, g + 1),
                     attempts := (if s.attempts.contains aid then s.attempts else s.attempts ++ [aid]),
                     active := some (probeE info s.nextInv amount expiry,
                       { pc := .waitHtlcs (s.mono + (c.mppTimeout - (s.wall - t))), served := [] }),
                     nextInv := s.nextInv + 1 }, []) := by
    simp [sstep, stepDeliverOwner, OPc.outstanding, lookupS, ownerCont, enterWait, hleft, applyONext, keepServed, sameWait]
  have hfresh : s.nextAid ∉ (if s.attempts.contains aid then s.attempts else s.attempts ++ [aid]) := by
    intro hm
    split at hm
    · exact absurd rfl (him.freshAid _ hm)
    · simp only [List.mem_append, List.mem_singleton] at hm
      rcases hm with hm | hm
      · exact absurd rfl (him.freshAid _ hm)
      · exact him.freshRec aid t g hds hm.symm
  obtain ⟨s', hs'⟩ := c09_from_wait c
    { s with ds := some (.free, g + 1),
             attempts := (if s.attempts.contains aid then s.attempts else s.attempts ++ [aid]), nextInv := s.nextInv + 1 }
    info s.nextInv amount expiry (s.mono + (c.mppTimeout - (s.wall - t))) pid x hfresh hpid
  refine ⟨s', ?_⟩
  rw [srunO_append_eq, srunO_append_eq, h1]
  simp only
  rw [srunO_cons _ _ _ _ _ _ _ h2]
  simp only [srunO, Option.map_some, List.nil_append]
  have hst : ({ s with ds := some (.free, g + 1), attempts := (if s.attempts.contains aid then s.attempts else s.attempts ++ [aid]), active := some (probeE info s.nextInv amount expiry, { pc := .waitHtlcs (s.mono + (c.mppTimeout - (s.wall - t))), served := [] }), nextInv := s.nextInv + 1 } : SState) =
      { ({ s with ds := some (.free, g + 1), attempts := (if s.attempts.contains aid then s.attempts else s.attempts ++ [aid]), nextInv := s.nextInv + 1 } : SState) with active := some (probeE info s.nextInv amount expiry, { pc := .waitHtlcs (s.mono + (c.mppTimeout - (s.wall - t))), served := [] }) } := rfl
  rw [hst]
  have hpt : probeTail s pid x = probeTail { s with ds := some (.free, g + 1), attempts := (if s.attempts.contains aid then s.attempts else s.attempts ++ [aid]), nextInv := s.nextInv + 1 } pid x := rfl
  rw [hpt, hs']
  rfl

/-- Pinned tree (defect D4): the image "Pending, attempt record missing" (a crash between the two
    writes of `add_payment_attempt`) is answered temporary_node_failure and is left EXACTLY as it was —
    so every later set meets the same fate. -/
theorem c09_pinned_wedge :
    ∃ outs, srunO { cltvDelta := 34, policyDelta := 144, feeBase := 1000, feePpm := 5000, mppTimeout := 60 } .pinned { SState.init with ds := some (.pending 1 0, 0), nextAid := 2 }
      [ .arrive ⟨0, 1000000, true⟩ 1006000 1400 300 1006000, .serve .owner .dsList, .deliver .owner .dsList,
        .serve .owner (.prov .listComplete), .serve .owner (.prov .listPending),
        .deliver .owner (.prov .listComplete), .deliver .owner (.prov .listPending),
        .serve .owner (.dsWriteAttempt 1 (.mustReplace none)), .deliver .owner (.dsWriteAttempt 1 (.mustReplace none)) ] =
      some ({ SState.init with ds := some (.pending 1 0, 0), nextAid := 2, nextInv := 1 }, outs) ∧
      outs = [Out.resp ⟨0, 1006000, 1400⟩ (.fail .tnf)] := ⟨_, rfl, rfl⟩

/-! Non-vacuity: the hypotheses of the image theorems are met by concrete images. -/
example : Image { SState.init with ds := some (.pending 1 0, 0), nextAid := 2, parts := [⟨1, .failed⟩] } :=
  ⟨rfl, rfl, rfl, rfl, by intro a ha; simp [SState.init] at ha,
   by intro a t g h; simp only [Option.some.injEq, Prod.mk.injEq, DsVal.pending.injEq] at h; obtain ⟨⟨h1, _⟩, _⟩ := h; subst h1; decide⟩
example : ProbeOk { cltvDelta := 34, policyDelta := 144, feeBase := 1000, feePpm := 5000, mppTimeout := 60 }
    ⟨0, 1000000, true⟩ 1006000 300 1006000 := ⟨by decide, by decide, by decide, by decide⟩

end Tramp
