/-
C13 (system clause) — a non-trampoline HTLC makes no RPC call, stores nothing and retains no state.
`handleHtlc` is the top of `handle_htlc`: when the classification is not "trampoline" the global
state is returned unchanged, no output (no request, no response of a held HTLC) is produced, and the
answer is immediate.
-/
import Tramp.Model.Product
import Tramp.Props.C13
import Tramp.Props.C10

namespace Tramp

theorem c13_no_effect (c : Cfg) (v : SVariant) (parse : Bytes → Option InvoiceView) (allow : Bool) (key : Bytes → Nat)
    (b11 : Bytes → Nat) (g : GState) (req : Req) (h : ∀ i f, classify parse allow req ≠ .tramp i f) :
    ∃ im, handleHtlc c v parse allow key b11 g req = (some (g, []), some im) := by
  unfold handleHtlc
  cases hc : classify parse allow req with
  | cont p => exact ⟨_, rfl⟩
  | failTNF => exact ⟨_, rfl⟩
  | tramp i f => exact absurd hc (h i f)

/-- and a trampoline request touches exactly one component: the one of the invoice's (= the HTLC's,
    C10) payment hash -/
theorem c13_tramp_one_component (c : Cfg) (v : SVariant) (parse : Bytes → Option InvoiceView) (allow : Bool)
    (key : Bytes → Nat) (b11 : Bytes → Nat) (g g' : GState) (req : Req) (i : Info) (f : Nat) (outs : List (Nat × Out))
    (hc : classify parse allow req = .tramp i f)
    (hs : (handleHtlc c v parse allow key b11 g req).1 = some (g', outs)) :
    ∀ k, k ≠ key req.htlc.hash → g'.comps k = g.comps k := by
  unfold handleHtlc at hs
  rw [hc] at hs
  simp only [gstep] at hs
  have hh := (c10_hash_eq parse allow req i f hc).1
  split at hs
  · simp only [Option.some.injEq, Prod.mk.injEq] at hs
    intro k hk
    rw [← hs.1]
    simp only [setComp]
    rw [hh]
    simp [hk]
  · simp at hs

end Tramp
