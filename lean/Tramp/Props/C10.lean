/-
C10 — Trampoline parameters come only from a signed invoice with unambiguous amount.

Statement: an HTLC is treated as a trampoline payment only if its metadata carries a BOLT11 invoice
that parses, has a valid signature and whose payment hash equals the HTLC's. The amount to deliver
is the invoice amount when present (a well-formed accompanying amount field must agree), otherwise
exactly the sender-declared amount, and the payee is the key the invoice's signature verifies
against; if the local node is the last hop of a route hint and that is disallowed by configuration,
the HTLC is failed, not paid.

All theorems quantify over EVERY request and EVERY `parse` function (lightning-invoice is a
parameter: nothing is assumed about it; that the recovered payee is the key the signature verifies
against is a fact about that crate, checked by the suite's oracle, not proved).
-/
import Tramp.Proofs.Classify

namespace Tramp

/-- the conditions under which a request is a trampoline request, spelled out -/
def IsTrampoline (parse : Bytes → Option InvoiceView) (allow : Bool) (req : Req) (i : Info) (f : Nat) : Prop :=
  req.onion.hasScid = false ∧
  ∃ mdE md invE v a,
    getEntry req.onion.payload TLV_PAYMENT_METADATA = some mdE ∧
    fromBytes mdE.value = .ok md ∧
    getEntry md TLV_TRAMPOLINE_INVOICE = some invE ∧
    parse invE.value = some v ∧
    v.sigOk = true ∧
    v.hash = req.htlc.hash ∧
    reconcileAmount v.amount (tlvAmount md) = some a ∧
    i = { bolt11 := invE.value, amount := a, inv := v } ∧
    ¬ (v.selfLastHop = true ∧ allow = false) ∧
    req.onion.forwardMsat = some f

theorem extract_info_iff (parse : Bytes → Option InvoiceView) (req : Req) (i : Info) :
    extractWith true parse req = .info i ↔
    ∃ mdE md invE v a,
      getEntry req.onion.payload TLV_PAYMENT_METADATA = some mdE ∧
      fromBytes mdE.value = .ok md ∧
      getEntry md TLV_TRAMPOLINE_INVOICE = some invE ∧
      parse invE.value = some v ∧
      v.sigOk = true ∧
      v.hash = req.htlc.hash ∧
      reconcileAmount v.amount (tlvAmount md) = some a ∧
      i = { bolt11 := invE.value, amount := a, inv := v } := by
  unfold extractWith
  constructor
  · intro h
    split at h
    · simp at h
    · rename_i mdE h1
      split at h
      · rename_i md h2
        split at h
        · simp at h
        · rename_i invE h3
          split at h
          · simp at h
          · rename_i v h4
            split at h
            · simp at h
            · rename_i hs
              split at h
              · simp at h
              · rename_i hh
                split at h
                · simp at h
                · rename_i a h5
                  simp only [Extract.info.injEq] at h
                  refine ⟨mdE, md, invE, v, a, h1, h2, h3, h4, ?_, ?_, h5, h.symm⟩
                  · simpa using hs
                  · simpa using hh
      · simp at h
  · rintro ⟨mdE, md, invE, v, a, h1, h2, h3, h4, hs, hh, h5, rfl⟩
    simp [h1, h2, h3, h4, hs, hh, h5]

/-- C10, main statement: `classify` says "trampoline" EXACTLY under the listed conditions. -/
theorem c10_classify_iff (parse : Bytes → Option InvoiceView) (allow : Bool) (req : Req) (i : Info) (f : Nat) :
    classify parse allow req = .tramp i f ↔ IsTrampoline parse allow req i f := by
  unfold classify classifyWith IsTrampoline
  constructor
  · intro h
    split at h
    · unfold defaultResponse at h; repeat' split at h
      all_goals simp at h
    · rename_i hsc
      split at h
      · unfold defaultResponse at h; repeat' split at h
        all_goals simp at h
      · unfold defaultResponse at h; repeat' split at h
        all_goals simp at h
      · rename_i i' hex
        split at h
        · simp at h
        · rename_i hself
          split at h
          · unfold defaultResponse at h; repeat' split at h
            all_goals simp at h
          · rename_i f' hf
            simp only [Class.tramp.injEq] at h
            obtain ⟨rfl, rfl⟩ := h
            obtain ⟨mdE, md, invE, v, a, h1, h2, h3, h4, hs, hh, h5, hi⟩ := (extract_info_iff parse req i').mp hex
            refine ⟨by simpa using hsc, mdE, md, invE, v, a, h1, h2, h3, h4, hs, hh, h5, hi, ?_, hf⟩
            subst hi
            intro ⟨ha, hb⟩
            apply hself
            simp [ha, hb]
  · rintro ⟨hsc, mdE, md, invE, v, a, h1, h2, h3, h4, hs, hh, h5, hi, hself, hf⟩
    have hex := (extract_info_iff parse req i).mpr ⟨mdE, md, invE, v, a, h1, h2, h3, h4, hs, hh, h5, hi⟩
    subst hi
    have hself' : ¬ ((v.selfLastHop && !allow) = true) := by
      intro hc; apply hself; simpa using hc
    simp [hsc, hex, hf, hself']

/-- the invoice is signed and is FOR THIS HTLC's hash (feeds C01) -/
theorem c10_hash_eq (parse : Bytes → Option InvoiceView) (allow : Bool) (req : Req) (i : Info) (f : Nat)
    (h : classify parse allow req = .tramp i f) : i.inv.hash = req.htlc.hash ∧ i.inv.sigOk = true := by
  obtain ⟨_, mdE, md, invE, v, a, _, _, _, _, hs, hh, _, hi, _, _⟩ := (c10_classify_iff parse allow req i f).mp h
  subst hi; exact ⟨hh, hs⟩

/-- the bolt11 handed on, the payee and every other attribute are those of the very invoice that
    `parse` accepted: nothing is taken from anywhere else -/
theorem c10_invoice_source (parse : Bytes → Option InvoiceView) (allow : Bool) (req : Req) (i : Info) (f : Nat)
    (h : classify parse allow req = .tramp i f) : parse i.bolt11 = some i.inv := by
  obtain ⟨_, mdE, md, invE, v, a, _, _, _, h4, _, _, _, hi, _, _⟩ := (c10_classify_iff parse allow req i f).mp h
  subst hi; exact h4

/-- amount rule, as a function of the invoice amount and the (well-formed) amount record -/
theorem c10_amount_rule (invAmount tlv : Option Nat) (a : Nat) (h : reconcileAmount invAmount tlv = some a) :
    (∀ x, invAmount = some x → a = x) ∧
    (∀ x t, invAmount = some x → tlv = some t → x = t) ∧
    (invAmount = none → tlv = some a) := by
  unfold reconcileAmount at h
  split at h
  · rename_i x t
    split at h
    · rename_i hxt; simp at h; subst h; subst hxt
      exact ⟨fun y hy => by simp at hy; exact hy, fun y t' hy ht => by simp at hy ht; omega, fun hn => by simp at hn⟩
    · simp at h
  · rename_i x; simp at h; subst h
    exact ⟨fun y hy => by simp at hy; exact hy, fun y t' _ ht => by simp at ht, fun hn => by simp at hn⟩
  · rename_i t; simp at h; subst h
    exact ⟨fun y hy => by simp at hy, fun y t' hy _ => by simp at hy, fun _ => rfl⟩
  · simp at h

/-- the amount record is `some` only for a field of at most 8 bytes, and then it is its big-endian value -/
theorem c10_tlvAmount_wellformed (md : List Entry) (t : Nat) (h : tlvAmount md = some t) :
    ∃ e, getEntry md TLV_TRAMPOLINE_AMOUNT = some e ∧ e.value.length ≤ 8 ∧ t = beVal e.value := by
  unfold tlvAmount at h
  split at h
  · simp at h
  · rename_i e he
    refine ⟨e, he, ?_⟩
    by_cases hl : e.value.length ≤ 8
    · rw [c18_tu64_value' e.value hl] at h
      simp at h
      exact ⟨hl, h.symm⟩
    · rw [c18_tu64_reject' e.value (by omega)] at h
      simp at h

/-- C10 amount clause, on classified requests -/
theorem c10_amount (parse : Bytes → Option InvoiceView) (allow : Bool) (req : Req) (i : Info) (f : Nat)
    (h : classify parse allow req = .tramp i f) :
    ∃ md, (∀ x, i.inv.amount = some x → i.amount = x) ∧
          (∀ x t, i.inv.amount = some x → tlvAmount md = some t → x = t) ∧
          (i.inv.amount = none → tlvAmount md = some i.amount) := by
  obtain ⟨_, mdE, md, invE, v, a, _, _, _, _, _, _, h5, hi, _, _⟩ := (c10_classify_iff parse allow req i f).mp h
  subst hi
  exact ⟨md, c10_amount_rule _ _ _ h5⟩

/-- self-route-hint clause: whenever every other condition is met but the local node is the last
    hop of a hint and that is disallowed, the answer is `fail temporary_node_failure` — never
    `trampoline` (so nothing is stored and no RPC is made: see C13/`c13_no_effect`). -/
theorem c10_selfhint_fails (parse : Bytes → Option InvoiceView) (req : Req) (i : Info)
    (hsc : req.onion.hasScid = false) (hex : extractWith true parse req = .info i)
    (hself : i.inv.selfLastHop = true) : classify parse false req = .failTNF := by
  unfold classify classifyWith
  simp [hsc, hex, hself]

/-- Pinned tree (defect D1): without the hash comparison an HTLC of hash `[1]` carrying a signed
    invoice for hash `[0]` is classified as trampoline. -/
theorem c10_pinned_counterexample :
    ∃ parse req i f, classifyPinned parse true req = .tramp i f ∧ i.inv.hash ≠ req.htlc.hash ∧
      classify parse true req = .cont none := by
  refine ⟨fun _ => some ⟨[0], some 5, true, false, 7⟩,
    { onion := { payload := [⟨16, [0xfd, 0x80, 0xe9, 0x01, 0x41]⟩], hasScid := false, forwardMsat := some 9, totalMsat := none },
      htlc := { amountMsat := 9, cltvExpiry := 0, cltvRel := 0, hash := [1] } },
    { bolt11 := [0x41], amount := 5, inv := ⟨[0], some 5, true, false, 7⟩ }, 9, ?_, ?_, ?_⟩
  · rfl
  · decide
  · rfl

/-! Non-vacuity: a concrete request that IS a trampoline request -/
example : classify (fun _ => some ⟨[1], some 5, true, false, 7⟩) true
    { onion := { payload := [⟨16, [0xfd, 0x80, 0xe9, 0x01, 0x41]⟩], hasScid := false, forwardMsat := some 9, totalMsat := none },
      htlc := { amountMsat := 9, cltvExpiry := 0, cltvRel := 0, hash := [1] } }
    = .tramp { bolt11 := [0x41], amount := 5, inv := ⟨[1], some 5, true, false, 7⟩ } 9 := by rfl

end Tramp
