/-
C11 — Incomplete multi-part sets fail at the MPP timeout: not before, not much later.

Statement: a set of HTLCs that never reaches the required total, for a payment with no outgoing
attempt pending or completed, is failed back with a temporary trampoline failure once the configured
MPP timeout has elapsed since the plugin began waiting for it, and no outgoing payment is started
for it. For a set with no earlier attempt this never happens before the timeout unless a policy
rejection occurs, and a restart never grants more than one further timeout period.

"Began waiting" = the owner entered the `select!` (after the stored state was read and, on the
restart path, the fate of the interrupted attempt is known; DESIGN.md §9). Partial: that tokio fires
a due timer promptly is the runtime's (E8) — in the model the timer step is ENABLED from the
deadline on and suite `system` observes it firing at exactly the deadline under virtual time.
-/
import Tramp.Props.Sys
import Tramp.Proofs.SysDeadline

namespace Tramp

/-- once the clock has reached the deadline the timer step is enabled; taking it answers ALL held
    HTLCs with temporary_trampoline_failure and ends the lifecycle (which therefore never pays) -/
theorem c11_timeout_fails (c : Cfg) (s : SState) (e : PEntry) (o : Owner) (d : Nat)
    (hact : s.active = some (e, o)) (hpc : o.pc = .waitHtlcs d) (hdue : s.mono ≥ d) :
    sstep c .current s .timerFire = some ({ s with active := none }, e.listeners.map (fun i => Out.resp i (.fail .ttf))) := by
  simp [sstep, hact, hpc, hdue, respAll]

/-- …and not before: the timer step is not enabled while the clock is below the deadline -/
theorem c11_not_before (c : Cfg) (s : SState) (e : PEntry) (o : Owner) (d : Nat)
    (hact : s.active = some (e, o)) (hpc : o.pc = .waitHtlcs d) (hearly : s.mono < d) :
    sstep c .current s .timerFire = none := by
  have : ¬ s.mono ≥ d := by omega
  simp [sstep, hact, hpc, this]

/-- with no earlier attempt on record (state absent or Free) and a non-zero timeout the deadline is
    exactly one MPP timeout after the moment the stored state was read -/
theorem c11_fresh_deadline (c : Cfg) (s : SState) (q : SReq) (g : Nat) (hm : c.mppTimeout ≠ 0) :
    ownerCont c .current s .fetch q (.listed none) = .stay (.waitHtlcs (s.mono + c.mppTimeout)) ∧
    ownerCont c .current s .fetch q (.listed (some (.free, g))) = .stay (.waitHtlcs (s.mono + c.mppTimeout)) := by
  simp [ownerCont, enterWait, hm]

/-- a restart grants what is left of ONE timeout counted from the interrupted attempt's start —
    never more than one further timeout period, and nothing at all once the attempt is older than that -/
theorem c11_restart_budget (c : Cfg) (s : SState) (aid g t g' : Nat) (q : SReq) :
    (c.mppTimeout - (s.wall - t) ≤ c.mppTimeout) ∧
    (c.mppTimeout - (s.wall - t) = 0 →
      ownerCont c .current s (.rFailS aid g t) q (.written g') = .finish (.fail .ttf)) ∧
    (c.mppTimeout - (s.wall - t) ≠ 0 →
      ownerCont c .current s (.rFailS aid g t) q (.written g') =
        .stay (.waitHtlcs (s.mono + (c.mppTimeout - (s.wall - t))))) := by
  refine ⟨by omega, ?_, ?_⟩ <;> intro h <;> simp [ownerCont, enterWait, h]

/-- the deadline of a waiting lifecycle is never more than one MPP timeout ahead of the clock -/
def DeadlineOk (c : Cfg) (s : SState) : Prop :=
  ∀ e o d, s.active = some (e, o) → o.pc = .waitHtlcs d → d ≤ s.mono + c.mppTimeout

/-- In EVERY state the plugin can reach — whatever was scheduled, crashed or made to fail, read
    faults included — the deadline of a waiting lifecycle is at most one MPP timeout ahead of the
    clock: a restart, a retry or a late HTLC never re-arms or extends the timer
    (`dl_step`: inductive under every action). -/
theorem c11_deadline_bound (c : Cfg) (acts : List SAct) (s : SState)
    (hr : srun c .current SState.init acts = some s) : DeadlineOk c s := by
  intro e o d ha hpc
  have := dl_run c acts SState.init s (dl_init c) hr e o ha
  rw [hpc] at this; exact this

/-- …hence once one MPP timeout has passed on the clock the timer step is enabled, and taking it
    answers every held HTLC with temporary_trampoline_failure (C06: "no later than one MPP timeout
    after the plugin has read the payment's stored state"; promptness of tokio's timer is E8). -/
theorem c11_due_after_one_timeout (c : Cfg) (acts : List SAct) (s : SState) (e : PEntry) (o : Owner) (d dt : Nat)
    (hr : srun c .current SState.init acts = some s) (hact : s.active = some (e, o)) (hpc : o.pc = .waitHtlcs d)
    (hdt : c.mppTimeout ≤ dt) :
    sstep c .current { s with mono := s.mono + dt } .timerFire =
      some ({ s with mono := s.mono + dt, active := none }, e.listeners.map (fun i => Out.resp i (.fail .ttf))) := by
  have hb := c11_deadline_bound c acts s hr e o d hact hpc
  have hdue : s.mono + dt ≥ d := by omega
  simp [sstep, hact, hpc, hdue, respAll]

/-- non-vacuity: a partial HTLC whose stored state was read is waiting, with its deadline 60 s ahead -/
example : ∃ s e o, srun demoCfg .current SState.init
    [.arrive ⟨1, 1000000, true⟩ 500000 1300 300 1006000, .serve .owner .dsList, .deliver .owner .dsList] = some s ∧
    s.active = some (e, o) ∧ o.pc = .waitHtlcs 60 := by
  refine ⟨_, _, _, rfl, rfl, rfl⟩

theorem afterRestartWait_no_ttf (aid g t : Nat) (w : WPc) :
    (afterRestartWait aid g t w ≠ .finish (.fail .ttf)) ∧ (∀ b, afterRestartWait aid g t w ≠ .finishBk (.fail .ttf) b) := by
  cases w with
  | ret res => cases res <;> simp [afterRestartWait]
  | seqPending => simp [afterRestartWait]
  | seqComplete p => simp [afterRestartWait]
  | conc a b => simp [afterRestartWait]
  | waiting rem => simp [afterRestartWait]

theorem afterPay_no_finish (aid g : Nat) (p : PPc) (r : Resp) : afterPay aid g p ≠ .finish r := by
  cases p with
  | retPay res => cases res <;> simp [afterPay]
  | paying => simp [afterPay]
  | inWait f w => simp [afterPay]
  | retWait res => simp [afterPay]

/-- Where a temporary_trampoline_failure can come from, apart from the timer (`c11_timeout_fails`) and
    a conflicting HTLC pushed into the fail channel (`takeFail`): the owner's continuations give it
    only (b) at once when no time is left — timeout 0 at `fetch`, or a stale interrupted attempt at
    the end of the restart path — or (d) after an outgoing attempt failed for good. Never
    spontaneously, and never while collecting with time left. -/
theorem c11_ttf_sources (c : Cfg) (s : SState) (pc : OPc) (q : SReq) (r : SReply) :
    (ownerCont c .current s pc q r = .finish (.fail .ttf) →
      (pc = .fetch ∧ c.mppTimeout = 0) ∨ (∃ aid g t, pc = .rFailS aid g t ∧ c.mppTimeout - (s.wall - t) = 0)) ∧
    (∀ b, ownerCont c .current s pc q r = .finishBk (.fail .ttf) b → ∃ aid g p, pc = .paying aid g p) := by
  cases pc with
  | fetch =>
    cases r with
    | listed cell =>
      rcases cell with _ | ⟨v0, g0⟩
      · simp only [ownerCont, enterWait]
        exact ⟨by intro h; split at h <;> simp at h; rename_i h0; exact Or.inl ⟨trivial, h0⟩, by intro b h; split at h <;> simp at h⟩
      · cases v0 <;> simp only [ownerCont, enterWait]
        · exact ⟨by intro h; split at h <;> simp at h; rename_i h0; exact Or.inl ⟨trivial, h0⟩, by intro b h; split at h <;> simp at h⟩
        · exact ⟨by intro h; simp at h, by intro b h; simp at h⟩
        · exact ⟨by intro h; simp at h, by intro b h; simp at h⟩
    | listErr => simp [ownerCont]
    | written g0 => simp [ownerCont]
    | writeErr => simp [ownerCont]
    | prov pr => simp [ownerCont]
  | rWait aid g t w =>
    cases r with
    | prov pr =>
      cases q with
      | prov pq =>
        simp only [ownerCont]
        have := afterRestartWait_no_ttf aid g t (wDeliver w pq pr)
        exact ⟨fun h => absurd h this.1, fun b h => absurd h (this.2 b)⟩
      | dsList => simp [ownerCont]
      | dsWriteState a b => simp [ownerCont]
      | dsWriteAttempt a b => simp [ownerCont]
    | listed cell => simp [ownerCont]
    | listErr => simp [ownerCont]
    | written g0 => simp [ownerCont]
    | writeErr => simp [ownerCont]
  | rFailA aid g t => cases r <;> simp [ownerCont]
  | rFailS aid g t =>
    cases r <;> simp only [ownerCont, enterWait]
    case written g0 =>
      exact ⟨by intro h; split at h <;> simp at h; rename_i h0; exact Or.inr ⟨aid, g, t, rfl, h0⟩, by intro b h; split at h <;> simp at h⟩
    all_goals exact ⟨by intro h; simp at h, by intro b h; simp at h⟩
  | waitHtlcs d => cases r <;> simp [ownerCont]
  | gotReady => cases r <;> simp [ownerCont]
  | gotParams a b => cases r <;> simp [ownerCont]
  | addS aid t mf0 md0 => cases r <;> simp [ownerCont]
  | addA aid g mf0 md0 => cases r <;> simp [ownerCont]
  | paying aid g p =>
    cases r with
    | prov pr =>
      cases q with
      | prov pq =>
        simp only [ownerCont]
        exact ⟨fun h => absurd h (afterPay_no_finish aid g _ _), fun b _ => ⟨aid, g, p, rfl⟩⟩
      | dsList => simp [ownerCont]
      | dsWriteState a b => simp [ownerCont]
      | dsWriteAttempt a b => simp [ownerCont]
    | listed cell => simp [ownerCont]
    | listErr => simp [ownerCont]
    | written g0 => simp [ownerCont]
    | writeErr => simp [ownerCont]
  | panicked => cases r <;> simp [ownerCont]

end Tramp
