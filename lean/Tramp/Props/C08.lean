/-
C08 — Write-ahead: the durable record never understates the outgoing payment.

Statement: at every instant, if any outgoing part for a payment hash is pending or complete on the
node, the durable record for that hash says in-flight or succeeded, never free or absent. In
particular the in-flight marker is durably written before the pay request is issued, a free marker
is written only when nothing is pending or complete, and a succeeded record always holds a preimage
of that hash.

Every reachable state is a possible crash image (crash is also an explicit action); two lifecycles
of one hash overlap through the bookkeepers; write faults are refused writes and writes applied but
reported as failed.
-/
import Tramp.Props.Sys

namespace Tramp

/-- (W) at every instant: something pending or complete ⇒ the stored state is Pending or Succeeded -/
theorem c08_write_ahead (c : Cfg) (s : SState) (hr : Reach c s) (hlive : ¬ partsQuiet s.parts) :
    ∃ v g, s.ds = some (v, g) ∧ v ≠ .free :=
  hr.inv.wal (fun hq => hlive hq.1)

/-- the same while a pay command runs (before it has created any part) -/
theorem c08_marker_while_paying (c : Cfg) (s : SState) (hr : Reach c s) (hrun : s.payRunning = true) :
    ∃ v g, s.ds = some (v, g) ∧ v ≠ .free :=
  hr.inv.wal (fun hq => by have := hq.2; rw [hrun] at this; simp at this)

/-- the in-flight marker is durable BEFORE the pay request is issued -/
theorem c08_pending_before_pay (c : Cfg) (s s' : SState) (a : SAct) (outs : List Out) (b : Nat) (am : Option Nat)
    (mf md : Nat) (hr : Reach c s) (hs : sstep c .current s a = some (s', outs)) (ho : Out.pay b am mf md ∈ outs) :
    ∃ v g, s.ds = some (v, g) ∧ v ≠ .free := by
  cases hr.emit a hs with
  | silent h => rw [h] at ho; simp at ho
  | answered e o r _ houts _ _ => rw [houts] at ho; exact absurd ho pay_not_mem_respAll
  | paid e o aid g mf' md' _ _ _ _ hpm _ => exact hpm.2.2

/-- a free (or absent) record exists only at instants when nothing is pending or complete and no pay
    command runs — in particular right after a Free write landed -/
theorem c08_free_only_when_quiet (c : Cfg) (s : SState) (hr : Reach c s)
    (hfree : s.ds = none ∨ ∃ g, s.ds = some (.free, g)) : partsQuiet s.parts ∧ s.payRunning = false :=
  ds_quiet_of_free hr.inv hfree

/-- (S) a succeeded record holds the preimage of a part of this hash that is complete -/
theorem c08_succeeded_preimage (c : Cfg) (s : SState) (hr : Reach c s) (pre g : Nat)
    (hds : s.ds = some (.succeeded pre, g)) : HasComplete s.parts pre :=
  hr.inv.succ pre g hds

/-- Non-vacuity: a reachable state with a pending part (and the marker in place). -/
example : ∃ s, srun demoCfg .current SState.init (demoActs.take 11) = some s ∧ ¬ partsQuiet s.parts ∧
    s.ds = some (.pending 1 0, 0) := ⟨_, rfl, by decide, rfl⟩

end Tramp
