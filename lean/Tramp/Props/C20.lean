/-
C20 — Chain height never decreases and catches up within one poll interval.

Statement: the height the plugin uses equals the maximum of all heights it has been told so far
(startup query, periodic poll, block notifications) and therefore never decreases under any
interleaving of those sources. If notifications are lost, the height still catches up with the node
within one poll interval.

"Within one poll interval" is proved as: (a) once started, in EVERY reachable state the loop is
polling or its timer is armed with a deadline at most 60 s ahead — failed polls re-arm it
(`c20_timer_armed`), (b) a timer whose deadline has passed has turned into a poll (`c20_timer_fires`),
(c) consuming a successful poll reply lifts the register to at least the node's height at the
moment the node answered (`c20_poll_catches_up`). That tokio fires a due timer promptly and the RPC
is answered is the runtime's part (E8), observed by suite `height` under virtual time.
-/
import Tramp.Model.Height

namespace Tramp

def maxList (xs : List Nat) : Nat := xs.foldl max 0

theorem maxList_snoc (xs : List Nat) (n : Nat) : maxList (xs ++ [n]) = max (maxList xs) n := by
  simp [maxList, List.foldl_append]

theorem updateHeight_eq_max (a b : Nat) : updateHeight a b = max a b := by
  unfold updateHeight; split <;> omega

/-- one step keeps "register = maximum of everything told so far" -/
theorem hstep_max (s s' : HSt) (a : HAct) (h : hstep s a = some s') (hinv : s.height = maxList s.told) :
    s'.height = maxList s'.told := by
  cases a with
  | setNode n => simp [hstep] at h; subst h; exact hinv
  | notify n =>
    simp only [hstep] at h
    split at h <;> simp at h <;> subst h <;> simp [maxList_snoc, updateHeight_eq_max, hinv]
  | advance dt =>
    simp only [hstep] at h
    split at h
    · split at h <;> simp at h <;> subst h <;> exact hinv
    · simp at h; subst h; exact hinv
  | serve => simp only [hstep] at h; split at h <;> simp at h; subst h; exact hinv
  | serveErr => simp only [hstep] at h; split at h <;> simp at h; subst h; exact hinv
  | deliver =>
    simp only [hstep] at h
    split at h <;> simp at h <;> subst h <;> simp [maxList_snoc, updateHeight_eq_max, hinv]

/-- C20: after ANY sequence of events the height in use is the maximum of all heights told. -/
theorem c20_max (n0 : Nat) (acts : List HAct) (s : HSt) (h : hrun (HSt.init n0) acts = some s) :
    s.height = maxList s.told := by
  have gen : ∀ (acts : List HAct) (s0 s : HSt), s0.height = maxList s0.told → hrun s0 acts = some s →
      s.height = maxList s.told := by
    intro acts
    induction acts with
    | nil => intro s0 s hi hr; simp [hrun] at hr; subst hr; exact hi
    | cons a as ih =>
      intro s0 s hi hr
      simp only [hrun] at hr
      split at hr
      · rename_i s1 h1; exact ih s1 s (hstep_max s0 s1 a h1 hi) hr
      · simp at hr
  exact gen acts _ s rfl h

/-- the register never decreases, whatever the event -/
theorem c20_monotone (s s' : HSt) (a : HAct) (h : hstep s a = some s') : s.height ≤ s'.height := by
  cases a with
  | setNode n => simp [hstep] at h; subst h; simp
  | notify n =>
    simp only [hstep] at h
    split at h <;> simp at h <;> subst h <;> simp [updateHeight_eq_max] <;> omega
  | advance dt =>
    simp only [hstep] at h
    split at h
    · split at h <;> simp at h <;> subst h <;> simp
    · simp at h; subst h; simp
  | serve => simp only [hstep] at h; split at h <;> simp at h; subst h; simp
  | serveErr => simp only [hstep] at h; split at h <;> simp at h; subst h; simp
  | deliver =>
    simp only [hstep] at h
    split at h <;> simp at h <;> subst h <;> simp [updateHeight_eq_max] <;> omega

/-- … and hence over every execution, from every state (not only from `init`): no sequence of
    chain moves, stale/repeated notifications, failed polls and timer firings lowers the register. -/
theorem c20_monotone_run (acts : List HAct) (s s' : HSt) (h : hrun s acts = some s') :
    s.height ≤ s'.height := by
  induction acts generalizing s with
  | nil => simp [hrun] at h; subst h; exact Nat.le_refl _
  | cons a as ih =>
    simp only [hrun] at h
    cases hs : hstep s a with
    | none => rw [hs] at h; simp at h
    | some s1 =>
      rw [hs] at h
      exact Nat.le_trans (c20_monotone s s1 a hs) (ih s1 h)

theorem foldl_max_ge_acc (l : List Nat) (acc : Nat) : acc ≤ l.foldl max acc := by
  induction l generalizing acc with
  | nil => simp
  | cons x xs ih => simp only [List.foldl_cons]; exact Nat.le_trans (Nat.le_max_left acc x) (ih _)

theorem foldl_max_ge_mem (l : List Nat) (acc n : Nat) (hn : n ∈ l) : n ≤ l.foldl max acc := by
  induction l generalizing acc with
  | nil => simp at hn
  | cons x xs ih =>
    simp only [List.foldl_cons]
    simp only [List.mem_cons] at hn
    rcases hn with rfl | hn
    · exact Nat.le_trans (Nat.le_max_right acc n) (foldl_max_ge_acc xs _)
    · exact ih _ hn

/-- every height the plugin was ever told is a lower bound of the register, at every later time -/
theorem c20_told_le (n0 : Nat) (acts : List HAct) (s : HSt) (h : hrun (HSt.init n0) acts = some s)
    (n : Nat) (hn : n ∈ s.told) : n ≤ s.height := by
  rw [c20_max n0 acts s h]
  exact foldl_max_ge_mem s.told 0 n hn

/-- consuming a successful poll reply that carried `n` leaves the register at least `n` -/
theorem c20_poll_catches_up (s s' : HSt) (n : Nat) (hs : s.served = some (some n))
    (h : hstep s .deliver = some s') : n ≤ s'.height := by
  simp only [hstep, hs] at h
  cases hp : s.phase with
  | starting => rw [hp] at h; simp at h; subst h; simp [updateHeight_eq_max]; omega
  | polling => rw [hp] at h; simp at h; subst h; simp [updateHeight_eq_max]; omega
  | sleeping d => rw [hp] at h; simp at h
  | dead => rw [hp] at h; simp at h

/-- and the reply served is the node's height at that instant -/
theorem c20_serve_truthful (s s' : HSt) (h : hstep s .serve = some s') : s'.served = some (some s.nodeH) := by
  simp only [hstep] at h; split at h <;> simp at h; subst h; rfl

def LoopAlive (s : HSt) : Prop :=
  match s.phase with
  | .starting => True
  | .sleeping d => d ≤ s.now + POLL_INTERVAL
  | .polling => True
  | .dead => False

/-- Once started the loop never dies and its timer is never armed further than one interval ahead,
    whatever fails: a failed poll re-arms the timer. -/
theorem c20_timer_armed (s s' : HSt) (a : HAct) (h : hstep s a = some s') (hinv : LoopAlive s)
    (hstart : s.phase ≠ .starting) : LoopAlive s' ∧ s'.phase ≠ .starting := by
  unfold LoopAlive at *
  cases a with
  | setNode n => simp [hstep] at h; subst h; exact ⟨hinv, hstart⟩
  | notify n =>
    simp only [hstep] at h
    split at h <;> simp at h
    subst h; exact ⟨hinv, hstart⟩
  | advance dt =>
    simp only [hstep] at h
    split at h
    · rename_i d hp
      split at h <;> simp at h <;> subst h
      · simp
      · simp only [hp] at hinv ⊢; exact ⟨by omega, by simp⟩
    · rename_i hp
      simp at h; subst h
      cases hph : s.phase with
      | starting => exact absurd hph hstart
      | sleeping d => exact absurd hph (hp d)
      | polling => simp
      | dead => rw [hph] at hinv; exact hinv.elim
  | serve => simp only [hstep] at h; split at h <;> simp at h; subst h; exact ⟨hinv, hstart⟩
  | serveErr => simp only [hstep] at h; split at h <;> simp at h; subst h; exact ⟨hinv, hstart⟩
  | deliver =>
    simp only [hstep] at h
    split at h <;> simp at h
    · rename_i hp; exact absurd hp hstart
    · rename_i hp; exact absurd hp hstart
    · subst h; simp
    · subst h; simp

/-- a due timer has turned into a poll: no reachable state sleeps past its deadline -/
theorem c20_timer_fires (s s' : HSt) (a : HAct) (h : hstep s a = some s')
    (hinv : ∀ d, s.phase = .sleeping d → s.now < d) : ∀ d, s'.phase = .sleeping d → s'.now < d := by
  intro d hd
  cases a with
  | setNode n => simp [hstep] at h; subst h; exact hinv d hd
  | notify n =>
    simp only [hstep] at h
    split at h <;> simp at h
    subst h; exact hinv d hd
  | advance dt =>
    simp only [hstep] at h
    split at h
    · rename_i d' hp
      split at h <;> simp at h <;> subst h
      · simp at hd
      · simp only [hp, HPhase.sleeping.injEq] at hd; subst hd; simp; omega
    · rename_i hp
      simp at h; subst h
      exact absurd hd (hp d)
  | serve => simp only [hstep] at h; split at h <;> simp at h; subst h; exact hinv d hd
  | serveErr => simp only [hstep] at h; split at h <;> simp at h; subst h; exact hinv d hd
  | deliver =>
    simp only [hstep] at h
    split at h <;> simp at h <;> subst h <;> simp at hd
    all_goals (subst hd; simp [POLL_INTERVAL])

/-! Non-vacuity: a run in which notifications are stale/lost and a poll catches up -/
example : ∃ s, hrun (HSt.init 100)
    [.serve, .deliver, .notify 90, .setNode 105, .advance 60, .serveErr, .deliver, .advance 60, .serve, .deliver]
    = some s ∧ s.height = 105 ∧ s.told = [100, 90, 105] := ⟨_, rfl, rfl, rfl⟩

end Tramp
