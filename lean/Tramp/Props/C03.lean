/-
C03 — Pay only when fully covered, for the right amount, within the held budget.

Statement: the plugin asks the node to pay only when the HTLCs it is holding unanswered for that
hash total at least the amount to deliver plus the policy fee, and the fee budget it grants never
exceeds (held total − amount to deliver). It pays the invoice's own amount for fixed-amount invoices
and exactly the sender-declared amount for amountless ones, and the HTLCs counted stay held until
the payment's fate is known.

"Held" = the listeners of the table entry = the invocations delivered since the last restart and not
yet answered (after a crash the table is empty: only replayed HTLCs count). Sums are exact naturals;
`received` saturates at 2⁶⁴−1 and is only ever a LOWER bound of the true sum, so nothing here depends
on the absence of overflow.
-/
import Tramp.Props.Sys

namespace Tramp

/-- the arguments of every pay request, against the HTLCs held at that instant -/
theorem c03_pay_args (c : Cfg) (s s' : SState) (a : SAct) (outs : List Out) (b : Nat) (am : Option Nat)
    (mf md : Nat) (hr : Reach c s) (hs : sstep c .current s a = some (s', outs)) (ho : Out.pay b am mf md ∈ outs) :
    ∃ e o, s.active = some (e, o) ∧
      -- fully covered: held total ≥ amount + base + ⌊amount·ppm/10⁶⌋
      e.info.amount + c.feeBase + e.info.amount * c.feePpm / 1000000 ≤ sumAmounts e.listeners ∧
      -- the fee budget fits into what is held beyond the amount
      mf + e.info.amount ≤ sumAmounts e.listeners ∧
      -- fixed-amount invoice: no amount parameter; amountless: exactly the declared amount
      am = (if e.info.invHasAmount then none else some e.info.amount) := by
  cases hr.emit a hs with
  | silent h => rw [h] at ho; simp at ho
  | answered e o r _ houts _ _ => rw [houts] at ho; exact absurd ho pay_not_mem_respAll
  | paid e o aid g mf' md' hact hpc houts _ _ _ =>
    rw [houts] at ho
    simp only [payOut, List.mem_singleton, Out.pay.injEq] at ho
    obtain ⟨_, ham, hmf, _⟩ := ho
    have he := hr.einv.1 e o hact
    have hsent := he.past (by rw [hpc]; rfl)
    have hneed := he.ready hsent
    have hbud := he.budget mf' (by rw [hpc]; rfl)
    have hle := he.recvLe
    unfold needFor at hneed
    refine ⟨e, o, hact, by omega, by rw [hmf]; omega, ham⟩

/-- the HTLCs counted stay held until the payment's fate is known: a held HTLC is answered only by a
    step that answers all of them and removes the entry — while the owner is paying there is none -/
theorem c03_stay_held (c : Cfg) (s s' : SState) (a : SAct) (outs : List Out) (e : PEntry) (o : Owner) (e' : PEntry) (o' : Owner)
    (hr : Reach c s) (hs : sstep c .current s a = some (s', outs))
    (_hact : s.active = some (e, o)) (hact' : s'.active = some (e', o')) : ∀ i r, Out.resp i r ∉ outs := by
  intro i r ho
  cases hr.emit a hs with
  | silent h => rw [h] at ho; simp at ho
  | answered e0 o0 r0 _ _ hnone _ => rw [hnone] at hact'; simp at hact'
  | paid e0 o0 aid g mf md _ _ houts _ _ _ => rw [houts] at ho; simp [payOut] at ho

/-- the readiness test IS the exact fee predicate (C12) on the running total -/
theorem c03_ready_is_fee_test (c : Cfg) (e : PEntry) (h : e.canReady c = true) :
    e.info.amount + c.feeBase + e.info.amount * c.feePpm / 1000000 ≤ e.received := by
  simp only [PEntry.canReady, Bool.and_eq_true] at h
  have := feeOk_need h.2
  unfold needFor at this; exact this

end Tramp
