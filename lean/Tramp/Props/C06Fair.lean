/-
C06, "eventually", under explicit fairness: in EVERY infinite run of the component that is fair —
  * the scheduler eventually runs a step of the owner task that stays enabled,
  * the node eventually answers a request that stays answerable (truthfully or with a write fault),
  * every pending part is eventually resolved, a running pay command eventually ends,
  * time goes on —
and in which the node does not crash, every HTLC that is ever held is answered
(`c06_fair_run_answers`). No bound on the length of the run, on what else arrives meanwhile, on the
interleaving; write faults allowed throughout.

This is the exact content of "every call is eventually answered provided the node's RPC keeps
answering": the fairness hypotheses ARE the proviso (E8), written as properties of the run; everything
else — that nothing but the timer, the pay command and pending parts is ever waited for, that no step
loops — is proved.
-/
import Tramp.Props.C06Term

namespace Tramp

/-! ### what a step that is not the owner's (and not a crash) preserves -/

structure Keep (s s' : SState) : Prop where
  act   : ∀ e o, s.active = some (e, o) → ∃ e' o', s'.active = some (e', o') ∧ o'.pc = o.pc ∧
            (∀ i ∈ e.listeners, i ∈ e'.listeners) ∧
            (∀ q r, lookupS o.served q = some r → lookupS o'.served q = some r)
  mono  : s.mono ≤ s'.mono
  parts : ∀ id p, findPart s.parts id = some p → ∃ p', findPart s'.parts id = some p' ∧ (p.st ≠ .pending → p' = p)

theorem Keep.refl (s : SState) : Keep s s :=
  ⟨fun e o h => ⟨e, o, h, rfl, fun _ hi => hi, fun _ _ h => h⟩, Nat.le_refl _, fun _ p h => ⟨p, h, fun _ => rfl⟩⟩

theorem Keep.trans {a b c : SState} (h1 : Keep a b) (h2 : Keep b c) : Keep a c := by
  refine ⟨?_, Nat.le_trans h1.mono h2.mono, ?_⟩
  · intro e o h
    obtain ⟨e1, o1, ha1, hpc1, hl1, hs1⟩ := h1.act e o h
    obtain ⟨e2, o2, ha2, hpc2, hl2, hs2⟩ := h2.act e1 o1 ha1
    exact ⟨e2, o2, ha2, hpc2.trans hpc1, fun i hi => hl2 i (hl1 i hi), fun q r hq => hs2 q r (hs1 q r hq)⟩
  · intro id p h
    obtain ⟨p1, hp1, hk1⟩ := h1.parts id p h
    obtain ⟨p2, hp2, hk2⟩ := h2.parts id p1 hp1
    refine ⟨p2, hp2, fun hnp => ?_⟩
    have := hk1 hnp; subst this
    exact hk2 hnp

/-- states that differ only in fields `Keep` does not look at -/
theorem keep_of_eq {s s' : SState} (ha : s'.active = s.active) (hm : s.mono ≤ s'.mono) (hp : s'.parts = s.parts) : Keep s s' :=
  ⟨fun e o h => ⟨e, o, by rw [ha]; exact h, rfl, fun _ hi => hi, fun _ _ h => h⟩, hm, fun _ p h => ⟨p, by rw [hp]; exact h, fun _ => rfl⟩⟩

theorem lookupS_append_keep (l : List (SReq × SReply)) (x : SReq × SReply) (q : SReq) (r : SReply)
    (h : lookupS l q = some r) : lookupS (l ++ [x]) q = some r := by
  unfold lookupS at *
  rw [List.find?_append]
  cases hf : l.find? (fun y => y.1 == q) with
  | some y => rw [hf] at h; simpa using h
  | none => rw [hf] at h; simp at h

theorem findPart_append (ps : List Part) (x : Part) (id : Nat) (p : Part) (h : findPart ps id = some p) :
    findPart (ps ++ [x]) id = some p := by
  unfold findPart at *; rw [List.find?_append, h]; rfl

theorem findPart_resolve (ps : List Part) (i : Nat) (st : PStatus) (id : Nat) (p : Part) (h : findPart ps id = some p) :
    ∃ p', findPart (resolvePart ps i st) id = some p' ∧ (p.st ≠ .pending → p' = p) ∧
      (i = id → st ≠ .pending → p'.st ≠ .pending) := by
  unfold findPart resolvePart at *
  rw [List.find?_map]
  have hcomp : ((fun q : Part => q.id == id) ∘ fun q : Part => if q.id == i && q.st == .pending then { q with st := st } else q)
      = fun q : Part => q.id == id := by
    funext q; simp only [Function.comp]; split <;> rfl
  rw [hcomp, h]
  refine ⟨_, rfl, ?_, ?_⟩
  · intro hnp
    have : (p.st == PStatus.pending) = false := by simpa using hnp
    simp [this]
  · intro hi hst
    have hid : (p.id == id) = true := by simpa using List.find?_some h
    subst hi
    by_cases hp : p.st = .pending
    · simp [hid, hp]; exact hst
    · have : (p.st == PStatus.pending) = false := by simpa using hp
      simp [this]; exact hp

theorem keep_serveOwner {s s1 s' : SState} {q : SReq} {r : SReply} {outs : List Out}
    (hact1 : s1.active = s.active) (hm : s1.mono = s.mono) (hp : s1.parts = s.parts)
    (hs : stepServeOwner .current s q (some (s1, r)) = some (s', outs)) : Keep s s' := by
  unfold stepServeOwner at hs
  cases hact : s.active with
  | none => rw [hact] at hs; simp at hs
  | some p =>
    obtain ⟨e, o⟩ := p
    rw [hact] at hs
    simp only at hs
    split at hs
    · simp only [Option.some.injEq, Prod.mk.injEq] at hs
      have h' := hs.1; subst h'
      refine ⟨?_, by simp [hm], ?_⟩
      · intro e0 o0 h0
        rw [hact] at h0
        simp only [Option.some.injEq, Prod.mk.injEq] at h0
        obtain ⟨rfl, rfl⟩ := h0
        exact ⟨e, _, rfl, rfl, fun _ hi => hi, fun q' r' hq => lookupS_append_keep _ _ _ _ hq⟩
      · intro id p h; exact ⟨p, by simp only [hp]; exact h, fun _ => rfl⟩
    · simp at hs

theorem keep_serveBk {s s1 s' : SState} {id : Nat} {q : SReq} {r : SReply} {outs : List Out}
    (hact1 : s1.active = s.active) (hm : s1.mono = s.mono) (hp : s1.parts = s.parts)
    (hs : stepServeBk .current s id q (some (s1, r)) = some (s', outs)) : Keep s s' := by
  unfold stepServeBk at hs
  cases hf : findBk s.bks id with
  | none => rw [hf] at hs; simp at hs
  | some b =>
    rw [hf] at hs
    simp only at hs
    split at hs
    · simp only [Option.some.injEq, Prod.mk.injEq] at hs
      have h' := hs.1; subst h'
      exact keep_of_eq (by simp [hact1]) (by simp [hm]) (by simp [hp])
    · simp at hs

/-- a step that is neither the owner's nor a crash keeps the lifecycle where it is -/
theorem keep_step (c : Cfg) (s s' : SState) (a : SAct) (outs : List Out)
    (ha : a.isOwnerStep = false) (hnc : a ≠ .crash) (hs : sstep c .current s a = some (s', outs)) : Keep s s' := by
  cases a with
  | crash => exact absurd rfl hnc
  | deliver t q =>
    cases t with
    | owner => simp [SAct.isOwnerStep] at ha
    | bk id =>
      simp only [sstep, stepDeliverBk] at hs
      cases hf : findBk s.bks id with
      | none => rw [hf] at hs; simp at hs
      | some b =>
        rw [hf] at hs
        simp only at hs
        split at hs
        · cases hsv : b.served with
          | none => rw [hsv] at hs; simp at hs
          | some r =>
            rw [hsv] at hs
            simp only at hs
            cases hk : bkCont b.pc r with
            | some pc' =>
              rw [hk] at hs; simp only [Option.some.injEq, Prod.mk.injEq] at hs
              have h' := hs.1; subst h'; exact keep_of_eq rfl (Nat.le_refl _) rfl
            | none =>
              rw [hk] at hs; simp only [Option.some.injEq, Prod.mk.injEq] at hs
              have h' := hs.1; subst h'; exact keep_of_eq rfl (Nat.le_refl _) rfl
        · simp at hs
  | timerFire => simp [SAct.isOwnerStep] at ha
  | takeFail => simp [SAct.isOwnerStep] at ha
  | takeReady => simp [SAct.isOwnerStep] at ha
  | readParams => simp [SAct.isOwnerStep] at ha
  | readHeight => simp [SAct.isOwnerStep] at ha
  | tickMono dt =>
    simp only [sstep, Option.some.injEq, Prod.mk.injEq] at hs
    have h' := hs.1; subst h'; exact keep_of_eq rfl (by simp) rfl
  | tickWall dt =>
    simp only [sstep, Option.some.injEq, Prod.mk.injEq] at hs
    have h' := hs.1; subst h'; exact keep_of_eq rfl (Nat.le_refl _) rfl
  | block n =>
    simp only [sstep, Option.some.injEq, Prod.mk.injEq] at hs
    have h' := hs.1; subst h'; exact keep_of_eq rfl (Nat.le_refl _) rfl
  | create id =>
    simp only [sstep] at hs
    split at hs
    · simp only [Option.some.injEq, Prod.mk.injEq] at hs
      have h' := hs.1; subst h'
      exact ⟨fun e o h => ⟨e, o, h, rfl, fun _ hi => hi, fun _ _ h => h⟩, Nat.le_refl _,
        fun id' p h => ⟨p, findPart_append _ _ _ _ h, fun _ => rfl⟩⟩
    · simp at hs
  | resolve id st =>
    simp only [sstep] at hs
    split at hs
    · simp only [Option.some.injEq, Prod.mk.injEq] at hs
      have h' := hs.1; subst h'
      refine ⟨fun e o h => ⟨e, o, h, rfl, fun _ hi => hi, fun _ _ h => h⟩, Nat.le_refl _, ?_⟩
      intro id' p h
      obtain ⟨p', hp', hk, _⟩ := findPart_resolve s.parts id st id' p h
      exact ⟨p', hp', hk⟩
    · simp at hs
  | payEnd r =>
    simp only [sstep] at hs
    cases hact : s.active with
    | none => rw [hact] at hs; simp at hs
    | some p =>
      obtain ⟨e, o⟩ := p
      rw [hact] at hs
      simp only at hs
      split at hs
      · rename_i aid g hpc
        split at hs
        · simp only [Option.some.injEq, Prod.mk.injEq] at hs
          have h' := hs.1; subst h'
          refine ⟨?_, Nat.le_refl _, fun _ p h => ⟨p, h, fun _ => rfl⟩⟩
          intro e0 o0 h0
          rw [hact] at h0
          simp only [Option.some.injEq, Prod.mk.injEq] at h0
          obtain ⟨rfl, rfl⟩ := h0
          exact ⟨e, _, rfl, hpc.symm, fun _ hi => hi, fun q' r' hq => lookupS_append_keep _ _ _ _ hq⟩
        · simp at hs
      · simp at hs
  | serve t q =>
    cases t with
    | owner =>
      simp only [sstep] at hs
      split at hs
      · simp at hs
      · cases hres : nodeServe s q with
        | none => rw [hres] at hs; simp [stepServeOwner] at hs
        | some p =>
          obtain ⟨s1, r⟩ := p
          rw [hres] at hs
          have hn := nodeServe_node hres
          exact keep_serveOwner (nodeServe_frame hres).1 hn.2.2.2.1 hn.1 hs
    | bk id =>
      simp only [sstep] at hs
      cases hres : nodeServe s q with
      | none => rw [hres] at hs; simp [stepServeBk] at hs
      | some p =>
        obtain ⟨s1, r⟩ := p
        rw [hres] at hs
        have hn := nodeServe_node hres
        exact keep_serveBk (nodeServe_frame hres).1 hn.2.2.2.1 hn.1 hs
  | fault t q f =>
    cases t with
    | owner =>
      simp only [sstep] at hs
      cases hres : nodeFault s q f with
      | none => rw [hres] at hs; simp [stepServeOwner] at hs
      | some p =>
        obtain ⟨s1, r⟩ := p
        rw [hres] at hs
        have hn := nodeFault_node hres
        exact keep_serveOwner (nodeFault_frame hres).1 hn.2.2.2.1 hn.1 hs
    | bk id =>
      simp only [sstep] at hs
      cases hres : nodeFault s q f with
      | none => rw [hres] at hs; simp [stepServeBk] at hs
      | some p =>
        obtain ⟨s1, r⟩ := p
        rw [hres] at hs
        have hn := nodeFault_node hres
        exact keep_serveBk (nodeFault_frame hres).1 hn.2.2.2.1 hn.1 hs
  | arrive info amount expiry relExp total =>
    simp only [sstep, stepArrive, SVariant.current, Bool.false_and, Bool.false_eq_true, if_false] at hs
    cases hact : s.active with
    | none =>
      rw [hact] at hs; simp only [Option.some.injEq, Prod.mk.injEq] at hs
      have h' := hs.1; subst h'
      exact ⟨fun e o h => by rw [hact] at h; simp at h, Nat.le_refl _, fun _ p h => ⟨p, h, fun _ => rfl⟩⟩
    | some p =>
      obtain ⟨e, o⟩ := p
      rw [hact] at hs; simp only [Option.some.injEq, Prod.mk.injEq] at hs
      have h' := hs.1; subst h'
      refine ⟨?_, Nat.le_refl _, fun _ p h => ⟨p, h, fun _ => rfl⟩⟩
      intro e0 o0 h0
      rw [hact] at h0
      simp only [Option.some.injEq, Prod.mk.injEq] at h0
      obtain ⟨rfl, rfl⟩ := h0
      refine ⟨_, o, rfl, rfl, ?_, fun _ _ h => h⟩
      intro i hi
      rw [add_listeners, checks_listeners]
      exact List.mem_append_left _ hi

/-! ### what an owner step does -/

theorem lt2_trans {a b c : Nat × Nat} (h1 : lt2 a b) (h2 : lt2 b c) : lt2 a c := by
  unfold lt2 at *; omega

/-- an owner step from a reachable state: everybody is answered with one response and the
    lifecycle ends, or the lifecycle goes on with the same listeners and a smaller measure -/
theorem owner_step_result (c : Cfg) (s s' : SState) (a : SAct) (outs : List Out) (e : PEntry) (o : Owner)
    (hr : Reach c s) (hact : s.active = some (e, o)) (ha : a.isOwnerStep = true)
    (hs : sstep c .current s a = some (s', outs)) :
    (s'.active = none ∧ ∃ rr, outs = respAll e rr) ∨
    (∃ e' o', s'.active = some (e', o') ∧ e'.listeners = e.listeners ∧ lt2 o'.pc.meas o.pc.meas) := by
  have hdec := c06_owner_steps_decrease c s s' a outs hr ha hs
  have hm : ownerMeas s = o.pc.meas := by simp [ownerMeas, hact]
  cases a with
  | deliver t q =>
    cases t with
    | bk id => simp [SAct.isOwnerStep] at ha
    | owner =>
      have hs0 := hs
      simp only [sstep, stepDeliverOwner, hact] at hs
      split at hs
      · rename_i hc
        cases hl : lookupS o.served q with
        | none => rw [hl] at hs; simp at hs
        | some r =>
          obtain ⟨s1, outs1, hs1, hres⟩ := deliver_owner_ok c s e o q r hr hact (by simpa using hc) hl
          rw [hs0] at hs1
          simp only [Option.some.injEq, Prod.mk.injEq] at hs1
          obtain ⟨rfl, rfl⟩ := hs1
          rcases hres with h | ⟨o1, h1, h2⟩
          · exact Or.inl h
          · exact Or.inr ⟨e, o1, h1, rfl, h2⟩
      · simp at hs
  | timerFire =>
    simp only [sstep, hact] at hs
    split at hs
    · split at hs
      · simp only [Option.some.injEq, Prod.mk.injEq] at hs
        exact Or.inl ⟨by rw [← hs.1], _, hs.2.symm⟩
      · simp at hs
    · simp at hs
  | takeFail =>
    simp only [sstep, hact] at hs
    split at hs
    · simp only [Option.some.injEq, Prod.mk.injEq] at hs
      exact Or.inl ⟨by rw [← hs.1], _, hs.2.symm⟩
    · simp at hs
  | takeReady =>
    simp only [sstep, hact] at hs
    split at hs
    · split at hs
      · simp only [Option.some.injEq, Prod.mk.injEq] at hs
        rcases hdec with h | h
        · rw [← hs.1] at h; simp at h
        · rw [hm] at h
          refine Or.inr ⟨{ e with readyBuf := false }, { pc := .gotReady, served := [] }, by rw [← hs.1], rfl, ?_⟩
          rw [← hs.1] at h; simpa [ownerMeas] using h
      · simp at hs
    · simp at hs
  | readParams =>
    simp only [sstep, hact] at hs
    split at hs
    · simp only [Option.some.injEq, Prod.mk.injEq] at hs
      rcases hdec with h | h
      · rw [← hs.1] at h; simp at h
      · rw [hm] at h
        refine Or.inr ⟨_, _, by rw [← hs.1], rfl, ?_⟩
        rw [← hs.1] at h; simpa [ownerMeas] using h
    · simp at hs
  | readHeight =>
    simp only [sstep, hact] at hs
    split at hs
    · simp only [Option.some.injEq, Prod.mk.injEq] at hs
      rcases hdec with h | h
      · rw [← hs.1] at h; simp at h
      · rw [hm] at h
        refine Or.inr ⟨_, _, by rw [← hs.1], rfl, ?_⟩
        rw [← hs.1] at h; simpa [ownerMeas] using h
    · simp at hs
  | arrive _ _ _ _ _ => simp [SAct.isOwnerStep] at ha
  | tickMono _ => simp [SAct.isOwnerStep] at ha
  | tickWall _ => simp [SAct.isOwnerStep] at ha
  | block _ => simp [SAct.isOwnerStep] at ha
  | crash => simp [SAct.isOwnerStep] at ha
  | create _ => simp [SAct.isOwnerStep] at ha
  | resolve _ _ => simp [SAct.isOwnerStep] at ha
  | payEnd _ => simp [SAct.isOwnerStep] at ha
  | serve _ _ => simp [SAct.isOwnerStep] at ha
  | fault _ _ _ => simp [SAct.isOwnerStep] at ha

/-! ### fair runs -/

/-- an infinite run of the component with the fairness of scheduler, node and clock written out -/
structure FairRun (c : Cfg) where
  st  : Nat → SState
  act : Nat → SAct
  out : Nat → List Out
  step : ∀ n, sstep c .current (st n) (act n) = some (st (n + 1), out n)
  reach0 : Reach c (st 0)
  faults : ∀ n, (act n).writeFaultOnly
  nocrash : ∀ n, act n ≠ .crash
  /-- scheduler: a step of the owner task that stays enabled is eventually taken -/
  fairOwner : ∀ n a, a.isOwnerStep = true → (∀ m, n ≤ m → (sstep c .current (st m) a).isSome = true) →
    ∃ m, n ≤ m ∧ act m = a
  /-- node: a request of the owner that stays answerable is eventually answered (possibly by a fault) -/
  fairServe : ∀ n q, (∀ m, n ≤ m → (sstep c .current (st m) (.serve .owner q)).isSome = true) →
    ∃ m, n ≤ m ∧ (act m = .serve .owner q ∨ ∃ f, act m = .fault .owner q f)
  /-- node: a pending part is eventually resolved -/
  fairPart : ∀ n id p, findPart (st n).parts id = some p → p.st = .pending → ∃ m st', n ≤ m ∧ act m = .resolve id st'
  /-- node: a running pay command eventually ends -/
  fairPay : ∀ n, (st n).payRunning = true → ∃ m r, n ≤ m ∧ act m = .payEnd r
  /-- time goes on -/
  time : ∀ n d, ∃ m, n ≤ m ∧ d ≤ (st m).mono

namespace FairRun

variable {c : Cfg} (R : FairRun c)

theorem reach (n : Nat) : Reach c (R.st n) := by
  induction n with
  | zero => exact R.reach0
  | succ n ih => exact ih.step (R.act n) (R.faults n) (R.step n)

/-- no owner step between `n` and `n + k`: the lifecycle is kept -/
theorem keep_range (n k : Nat) (hno : ∀ m, n ≤ m → m < n + k → (R.act m).isOwnerStep = false) :
    Keep (R.st n) (R.st (n + k)) := by
  induction k with
  | zero => exact Keep.refl _
  | succ k ih =>
    have h1 := ih (fun m h1 h2 => hno m h1 (by omega))
    have h2 := keep_step c (R.st (n + k)) (R.st (n + k + 1)) (R.act (n + k)) (R.out (n + k))
      (hno (n + k) (by omega) (by omega)) (R.nocrash _) (R.step _)
    exact h1.trans h2

/-- no owner step from `N` on: at every later point the lifecycle of `N` is kept -/
theorem keep_from (N m : Nat) (hm : N ≤ m) (hno : ∀ m, N ≤ m → (R.act m).isOwnerStep = false) :
    Keep (R.st N) (R.st m) := by
  obtain ⟨k, rfl⟩ := Nat.exists_eq_add_of_le hm
  exact R.keep_range N k (fun m h1 _ => hno m h1)

/-- a reply that waits to be consumed forever contradicts the fairness of the scheduler -/
theorem deliver_contra (N M : Nat) (hNM : N ≤ M) (hno : ∀ m, N ≤ m → (R.act m).isOwnerStep = false)
    (e : PEntry) (o : Owner) (hact : (R.st M).active = some (e, o)) (q : SReq) (r : SReply)
    (hq : q ∈ o.pc.outstanding .current) (hl : lookupS o.served q = some r) : False := by
  have hen : ∀ m, M ≤ m → (sstep c .current (R.st m) (.deliver .owner q)).isSome = true := by
    intro m hm
    have hk := R.keep_from M m hm (fun m' h => hno m' (Nat.le_trans hNM h))
    obtain ⟨e', o', ha', hpc', _, hs'⟩ := hk.act e o hact
    obtain ⟨s1, outs, hs, _⟩ := deliver_owner_ok c (R.st m) e' o' q r (R.reach m) ha' (by rw [hpc']; exact hq) (hs' q r hl)
    rw [hs]; rfl
  obtain ⟨m, hm, ha⟩ := R.fairOwner M (.deliver .owner q) rfl hen
  have := hno m (Nat.le_trans hNM hm)
  rw [ha] at this; simp [SAct.isOwnerStep] at this

theorem served_after_serve (s s' : SState) (q : SReq) (outs : List Out) (e : PEntry) (o : Owner)
    (res : Option (SState × SReply)) (hact : s.active = some (e, o))
    (hs : stepServeOwner .current s q res = some (s', outs)) :
    ∃ r, s'.active = some (e, { o with served := o.served ++ [(q, r)] }) := by
  unfold stepServeOwner at hs
  rw [hact] at hs
  cases res with
  | none => simp at hs
  | some p =>
    obtain ⟨s1, r⟩ := p
    simp only at hs
    split at hs
    · simp only [Option.some.injEq, Prod.mk.injEq] at hs
      exact ⟨r, by rw [← hs.1]⟩
    · simp at hs

/-- a request that stays answerable forever contradicts the fairness of node and scheduler -/
theorem serve_contra (N M : Nat) (hNM : N ≤ M) (hno : ∀ m, N ≤ m → (R.act m).isOwnerStep = false)
    (e : PEntry) (o : Owner) (hact : (R.st M).active = some (e, o)) (q : SReq)
    (hq : q ∈ o.pc.outstanding .current) (hnp : q ≠ .prov .pay)
    (hserve : ∀ m, M ≤ m → ∃ s1 r, nodeServe (R.st m) q = some (s1, r)) : False := by
  have hno' : ∀ m, M ≤ m → (R.act m).isOwnerStep = false := fun m h => hno m (Nat.le_trans hNM h)
  -- the lifecycle at every later point
  have tail : ∀ m, M ≤ m → ∃ e' o', (R.st m).active = some (e', o') ∧ o'.pc = o.pc := by
    intro m hm
    obtain ⟨e', o', ha', hpc', _, _⟩ := (R.keep_from M m hm hno').act e o hact
    exact ⟨e', o', ha', hpc'⟩
  by_cases hex : ∃ m, M ≤ m ∧ ∃ e' o' r, (R.st m).active = some (e', o') ∧ lookupS o'.served q = some r
  · obtain ⟨m, hm, e', o', r, ha', hl'⟩ := hex
    obtain ⟨e'', o'', ha'', hpc''⟩ := tail m hm
    rw [ha'] at ha''; simp only [Option.some.injEq, Prod.mk.injEq] at ha''
    obtain ⟨rfl, rfl⟩ := ha''
    exact R.deliver_contra N m (Nat.le_trans hNM hm) hno e' o' ha' q r (by rw [hpc'']; exact hq) hl'
  · have hnone : ∀ m, M ≤ m → ∀ e' o', (R.st m).active = some (e', o') → lookupS o'.served q = none := by
      intro m hm e' o' ha'
      cases hl : lookupS o'.served q with
      | none => rfl
      | some r => exact absurd ⟨m, hm, e', o', r, ha', hl⟩ hex
    have hen : ∀ m, M ≤ m → (sstep c .current (R.st m) (.serve .owner q)).isSome = true := by
      intro m hm
      obtain ⟨e', o', ha', hpc'⟩ := tail m hm
      obtain ⟨s1, r, hn⟩ := hserve m hm
      rw [serve_owner_ok c (R.st m) s1 e' o' q r ha' (by rw [hpc']; exact hq) hnp (hnone m hm e' o' ha') hn]; rfl
    obtain ⟨m, hm, ha⟩ := R.fairServe M q hen
    obtain ⟨e', o', ha', hpc'⟩ := tail m hm
    have hstep := R.step m
    have : ∃ r, (R.st (m + 1)).active = some (e', { o' with served := o'.served ++ [(q, r)] }) := by
      rcases ha with ha | ⟨f, ha⟩
      · rw [ha] at hstep
        simp only [sstep] at hstep
        have hne : (q == SReq.prov PReq.pay) = false := by simpa using hnp
        rw [hne] at hstep
        exact served_after_serve _ _ q _ e' o' _ ha' (by simpa using hstep)
      · rw [ha] at hstep
        simp only [sstep] at hstep
        exact served_after_serve _ _ q _ e' o' _ ha' hstep
    obtain ⟨r, ha1⟩ := this
    have h1 := hnone (m + 1) (by omega) e' _ ha1
    simp only at h1
    rw [lookupS_append_none r (hnone m hm e' o' ha')] at h1
    simp at h1

/-- after the lifecycle stopped moving (no owner step from `N` on) — impossible in a fair run -/
theorem stuck_contra (N : Nat) (hno : ∀ m, N ≤ m → (R.act m).isOwnerStep = false)
    (e : PEntry) (o : Owner) (hact : (R.st N).active = some (e, o)) : False := by
  have hr := R.reach N
  have hinv := hr.inv
  have hlok := hr.linv e o hact
  have hpcinv := (hinv.owner e o hact).1
  have tail : ∀ m, N ≤ m → ∃ e' o', (R.st m).active = some (e', o') ∧ o'.pc = o.pc ∧
      (∀ q r, lookupS o.served q = some r → lookupS o'.served q = some r) := by
    intro m hm
    obtain ⟨e', o', ha', hpc', _, hs'⟩ := (R.keep_from N m hm hno).act e o hact
    exact ⟨e', o', ha', hpc', hs'⟩
  have single : ∀ q, q ∈ o.pc.outstanding .current → (∀ pq, q ≠ .prov pq) → False := by
    intro q hq hnp
    exact R.serve_contra N N (Nat.le_refl _) hno e o hact q hq (hnp .pay) (fun m _ => nodeServe_ds_some _ q hnp)
  have ownerStep : ∀ a, a.isOwnerStep = true → (∃ M, N ≤ M ∧ ∀ m, M ≤ m → (sstep c .current (R.st m) a).isSome = true) → False := by
    intro a ha ⟨M, hM, hen⟩
    obtain ⟨m, hm, hact'⟩ := R.fairOwner M a ha hen
    have := hno m (Nat.le_trans hM hm)
    rw [hact', ha] at this; simp at this
  have wait : ∀ w, o.pc.outstanding .current = w.outstanding.map SReq.prov → ownerWpc o.pc = some w →
      WInv (R.st N).parts False w → w.notRet → False := by
    intro w hout hwpc hwi hnr
    have hex := hlok.wex; rw [hwpc] at hex
    cases w with
    | seqPending =>
      exact R.serve_contra N N (Nat.le_refl _) hno e o hact (.prov .listPending) (by rw [hout]; simp [WPc.outstanding]) (by simp)
        (fun m _ => ⟨R.st m, .prov (.pendingIds (pendingIds (R.st m).parts)), by simp [nodeServe, serveRead]⟩)
    | seqComplete pend =>
      exact R.serve_contra N N (Nat.le_refl _) hno e o hact (.prov .listComplete) (by rw [hout]; simp [WPc.outstanding]) (by simp)
        (fun m _ => ⟨R.st m, .prov (.completePres (completePres (R.st m).parts)), by simp [nodeServe, serveRead]⟩)
    | conc a b => exact absurd hwi (by simp [WInv])
    | ret r => exact absurd hnr (by simp [WPc.notRet])
    | waiting rem =>
      obtain ⟨hne, hall⟩ := hex
      cases rem with
      | nil => exact absurd rfl hne
      | cons id rest =>
        have hq : SReq.prov (.waitPart id) ∈ o.pc.outstanding .current := by rw [hout]; simp [WPc.outstanding]
        obtain ⟨p, hfp, _⟩ := has_findPart (hall id (by simp))
        -- from some point on the part is final
        have hfinal : ∃ M p', N ≤ M ∧ findPart (R.st M).parts id = some p' ∧ p'.st ≠ .pending := by
          by_cases hp : p.st = .pending
          · obtain ⟨m, st', hm, ha⟩ := R.fairPart N id p hfp hp
            obtain ⟨p1, hp1, _⟩ := (R.keep_from N m hm hno).parts id p hfp
            have hstep := R.step m
            rw [ha] at hstep
            simp only [sstep] at hstep
            split at hstep
            · rename_i hst
              simp only [Option.some.injEq, Prod.mk.injEq] at hstep
              obtain ⟨p2, hp2, _, hfin⟩ := findPart_resolve (R.st m).parts id st' id p1 hp1
              refine ⟨m + 1, p2, by omega, by rw [← hstep.1]; exact hp2, hfin rfl (by simpa using hst)⟩
            · simp at hstep
          · exact ⟨N, p, Nat.le_refl _, hfp, hp⟩
        obtain ⟨M, p', hM, hfp', hnp'⟩ := hfinal
        obtain ⟨eM, oM, haM, hpcM, _⟩ := tail M hM
        refine R.serve_contra N M hM hno eM oM haM (.prov (.waitPart id)) (by rw [hpcM]; exact hq) (by simp) ?_
        intro m hm
        obtain ⟨p2, hp2, hk⟩ := (R.keep_from M m hm (fun m' h => hno m' (Nat.le_trans hM h))).parts id p' hfp'
        have := hk hnp'; subst this
        cases hst : p2.st with
        | pending => exact absurd hst hnp'
        | complete x => exact ⟨R.st m, .prov (.waitPre x), by simp [nodeServe, serveRead, hp2, hst]⟩
        | failed => exact ⟨R.st m, .prov .waitCode, by simp [nodeServe, serveRead, hp2, hst]⟩
  cases hpc : o.pc with
  | fetch => exact single .dsList (by simp [hpc, OPc.outstanding]) (by simp)
  | rFailA aid g t => exact single _ (by simp [hpc, OPc.outstanding]; rfl) (by simp)
  | rFailS aid g t => exact single _ (by simp [hpc, OPc.outstanding]; rfl) (by simp)
  | addS aid t mf md => exact single _ (by simp [hpc, OPc.outstanding]; rfl) (by simp)
  | addA aid g mf md => exact single _ (by simp [hpc, OPc.outstanding]; rfl) (by simp)
  | gotReady =>
    refine ownerStep .readParams rfl ⟨N, Nat.le_refl _, fun m hm => ?_⟩
    obtain ⟨e', o', ha', hpc', _⟩ := tail m hm
    simp [sstep, ha', hpc', hpc]
  | gotParams mf exp =>
    refine ownerStep .readHeight rfl ⟨N, Nat.le_refl _, fun m hm => ?_⟩
    obtain ⟨e', o', ha', hpc', _⟩ := tail m hm
    simp [sstep, ha', hpc', hpc]
  | panicked =>
    have := hlok.np hpc
    rw [c06_no_panic c _ hr] at this; simp at this
  | waitHtlcs d =>
    obtain ⟨M, hM, hd⟩ := R.time N d
    refine ownerStep .timerFire rfl ⟨M, hM, fun m hm => ?_⟩
    obtain ⟨e', o', ha', hpc', _⟩ := tail m (Nat.le_trans hM hm)
    have hmono := (R.keep_from M m hm (fun m' h => hno m' (Nat.le_trans hM h))).mono
    have : (R.st m).mono ≥ d := by omega
    simp [sstep, ha', hpc', hpc, this]
  | rWait aid g t w =>
    rw [hpc] at hpcinv
    exact wait w (by simp [hpc, OPc.outstanding]) (by simp [hpc, ownerWpc]) hpcinv.1 hpcinv.2.1
  | paying aid g p =>
    cases p with
    | paying =>
      have hq : SReq.prov .pay ∈ o.pc.outstanding .current := by simp [hpc, OPc.outstanding, PPc.outstanding]
      by_cases hex : ∃ m, N ≤ m ∧ ∃ e' o' r, (R.st m).active = some (e', o') ∧ lookupS o'.served (.prov .pay) = some r
      · obtain ⟨m, hm, e', o', r, ha', hl'⟩ := hex
        obtain ⟨e'', o'', ha'', hpc'', _⟩ := tail m hm
        rw [ha'] at ha''; simp only [Option.some.injEq, Prod.mk.injEq] at ha''
        obtain ⟨rfl, rfl⟩ := ha''
        exact R.deliver_contra N m hm hno e' o' ha' _ r (by rw [hpc'']; exact hq) hl'
      · have hnone : ∀ m, N ≤ m → ∀ e' o', (R.st m).active = some (e', o') → lookupS o'.served (.prov .pay) = none := by
          intro m hm e' o' ha'
          cases hl : lookupS o'.served (.prov .pay) with
          | none => rfl
          | some r => exact absurd ⟨m, hm, e', o', r, ha', hl⟩ hex
        have hrun : (R.st N).payRunning = true := by
          rcases hlok.pay (by simp [hpc, isPayingPay]) with h | h
          · exact h
          · rw [hnone N (Nat.le_refl _) e o hact] at h; simp at h
        obtain ⟨m, r, hm, ha⟩ := R.fairPay N hrun
        obtain ⟨e', o', ha', hpc', _⟩ := tail m hm
        have hstep := R.step m
        rw [ha] at hstep
        simp only [sstep, ha', hpc', hpc] at hstep
        split at hstep
        · simp only [Option.some.injEq, Prod.mk.injEq] at hstep
          have h1 := hnone (m + 1) (by omega) e' _ (by rw [← hstep.1])
          simp only at h1
          rw [lookupS_append_none (.prov r) (hnone m hm e' o' ha')] at h1
          simp at h1
        · simp at hstep
    | inWait f w =>
      rw [hpc] at hpcinv
      exact wait w (by simp [hpc, OPc.outstanding, PPc.outstanding]) (by simp [hpc, ownerWpc]) hpcinv.2.1 hpcinv.2.2.1
    | retWait r => rw [hpc] at hpcinv; exact hpcinv.elim
    | retPay r => rw [hpc] at hpcinv; exact hpcinv.elim

/-- one step of a run in which HTLC `i` is never answered: the lifecycle that holds `i` goes on,
    its measure strictly smaller after an owner step and its program counter unchanged otherwise -/
theorem live_step (i : Inv) (m : Nat) (hna : ∀ r, Out.resp i r ∉ R.out m)
    (e : PEntry) (o : Owner) (hact : (R.st m).active = some (e, o)) (hi : i ∈ e.listeners) :
    ∃ e' o', (R.st (m + 1)).active = some (e', o') ∧ i ∈ e'.listeners ∧
      (((R.act m).isOwnerStep = true ∧ lt2 o'.pc.meas o.pc.meas) ∨ ((R.act m).isOwnerStep = false ∧ o'.pc = o.pc)) := by
  cases ho : (R.act m).isOwnerStep with
  | true =>
    rcases owner_step_result c _ _ _ _ e o (R.reach m) hact ho (R.step m) with ⟨_, rr, hout⟩ | ⟨e', o', ha', hl', hlt⟩
    · exact absurd (by rw [hout]; exact List.mem_map.mpr ⟨i, hi, rfl⟩) (hna rr)
    · exact ⟨e', o', ha', by rw [hl']; exact hi, Or.inl ⟨rfl, hlt⟩⟩
  | false =>
    obtain ⟨e', o', ha', hpc', hl', _⟩ := (keep_step c _ _ _ _ ho (R.nocrash m) (R.step m)).act e o hact
    exact ⟨e', o', ha', hl' i hi, Or.inr ⟨rfl, hpc'⟩⟩

/-- **C06, eventually.** In a fair run every HTLC that is held at some point is answered later. -/
theorem c06_fair_run_answers (n : Nat) (e : PEntry) (o : Owner) (hact : (R.st n).active = some (e, o))
    (i : Inv) (hi : i ∈ e.listeners) : ∃ m r, n ≤ m ∧ Out.resp i r ∈ R.out m := by
  refine Classical.byContradiction (fun hcon => ?_)
  have hna : ∀ m, n ≤ m → ∀ r, Out.resp i r ∉ R.out m := fun m hm r hr => hcon ⟨m, r, hm, hr⟩
  -- the lifecycle holding `i` is live at every later point
  have live : ∀ k, ∃ e' o', (R.st (n + k)).active = some (e', o') ∧ i ∈ e'.listeners := by
    intro k
    induction k with
    | zero => exact ⟨e, o, hact, hi⟩
    | succ k ih =>
      obtain ⟨e1, o1, ha1, hi1⟩ := ih
      obtain ⟨e2, o2, ha2, hi2, _⟩ := R.live_step i (n + k) (hna _ (by omega)) e1 o1 ha1 hi1
      exact ⟨e2, o2, ha2, hi2⟩
  -- its measure never goes up
  have mono : ∀ k j, ownerMeas (R.st (n + k + j)) = ownerMeas (R.st (n + k)) ∨
      lt2 (ownerMeas (R.st (n + k + j))) (ownerMeas (R.st (n + k))) := by
    intro k j
    induction j with
    | zero => exact Or.inl rfl
    | succ j ih =>
      obtain ⟨e1, o1, ha1, hi1⟩ := live (k + j)
      have ha1' : (R.st (n + k + j)).active = some (e1, o1) := by rw [← Nat.add_assoc] at ha1; exact ha1
      obtain ⟨e2, o2, ha2, _, hstep⟩ := R.live_step i (n + k + j) (hna _ (by omega)) e1 o1 ha1' hi1
      have h1 : ownerMeas (R.st (n + k + j)) = o1.pc.meas := by simp [ownerMeas, ha1']
      have h2 : ownerMeas (R.st (n + k + (j + 1))) = o2.pc.meas := by
        have : n + k + (j + 1) = n + k + j + 1 := by omega
        rw [this]; simp [ownerMeas, ha2]
      rcases hstep with ⟨_, hlt⟩ | ⟨_, hpc⟩
      · rw [h2]; rw [h1] at ih
        rcases ih with ih | ih
        · right; rw [← ih]; exact hlt
        · right; exact lt2_trans hlt ih
      · rw [h2, hpc, ← h1]; exact ih
  -- hence only finitely many owner steps
  have fin : ∀ x, Acc lt2 x → ∀ k, ownerMeas (R.st (n + k)) = x →
      ∃ K, k ≤ K ∧ ∀ m, n + K ≤ m → (R.act m).isOwnerStep = false := by
    intro x hx
    induction hx with
    | intro x _ ih =>
      intro k hk
      by_cases hall : ∀ m, n + k ≤ m → (R.act m).isOwnerStep = false
      · exact ⟨k, Nat.le_refl _, hall⟩
      · have : ∃ m, n + k ≤ m ∧ (R.act m).isOwnerStep = true := by
          refine Classical.byContradiction (fun hne => hall (fun m hm => ?_))
          cases h : (R.act m).isOwnerStep with
          | false => rfl
          | true => exact absurd ⟨m, hm, h⟩ hne
        obtain ⟨m, hm, hown⟩ := this
        obtain ⟨j, rfl⟩ := Nat.exists_eq_add_of_le hm
        obtain ⟨e1, o1, ha1, hi1⟩ := live (k + j)
        have ha1' : (R.st (n + k + j)).active = some (e1, o1) := by rw [← Nat.add_assoc] at ha1; exact ha1
        obtain ⟨e2, o2, ha2, _, hstep⟩ := R.live_step i (n + k + j) (hna _ (by omega)) e1 o1 ha1' hi1
        have hlt : lt2 o2.pc.meas o1.pc.meas := by
          rcases hstep with ⟨_, h⟩ | ⟨h, _⟩
          · exact h
          · rw [hown] at h; simp at h
        have h1 : ownerMeas (R.st (n + k + j)) = o1.pc.meas := by simp [ownerMeas, ha1']
        have h2 : ownerMeas (R.st (n + (k + j + 1))) = o2.pc.meas := by
          have : n + (k + j + 1) = n + k + j + 1 := by omega
          rw [this]; simp [ownerMeas, ha2]
        have hlt' : lt2 (ownerMeas (R.st (n + (k + j + 1)))) x := by
          rw [h2]
          rcases mono k j with hm' | hm'
          · rw [← hk, ← hm', h1]; exact hlt
          · rw [← hk]; rw [h1] at hm'; exact lt2_trans hlt hm'
        obtain ⟨K, hK, hKall⟩ := ih _ hlt' (k + j + 1) rfl
        exact ⟨K, by omega, hKall⟩
  obtain ⟨K, _, hno⟩ := fin _ (lt2_wf.apply _) 0 rfl
  obtain ⟨eN, oN, haN, _⟩ := live K
  exact R.stuck_contra (n + K) hno eN oN haN

end FairRun

/-! ### exactly once -/

theorem srun_srunO (c : Cfg) (v : SVariant) (acts : List SAct) (s s' : SState) (h : srun c v s acts = some s') :
    ∃ outs, srunO c v s acts = some (s', outs) := by
  induction acts generalizing s with
  | nil => simp [srun] at h; subst h; exact ⟨[], rfl⟩
  | cons a as ih =>
    simp only [srun] at h
    cases h1 : sstep c v s a with
    | none => rw [h1] at h; simp at h
    | some p =>
      obtain ⟨s1, o1⟩ := p
      rw [h1] at h; simp only at h
      obtain ⟨os, hos⟩ := ih s1 h
      exact ⟨o1 ++ os, by simp [srunO, h1, hos]⟩

namespace FairRun

variable {c : Cfg} (R : FairRun c)

/-- the actions and the outputs of the first `k` steps -/
def pacts (k : Nat) : List SAct := (List.range k).map R.act

def pouts : Nat → List Out
  | 0 => []
  | k + 1 => pouts k ++ R.out k

theorem prefix_run (k : Nat) : srunO c .current (R.st 0) (R.pacts k) = some (R.st k, R.pouts k) := by
  induction k with
  | zero => rfl
  | succ k ih =>
    have h1 : srunO c .current (R.st k) [R.act k] = some (R.st (k + 1), R.out k) := by
      simp [srunO, R.step k]
    have := srunO_append c .current (R.pacts k) [R.act k] _ _ _ _ _ ih h1
    simpa [pacts, List.range_succ, pouts] using this

theorem pouts_mem (j k : Nat) (hjk : j < k) (o : Out) (ho : o ∈ R.out j) : o ∈ R.pouts k := by
  induction k with
  | zero => omega
  | succ k ih =>
    simp only [pouts, List.mem_append]
    by_cases h : j = k
    · subst h; exact Or.inr ho
    · exact Or.inl (ih (by omega))

theorem pacts_faults (k : Nat) : WriteFaultsOnly (R.pacts k) := by
  intro a ha
  simp only [pacts, List.mem_map] at ha
  obtain ⟨j, _, rfl⟩ := ha
  exact R.faults j

theorem mem_respIds {outs : List Out} {i : Inv} {r : Resp} (h : Out.resp i r ∈ outs) : i.id ∈ respIds outs := by
  unfold respIds
  exact List.mem_filterMap.mpr ⟨_, h, rfl⟩

/-- no call is answered at two different steps of the run -/
theorem answered_once (m m' : Nat) (hlt : m < m') (i i' : Inv) (r r' : Resp) (hid : i'.id = i.id)
    (h1 : Out.resp i r ∈ R.out m) (h2 : Out.resp i' r' ∈ R.out m') : False := by
  obtain ⟨acts0, hf0, hr0⟩ := R.reach0
  obtain ⟨outs0, hro0⟩ := srun_srunO c .current acts0 _ _ hr0
  have hrun := srunO_append c .current acts0 (R.pacts (m' + 1)) _ _ _ _ _ hro0 (R.prefix_run (m' + 1))
  have hf : WriteFaultsOnly (acts0 ++ R.pacts (m' + 1)) := by
    intro a ha; simp only [List.mem_append] at ha
    rcases ha with h | h
    · exact hf0 a h
    · exact R.pacts_faults _ a h
  have hnd := (c06_at_most_once_run c _ _ _ hf hrun).1
  simp only [pouts, ← List.append_assoc, respIds_append] at hnd
  rw [List.nodup_append] at hnd
  have hx1 : i.id ∈ respIds outs0 ++ respIds (R.pouts m') :=
    List.mem_append_right _ (mem_respIds (R.pouts_mem m m' hlt _ h1))
  have hx2 : i'.id ∈ respIds (R.out m') := mem_respIds h2
  exact hnd.2.2 _ hx1 _ hx2 hid.symm

/-- **C06, exactly once.** In a fair run every HTLC that is held at some point is answered at exactly
    one later step, and at no other step of the whole run. -/
theorem c06_fair_run_exactly_once (n : Nat) (e : PEntry) (o : Owner) (hact : (R.st n).active = some (e, o))
    (i : Inv) (hi : i ∈ e.listeners) :
    ∃ m r, n ≤ m ∧ Out.resp i r ∈ R.out m ∧ ∀ m' i' r', i'.id = i.id → Out.resp i' r' ∈ R.out m' → m' = m := by
  obtain ⟨m, r, hm, hr⟩ := R.c06_fair_run_answers n e o hact i hi
  refine ⟨m, r, hm, hr, ?_⟩
  intro m' i' r' hid hr'
  refine Classical.byContradiction (fun hne => ?_)
  rcases Nat.lt_or_gt_of_ne hne with h | h
  · exact R.answered_once m' m h i' i r' r hid.symm hr' hr
  · exact R.answered_once m m' h i i' r r' hid hr hr'

end FairRun

/-! ### non-vacuity: a concrete fair run

One HTLC of an incomplete set arrives, the stored state is fetched, a minute passes, the timer
fires and the HTLC is failed back; from then on only time passes. All fairness hypotheses hold of
this run, and the theorem's conclusion is the answer given at step 4. -/

def fairDemoAct : Nat → SAct
  | 0 => .arrive ⟨0, 1000000, true⟩ 500000 1400 300 1006000
  | 1 => .serve .owner .dsList
  | 2 => .deliver .owner .dsList
  | 3 => .tickMono 60
  | 4 => .timerFire
  | _ => .tickMono 1

def nxt (s : SState) (a : SAct) : SState × List Out :=
  match sstep demoCfg .current s a with
  | some p => p
  | none => (s, [])

def fairDemoSt : Nat → SState
  | 0 => SState.init
  | n + 1 => (nxt (fairDemoSt n) (fairDemoAct n)).1

def fairDemoOut (n : Nat) : List Out := (nxt (fairDemoSt n) (fairDemoAct n)).2

theorem fairDemo_tail (k : Nat) : (fairDemoSt (5 + k)).active = none ∧ (fairDemoSt (5 + k)).parts = [] ∧
    (fairDemoSt (5 + k)).payRunning = false ∧ (fairDemoSt (5 + k)).mono = 60 + k := by
  induction k with
  | zero => exact ⟨rfl, rfl, rfl, rfl⟩
  | succ k ih =>
    have hs : fairDemoSt (5 + (k + 1)) = { fairDemoSt (5 + k) with mono := (fairDemoSt (5 + k)).mono + 1 } := by
      show (nxt (fairDemoSt (5 + k)) (fairDemoAct (5 + k))).1 = _
      have : fairDemoAct (5 + k) = .tickMono 1 := by
        have : 5 + k = k + 5 := by omega
        rw [this]; rfl
      rw [this]; rfl
    rw [hs]
    exact ⟨ih.1, ih.2.1, ih.2.2.1, by simp [ih.2.2.2]; omega⟩

theorem fairDemo_node (n : Nat) : (fairDemoSt n).parts = [] ∧ (fairDemoSt n).payRunning = false := by
  by_cases h : 5 ≤ n
  · obtain ⟨k, rfl⟩ := Nat.exists_eq_add_of_le h
    exact ⟨(fairDemo_tail k).2.1, (fairDemo_tail k).2.2.1⟩
  · have : n = 0 ∨ n = 1 ∨ n = 2 ∨ n = 3 ∨ n = 4 := by omega
    rcases this with rfl | rfl | rfl | rfl | rfl <;> exact ⟨rfl, rfl⟩

theorem fairDemo_step (n : Nat) :
    sstep demoCfg .current (fairDemoSt n) (fairDemoAct n) = some (fairDemoSt (n + 1), fairDemoOut n) := by
  by_cases h : 5 ≤ n
  · obtain ⟨k, rfl⟩ := Nat.exists_eq_add_of_le h
    have : fairDemoAct (5 + k) = .tickMono 1 := by
      have : 5 + k = k + 5 := by omega
      rw [this]; rfl
    show _ = some ((nxt (fairDemoSt (5 + k)) (fairDemoAct (5 + k))).1, (nxt (fairDemoSt (5 + k)) (fairDemoAct (5 + k))).2)
    rw [this]; rfl
  · have : n = 0 ∨ n = 1 ∨ n = 2 ∨ n = 3 ∨ n = 4 := by omega
    rcases this with rfl | rfl | rfl | rfl | rfl <;> rfl

def fairDemo : FairRun demoCfg where
  st := fairDemoSt
  act := fairDemoAct
  out := fairDemoOut
  step := fairDemo_step
  reach0 := ⟨[], by intro a ha; simp at ha, rfl⟩
  faults := by
    intro n
    by_cases h : 5 ≤ n
    · obtain ⟨k, rfl⟩ := Nat.exists_eq_add_of_le h
      have : fairDemoAct (5 + k) = .tickMono 1 := by
        have : 5 + k = k + 5 := by omega
        rw [this]; rfl
      rw [this]; trivial
    · have : n = 0 ∨ n = 1 ∨ n = 2 ∨ n = 3 ∨ n = 4 := by omega
      rcases this with rfl | rfl | rfl | rfl | rfl <;> trivial
  nocrash := by
    intro n
    by_cases h : 5 ≤ n
    · obtain ⟨k, rfl⟩ := Nat.exists_eq_add_of_le h
      have : fairDemoAct (5 + k) = .tickMono 1 := by
        have : 5 + k = k + 5 := by omega
        rw [this]; rfl
      rw [this]; simp
    · have : n = 0 ∨ n = 1 ∨ n = 2 ∨ n = 3 ∨ n = 4 := by omega
      rcases this with rfl | rfl | rfl | rfl | rfl <;> simp [fairDemoAct]
  fairOwner := by
    intro n a ha hen
    exfalso
    have h := hen (5 + n) (by omega)
    cases hs : sstep demoCfg .current (fairDemoSt (5 + n)) a with
    | none => rw [hs] at h; simp at h
    | some p =>
      obtain ⟨e, o, hact⟩ := ownerStep_active (s' := p.1) (outs := p.2) ha hs
      rw [(fairDemo_tail n).1] at hact; simp at hact
  fairServe := by
    intro n q hen
    exfalso
    have h := hen (5 + n) (by omega)
    have hact := (fairDemo_tail n).1
    simp only [sstep] at h
    split at h
    · simp at h
    · cases hn : nodeServe (fairDemoSt (5 + n)) q <;> simp [stepServeOwner, hact, hn] at h
  fairPart := by
    intro n id p h
    rw [(fairDemo_node n).1] at h; simp [findPart] at h
  fairPay := by
    intro n h
    rw [(fairDemo_node n).2] at h; simp at h
  time := by
    intro n d
    exact ⟨5 + (n + d), by omega, by rw [(fairDemo_tail (n + d)).2.2.2]; omega⟩

/-- in the demo run the HTLC held after step 0 is answered (at step 4, with the MPP-timeout failure) -/
example : ∃ e o, (fairDemo.st 1).active = some (e, o) ∧ ⟨0, 500000, 1400⟩ ∈ e.listeners ∧
    ∃ m r, 1 ≤ m ∧ Out.resp ⟨0, 500000, 1400⟩ r ∈ fairDemo.out m :=
  ⟨_, _, rfl, by decide, fairDemo.c06_fair_run_answers 1 _ _ rfl _ (by decide)⟩

example : fairDemo.out 4 = [Out.resp ⟨0, 500000, 1400⟩ (.fail .ttf)] := rfl

end Tramp
