/-
C19 — Startup configuration is validated and applied faithfully.

Statement: for every combination of option values the plugin either refuses to start (a value out
of range, or a policy CLTV delta not greater than the safety CLTV delta) or runs with exactly those
values: the policy it advertises and enforces, the MPP timeout, the payment retry time (capped at
65535 s) and the safety margin applied to pay requests equal the configured ones.

`configure` (M9) is what `main` computes; the record it returns is the parameter `cfg` of the system
model (M7), where the policy bytes (C12), the MPP timeout (C11) and the safety margin (C04) are used.
That the real binary behaves like `configure` — including what it then enforces — is observed
end to end by suite `e2e` (one process per assignment).
-/
import Tramp.Model.Config
import Tramp.Props.C12

namespace Tramp

/-- the exact acceptance condition, for ALL integer option values -/
theorem c19_iff (o : Opts) :
    (∃ c, configure o = some c) ↔
      (0 ≤ o.cltvDelta ∧ o.cltvDelta < 65536 ∧ 0 ≤ o.policyDelta ∧ o.policyDelta < 65536 ∧
       o.policyDelta > o.cltvDelta ∧
       0 ≤ o.feeBase ∧ o.feeBase < 4294967296 ∧ 0 ≤ o.feePpm ∧ o.feePpm < 4294967296 ∧
       0 ≤ o.mppTimeout ∧ o.mppTimeout < 9223372036854775808 ∧
       0 ≤ o.payTimeout ∧ o.payTimeout < 9223372036854775808) := by
  unfold configure Opts.valid inRange
  constructor
  · rintro ⟨c, h⟩
    split at h
    · rename_i hv
      simp only [Bool.and_eq_true, decide_eq_true_eq] at hv
      omega
    · simp at h
  · intro h
    have : (((((((decide (0 ≤ o.cltvDelta) && decide (o.cltvDelta < ((65536 : Nat) : Int))) &&
        (decide (0 ≤ o.policyDelta) && decide (o.policyDelta < ((65536 : Nat) : Int)))) &&
        decide (o.policyDelta > o.cltvDelta)) &&
        (decide (0 ≤ o.feeBase) && decide (o.feeBase < ((4294967296 : Nat) : Int)))) &&
        (decide (0 ≤ o.feePpm) && decide (o.feePpm < ((4294967296 : Nat) : Int)))) &&
        (decide (0 ≤ o.mppTimeout) && decide (o.mppTimeout < ((9223372036854775808 : Nat) : Int)))) &&
        (decide (0 ≤ o.payTimeout) && decide (o.payTimeout < ((9223372036854775808 : Nat) : Int)))) = true := by
      simp only [Bool.and_eq_true, decide_eq_true_eq]
      omega
    rw [if_pos this]
    exact ⟨_, rfl⟩

/-- a policy delta not greater than the safety delta is always refused -/
theorem c19_refuses_deltas (o : Opts) (h : o.policyDelta ≤ o.cltvDelta) : configure o = none := by
  cases hc : configure o with
  | none => rfl
  | some c =>
    have := (c19_iff o).mp ⟨c, hc⟩
    omega

/-- when it runs, it runs with exactly the configured values -/
theorem c19_faithful (o : Opts) (c : Config) (h : configure o = some c) :
    (c.cltvDelta : Int) = o.cltvDelta ∧ (c.policyDelta : Int) = o.policyDelta ∧
    (c.feeBase : Int) = o.feeBase ∧ (c.feePpm : Int) = o.feePpm ∧
    (c.mppTimeout : Int) = o.mppTimeout ∧
    c.retryFor = retryFor o.payTimeout.toNat ∧ c.allowSelf = !o.noSelfHints ∧ c.xpay = o.xpay := by
  have hr := (c19_iff o).mp ⟨c, h⟩
  unfold configure at h
  split at h
  · simp only [Option.some.injEq] at h
    subst h
    simp only
    refine ⟨?_, ?_, ?_, ?_, ?_, trivial, trivial, trivial⟩ <;> omega
  · simp at h

/-- the payment retry time is the configured timeout capped at 65535 s -/
theorem c19_retry_cap (secs : Nat) :
    retryFor secs ≤ 65535 ∧ (secs ≤ 65535 → retryFor secs = secs) ∧ (secs > 65535 → retryFor secs = 65535) := by
  unfold retryFor
  split <;> omega

/-- glue between C19 and C12: the policy a started plugin runs with always fits the wire fields of the
    fee-or-expiry failure (u32, u32, u16), and the advertised delta exceeds the safety delta -/
theorem c19_policy_fits (o : Opts) (c : Config) (h : configure o = some c) :
    c.feeBase < U32 ∧ c.feePpm < U32 ∧ c.policyDelta < U16 ∧ c.cltvDelta < c.policyDelta := by
  have hr := (c19_iff o).mp ⟨c, h⟩
  have hf := c19_faithful o c h
  unfold U32 U16
  omega

/-- … so the failure message built from ANY accepted configuration decodes back to exactly the
    configured option values (the hypotheses of `c12_encode` are discharged by validation). -/
theorem c19_failure_carries_options (o : Opts) (c : Config) (h : configure o = some c) :
    ∃ fb fp fd : Bytes,
      encodeFailure (.foei c.feeBase c.feePpm c.policyDelta) = [0x20, 26] ++ fb ++ fp ++ fd ∧
      fb.length = 4 ∧ fp.length = 4 ∧ fd.length = 2 ∧
      (beVal fb : Int) = o.feeBase ∧ (beVal fp : Int) = o.feePpm ∧ (beVal fd : Int) = o.policyDelta := by
  obtain ⟨hb, hp, hd, _⟩ := c19_policy_fits o c h
  obtain ⟨fb, fp, fd, he, l1, l2, l3, v1, v2, v3⟩ := c12_encode c.feeBase c.feePpm c.policyDelta hb hp hd
  have hf := c19_faithful o c h
  refine ⟨fb, fp, fd, he, l1, l2, l3, ?_, ?_, ?_⟩
  · rw [v1]; exact hf.2.2.1
  · rw [v2]; exact hf.2.2.2.1
  · rw [v3]; exact hf.2.1

/-! Non-vacuity -/
example : ∃ c, configure ⟨34, 1008, 0, 5000, 60, 60, false, false⟩ = some c := ⟨_, rfl⟩
example : configure ⟨34, 34, 0, 5000, 60, 60, false, false⟩ = none := by decide
example : configure ⟨34, 1008, -1, 5000, 60, 60, false, false⟩ = none := by decide

end Tramp
