/-
C14 — Payments for different hashes are isolated from each other.

Statement: progress and outcome of a payment for one hash never depend on another hash: a stalled,
slow or failing payment (or a stuck RPC issued for it) neither delays nor alters the responses for
HTLCs of a different hash. Amounts, expiries and stored state are never pooled across hashes.

In the model isolation is structural — one component per hash, nothing shared but the clocks, the
height and the configuration — and the theorems below make that precise. Partial: that the CODE has
this structure (no lock held across an RPC, per-hash datastore keys) is what suite `system` checks by
behaviour: every schedule is run a second time with a second payment hash frozen at its first RPC, and
the trace of the first hash must still be accepted by the single-hash model.
-/
import Tramp.Model.Product

namespace Tramp

theorem setComp_other (f : Nat → SState) (h k : Nat) (s : SState) (hne : k ≠ h) : setComp f h s k = f k := by
  simp [setComp, hne]

theorem setComp_same (f : Nat → SState) (h : Nat) (s : SState) : setComp f h s h = s := by simp [setComp]

/-- an action of hash `h` changes no other component, and its outputs are tagged with `h` only -/
theorem c14_frame (c : Cfg) (v : SVariant) (g g' : GState) (h : Nat) (a : SAct) (outs : List (Nat × Out))
    (hs : gstep c v g (.comp h a) = some (g', outs)) :
    (∀ k, k ≠ h → g'.comps k = g.comps k) ∧ (∀ o ∈ outs, o.1 = h) := by
  simp only [gstep] at hs
  split at hs
  · simp only [Option.some.injEq, Prod.mk.injEq] at hs
    refine ⟨?_, ?_⟩
    · intro k hk; rw [← hs.1]; exact setComp_other _ _ _ _ hk
    · intro o ho; rw [← hs.2] at ho; simp only [List.mem_map] at ho; obtain ⟨x, _, rfl⟩ := ho; rfl
  · simp at hs

/-- enabledness, outputs and effect of an action of hash `h` depend on the component of `h` only -/
theorem c14_own_state_only (c : Cfg) (v : SVariant) (g1 g2 : GState) (h : Nat) (a : SAct)
    (heq : g1.comps h = g2.comps h) :
    (gstep c v g1 (.comp h a)).map (fun r => (r.1.comps h, r.2)) =
    (gstep c v g2 (.comp h a)).map (fun r => (r.1.comps h, r.2)) := by
  simp only [gstep, heq]
  cases sstep c v (g2.comps h) a with
  | none => rfl
  | some p => simp [setComp_same]

/-- the actions of a schedule that do not belong to hash `hA` -/
def avoids (hA : Nat) : List GAct → Prop
  | [] => True
  | .comp h _ :: as => h ≠ hA ∧ avoids hA as
  | _ :: as => avoids hA as

/-- two global states that agree everywhere except on hash `hA` -/
def agreeOff (hA : Nat) (g1 g2 : GState) : Prop := ∀ k, k ≠ hA → g1.comps k = g2.comps k

/-- two results agree: both refuse, or both succeed with the same outputs and states that agree off `hA` -/
def agreeRes (hA : Nat) : Option (GState × List (Nat × Out)) → Option (GState × List (Nat × Out)) → Prop
  | some (g1, o1), some (g2, o2) => agreeOff hA g1 g2 ∧ o1 = o2
  | none, none => True
  | _, _ => False

theorem gstep_agree (c : Cfg) (v : SVariant) (hA : Nat) (g1 g2 : GState) (a : GAct) (hav : avoids hA [a])
    (hag : agreeOff hA g1 g2) : agreeRes hA (gstep c v g1 a) (gstep c v g2 a) := by
  cases a with
  | comp h x =>
    have hne : h ≠ hA := hav.1
    simp only [gstep, hag h hne]
    cases sstep c v (g2.comps h) x with
    | none => simp [agreeRes]
    | some p =>
      obtain ⟨s', outs⟩ := p
      simp only [agreeRes]
      refine ⟨?_, trivial⟩
      intro k hk
      by_cases hkh : k = h
      · subst hkh; simp [setComp]
      · simp [setComp, hkh, hag k hk]
  | tickMono dt => simp only [gstep, sharedStep, agreeRes]; exact ⟨fun k hk => by simp [hag k hk], trivial⟩
  | tickWall dt => simp only [gstep, sharedStep, agreeRes]; exact ⟨fun k hk => by simp [hag k hk], trivial⟩
  | block n => simp only [gstep, sharedStep, agreeRes]; exact ⟨fun k hk => by simp [hag k hk], trivial⟩
  | crash => simp only [gstep, sharedStep, agreeRes]; exact ⟨fun k hk => by simp [hag k hk], trivial⟩

/-- C14: whatever state hash `hA` is frozen in (stalled at any RPC, waiting on its timer, failing…),
    every schedule of the OTHER hashes and of the shared actions is enabled exactly as if `hA` did not
    exist, produces exactly the same responses and pay requests, and leaves the other components in
    exactly the same states. -/
theorem c14_frozen (c : Cfg) (v : SVariant) (hA : Nat) (acts : List GAct) (g1 g2 : GState)
    (hav : avoids hA acts) (hag : agreeOff hA g1 g2) : agreeRes hA (grun c v g1 acts) (grun c v g2 acts) := by
  induction acts generalizing g1 g2 with
  | nil => simp only [grun, agreeRes]; exact ⟨hag, trivial⟩
  | cons a as ih =>
    have hav1 : avoids hA [a] := by cases a <;> simp_all [avoids]
    have hav2 : avoids hA as := by cases a <;> simp_all [avoids]
    have hstep := gstep_agree c v hA g1 g2 a hav1 hag
    simp only [grun]
    cases h1 : gstep c v g1 a with
    | none =>
      cases h2 : gstep c v g2 a with
      | none => simp [agreeRes]
      | some p2 => rw [h1, h2] at hstep; simp [agreeRes] at hstep
    | some p1 =>
      cases h2 : gstep c v g2 a with
      | none => rw [h1, h2] at hstep; simp [agreeRes] at hstep
      | some p2 =>
        obtain ⟨g1', o1⟩ := p1
        obtain ⟨g2', o2⟩ := p2
        rw [h1, h2] at hstep
        simp only [agreeRes] at hstep
        obtain ⟨hag', ho⟩ := hstep
        have := ih g1' g2' hav2 hag'
        simp only
        cases hr1 : grun c v g1' as with
        | none =>
          cases hr2 : grun c v g2' as with
          | none => simp [agreeRes]
          | some q2 => rw [hr1, hr2] at this; simp [agreeRes] at this
        | some q1 =>
          cases hr2 : grun c v g2' as with
          | none => rw [hr1, hr2] at this; simp [agreeRes] at this
          | some q2 =>
            obtain ⟨a1, b1⟩ := q1
            obtain ⟨a2, b2⟩ := q2
            rw [hr1, hr2] at this
            simp only [agreeRes] at this ⊢
            exact ⟨this.1, by rw [ho, this.2]⟩

/-- datastore keys, amounts, expiries: every per-payment datum lives inside its component -/
theorem c14_no_pooling (c : Cfg) (v : SVariant) (g g' : GState) (h k : Nat) (a : SAct) (outs : List (Nat × Out))
    (hs : gstep c v g (.comp h a) = some (g', outs)) (hk : k ≠ h) :
    (g'.comps k).ds = (g.comps k).ds ∧ (g'.comps k).parts = (g.comps k).parts ∧ (g'.comps k).active = (g.comps k).active := by
  have := (c14_frame c v g g' h a outs hs).1 k hk
  rw [this]; exact ⟨rfl, rfl, rfl⟩

end Tramp
