/-
C05 — At most one outgoing attempt live per hash; a paid invoice is never paid again.

Statement: for a given payment hash the plugin never issues a pay request while an earlier outgoing
attempt for that hash still has pending parts or has completed, including after a restart that
interrupted the earlier attempt. Once the invoice has been paid, later HTLCs for it are settled from
the known preimage without paying again.
-/
import Tramp.Props.Sys
import Tramp.Props.C02

namespace Tramp

/-- a pay request is issued only in a state where no part of the hash is pending or complete and no
    pay command runs — for every interleaving (bookkeepers of the previous lifecycle included), every
    crash point, every reachable stored history -/
theorem c05_pay_only_when_quiet (c : Cfg) (s s' : SState) (a : SAct) (outs : List Out) (b : Nat) (am : Option Nat)
    (mf md : Nat) (hr : Reach c s) (hs : sstep c .current s a = some (s', outs)) (ho : Out.pay b am mf md ∈ outs) :
    partsQuiet s.parts ∧ s.payRunning = false := by
  cases hr.emit a hs with
  | silent h => rw [h] at ho; simp at ho
  | answered e o r _ houts _ _ => rw [houts] at ho; exact absurd ho pay_not_mem_respAll
  | paid e o aid g mf' md' _ _ _ hq _ _ => exact hq

/-- once a part has completed, in every later state no step issues a pay request and every answer
    given to a held HTLC is a settlement with the preimage of a complete part -/
theorem c05_never_again (c : Cfg) (s0 s s' : SState) (later : List SAct) (a : SAct) (outs : List Out) (x : Nat)
    (hr0 : Reach c s0) (hpaid : HasComplete s0.parts x) (hf : WriteFaultsOnly later)
    (hlater : srun c .current s0 later = some s) (hs : sstep c .current s a = some (s', outs)) :
    (∀ b am mf md, Out.pay b am mf md ∉ outs) ∧
    (∀ i r, Out.resp i r ∈ outs → ∃ pre, r = .resolve pre ∧ HasComplete s.parts pre) := by
  have hr : Reach c s := hr0.extend later hf hlater
  have hcomp : HasComplete s.parts x := hasComplete_run c .current later s0 s x hlater hpaid
  have hlive : ¬ partsQuiet s.parts := by
    intro hq; obtain ⟨p, hp, hst⟩ := hcomp; have := hq p hp; rw [this] at hst; simp at hst
  refine ⟨?_, ?_⟩
  · intro b am mf md ho
    exact hlive (c05_pay_only_when_quiet c s s' a outs b am mf md hr hs ho).1
  · intro i r ho
    exact c02_live_means_held_or_settled c s s' a outs i r hr hlive hs ho

end Tramp
