/-
C14 ∧ C06 over all hashes: a payment can always be brought to an answer without any other hash
making a move.

Whatever the other components are doing — stalled at an RPC that is never answered, waiting on a
timer, in the middle of bookkeeping — the HTLCs held for hash `h` can be answered by a continuation
that consists only of actions of component `h` and of the passage of time. The other components are
left exactly as they were except for the clocks (no request of theirs is served, nothing of theirs is
delivered, written or resolved).
-/
import Tramp.Props.C06Live
import Tramp.Props.C14
import Tramp.Props.C01
import Tramp.Props.C02
import Tramp.Props.C05
import Tramp.Props.C08
import Tramp.Props.C03
import Tramp.Props.C04
import Tramp.Props.C11

namespace Tramp

/-- an action of one component as an action of the whole plugin: the clocks and the chain are shared -/
def liftAct (h : Nat) : SAct → GAct
  | .tickMono dt => .tickMono dt
  | .tickWall dt => .tickWall dt
  | .block n => .block n
  | a => .comp h a

/-- everything of a component but the clocks and the height register -/
def SameButClocks (s s' : SState) : Prop :=
  s'.active = s.active ∧ s'.bks = s.bks ∧ s'.parts = s.parts ∧ s'.ds = s.ds ∧ s'.attempts = s.attempts ∧
  s'.payRunning = s.payRunning ∧ s'.nextInv = s.nextInv ∧ s'.nextBk = s.nextBk ∧ s'.nextAid = s.nextAid ∧
  s'.panicked = s.panicked

theorem sameButClocks_refl (s : SState) : SameButClocks s s := ⟨rfl, rfl, rfl, rfl, rfl, rfl, rfl, rfl, rfl, rfl⟩

theorem sameButClocks_trans {a b c : SState} (h1 : SameButClocks a b) (h2 : SameButClocks b c) : SameButClocks a c := by
  obtain ⟨a1, a2, a3, a4, a5, a6, a7, a8, a9, a10⟩ := h1
  obtain ⟨b1, b2, b3, b4, b5, b6, b7, b8, b9, b10⟩ := h2
  exact ⟨b1.trans a1, b2.trans a2, b3.trans a3, b4.trans a4, b5.trans a5, b6.trans a6, b7.trans a7, b8.trans a8,
    b9.trans a9, b10.trans a10⟩

theorem lift_comp (c : Cfg) (g : GState) (h : Nat) (a : SAct) (s' : SState) (outs : List Out)
    (hs : sstep c .current (g.comps h) a = some (s', outs)) (hl : liftAct h a = .comp h a) :
    ∃ g', gstep c .current g (liftAct h a) = some (g', outs.map (fun o => (h, o))) ∧ g'.comps h = s' ∧
      ∀ k, k ≠ h → SameButClocks (g.comps k) (g'.comps k) := by
  refine ⟨{ comps := setComp g.comps h s' }, by rw [hl]; simp [gstep, hs], setComp_same _ _ _, ?_⟩
  intro k hk; simp only [setComp_other _ _ _ _ hk]; exact sameButClocks_refl _

/-- one lifted step: the component of `h` moves as it would alone, the others keep everything but the clocks -/
theorem lift_step (c : Cfg) (g : GState) (h : Nat) (a : SAct) (s' : SState) (outs : List Out) (hnc : a ≠ .crash)
    (hs : sstep c .current (g.comps h) a = some (s', outs)) :
    ∃ g', gstep c .current g (liftAct h a) = some (g', outs.map (fun o => (h, o))) ∧ g'.comps h = s' ∧
      ∀ k, k ≠ h → SameButClocks (g.comps k) (g'.comps k) := by
  cases a with
  | tickMono dt =>
    simp only [sstep, Option.some.injEq, Prod.mk.injEq] at hs
    refine ⟨{ comps := fun k => { g.comps k with mono := (g.comps k).mono + dt } }, ?_, ?_, ?_⟩
    · simp [liftAct, gstep, sharedStep, ← hs.2]
    · simp [hs.1]
    · intro k _; exact ⟨rfl, rfl, rfl, rfl, rfl, rfl, rfl, rfl, rfl, rfl⟩
  | tickWall dt =>
    simp only [sstep, Option.some.injEq, Prod.mk.injEq] at hs
    refine ⟨{ comps := fun k => { g.comps k with wall := (((g.comps k).wall : Int) + dt).toNat } }, ?_, ?_, ?_⟩
    · simp [liftAct, gstep, sharedStep, ← hs.2]
    · simp [hs.1]
    · intro k _; exact ⟨rfl, rfl, rfl, rfl, rfl, rfl, rfl, rfl, rfl, rfl⟩
  | block n =>
    simp only [sstep, Option.some.injEq, Prod.mk.injEq] at hs
    refine ⟨{ comps := fun k => { g.comps k with height := max (g.comps k).height n } }, ?_, ?_, ?_⟩
    · simp [liftAct, gstep, sharedStep, ← hs.2]
    · simp [hs.1]
    · intro k _; exact ⟨rfl, rfl, rfl, rfl, rfl, rfl, rfl, rfl, rfl, rfl⟩
  | crash => exact absurd rfl hnc
  | arrive i am ex re to =>
    exact lift_comp c g h _ s' outs hs rfl
  | create id =>
    exact lift_comp c g h _ s' outs hs rfl
  | resolve id st =>
    exact lift_comp c g h _ s' outs hs rfl
  | payEnd r =>
    exact lift_comp c g h _ s' outs hs rfl
  | serve t q =>
    exact lift_comp c g h _ s' outs hs rfl
  | fault t q f =>
    exact lift_comp c g h _ s' outs hs rfl
  | deliver t q =>
    exact lift_comp c g h _ s' outs hs rfl
  | timerFire =>
    exact lift_comp c g h _ s' outs hs rfl
  | takeFail =>
    exact lift_comp c g h _ s' outs hs rfl
  | takeReady =>
    exact lift_comp c g h _ s' outs hs rfl
  | readParams =>
    exact lift_comp c g h _ s' outs hs rfl
  | readHeight =>
    exact lift_comp c g h _ s' outs hs rfl

theorem lift_run (c : Cfg) (h : Nat) (acts : List SAct) (g : GState) (s' : SState) (outs : List Out)
    (hnc : ∀ a ∈ acts, a ≠ .crash) (hr : srunO c .current (g.comps h) acts = some (s', outs)) :
    ∃ g', grun c .current g (acts.map (liftAct h)) = some (g', outs.map (fun o => (h, o))) ∧ g'.comps h = s' ∧
      ∀ k, k ≠ h → SameButClocks (g.comps k) (g'.comps k) := by
  induction acts generalizing g outs with
  | nil =>
    simp [srunO] at hr; obtain ⟨rfl, rfl⟩ := hr
    exact ⟨g, by simp [grun], rfl, fun k _ => sameButClocks_refl _⟩
  | cons a as ih =>
    simp only [srunO] at hr
    cases h1 : sstep c .current (g.comps h) a with
    | none => rw [h1] at hr; simp at hr
    | some p =>
      obtain ⟨s1, o1⟩ := p
      rw [h1] at hr; simp only at hr
      cases h2 : srunO c .current s1 as with
      | none => rw [h2] at hr; simp at hr
      | some p2 =>
        obtain ⟨s2, o2⟩ := p2
        rw [h2] at hr; simp only [Option.some.injEq, Prod.mk.injEq] at hr
        obtain ⟨rfl, rfl⟩ := hr
        obtain ⟨g1, hg1, hc1, hk1⟩ := lift_step c g h a s1 o1 (hnc a (by simp)) h1
        obtain ⟨g2, hg2, hc2, hk2⟩ := ih g1 o2 (fun x hx => hnc x (by simp [hx])) (by rw [hc1]; exact h2)
        refine ⟨g2, ?_, hc2, fun k hk => sameButClocks_trans (hk1 k hk) (hk2 k hk)⟩
        simp [grun, hg1, hg2, List.map_append]

/-- **Isolation of progress.** Whatever the components of the other hashes are doing, the HTLCs held for
    hash `h` (whose component is in a reachable state) can be answered by a continuation in which only
    component `h` acts and time passes; every other component is left as it was apart from the clocks:
    none of its requests is served, nothing is delivered to it, nothing of it is written or resolved. -/
theorem c14_progress_despite_frozen (c : Cfg) (g : GState) (h : Nat) (e : PEntry) (o : Owner)
    (hr : Reach c (g.comps h)) (hact : (g.comps h).active = some (e, o)) :
    ∃ acts g' outs, grun c .current g acts = some (g', outs) ∧ (g'.comps h).active = none ∧
      (∀ i ∈ e.listeners, ∃ rr, (h, Out.resp i rr) ∈ outs) ∧
      (∀ x ∈ outs, x.1 = h) ∧
      ∀ k, k ≠ h → SameButClocks (g.comps k) (g'.comps k) := by
  obtain ⟨acts, s', outs, _, hnc, hrun, hnone, hall⟩ := c06_can_always_answer c (g.comps h) e o hr hact
  obtain ⟨g', hg, hc, hk⟩ := lift_run c h acts g s' outs hnc hrun
  refine ⟨acts.map (liftAct h), g', outs.map (fun o => (h, o)), hg, by rw [hc]; exact hnone, ?_, ?_, hk⟩
  · intro i hi
    obtain ⟨rr, hrr⟩ := hall i hi
    exact ⟨rr, List.mem_map.mpr ⟨_, hrr, rfl⟩⟩
  · intro x hx
    obtain ⟨o', _, rfl⟩ := List.mem_map.mp hx
    rfl

/-! ### reachability of the whole plugin implies reachability of each component -/

def ginit : GState := { comps := fun _ => SState.init }

def GAct.writeFaultOnly : GAct → Prop
  | .comp _ a => a.writeFaultOnly
  | _ => True

/-- the action of component `h` that a global action amounts to (none if it belongs to another hash) -/
def projAct (h : Nat) : GAct → Option SAct
  | .comp k a => if k = h then some a else none
  | .tickMono dt => some (.tickMono dt)
  | .tickWall dt => some (.tickWall dt)
  | .block n => some (.block n)
  | .crash => some .crash

theorem gstep_proj (c : Cfg) (g g' : GState) (a : GAct) (outs : List (Nat × Out)) (h : Nat)
    (hs : gstep c .current g a = some (g', outs)) :
    match projAct h a with
    | some sa => ∃ o, sstep c .current (g.comps h) sa = some (g'.comps h, o)
    | none => g'.comps h = g.comps h := by
  cases a with
  | comp k sa =>
    simp only [gstep] at hs
    cases hst : sstep c .current (g.comps k) sa with
    | none => rw [hst] at hs; simp at hs
    | some p =>
      obtain ⟨s', o⟩ := p
      rw [hst] at hs; simp only [Option.some.injEq, Prod.mk.injEq] at hs
      obtain ⟨rfl, _⟩ := hs
      simp only [projAct]
      by_cases hk : k = h
      · subst hk; simp only [if_true]; exact ⟨o, by rw [hst]; simp [setComp]⟩
      · simp only [hk, if_false]; simp [setComp, Ne.symm hk]
  | tickMono dt => simp [gstep, sharedStep] at hs; obtain ⟨rfl, _⟩ := hs; exact ⟨[], by simp [sstep]⟩
  | tickWall dt => simp [gstep, sharedStep] at hs; obtain ⟨rfl, _⟩ := hs; exact ⟨[], by simp [sstep]⟩
  | block n => simp [gstep, sharedStep] at hs; obtain ⟨rfl, _⟩ := hs; exact ⟨[], by simp [sstep]⟩
  | crash => simp [gstep, sharedStep] at hs; obtain ⟨rfl, _⟩ := hs; exact ⟨[], by simp [sstep]⟩

theorem grun_reach (c : Cfg) (acts : List GAct) (g g' : GState) (outs : List (Nat × Out))
    (hf : ∀ a ∈ acts, a.writeFaultOnly) (h0 : ∀ h, Reach c (g.comps h))
    (hr : grun c .current g acts = some (g', outs)) : ∀ h, Reach c (g'.comps h) := by
  induction acts generalizing g outs with
  | nil => simp [grun] at hr; obtain ⟨rfl, _⟩ := hr; exact h0
  | cons a as ih =>
    simp only [grun] at hr
    cases h1 : gstep c .current g a with
    | none => rw [h1] at hr; simp at hr
    | some p =>
      obtain ⟨g1, o1⟩ := p
      rw [h1] at hr; simp only at hr
      cases h2 : grun c .current g1 as with
      | none => rw [h2] at hr; simp at hr
      | some p2 =>
        obtain ⟨g2, o2⟩ := p2
        rw [h2] at hr; simp only [Option.some.injEq, Prod.mk.injEq] at hr
        obtain ⟨rfl, _⟩ := hr
        refine ih g1 o2 (fun x hx => hf x (by simp [hx])) ?_ h2
        intro h
        have hp := gstep_proj c g g1 a o1 h h1
        have hfa := hf a (by simp)
        cases hpa : projAct h a with
        | none => rw [hpa] at hp; simp only at hp; rw [hp]; exact h0 h
        | some sa =>
          rw [hpa] at hp; simp only at hp
          obtain ⟨o, hs⟩ := hp
          refine (h0 h).step sa ?_ hs
          cases a with
          | comp k sa' =>
            simp only [projAct] at hpa
            split at hpa
            · simp only [Option.some.injEq] at hpa; subst hpa; exact hfa
            · simp at hpa
          | tickMono dt => simp [projAct] at hpa; subst hpa; trivial
          | tickWall dt => simp [projAct] at hpa; subst hpa; trivial
          | block n => simp [projAct] at hpa; subst hpa; trivial
          | crash => simp [projAct] at hpa; subst hpa; trivial

/-- the same with reachability of the whole plugin as the hypothesis -/
theorem c14_progress_despite_frozen_global (c : Cfg) (gacts : List GAct) (g : GState) (gouts : List (Nat × Out))
    (hf : ∀ a ∈ gacts, a.writeFaultOnly) (hr : grun c .current ginit gacts = some (g, gouts))
    (h : Nat) (e : PEntry) (o : Owner) (hact : (g.comps h).active = some (e, o)) :
    ∃ acts g' outs, grun c .current g acts = some (g', outs) ∧ (g'.comps h).active = none ∧
      (∀ i ∈ e.listeners, ∃ rr, (h, Out.resp i rr) ∈ outs) ∧ (∀ x ∈ outs, x.1 = h) ∧
      ∀ k, k ≠ h → SameButClocks (g.comps k) (g'.comps k) :=
  c14_progress_despite_frozen c g h e o
    (grun_reach c gacts ginit g gouts hf (fun _ => ⟨[], by intro a ha; simp at ha, rfl⟩) hr h) hact

/-! ### the per-hash safety properties, for every hash of every reachable state of the whole plugin

A global step that produces an output of hash `h` is a step of component `h`, which is reachable on
its own (`grun_reach`); hence the component-level theorems hold of every payment at once, whatever the
other payments do in between. -/

/-- the reachable states of the whole plugin -/
def GReach (c : Cfg) (g : GState) : Prop :=
  ∃ gacts gouts, (∀ a ∈ gacts, a.writeFaultOnly) ∧ grun c .current ginit gacts = some (g, gouts)

theorem GReach.comp {c : Cfg} {g : GState} (hg : GReach c g) (h : Nat) : Reach c (g.comps h) := by
  obtain ⟨gacts, gouts, hf, hr⟩ := hg
  exact grun_reach c gacts ginit g gouts hf (fun _ => ⟨[], by intro a ha; simp at ha, rfl⟩) hr h

/-- an output tagged `h` of a global step comes from a step of component `h` -/
theorem gstep_out (c : Cfg) (g g' : GState) (a : GAct) (outs : List (Nat × Out)) (h : Nat) (o : Out)
    (hs : gstep c .current g a = some (g', outs)) (ho : (h, o) ∈ outs) :
    ∃ sa s' os, sstep c .current (g.comps h) sa = some (s', os) ∧ o ∈ os := by
  cases a with
  | comp k sa =>
    simp only [gstep] at hs
    cases hst : sstep c .current (g.comps k) sa with
    | none => rw [hst] at hs; simp at hs
    | some p =>
      obtain ⟨s', os⟩ := p
      rw [hst] at hs; simp only [Option.some.injEq, Prod.mk.injEq] at hs
      obtain ⟨_, rfl⟩ := hs
      obtain ⟨o', ho', heq⟩ := List.mem_map.mp ho
      simp only [Prod.mk.injEq] at heq
      obtain ⟨rfl, rfl⟩ := heq
      exact ⟨sa, s', os, hst, ho'⟩
  | tickMono dt => simp [gstep, sharedStep] at hs; obtain ⟨_, rfl⟩ := hs; simp at ho
  | tickWall dt => simp [gstep, sharedStep] at hs; obtain ⟨_, rfl⟩ := hs; simp at ho
  | block n => simp [gstep, sharedStep] at hs; obtain ⟨_, rfl⟩ := hs; simp at ho
  | crash => simp [gstep, sharedStep] at hs; obtain ⟨_, rfl⟩ := hs; simp at ho

/-- C01 for every hash: a `resolve` of an HTLC of hash `h` carries the preimage of a completed part of hash `h` -/
theorem c01_global (c : Cfg) (g g' : GState) (a : GAct) (outs : List (Nat × Out)) (h : Nat) (i : Inv) (pre : Nat)
    (hg : GReach c g) (hs : gstep c .current g a = some (g', outs)) (ho : (h, Out.resp i (.resolve pre)) ∈ outs) :
    HasComplete (g.comps h).parts pre := by
  obtain ⟨sa, s', os, hst, hmem⟩ := gstep_out c g g' a outs h _ hs ho
  exact c01_resolve_key c (g.comps h) s' sa os i pre (hg.comp h) hst hmem

/-- C02 for every hash: an HTLC of hash `h` is failed only while nothing of hash `h` is live -/
theorem c02_global (c : Cfg) (g g' : GState) (a : GAct) (outs : List (Nat × Out)) (h : Nat) (i : Inv) (fr : FailReason)
    (hg : GReach c g) (hs : gstep c .current g a = some (g', outs)) (ho : (h, Out.resp i (.fail fr)) ∈ outs) :
    partsQuiet (g.comps h).parts ∧ (g.comps h).payRunning = false := by
  obtain ⟨sa, s', os, hst, hmem⟩ := gstep_out c g g' a outs h _ hs ho
  exact c02_fail_only_when_quiet c (g.comps h) s' sa os i fr (hg.comp h) hst hmem

/-- C05 for every hash: a pay request for hash `h` is issued only while nothing of hash `h` is live -/
theorem c05_global (c : Cfg) (g g' : GState) (a : GAct) (outs : List (Nat × Out)) (h b : Nat) (am : Option Nat) (mf md : Nat)
    (hg : GReach c g) (hs : gstep c .current g a = some (g', outs)) (ho : (h, Out.pay b am mf md) ∈ outs) :
    partsQuiet (g.comps h).parts ∧ (g.comps h).payRunning = false := by
  obtain ⟨sa, s', os, hst, hmem⟩ := gstep_out c g g' a outs h _ hs ho
  exact c05_pay_only_when_quiet c (g.comps h) s' sa os b am mf md (hg.comp h) hst hmem

/-- C08 for every hash, in every reachable state of the whole plugin (each is a possible crash image) -/
theorem c08_global (c : Cfg) (g : GState) (h : Nat) (hg : GReach c g) (hlive : ¬ partsQuiet (g.comps h).parts) :
    ∃ v gen, (g.comps h).ds = some (v, gen) ∧ v ≠ .free :=
  c08_write_ahead c (g.comps h) (hg.comp h) hlive

/-- C04 for every hash: the delay of a pay request for hash `h` against the HTLCs of hash `h` held at
    initiation and a past height of the shared register -/
theorem c04_global (c : Cfg) (g g' : GState) (a : GAct) (outs : List (Nat × Out)) (h b : Nat) (am : Option Nat) (mf md : Nat)
    (hg : GReach c g) (hs : gstep c .current g a = some (g', outs)) (ho : (h, Out.pay b am mf md) ∈ outs) :
    ∃ e o exp ht k, (g.comps h).active = some (e, o) ∧ k ≤ e.listeners.length ∧ (∀ i ∈ e.listeners.take k, exp ≤ i.expiry) ∧
      ht ≤ (g.comps h).height ∧ md = maxDelay c exp ht ∧ md ≤ exp - ht - c.cltvDelta ∧ md ≤ c.policyDelta := by
  obtain ⟨sa, s', os, hst, hmem⟩ := gstep_out c g g' a outs h _ hs ho
  exact c04_end_to_end c (g.comps h) s' sa os b am mf md (hg.comp h) hst hmem

/-- C11/C06 for every hash: a waiting lifecycle's deadline is at most one MPP timeout ahead of the clock -/
theorem c11_global (c : Cfg) (g : GState) (h : Nat) (hg : GReach c g) : DeadlineOk c (g.comps h) := by
  obtain ⟨acts, _, hr⟩ := hg.comp h
  exact c11_deadline_bound c acts (g.comps h) hr

/-- non-vacuity: two payments; the first one's very first RPC is never answered, the second one holds
    an HTLC — the state is reachable and the second payment's component has a live lifecycle -/
example : ∃ g e o, GReach demoCfg g ∧ (g.comps 2).active = some (e, o) ∧ e.listeners.length = 1 ∧
    (∃ e1 o1, (g.comps 1).active = some (e1, o1) ∧ o1.pc = .fetch ∧ o1.served = []) := by
  refine ⟨_, _, _, ⟨[.comp 1 (.arrive ⟨7, 1000000, true⟩ 1006000 1400 300 1006000),
                     .comp 2 (.arrive ⟨8, 1000000, true⟩ 500000 1400 300 1006000)], _, ?_, rfl⟩, rfl, rfl, _, _, rfl, rfl, rfl⟩
  intro a ha; simp at ha; rcases ha with rfl | rfl <;> trivial

end Tramp
