/-
Common vocabulary of the system-level property theorems (C01–C09, C11).

`Reach c s`: `s` is reached from the empty plugin over an empty node by some finite sequence of
actions of M7 — HTLC arrivals, every RPC served and delivered separately, part creation and
resolution, every way a pay command can end, both clocks, blocks, crashes, and WRITE faults (a write
refused, or applied but reported as failed). No bound on the length, the number of HTLCs, parts,
restarts. Read faults are not included (their effect is known findings K2–K4) nor acknowledged-but-
dropped writes (C09's quantifier only).
-/
import Tramp.Proofs.SysMisc

namespace Tramp

def Reach (c : Cfg) (s : SState) : Prop :=
  ∃ acts, WriteFaultsOnly acts ∧ srun c .current SState.init acts = some s

theorem Reach.inv {c : Cfg} {s : SState} (h : Reach c s) : SInv .current s := by
  obtain ⟨acts, hf, hr⟩ := h; exact reachable_inv c acts s hf hr

theorem Reach.einv {c : Cfg} {s : SState} (h : Reach c s) : EInvS c s ∧ RecvBounded s := by
  obtain ⟨acts, _, hr⟩ := h; exact einv_reachable c acts s hr

/-- every step from a reachable state is of one of three kinds (silent / answers everybody / pays) -/
theorem Reach.emit {c : Cfg} {s s' : SState} {outs : List Out} (h : Reach c s) (a : SAct)
    (hs : sstep c .current s a = some (s', outs)) : Emit s s' outs :=
  step_emit c a h.inv h.einv.1 hs

theorem srun_append (c : Cfg) (v : SVariant) (l1 l2 : List SAct) (sa sb sc : SState)
    (h1 : srun c v sa l1 = some sb) (h2 : srun c v sb l2 = some sc) : srun c v sa (l1 ++ l2) = some sc := by
  induction l1 generalizing sa with
  | nil => simp [srun] at h1; subst h1; simpa using h2
  | cons y ys ih =>
    simp only [srun, List.cons_append] at h1 ⊢
    cases hy : sstep c v sa y with
    | none => rw [hy] at h1; simp at h1
    | some p => obtain ⟨s1, o1⟩ := p; rw [hy] at h1; simp only at h1 ⊢; exact ih s1 h1

theorem Reach.extend {c : Cfg} {s0 s : SState} (h : Reach c s0) (later : List SAct) (hf : WriteFaultsOnly later)
    (hl : srun c .current s0 later = some s) : Reach c s := by
  obtain ⟨acts0, hf0, hr0⟩ := h
  refine ⟨acts0 ++ later, ?_, srun_append c .current acts0 later _ s0 s hr0 hl⟩
  intro a' ha'; simp only [List.mem_append] at ha'; rcases ha' with h | h; exact hf0 a' h; exact hf a' h

theorem mem_respAll {e : PEntry} {r r' : Resp} {i : Inv} (h : Out.resp i r' ∈ respAll e r) : r' = r ∧ i ∈ e.listeners := by
  unfold respAll at h
  simp only [List.mem_map] at h
  obtain ⟨j, hj, hjr⟩ := h
  simp only [Out.resp.injEq] at hjr
  exact ⟨hjr.2.symm, hjr.1 ▸ hj⟩

theorem pay_not_mem_respAll {e : PEntry} {r : Resp} {b : Nat} {a : Option Nat} {mf md : Nat} :
    Out.pay b a mf md ∉ respAll e r := by
  unfold respAll; simp

/-- non-vacuity: a concrete run in which an HTLC set is funded, paid and settled -/
def demoCfg : Cfg := { cltvDelta := 34, policyDelta := 144, feeBase := 1000, feePpm := 5000, mppTimeout := 60 }
def demoActs : List SAct :=
  [ .arrive ⟨0, 1000000, true⟩ 1006000 1400 300 1006000, .serve .owner .dsList, .deliver .owner .dsList,
    .takeReady, .readParams, .readHeight,
    .serve .owner (.dsWriteState (.pending 1 0) .createOrReplace), .deliver .owner (.dsWriteState (.pending 1 0) .createOrReplace),
    .serve .owner (.dsWriteAttempt 1 .mustCreate), .deliver .owner (.dsWriteAttempt 1 .mustCreate),
    .create 1, .resolve 1 (.complete 77), .payEnd (.payComplete 77) ]

example : ∃ s, srun demoCfg .current SState.init demoActs = some s ∧ s.payRunning = false ∧
    s.ds = some (.pending 1 0, 0) ∧ (∃ e o, s.active = some (e, o) ∧ o.pc = .paying 1 0 .paying) := ⟨_, rfl, rfl, rfl, _, _, rfl, rfl⟩

example : WriteFaultsOnly demoActs := by
  intro a ha; simp [demoActs] at ha; rcases ha with rfl | rfl | rfl | rfl | rfl | rfl | rfl | rfl | rfl | rfl | rfl | rfl | rfl <;> trivial

end Tramp
