/-
C04 — The outgoing payment always expires safely before the incoming HTLCs funding it.

Statement: for every pay request, the maximum route delay granted is at most (lowest absolute expiry
among the incoming HTLCs funding it, i.e. those held when the payment was initiated − chain height
known at that time − configured safety delta), floored at zero, and never above the policy's CLTV
delta. An HTLC whose relative expiry is below the policy delta and that arrives before its set is
fully funded causes the set to be rejected rather than paid.

The value travels through three program points: `readParams` records `exp := entry.cltv` (the running
minimum of the expiries of everything held, `c04_params`), `readHeight` computes
`maxDelay cfg exp height` with the height register of that moment (`c04_height`), and the pay request
carries exactly the value stored in the owner's program counter (`c04_carried`).
-/
import Tramp.Props.Sys

namespace Tramp

/-- the arithmetic: never above the policy delta, never above expiry − height − safety delta (floored at 0) -/
theorem c04_bound (c : Cfg) (exp height : Nat) :
    maxDelay c exp height ≤ c.policyDelta ∧ maxDelay c exp height ≤ exp - height - c.cltvDelta ∧
    maxDelay c exp height ≤ 65535 := by
  unfold maxDelay; omega

/-- initiation: the expiry recorded is a lower bound of the expiry of EVERY HTLC held at that moment -/
theorem c04_params (c : Cfg) (s s' : SState) (outs : List Out) (hr : Reach c s)
    (hs : sstep c .current s .readParams = some (s', outs)) :
    ∃ e o, s.active = some (e, o) ∧ s'.active = some (e, { pc := .gotParams (e.received - e.info.amount) e.cltv, served := [] }) ∧
      ∀ i ∈ e.listeners, e.cltv ≤ i.expiry := by
  simp only [sstep] at hs
  cases hact : s.active with
  | none => rw [hact] at hs; simp at hs
  | some p =>
    obtain ⟨e, o⟩ := p
    rw [hact] at hs; simp only at hs
    split at hs
    · simp only [Option.some.injEq, Prod.mk.injEq] at hs
      exact ⟨e, o, rfl, by rw [← hs.1], (hr.einv.1 e o hact).cltvLe⟩
    · simp at hs

/-- the delay is computed from that expiry and the height register at that time -/
theorem c04_height (c : Cfg) (s s' : SState) (outs : List Out)
    (hs : sstep c .current s .readHeight = some (s', outs)) :
    ∃ e o mf exp, s.active = some (e, o) ∧ o.pc = .gotParams mf exp ∧
      s'.active = some (e, { pc := .addS s.nextAid s.wall mf (maxDelay c exp s.height), served := [] }) := by
  simp only [sstep] at hs
  cases hact : s.active with
  | none => rw [hact] at hs; simp at hs
  | some p =>
    obtain ⟨e, o⟩ := p
    rw [hact] at hs; simp only at hs
    split at hs
    · rename_i mf exp hpc
      simp only [Option.some.injEq, Prod.mk.injEq] at hs
      exact ⟨e, o, mf, exp, rfl, hpc, by rw [← hs.1]⟩
    · simp at hs

/-- the pay request carries exactly the budget and delay stored when the attempt was recorded -/
theorem c04_carried (c : Cfg) (s s' : SState) (a : SAct) (outs : List Out) (b : Nat) (am : Option Nat)
    (mf md : Nat) (hr : Reach c s) (hs : sstep c .current s a = some (s', outs)) (ho : Out.pay b am mf md ∈ outs) :
    ∃ e o aid g, s.active = some (e, o) ∧ o.pc = .addA aid g mf md := by
  cases hr.emit a hs with
  | silent h => rw [h] at ho; simp at ho
  | answered e o r _ houts _ _ => rw [houts] at ho; exact absurd ho pay_not_mem_respAll
  | paid e o aid g mf' md' hact hpc houts _ _ _ =>
    rw [houts] at ho
    simp only [payOut, List.mem_singleton, Out.pay.injEq] at ho
    obtain ⟨_, _, hmf, hmd⟩ := ho
    exact ⟨e, o, aid, g, hact, by rw [hpc, hmf, hmd]⟩

/-- …and the two write acknowledgements in between do not touch them -/
theorem c04_unchanged (c : Cfg) (s : SState) (aid t mf md g : Nat) (q : SReq) :
    ownerCont c .current s (.addS aid t mf md) q (.written g) = .stay (.addA aid g mf md) ∧
    ownerCont c .current s (.addA aid g mf md) q (.written 0) = .pay (.paying aid g .paying) mf md := ⟨rfl, rfl⟩

/-- an HTLC with a relative expiry below the policy delta that arrives before readiness was signalled
    makes the entry rejected for good (no readiness, hence no pay: C07) -/
theorem c04_low_expiry_rejects (c : Cfg) (e : PEntry) (info : SInfo) (relExp : Int) (total : Nat) (i : Inv)
    (hlow : relExp < (c.policyDelta : Int)) (hnr : e.readySent = false) :
    ((e.checks c info relExp total).add c i).isFailReq = true ∧ ((e.checks c info relExp total).add c i).readySent = false := by
  have hchk : (e.checks c info relExp total).isFailReq = true ∧ (e.checks c info relExp total).readySent = false := by
    unfold PEntry.checks PEntry.failIf PEntry.fail
    have : decide (relExp < (c.policyDelta : Int)) = true := by simpa using hlow
    repeat' split
    all_goals simp_all
  unfold PEntry.add
  split
  · rename_i hc
    simp only [PEntry.canReady, PEntry.push, Bool.and_eq_true, Bool.not_eq_true'] at hc
    rw [hchk.1] at hc; simp at hc
  · simp only [PEntry.push]; exact hchk

end Tramp
