/-
C04 — The outgoing payment always expires safely before the incoming HTLCs funding it.

Statement: for every pay request, the maximum route delay granted is at most (lowest absolute expiry
among the incoming HTLCs funding it, i.e. those held when the payment was initiated − chain height
known at that time − configured safety delta), floored at zero, and never above the policy's CLTV
delta. An HTLC whose relative expiry is below the policy delta and that arrives before its set is
fully funded causes the set to be rejected rather than paid.

The value travels through three program points: `readParams` records `exp := entry.cltv` (the running
minimum of the expiries of everything held, `c04_params`), `readHeight` computes
`maxDelay cfg exp height` with the height register of that moment (`c04_height`), and the pay request
carries exactly the value stored in the owner's program counter (`c04_carried`).
-/
import Tramp.Props.Sys
import Tramp.Proofs.SysPcInv
import Tramp.Proofs.SysExpiry

namespace Tramp

/-- the arithmetic: never above the policy delta, never above expiry − height − safety delta (floored at 0) -/
theorem c04_bound (c : Cfg) (exp height : Nat) :
    maxDelay c exp height ≤ c.policyDelta ∧ maxDelay c exp height ≤ exp - height - c.cltvDelta ∧
    maxDelay c exp height ≤ 65535 := by
  unfold maxDelay; omega

/-- initiation: the expiry recorded is a lower bound of the expiry of EVERY HTLC held at that moment -/
theorem c04_params (c : Cfg) (s s' : SState) (outs : List Out) (hr : Reach c s)
    (hs : sstep c .current s .readParams = some (s', outs)) :
    ∃ e o, s.active = some (e, o) ∧ s'.active = some (e, { pc := .gotParams (e.received - e.info.amount) e.cltv, served := [] }) ∧
      ∀ i ∈ e.listeners, e.cltv ≤ i.expiry := by
  simp only [sstep] at hs
  cases hact : s.active with
  | none => rw [hact] at hs; simp at hs
  | some p =>
    obtain ⟨e, o⟩ := p
    rw [hact] at hs; simp only at hs
    split at hs
    · simp only [Option.some.injEq, Prod.mk.injEq] at hs
      exact ⟨e, o, rfl, by rw [← hs.1], (hr.einv.1 e o hact).cltvLe⟩
    · simp at hs

/-- the delay is computed from that expiry and the height register at that time -/
theorem c04_height (c : Cfg) (s s' : SState) (outs : List Out)
    (hs : sstep c .current s .readHeight = some (s', outs)) :
    ∃ e o mf exp, s.active = some (e, o) ∧ o.pc = .gotParams mf exp ∧
      s'.active = some (e, { pc := .addS s.nextAid s.wall mf (maxDelay c exp s.height), served := [] }) := by
  simp only [sstep] at hs
  cases hact : s.active with
  | none => rw [hact] at hs; simp at hs
  | some p =>
    obtain ⟨e, o⟩ := p
    rw [hact] at hs; simp only at hs
    split at hs
    · rename_i mf exp hpc
      simp only [Option.some.injEq, Prod.mk.injEq] at hs
      exact ⟨e, o, mf, exp, rfl, hpc, by rw [← hs.1]⟩
    · simp at hs

/-- the pay request carries exactly the budget and delay stored when the attempt was recorded -/
theorem c04_carried (c : Cfg) (s s' : SState) (a : SAct) (outs : List Out) (b : Nat) (am : Option Nat)
    (mf md : Nat) (hr : Reach c s) (hs : sstep c .current s a = some (s', outs)) (ho : Out.pay b am mf md ∈ outs) :
    ∃ e o aid g, s.active = some (e, o) ∧ o.pc = .addA aid g mf md := by
  cases hr.emit a hs with
  | silent h => rw [h] at ho; simp at ho
  | answered e o r _ houts _ _ => rw [houts] at ho; exact absurd ho pay_not_mem_respAll
  | paid e o aid g mf' md' hact hpc houts _ _ _ =>
    rw [houts] at ho
    simp only [payOut, List.mem_singleton, Out.pay.injEq] at ho
    obtain ⟨_, _, hmf, hmd⟩ := ho
    exact ⟨e, o, aid, g, hact, by rw [hpc, hmf, hmd]⟩

/-- End to end for the policy half of the bound: from EVERY reachable state, whatever was scheduled,
    crashed or made to fail before, a pay request carries a delay of at most the policy's CLTV delta
    (and fits 16 bits). The invariant behind it (`delayPred`, inductive under every action): the delay
    stored with an attempt is a value of `maxDelay`. -/
theorem c04_pay_delay_bounded (c : Cfg) (s s' : SState) (a : SAct) (outs : List Out) (b : Nat) (am : Option Nat)
    (mf md : Nat) (hr : Reach c s) (hs : sstep c .current s a = some (s', outs)) (ho : Out.pay b am mf md ∈ outs) :
    md ≤ c.policyDelta ∧ md ≤ 65535 := by
  obtain ⟨e, o, aid, g, hact, hpc⟩ := c04_carried c s s' a outs b am mf md hr hs ho
  obtain ⟨acts, _, hrun⟩ := hr
  have hinv := (delayPred c).run acts SState.init s (delayPred c).init hrun e o hact
  rw [hpc] at hinv
  exact hinv

/-- **C04 end to end.** From EVERY reachable state, a pay request's delay `md` is `maxDelay` of
    (i) an expiry `exp` that is a lower bound of the expiries of the first `k` HTLCs of the entry —
    the HTLCs held when the payment was initiated: listeners are only ever appended
    (`add_listeners`), and `k` was the number held at that moment (`exp_step`, case `readParams`) —
    and (ii) a height `h` the register had at that time (`h ≤` the height it has now). Hence
    `md ≤ exp − h − safety delta` (floored at zero) and `md ≤` the policy delta, whatever arrived,
    was mined, crashed or failed in between. -/
theorem c04_end_to_end (c : Cfg) (s s' : SState) (a : SAct) (outs : List Out) (b : Nat) (am : Option Nat)
    (mf md : Nat) (hr : Reach c s) (hs : sstep c .current s a = some (s', outs)) (ho : Out.pay b am mf md ∈ outs) :
    ∃ e o exp h k, s.active = some (e, o) ∧ k ≤ e.listeners.length ∧ (∀ i ∈ e.listeners.take k, exp ≤ i.expiry) ∧
      h ≤ s.height ∧ md = maxDelay c exp h ∧ md ≤ exp - h - c.cltvDelta ∧ md ≤ c.policyDelta := by
  obtain ⟨e, o, aid, g, hact, hpc⟩ := c04_carried c s s' a outs b am mf md hr hs ho
  obtain ⟨acts, _, hrun⟩ := hr
  have h0 := einv_reachable c [] SState.init rfl
  have hinv := exp_run c acts SState.init s (exp_init c) h0.1 h0.2 hrun e o hact
  rw [hpc] at hinv
  obtain ⟨exp, h, k, hmd, hle, hk, hall⟩ := hinv
  have hb := c04_bound c exp h
  exact ⟨e, o, exp, h, k, hact, hk, hall, hle, hmd, by rw [hmd]; exact hb.2.1, by rw [hmd]; exact hb.1⟩

/-- non-vacuity: in the demo run the acknowledgement of the attempt record issues the pay request,
    with delay 144 = min(1400 − 0 − 34, 65535, 144) -/
example : ∃ s s' outs, Reach demoCfg s ∧
    sstep demoCfg .current s (.deliver .owner (.dsWriteAttempt 1 .mustCreate)) = some (s', outs) ∧
    Out.pay 0 none 6000 144 ∈ outs := by
  refine ⟨_, _, _, ⟨demoActs.take 9, ?_, rfl⟩, rfl, by decide⟩
  intro a ha
  simp [demoActs] at ha
  rcases ha with rfl | rfl | rfl | rfl | rfl | rfl | rfl | rfl | rfl <;> trivial

/-- …and the two write acknowledgements in between do not touch them -/
theorem c04_unchanged (c : Cfg) (s : SState) (aid t mf md g : Nat) (q : SReq) :
    ownerCont c .current s (.addS aid t mf md) q (.written g) = .stay (.addA aid g mf md) ∧
    ownerCont c .current s (.addA aid g mf md) q (.written 0) = .pay (.paying aid g .paying) mf md := ⟨rfl, rfl⟩

/-- an HTLC with a relative expiry below the policy delta that arrives before readiness was signalled
    makes the entry rejected for good (no readiness, hence no pay: C07) -/
theorem c04_low_expiry_rejects (c : Cfg) (e : PEntry) (info : SInfo) (relExp : Int) (total : Nat) (i : Inv)
    (hlow : relExp < (c.policyDelta : Int)) (hnr : e.readySent = false) :
    ((e.checks c info relExp total).add c i).isFailReq = true ∧ ((e.checks c info relExp total).add c i).readySent = false := by
  have hchk : (e.checks c info relExp total).isFailReq = true ∧ (e.checks c info relExp total).readySent = false := by
    unfold PEntry.checks PEntry.failIf PEntry.fail
    have : decide (relExp < (c.policyDelta : Int)) = true := by simpa using hlow
    repeat' split
    all_goals simp_all
  unfold PEntry.add
  split
  · rename_i hc
    simp only [PEntry.canReady, PEntry.push, Bool.and_eq_true, Bool.not_eq_true'] at hc
    rw [hchk.1] at hc; simp at hc
  · simp only [PEntry.push]; exact hchk

end Tramp
