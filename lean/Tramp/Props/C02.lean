/-
C02 — Incoming HTLCs are never failed back while the outgoing payment can succeed.

Statement: once an outgoing payment attempt for a payment hash exists on the node, the plugin fails
an incoming HTLC it is holding for that hash only at a moment when no outgoing part for the hash is
pending or complete and no pay command for it is running. This holds across restarts: replayed
HTLCs of a payment that was in flight stay held until the fate of the interrupted attempt is known,
and are settled with its preimage if it completes.

Proved for every reachable state of M7: every interleaving, every crash point, every stored
history the system itself can produce, every write fault. Read faults are NOT covered: K2 and K3
(known findings, thorough tier) are exactly what happens under them; `c02_readfault_counterexample`
machine-checks K2 on the model.
-/
import Tramp.Props.Sys

namespace Tramp

/-- a failure is handed to the node only in a state where nothing is live for this hash -/
theorem c02_fail_only_when_quiet (c : Cfg) (s s' : SState) (a : SAct) (outs : List Out) (i : Inv) (fr : FailReason)
    (hr : Reach c s) (hs : sstep c .current s a = some (s', outs)) (ho : Out.resp i (.fail fr) ∈ outs) :
    partsQuiet s.parts ∧ s.payRunning = false := by
  cases hr.emit a hs with
  | silent h => rw [h] at ho; simp at ho
  | answered e o r hact houts _ hok =>
    rw [houts] at ho
    have ⟨hr', _⟩ := mem_respAll ho
    subst hr'
    exact hok
  | paid e o aid g mf md _ _ houts _ _ _ => rw [houts] at ho; simp [payOut] at ho

/-- across restarts: as long as a part of an earlier attempt is pending or complete, whatever the
    plugin answers to a held HTLC is a settlement -/
theorem c02_live_means_held_or_settled (c : Cfg) (s s' : SState) (a : SAct) (outs : List Out) (i : Inv) (r : Resp)
    (hr : Reach c s) (hlive : ¬ partsQuiet s.parts) (hs : sstep c .current s a = some (s', outs))
    (ho : Out.resp i r ∈ outs) : ∃ pre, r = .resolve pre ∧ HasComplete s.parts pre := by
  cases r with
  | fail fr => exact absurd (c02_fail_only_when_quiet c s s' a outs i fr hr hs ho).1 hlive
  | resolve pre =>
    refine ⟨pre, rfl, ?_⟩
    cases hr.emit a hs with
    | silent h => rw [h] at ho; simp at ho
    | answered e o r' hact houts _ hok =>
      rw [houts] at ho
      have ⟨hr', _⟩ := mem_respAll ho
      subst hr'
      exact hok
    | paid e o aid g mf md _ _ houts _ _ _ => rw [houts] at ho; simp [payOut] at ho

/-- the restart path settles with the preimage the wait found -/
theorem c02_restart_settles (aid g t pre : Nat) :
    afterRestartWait aid g t (.ret (.some pre)) = .finishBk (.resolve pre) (.succS aid pre) := rfl

/-- K2 on the model: a failing `listdatastore` at lifecycle start fails the HTLC with
    temporary_node_failure although a part of the interrupted attempt is pending. -/
theorem c02_readfault_counterexample :
    ∃ acts s outs, srun demoCfg .current SState.init acts = some s ∧
      sstep demoCfg .current s (.deliver .owner .dsList) = some outs ∧
      (∃ i, Out.resp i (.fail .tnf) ∈ outs.2) ∧ ¬ partsQuiet s.parts := by
  refine ⟨demoActs.take 11 ++ [.crash, .arrive ⟨0, 1000000, true⟩ 1006000 1400 300 1006000,
      .fault .owner .dsList .readErr], _, _, rfl, rfl, ⟨⟨1, 1006000, 1400⟩, by decide⟩, by decide⟩

end Tramp
