/-
C12 — Fee check is arithmetically exact; its rejection carries the current policy.

Statement: the sufficiency test equals the exact integer predicate
  total ≥ amount + base_fee + ⌊amount·ppm / 10⁶⌋
for all 64-bit amounts and 32-bit policy values (false whenever the right-hand side exceeds
64 bits), without panicking [...]; a fee-or-expiry-insufficient failure encodes exactly the
configured base fee, proportional fee and CLTV delta.

`c12_exact_partial` carries the hypothesis `amount·ppm < 2⁶⁴`: outside it the code answers `false`
(`c12_mul_overflow_false`) although the exact predicate can be true
(`c12_mul_overflow_counterexample`, known finding K1 — pinned by the repository's own test
`fee_mul_overflow`, so it cannot be repaired with the test-suite unedited; it errs on the safe side:
`c12_sound` holds unconditionally, the plugin never accepts an underpaying set).
The part of C12 about the first HTLC of a payment is a statement about the lifecycle and lives in
the system model (Props/C12Sys).
-/
import Tramp.Model.Fee
import Tramp.Proofs.Bytes

namespace Tramp

/-- Soundness, unconditional: `true` is only ever answered when the exact predicate holds. -/
theorem c12_sound (base ppm total inv : Nat) (h : feeSufficient base ppm total inv = .ok true) :
    feeExact base ppm total inv := by
  unfold feeSufficient at h
  unfold feeExact
  split at h
  · simp at h
  · split at h
    · simp at h
    · split at h
      · simp at h
      · split at h
        · simp at h
        · simp only [Res.ok.injEq, decide_eq_true_eq] at h
          unfold feeMsat ratePart at h
          omega

/-- Exactness wherever the multiplication fits in 64 bits: the answer IS the exact predicate
    (and hence `false` whenever the right-hand side exceeds 64 bits, since `total < 2⁶⁴`). -/
theorem c12_exact_partial (base ppm total inv : Nat) (ht : total < U64) (hm : inv * ppm < U64) :
    (feeExact base ppm total inv → feeSufficient base ppm total inv = .ok true) ∧
    (¬ feeExact base ppm total inv → feeSufficient base ppm total inv = .ok false) := by
  unfold feeSufficient feeExact feeMsat ratePart
  by_cases h1 : total < inv
  · rw [if_pos h1]; exact ⟨fun h => by omega, fun _ => rfl⟩
  · rw [if_neg h1, if_neg (by omega)]
    by_cases h2 : base + inv * ppm / 1000000 ≥ U64
    · rw [if_pos h2]; exact ⟨fun h => by omega, fun _ => rfl⟩
    · rw [if_neg h2]
      by_cases h3 : inv + (base + inv * ppm / 1000000) ≥ U64
      · rw [if_pos h3]; exact ⟨fun h => by omega, fun _ => rfl⟩
      · rw [if_neg h3]
        constructor
        · intro h; congr 1; rw [decide_eq_true_eq]; omega
        · intro h; congr 1; rw [decide_eq_false_iff_not]; omega

/-- Monotone in what the sender holds: a set that is sufficient stays sufficient when more arrives
    (as long as the held total still is a 64-bit amount — the sum is checked, fix F8). Needs no
    hypothesis on `amount·ppm`: `true` was answered, so the product fitted. -/
theorem c12_mono_total (base ppm total total' inv : Nat)
    (h : feeSufficient base ppm total inv = .ok true) (hle : total ≤ total') :
    feeSufficient base ppm total' inv = .ok true := by
  unfold feeSufficient at h ⊢
  by_cases h1 : total < inv
  · rw [if_pos h1] at h; simp at h
  · rw [if_neg h1] at h
    by_cases h2 : inv * ppm ≥ U64
    · rw [if_pos h2] at h; simp at h
    · rw [if_neg h2] at h
      by_cases h3 : feeMsat base ppm inv ≥ U64
      · rw [if_pos h3] at h; simp at h
      · rw [if_neg h3] at h
        by_cases h4 : inv + feeMsat base ppm inv ≥ U64
        · rw [if_pos h4] at h; simp at h
        · rw [if_neg h4] at h
          simp only [Res.ok.injEq, decide_eq_true_eq] at h
          rw [if_neg (by omega), if_neg h2, if_neg h3, if_neg h4]
          congr 1; rw [decide_eq_true_eq]; omega

/-- Antitone in the policy: what suffices under a policy suffices under any cheaper one
    (operators lowering `base`/`ppm` never turn an accepted set into a rejected one). -/
theorem c12_anti_policy (base base' ppm ppm' total inv : Nat)
    (h : feeSufficient base ppm total inv = .ok true) (hb : base' ≤ base) (hp : ppm' ≤ ppm) :
    feeSufficient base' ppm' total inv = .ok true := by
  have hmul : inv * ppm' ≤ inv * ppm := Nat.mul_le_mul_left inv hp
  have hdiv : inv * ppm' / 1000000 ≤ inv * ppm / 1000000 := Nat.div_le_div_right hmul
  unfold feeSufficient at h ⊢
  by_cases h1 : total < inv
  · rw [if_pos h1] at h; simp at h
  · rw [if_neg h1] at h
    by_cases h2 : inv * ppm ≥ U64
    · rw [if_pos h2] at h; simp at h
    · rw [if_neg h2] at h
      by_cases h3 : feeMsat base ppm inv ≥ U64
      · rw [if_pos h3] at h; simp at h
      · rw [if_neg h3] at h
        by_cases h4 : inv + feeMsat base ppm inv ≥ U64
        · rw [if_pos h4] at h; simp at h
        · rw [if_neg h4] at h
          simp only [Res.ok.injEq, decide_eq_true_eq] at h
          unfold feeMsat ratePart at h h3 h4 ⊢
          rw [if_neg h1, if_neg (by omega), if_neg (by omega), if_neg (by omega)]
          congr 1; rw [decide_eq_true_eq]; omega

example : feeSufficient 1000 5000 1006000 1000000 = .ok true ∧ 1006000 ≤ 2000000 ∧ 500 ≤ 1000 := by
  decide

/-- What the code does when `amount·ppm` does not fit: it answers `false`. -/
theorem c12_mul_overflow_false (base ppm total inv : Nat) (hm : inv * ppm ≥ U64) :
    feeSufficient base ppm total inv = .ok false := by
  unfold feeSufficient
  split <;> rfl

/-- No input panics or errors, in either build profile (the function does not depend on it). -/
theorem c12_total (base ppm total inv : Nat) :
    ∃ b, feeSufficient base ppm total inv = .ok b := by
  unfold feeSufficient
  repeat' split
  all_goals exact ⟨_, rfl⟩

/-- The failure message is `0x2000|26` followed by base (4 bytes), ppm (4 bytes), delta (2 bytes),
    all big-endian, and those fields decode back to exactly the configured values. -/
theorem c12_encode (base ppm delta : Nat) (hb : base < U32) (hp : ppm < U32) (hd : delta < U16) :
    ∃ fb fp fd : Bytes,
      encodeFailure (.foei base ppm delta) = [0x20, 26] ++ fb ++ fp ++ fd ∧
      fb.length = 4 ∧ fp.length = 4 ∧ fd.length = 2 ∧
      beVal fb = base ∧ beVal fp = ppm ∧ beVal fd = delta := by
  refine ⟨beBytes 4 base, beBytes 4 ppm, beBytes 2 delta, ?_, beBytes_length _ _, beBytes_length _ _,
    beBytes_length _ _, ?_, ?_, ?_⟩
  · simp [encodeFailure]
  · rw [beVal_beBytes]; unfold U32 at hb; omega
  · rw [beVal_beBytes]; unfold U32 at hp; omega
  · rw [beVal_beBytes]; unfold U16 at hd; omega

/-- Pinned tree, overflow checks on: the final addition panics (defect D3). -/
theorem c12_pinned_panics :
    feeSufficientPinned .checked 10 0 (U64 - 1) (U64 - 2) = .panic := by decide

/-- Pinned tree, overflow checks off: the sum wraps and an underpaying set is ACCEPTED. -/
theorem c12_pinned_wraps_true :
    feeSufficientPinned .wrapping 10 0 (U64 - 1) (U64 - 2) = .ok true ∧
    ¬ feeExact 10 0 (U64 - 1) (U64 - 2) := by decide

/-- Known finding K1: the exact predicate is true, the code says `false`. -/
theorem c12_mul_overflow_counterexample :
    feeExact 0 2 (U64 - 1) (2 ^ 63) ∧ feeSufficient 0 2 (U64 - 1) (2 ^ 63) = .ok false := by decide

/-! Non-vacuity -/
example : feeSufficient 1000 5000 1006000 1000000 = .ok true := by decide
example : 1000000 * 5000 < U64 ∧ 1006000 < U64 := by decide
example : feeSufficient 10 0 (U64 - 1) (U64 - 2) = .ok false := by decide

end Tramp
