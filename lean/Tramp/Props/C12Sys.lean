/-
C12 (system clauses) — whenever the plugin answers with a fee-or-expiry-insufficient failure it
encodes exactly the configured policy; the first HTLC of a payment with no earlier attempt is
answered with that failure if its declared total fails the test or its relative expiry is below the
policy delta (non-zero MPP timeout).
-/
import Tramp.Props.Sys
import Tramp.Props.C12

namespace Tramp

/-- the only fee-or-expiry-insufficient failure the plugin ever builds carries the configured
    base fee, proportional fee and CLTV delta -/
theorem c12_failure_is_policy (c : Cfg) : foei c = .fail (.foei c.feeBase c.feePpm c.policyDelta) := rfl

/-- first HTLC of a payment (no table entry yet): if its declared total fails the fee test or its
    relative expiry is below the policy delta, the fee-or-expiry failure is put into the (empty) fail
    channel and readiness is not signalled -/
theorem c12_first_htlc_rejected (c : Cfg) (info : SInfo) (i : Inv) (relExp : Int) (total : Nat)
    (hbad : feeOk c total info.amount = false ∨ relExp < (c.policyDelta : Int)) :
    (((PEntry.new info).checks c info relExp total).add c i).failBuf = some (foei c) ∧
    (((PEntry.new info).checks c info relExp total).add c i).readySent = false ∧
    (((PEntry.new info).checks c info relExp total).add c i).readyBuf = false := by
  have hchk : ((PEntry.new info).checks c info relExp total).failBuf = some (foei c) ∧
      ((PEntry.new info).checks c info relExp total).isFailReq = true ∧
      ((PEntry.new info).checks c info relExp total).readySent = false ∧
      ((PEntry.new info).checks c info relExp total).readyBuf = false := by
    unfold PEntry.checks PEntry.failIf PEntry.fail PEntry.new
    rcases hbad with hb | hb
    · simp [hb]
      split <;> simp
    · have : decide (relExp < (c.policyDelta : Int)) = true := by simpa using hb
      simp [this]
  unfold PEntry.add
  split
  · rename_i hc
    simp only [PEntry.canReady, PEntry.push, Bool.and_eq_true, Bool.not_eq_true'] at hc
    rw [hchk.2.1] at hc; simp at hc
  · simp only [PEntry.push]; exact ⟨hchk.1, hchk.2.2.1, hchk.2.2.2⟩

/-- with no earlier attempt on record and a non-zero timeout the owner then sits in the `select!`
    where the fail branch is ready and the ready branch is not: taking it answers every held HTLC
    with exactly that failure (the timer branch becomes ready only one full timeout later, C11) -/
theorem c12_first_htlc_answer (c : Cfg) (s : SState) (e : PEntry) (o : Owner) (d : Nat)
    (hact : s.active = some (e, o)) (hpc : o.pc = .waitHtlcs d) (hfb : e.failBuf = some (foei c)) :
    sstep c .current s .takeFail = some ({ s with active := none }, e.listeners.map (fun i => Out.resp i (foei c))) ∧
    (e.readyBuf = false → sstep c .current s .takeReady = none) := by
  refine ⟨by simp [sstep, hact, hpc, hfb, respAll], ?_⟩
  intro hrb; simp [sstep, hact, hpc, hrb]

/-- and the bytes on the wire are `0x2000|26 ‖ base ‖ ppm ‖ delta` (C12, `c12_encode`) -/
theorem c12_failure_bytes (c : Cfg) :
    encodeFailure (.foei c.feeBase c.feePpm c.policyDelta) =
      [0x20, 26] ++ (beBytes 4 c.feeBase ++ (beBytes 4 c.feePpm ++ beBytes 2 c.policyDelta)) := rfl

end Tramp
