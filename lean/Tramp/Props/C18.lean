/-
C18 — TLV codec is total and lossless.

Statement (properties.jsonl): decoding never panics on any byte string: it either returns records
or an error. For every valid BOLT TLV stream, decoding then encoding reproduces the input bytes
exactly, and encoding then decoding reproduces the records; truncated-integer fields decode to
their big-endian value for lengths 0 to 8 and are rejected above 8.

Only property theorems, their counterexamples for the pinned tree, and non-vacuity examples live here.
-/
import Tramp.Proofs.Tlv

namespace Tramp

/-- Totality of `from_bytes`: for EVERY byte string the result is records or an error. -/
theorem c18_total_fromBytes (bs : Bytes) : fromBytes bs ≠ .panic :=
  fromBytesAux_no_panic bs.length bs (Nat.le_refl _)

/-- Totality of the length-prefixed entry point `TryFrom<Vec<u8>>`. -/
theorem c18_total_tryFrom (bs : Bytes) : tryFromPrefixed bs ≠ .panic := by
  unfold tryFromPrefixed tryFromPrefixedWith
  split
  · simp
  · split
    · rename_i n rest _
      exact fromBytesAux_no_panic rest.length rest (Nat.le_refl _)
    · simp
    · rename_i hp; exact absurd hp (getCompactSize_no_panic bs)

/-- encode ∘ decode: every record list (u64 types and lengths) survives the round trip. -/
theorem c18_encode_decode (es : List Entry) (h : EntriesOk es) : fromBytes (toBytes es) = .ok es :=
  fromBytesAux_toBytes .checked es h _ (Nat.le_refl _)

/-- lossless ⇒ unambiguous: two well-formed record lists with the same encoding are the same list
    (no two different TLV streams of the plugin's own making can be confused on the wire). -/
theorem c18_encode_injective (a b : List Entry) (ha : EntriesOk a) (hb : EntriesOk b)
    (h : toBytes a = toBytes b) : a = b := by
  have h1 := c18_encode_decode a ha
  have h2 := c18_encode_decode b hb
  rw [h] at h1
  rw [h1] at h2
  cases h2
  rfl

/-- decode ∘ encode: on every valid BOLT TLV stream the decoder returns exactly the records the
    strict reference decoder sees, and re-encoding them reproduces the input byte for byte. -/
theorem c18_decode_encode (bs : Bytes) (es : List Entry) (h : strictDecode bs = some es) :
    fromBytes bs = .ok es ∧ toBytes es = bs := by
  have ⟨e, ok⟩ := strictDecodeAux_spec _ _ _ h
  subst e
  exact ⟨c18_encode_decode es ok, rfl⟩

/-- truncated u64: 0..8 bytes decode to their big-endian value (0 bytes → 0) -/
theorem c18_tu64_value (bs : Bytes) (h : bs.length ≤ 8) : getTu64 bs = .ok (beVal bs) := by
  unfold getTu64
  split
  · rename_i h0
    have : bs = [] := List.length_eq_zero_iff.mp h0
    subst this; rfl
  · rw [if_neg (by omega)]

/-- … and are rejected above 8 bytes -/
theorem c18_tu64_reject (bs : Bytes) (h : bs.length > 8) : getTu64 bs = .err := by
  unfold getTu64
  rw [if_neg (by omega), if_pos h]

/-- BigSize: reading what was written returns the value and leaves the following bytes alone. -/
theorem c18_bigsize_roundtrip (n : Nat) (hn : n < 2 ^ 64) (rest : Bytes) :
    getCompactSize (putCompactSize n ++ rest) = .ok (n, rest) :=
  getCompactSize_put .checked n hn rest

/-- The pinned tree (unchecked `get_u16`): a two-byte input panics. Machine-checked regression
    witness for defect D2; replayed on the code by suite `tlv`. -/
theorem c18_pinned_counterexample :
    fromBytesPinned [0xfd, 0x00] = .panic ∧ tryFromPrefixedPinned [0xfd] = .panic := by
  constructor <;> rfl

/-! Non-vacuity: the hypotheses are met by concrete non-trivial inputs. -/
example : strictDecode [0x01, 0x02, 0xaa, 0xbb, 0xfd, 0x01, 0x00, 0x00] =
    some [⟨1, [0xaa, 0xbb]⟩, ⟨256, []⟩] := by rfl
example : EntriesOk [⟨16, [1, 2, 3]⟩, ⟨33001, []⟩] := by
  intro e he; simp at he; rcases he with rfl | rfl <;> simp
example : fromBytes [0xfd, 0x00] = .err := by rfl
example : getTu64 [1, 0] = .ok 256 := by rfl

end Tramp
