/-
C13 — Non-trampoline HTLCs pass through untouched and without side effects.

Statement: an HTLC that is a plain forward, or carries no (or unusable) trampoline metadata, is
answered with `continue` without waiting on any external event; the plugin makes no RPC call,
stores nothing and retains no state for it. If the plugin rewrites the onion payload at all, the
rewrite only removes the payment-metadata record and preserves every other record byte-for-byte
and in order.

Here: the pure part (what the immediate answer is, and what a rewritten payload looks like), for
every request and every `parse`. "No state, no RPC" is a statement about the transition system and
is `c13_no_effect` in Props/C13Sys (the arrival of a non-trampoline request is a no-op there).
-/
import Tramp.Proofs.Classify

namespace Tramp

/-- A request that is not classified as trampoline is answered at once, and — except for the
    self-route-hint rejection that C10 prescribes — the answer is `continue`. -/
theorem c13_immediate (parse : Bytes → Option InvoiceView) (allow : Bool) (req : Req) :
    (∃ i f, classify parse allow req = .tramp i f) ∨
    (∃ p, classify parse allow req = .cont p) ∨
    (classify parse allow req = .failTNF ∧
      ∃ i, extractWith true parse req = .info i ∧ i.inv.selfLastHop = true ∧ allow = false) := by
  unfold classify classifyWith
  have hd : ∀ pl, ∃ p, defaultResponse pl = .cont p := by
    intro pl; unfold defaultResponse; repeat' split
    all_goals exact ⟨_, rfl⟩
  split
  · right; left; exact hd _
  · split
    · right; left; exact hd _
    · right; left; exact hd _
    · rename_i i hex
      split
      · rename_i hs
        right; right
        refine ⟨rfl, i, hex, ?_⟩
        simpa using hs
      · split
        · right; left; exact hd _
        · left; exact ⟨_, _, rfl⟩

/-- A plain forward is always `continue` (whatever else the request contains). -/
theorem c13_forward (parse : Bytes → Option InvoiceView) (allow : Bool) (req : Req)
    (h : req.onion.hasScid = true) : ∃ p, classify parse allow req = .cont p := by
  unfold classify classifyWith
  simp only [h, if_true]
  unfold defaultResponse; repeat' split
  all_goals exact ⟨_, rfl⟩

/-- If the payload is rewritten at all, the new payload is the encoding of the input records with
    exactly the FIRST payment-metadata record removed: every other record, before and after it, is
    kept in order. -/
theorem c13_rewrite_records (parse : Bytes → Option InvoiceView) (allow : Bool) (req : Req) (p : Bytes)
    (h : classify parse allow req = .cont (some p)) :
    ∃ pre e post, req.onion.payload = pre ++ e :: post ∧ e.typ = TLV_PAYMENT_METADATA ∧
      (∀ x ∈ pre, x.typ ≠ TLV_PAYMENT_METADATA) ∧ p = toBytes (pre ++ post) := by
  have key : ∀ pl, defaultResponse pl = .cont (some p) →
      ∃ pre e post, pl = pre ++ e :: post ∧ e.typ = TLV_PAYMENT_METADATA ∧
        (∀ x ∈ pre, x.typ ≠ TLV_PAYMENT_METADATA) ∧ p = toBytes (pre ++ post) := by
    intro pl hd
    unfold defaultResponse at hd
    split at hd
    · simp at hd
    · rename_i e he
      split at hd
      · split at hd
        · simp only [Class.cont.injEq, Option.some.injEq] at hd
          have ⟨ht, hmem⟩ := getEntry_some_typ _ _ _ he
          rcases removeEntry_spec pl TLV_PAYMENT_METADATA with ⟨hall, _⟩ | ⟨pre, e', post, hes, ht', hpre, hrm⟩
          · exact absurd ht (hall e hmem)
          · exact ⟨pre, e', post, hes, ht', hpre, by rw [← hd, hrm]⟩
        · simp at hd
      · simp at hd
  unfold classify classifyWith at h
  split at h
  · exact key _ h
  · split at h
    · exact key _ h
    · exact key _ h
    · split at h
      · simp at h
      · split at h
        · exact key _ h
        · simp at h

/-- …and on a valid BOLT TLV stream this is byte-for-byte: the output is the input with exactly the
    byte range of that one record cut out. -/
theorem c13_rewrite_bytes (bs : Bytes) (es pre post : List Entry) (e : Entry)
    (hdec : strictDecode bs = some es) (hes : es = pre ++ e :: post) :
    bs = toBytes pre ++ encodeEntry e ++ toBytes post ∧
    toBytes (pre ++ post) = toBytes pre ++ toBytes post := by
  have ⟨hb, _⟩ := strictDecodeAux_spec _ _ _ hdec
  subst hes
  refine ⟨?_, toBytes_append _ _⟩
  rw [hb, toBytes_append]
  simp [toBytes, List.append_assoc]

/-! Non-vacuity -/
example : classify (fun _ => none) true
    { onion := { payload := [⟨2, [1]⟩, ⟨16, [0x05, 0xfd, 0x80, 0xe9, 0x01, 0x41]⟩, ⟨8, [7]⟩], hasScid := true,
                 forwardMsat := some 9, totalMsat := none },
      htlc := { amountMsat := 9, cltvExpiry := 0, cltvRel := 0, hash := [1] } }
    = .cont (some [2, 1, 1, 8, 1, 7]) := by decide

end Tramp
