/-
C14 ∧ C06 over all payment hashes: the whole plugin comes to rest.

`c06_no_infinite_internal_run` is about one payment hash. Here the same is proved of the product of
all hashes (M7'): starting in any reachable state of the whole plugin there is no infinite run made
only of internal steps — of ANY hashes, interleaved in any way. No payment can keep the plugin busy
forever, alone or in a ping-pong with other payments, so a stimulus for one payment (its timer, a
part of it resolving) is never starved by internal activity of the others.

Proof: only finitely many hashes have ever been touched (the others hold the initial component, on
which no internal step is possible); an internal step of hash `h` strictly decreases the measure of
component `h` (`c06_internal_steps_decrease`; the component is reachable on its own by `grun_reach`)
and leaves every other component as it was (`c14_frame`); "one position of a finite vector decreases
in a well-founded order, the others stay" is well-founded (induction on the vector, lexicographic
product).
-/
import Tramp.Props.C06Term
import Tramp.Props.C14Live

namespace Tramp

abbrev TM := (Nat × Nat) × Nat

/-- one of the positions listed in `H` decreases, the other listed positions stay -/
def RH (H : List Nat) (f' f : Nat → TM) : Prop :=
  ∃ h ∈ H, ltM (f' h) (f h) ∧ ∀ k ∈ H, k ≠ h → f' k = f k

theorem rh_wf : ∀ H : List Nat, WellFounded (RH H)
  | [] => ⟨fun f => Acc.intro f (fun f' h => by obtain ⟨h, hh, _⟩ := h; simp at hh)⟩
  | h0 :: H => by
    have ih := rh_wf H
    have hlex : WellFounded (Prod.Lex ltM (RH H)) := (Prod.lex ⟨ltM, ltM_wf⟩ ⟨RH H, ih⟩).wf
    refine Subrelation.wf (r := InvImage (Prod.Lex ltM (RH H)) (fun f : Nat → TM => (f h0, f))) ?_ (InvImage.wf _ hlex)
    intro f' f hr
    obtain ⟨h, hh, hlt, hothers⟩ := hr
    by_cases he : h = h0
    · subst he; exact Prod.Lex.left _ _ hlt
    · have hhH : h ∈ H := by simp at hh; rcases hh with hh | hh; exact absurd hh he; exact hh
      have h0eq : f' h0 = f h0 := hothers h0 (by simp) (Ne.symm he)
      show Prod.Lex ltM (RH H) (f' h0, f') (f h0, f)
      rw [h0eq]
      exact Prod.Lex.right _ ⟨h, hhH, hlt, fun k hk hne => hothers k (by simp [hk]) hne⟩

/-! ### untouched components -/

/-- nothing of the plugin is live for this hash -/
def Idle (s : SState) : Prop := s.active = none ∧ s.bks = []

theorem idle_no_internal (c : Cfg) (s : SState) (a : SAct) (hi : Idle s) (ha : a.isInternal = true) :
    sstep c .current s a = none := by
  obtain ⟨hact, hb⟩ := hi
  cases a with
  | serve t q =>
    cases t with
    | owner =>
      simp only [sstep]
      split
      · rfl
      · simp [stepServeOwner, hact]
    | bk id => simp [sstep, stepServeBk, findBk, hb]
  | fault t q f =>
    cases t with
    | owner => simp [sstep, stepServeOwner, hact]
    | bk id => simp [sstep, stepServeBk, findBk, hb]
  | deliver t q =>
    cases t with
    | owner => simp [sstep, stepDeliverOwner, hact]
    | bk id => simp [sstep, stepDeliverBk, findBk, hb]
  | payEnd r => simp [sstep, hact]
  | timerFire => simp [sstep, hact]
  | takeFail => simp [sstep, hact]
  | takeReady => simp [sstep, hact]
  | readParams => simp [sstep, hact]
  | readHeight => simp [sstep, hact]
  | arrive _ _ _ _ _ => simp [SAct.isInternal] at ha
  | tickMono _ => simp [SAct.isInternal] at ha
  | tickWall _ => simp [SAct.isInternal] at ha
  | block _ => simp [SAct.isInternal] at ha
  | crash => simp [SAct.isInternal] at ha
  | create _ => simp [SAct.isInternal] at ha
  | resolve _ _ => simp [SAct.isInternal] at ha

/-- the hashes a run touches -/
def hashesOf : List GAct → List Nat
  | [] => []
  | .comp h _ :: as => h :: hashesOf as
  | _ :: as => hashesOf as

theorem gstep_idle (c : Cfg) (g g' : GState) (a : GAct) (outs : List (Nat × Out)) (k : Nat)
    (hs : gstep c .current g a = some (g', outs)) (hk : ∀ h sa, a = .comp h sa → k ≠ h) (hi : Idle (g.comps k)) :
    Idle (g'.comps k) := by
  cases a with
  | comp h sa =>
    simp only [gstep] at hs
    cases hst : sstep c .current (g.comps h) sa with
    | none => rw [hst] at hs; simp at hs
    | some p =>
      rw [hst] at hs; simp only [Option.some.injEq, Prod.mk.injEq] at hs
      obtain ⟨rfl, _⟩ := hs
      simp only [setComp, hk h sa rfl, if_false]; exact hi
  | tickMono dt => simp [gstep, sharedStep] at hs; obtain ⟨rfl, _⟩ := hs; exact hi
  | tickWall dt => simp [gstep, sharedStep] at hs; obtain ⟨rfl, _⟩ := hs; exact hi
  | block n => simp [gstep, sharedStep] at hs; obtain ⟨rfl, _⟩ := hs; exact hi
  | crash => simp [gstep, sharedStep] at hs; obtain ⟨rfl, _⟩ := hs; exact ⟨rfl, rfl⟩

theorem grun_idle (c : Cfg) (acts : List GAct) (g g' : GState) (outs : List (Nat × Out)) (k : Nat)
    (hr : grun c .current g acts = some (g', outs)) (hk : k ∉ hashesOf acts) (hi : Idle (g.comps k)) :
    Idle (g'.comps k) := by
  induction acts generalizing g outs with
  | nil => simp [grun] at hr; obtain ⟨rfl, _⟩ := hr; exact hi
  | cons a as ih =>
    simp only [grun] at hr
    cases h1 : gstep c .current g a with
    | none => rw [h1] at hr; simp at hr
    | some p =>
      obtain ⟨g1, o1⟩ := p
      rw [h1] at hr; simp only at hr
      cases h2 : grun c .current g1 as with
      | none => rw [h2] at hr; simp at hr
      | some p2 =>
        obtain ⟨g2, o2⟩ := p2
        rw [h2] at hr; simp only [Option.some.injEq, Prod.mk.injEq] at hr
        obtain ⟨rfl, _⟩ := hr
        have hk' : k ∉ hashesOf as := by
          cases a <;> simp only [hashesOf, List.mem_cons, not_or] at hk <;> first | exact hk.2 | exact hk
        refine ih g1 o2 h2 hk' (gstep_idle c g g1 a o1 k h1 ?_ hi)
        intro h sa hae; subst hae
        simp only [hashesOf, List.mem_cons, not_or] at hk; exact hk.1

/-- a step of the whole plugin keeps every component reachable on its own -/
theorem gstep_reach (c : Cfg) (g g' : GState) (a : GAct) (outs : List (Nat × Out)) (hf : a.writeFaultOnly)
    (h0 : ∀ h, Reach c (g.comps h)) (hs : gstep c .current g a = some (g', outs)) : ∀ h, Reach c (g'.comps h) :=
  grun_reach c [a] g g' outs (by intro x hx; simp at hx; subst hx; exact hf) h0 (by simp [grun, hs])

/-- an internal step of the whole plugin: an internal step of one component -/
def GAct.isInternal : GAct → Bool
  | .comp _ a => a.isInternal
  | _ => false

/-- NO infinite run of the whole plugin made only of internal steps starts in a reachable state,
    however the steps of different payment hashes are interleaved. -/
theorem c14_no_infinite_internal_run (c : Cfg) (G : Nat → GState) (A : Nat → GAct) (h0 : GReach c (G 0))
    (hstep : ∀ n, (A n).isInternal = true ∧ (A n).writeFaultOnly ∧
      ∃ outs, gstep c .current (G n) (A n) = some (G (n + 1), outs)) : False := by
  obtain ⟨gacts, gouts, hf0, hr0⟩ := h0
  let H := hashesOf gacts
  -- every component stays reachable on its own; components outside H stay idle
  have hinv : ∀ n, (∀ h, Reach c ((G n).comps h)) ∧ ∀ k, k ∉ H → Idle ((G n).comps k) := by
    intro n
    induction n with
    | zero =>
      refine ⟨GReach.comp (c := c) (g := G 0) ⟨gacts, gouts, hf0, hr0⟩, ?_⟩
      intro k hk
      exact grun_idle c gacts ginit (G 0) gouts k hr0 hk ⟨rfl, rfl⟩
    | succ n ih =>
      obtain ⟨_, hf, outs, hs⟩ := hstep n
      refine ⟨gstep_reach c (G n) (G (n + 1)) (A n) outs hf ih.1 hs, ?_⟩
      intro k hk
      refine gstep_idle c (G n) (G (n + 1)) (A n) outs k hs ?_ (ih.2 k hk)
      intro h sa hae hkh
      subst hkh
      -- an internal step on an idle component is impossible
      have hi := (hstep n).1
      rw [hae] at hi hs
      simp only [GAct.isInternal] at hi
      simp only [gstep, idle_no_internal c _ sa (ih.2 k hk) hi] at hs
      simp at hs
  let f : Nat → Nat → TM := fun n k => termMeas ((G n).comps k)
  have hdec : ∀ n, RH H (f (n + 1)) (f n) := by
    intro n
    obtain ⟨hi, hf, outs, hs⟩ := hstep n
    cases ha : A n with
    | comp h sa =>
      rw [ha] at hi hs
      simp only [GAct.isInternal] at hi
      have hs0 := hs
      simp only [gstep] at hs
      cases hst : sstep c .current ((G n).comps h) sa with
      | none => rw [hst] at hs; simp at hs
      | some p =>
        obtain ⟨s', o⟩ := p
        rw [hst] at hs; simp only [Option.some.injEq, Prod.mk.injEq] at hs
        have hG : (G (n + 1)).comps = setComp (G n).comps h s' := by rw [← hs.1]
        have hhH : h ∈ H := by
          refine Classical.byContradiction (fun hn => ?_)
          rw [idle_no_internal c _ sa ((hinv n).2 h hn) hi] at hst
          simp at hst
        refine ⟨h, hhH, ?_, ?_⟩
        · show ltM (termMeas ((G (n + 1)).comps h)) (termMeas ((G n).comps h))
          rw [hG, setComp_same]
          exact c06_internal_steps_decrease c _ s' sa o ((hinv n).1 h) hi hst
        · intro k _ hne
          show termMeas ((G (n + 1)).comps k) = termMeas ((G n).comps k)
          rw [hG, setComp_other _ _ _ _ hne]
    | tickMono dt => rw [ha] at hi; simp [GAct.isInternal] at hi
    | tickWall dt => rw [ha] at hi; simp [GAct.isInternal] at hi
    | block m => rw [ha] at hi; simp [GAct.isInternal] at hi
    | crash => rw [ha] at hi; simp [GAct.isInternal] at hi
  have hacc : ∀ x, Acc (RH H) x → ∀ n, f n = x → False := by
    intro x hx
    induction hx with
    | intro x _ ih =>
      intro n hn
      exact ih (f (n + 1)) (hn ▸ hdec n) (n + 1) rfl
  exact hacc _ ((rh_wf H).apply _) 0 rfl

/-- non-vacuity: two payments of different hashes arrive; the listdatastore requests of both are
    answered one after the other — two internal steps of different components from a reachable state
    of the whole plugin, each decreasing its own component's measure. -/
example : ∃ g g1 g2 o1 o2, GReach demoCfg g ∧
    gstep demoCfg .current g (.comp 1 (.serve .owner .dsList)) = some (g1, o1) ∧
    gstep demoCfg .current g1 (.comp 2 (.serve .owner .dsList)) = some (g2, o2) ∧
    termMeas (g.comps 1) = ((31, 0), 1) ∧ termMeas (g2.comps 1) = ((31, 0), 0) ∧
    termMeas (g.comps 2) = ((31, 0), 1) ∧ termMeas (g2.comps 2) = ((31, 0), 0) := by
  refine ⟨_, _, _, _, _, ⟨[.comp 1 (.arrive ⟨0, 1000000, true⟩ 1006000 1400 300 1006000),
    .comp 2 (.arrive ⟨0, 1000000, true⟩ 1006000 1400 300 1006000)], _, ?_, rfl⟩, rfl, rfl, rfl, rfl, rfl, rfl⟩
  intro a ha; simp at ha; rcases ha with rfl | rfl <;> trivial

end Tramp
