/-
C16 — Pay wrapper: success only with a real preimage, failure only when final.

Statement: for every way the node's pay command can end (complete, pending, failed with or without
a partial-completion warning, RPC error) combined with every state of the payment's parts, the
wrapper returns success only with the preimage of a completed part and returns failure only when
no part of that payment is pending or complete.

Quantification: every initial table of earlier parts, every sequence of part creations by the
running pay command, resolutions, the pay command ending with ANY reply allowed by E3 (COMPLETE
carries the preimage of a complete part; otherwise the status is unconstrained), served and
delivered listings/waits in any order. `c16_err` needs truthful reads (`noReadFault`): a read error
inside the wait is fault K3 of C02, not part of C16's quantifier.
-/
import Tramp.Proofs.Provider

namespace Tramp

theorem pinv_initPay (faulty : Prop) (ps : List Part) (h : PartsNodup ps) :
    PInv faulty (PSys.initPay ps) := by
  refine ⟨h, by simp [PSys.initPay], by simp [PSys.initPay], ?_⟩
  simp [PSys.initPay]

/-- success is returned only with the preimage of a part that IS complete -/
theorem c16_ok (ps : List Part) (hnd : PartsNodup ps) (acts : List PAct) (s : PSys) (x : Nat)
    (hrun : prun Variant.current (PSys.initPay ps) acts = some s)
    (hret : s.pc = .retPay (.ok x)) : HasComplete s.parts x := by
  have := prun_inv True acts _ s (pinv_initPay True ps hnd) hrun (fun _ => trivial)
  obtain ⟨_, _, _, hpc⟩ := this
  rw [hret] at hpc; exact hpc

/-- failure is returned only at an instant when no part is pending or complete and the pay command
    has ended -/
theorem c16_err (ps : List Part) (hnd : PartsNodup ps) (acts : List PAct) (s : PSys)
    (hrun : prun Variant.current (PSys.initPay ps) acts = some s) (hnf : noReadFault acts = true)
    (hret : s.pc = .retPay .err) : partsQuiet s.parts ∧ s.payRunning = false := by
  have := prun_inv False acts _ s (pinv_initPay False ps hnd) hrun (by rw [hnf]; simp)
  obtain ⟨_, hpay, _, hpc⟩ := this
  rw [hret] at hpc
  refine ⟨hpc.resolve_right (fun h => h), ?_⟩
  cases hr : s.payRunning with
  | false => rfl
  | true => have := (hpay hr).1; rw [hret] at this; simp at this

/-- Pinned tree: `FAILED` without a warning returns `Err` unchecked, with a part still pending. -/
theorem c16_pinned_counterexample :
    ∃ acts s, prun Variant.pinned (PSys.initPay []) acts = some s ∧ s.pc = .retPay .err ∧
      ¬ partsQuiet s.parts := by
  refine ⟨[.create 1, .payEnd (.payFailed false), .deliver .pay], _, rfl, rfl, ?_⟩
  decide

/-! Non-vacuity -/
example : ∃ s, prun Variant.current (PSys.initPay [])
    [.create 1, .payEnd (.payFailed false), .deliver .pay, .serve .listPending, .deliver .listPending,
     .resolve 1 .failed, .serve .listComplete, .deliver .listComplete, .serve (.waitPart 1),
     .deliver (.waitPart 1)] = some s ∧ s.pc = .retPay .err := ⟨_, rfl, rfl⟩
example : ∃ s, prun Variant.current (PSys.initPay [])
    [.create 1, .resolve 1 (.complete 5), .payEnd (.payComplete 5), .deliver .pay] = some s ∧
    s.pc = .retPay (.ok 5) := ⟨_, rfl, rfl⟩

end Tramp
