/-
C15 — Waiting on a payment reports 'none' only if nothing is pending or complete.

Statement: when the plugin waits for the outgoing payment of a hash, it returns a preimage only if
some part completed with it, and reports 'no payment' only if at that moment no part for that hash
is pending or complete, whatever the order in which parts resolve relative to its queries.
Part-level failure codes do not abort the wait while other parts are still pending.

Quantification: every initial part table (any number of parts, any statuses, distinct ids), every
finite sequence of actions of `pstep` — part resolutions, the node serving a query (reply computed
from the table at that instant), delivery of a served reply to the plugin — in any order, with any
delays between serving and delivery, including read faults. No part is created during the wait
(`payRunning = false`; in the full system this is invariant (P)).
-/
import Tramp.Proofs.Provider

namespace Tramp

theorem pinv_initWait (faulty : Prop) (ps : List Part) (h : PartsNodup ps) :
    PInv faulty (PSys.initWait Variant.current ps) := by
  refine ⟨h, by simp [PSys.initWait], by simp [PSys.initWait], ?_⟩
  simp [PSys.initWait, Variant.current, WPc.start, WInv]

/-- a preimage is returned only if some part is complete with exactly that preimage -/
theorem c15_some (ps : List Part) (hnd : PartsNodup ps) (acts : List PAct) (s : PSys) (x : Nat)
    (hrun : prun Variant.current (PSys.initWait Variant.current ps) acts = some s)
    (hret : s.pc = .retWait (.some x)) : HasComplete s.parts x := by
  have := prun_inv True acts _ s (pinv_initWait True ps hnd) hrun (fun _ => trivial)
  obtain ⟨_, _, _, hpc⟩ := this
  rw [hret] at hpc; exact hpc

/-- 'no payment' is returned only at an instant when no part of the hash is pending or complete —
    for every order of resolutions relative to the two listings and the waits -/
theorem c15_none (ps : List Part) (hnd : PartsNodup ps) (acts : List PAct) (s : PSys)
    (hrun : prun Variant.current (PSys.initWait Variant.current ps) acts = some s)
    (hret : s.pc = .retWait .none) : partsQuiet s.parts := by
  have := prun_inv True acts _ s (pinv_initWait True ps hnd) hrun (fun _ => trivial)
  obtain ⟨_, _, _, hpc⟩ := this
  rw [hret] at hpc; exact hpc

/-- an error is returned only if an RPC really failed -/
theorem c15_err_only_on_fault (ps : List Part) (hnd : PartsNodup ps) (acts : List PAct) (s : PSys)
    (hrun : prun Variant.current (PSys.initWait Variant.current ps) acts = some s)
    (hnf : noReadFault acts = true) : s.pc ≠ .retWait .err := by
  have := prun_inv False acts _ s (pinv_initWait False ps hnd) hrun (by rw [hnf]; simp)
  obtain ⟨_, _, _, hpc⟩ := this
  intro hret; rw [hret] at hpc; exact hpc

/-- a part-level failure code (202/203/204/208/209) for one part leaves the wait running for the
    others -/
theorem c15_codes (rem : List Nat) (id : Nat) (h : (rem.erase id).isEmpty = false) :
    wDeliver (.waiting rem) (.waitPart id) .waitCode = .waiting (rem.erase id) := by
  simp [wDeliver, h]

/-- Pinned tree (defect D5, concurrent listings): completed is served while the part is pending,
    the part completes, pending is served — `None` although a part is complete. -/
theorem c15_pinned_counterexample :
    ∃ acts s, prun Variant.pinned (PSys.initWait Variant.pinned [⟨1, .pending⟩]) acts = some s ∧
      s.pc = .retWait .none ∧ HasComplete s.parts 77 := by
  refine ⟨[.serve .listComplete, .resolve 1 (.complete 77), .serve .listPending,
           .deliver .listComplete, .deliver .listPending], _, rfl, rfl, ?_⟩
  exact ⟨⟨1, .complete 77⟩, by decide, rfl⟩

/-! Non-vacuity: on the current tree the same schedule returns the preimage; and `none` is reachable. -/
example : ∃ s, prun Variant.current (PSys.initWait Variant.current [⟨1, .pending⟩])
    [.serve .listPending, .deliver .listPending, .serve .listComplete, .resolve 1 (.complete 77),
     .deliver .listComplete, .serve (.waitPart 1), .deliver (.waitPart 1)] = some s ∧
    s.pc = .retWait (.some 77) := ⟨_, rfl, rfl⟩
example : ∃ s, prun Variant.current (PSys.initWait Variant.current [⟨1, .pending⟩, ⟨2, .failed⟩])
    [.serve .listPending, .deliver .listPending, .serve .listComplete, .deliver .listComplete,
     .resolve 1 .failed, .serve (.waitPart 1), .deliver (.waitPart 1)] = some s ∧
    s.pc = .retWait .none := ⟨_, rfl, rfl⟩
example : PartsNodup [⟨1, .pending⟩, ⟨2, .failed⟩] := by unfold PartsNodup; decide

end Tramp
