/-
C17 — Wire protocol: any chunking decodes each request once; one response per id.

Statement: however the node's byte stream is split across reads, each JSON-RPC message is decoded
exactly once and in order; every request for a hook or method the plugin registered receives
exactly one reply carrying that request's id, even when handlers finish out of order. Every message
the plugin writes (replies and log notifications, possibly concurrently) is a complete JSON
document followed by a blank line, never interleaved with another.

Proved over M8: framing for ALL byte streams and ALL partitions into chunks (splits inside the
separator or inside a multi-byte UTF-8 sequence included: validation happens per complete message,
after the split); the dispatcher for ALL arrival/completion orders. Partial: that each write of a
whole encoded message is atomic (tokio Mutex around FramedWrite) and that serde_json never emits a
raw newline are runtime/library facts (E8, E9), observed by suite `wire` on the real Builder.
-/
import Tramp.Proofs.Wire

namespace Tramp

/-- Feeding the stream in ANY partition into read chunks yields the same messages, in the same
    order, and the same residual buffer, as decoding the whole stream at once. -/
theorem c17_chunking (residual : Bytes) (chunks : List Bytes) (h : decodeOne residual = none) :
    feedChunks residual chunks = decodeAll (residual ++ chunks.flatten) := by
  induction chunks generalizing residual with
  | nil => simp [feedChunks, decodeAll_of_none residual h]
  | cons c cs ih =>
    simp only [feedChunks, feed, List.flatten_cons]
    rw [ih _ (decodeAll_residual (residual ++ c))]
    rw [← List.append_assoc, decodeAll_append (residual ++ c) cs.flatten]

/-- starting from the empty buffer (what FramedRead starts with) -/
theorem c17_chunking_from_start (chunks : List Bytes) :
    feedChunks [] chunks = decodeAll chunks.flatten := by
  have := c17_chunking [] chunks (by simp [decodeOne, findSep])
  simpa using this

/-- Each message is decoded exactly once, in order, nothing is left over: what the encoder wrote for
    a list of newline-free messages decodes to exactly that list. -/
theorem c17_roundtrip (ms : List Bytes) (h : ∀ m ∈ ms, NoNL m) :
    decodeAll (ms.map encodeMsg).flatten = (ms, []) := by
  induction ms with
  | nil => simp [decodeAll, decodeAllAux]
  | cons m ms ih =>
    simp only [List.map_cons, List.flatten_cons]
    rw [decodeAll_unfold, decodeOne_encoded m _ (h m (by simp))]
    simp only
    rw [ih (fun x hx => h x (by simp [hx]))]

/-- writer: whatever the order in which whole messages are appended to the output, the node can
    split the output back into exactly those messages -/
theorem c17_writer (written : List Bytes) (h : ∀ m ∈ written, NoNL m) (chunks : List Bytes)
    (hc : chunks.flatten = (written.map encodeMsg).flatten) :
    feedChunks [] chunks = (written, []) := by
  rw [c17_chunking_from_start, hc, c17_roundtrip written h]

/-! ### dispatcher -/

def DInv (recvd : List WReq) (s : DSt) : Prop :=
  ((s.inflight ++ s.replies).map (·.tok)).Nodup ∧
  (∀ r, r ∈ recvd ↔ (r ∈ s.inflight ∨ r ∈ s.replies))

def recvdOf : List DAct → List WReq
  | [] => []
  | .recv r :: as => r :: recvdOf as
  | .complete _ :: as => recvdOf as

theorem tok_unique : ∀ (l : List WReq), (l.map (·.tok)).Nodup → ∀ {x r : WReq}, x ∈ l → r ∈ l →
    x.tok = r.tok → x = r
  | [], _, _, _, hx, _, _ => by simp at hx
  | y :: ys, hnd, x, r, hx, hr, ht => by
    simp only [List.map_cons, List.nodup_cons, List.mem_map, not_exists, not_and] at hnd
    simp only [List.mem_cons] at hx hr
    rcases hx with rfl | hx <;> rcases hr with rfl | hr
    · rfl
    · exact absurd ht.symm (hnd.1 r hr)
    · exact absurd ht (hnd.1 x hx)
    · exact tok_unique ys hnd.2 hx hr ht

theorem dstep_inv (recvd : List WReq) (s s' : DSt) (a : DAct) (hinv : DInv recvd s) (h : dstep s a = some s') :
    DInv (recvd ++ recvdOf [a]) s' := by
  obtain ⟨hnd, hmem⟩ := hinv
  cases a with
  | recv r =>
    simp only [dstep] at h
    split at h
    · simp at h
    · rename_i hc
      simp only [Bool.or_eq_true, List.any_eq_true, beq_iff_eq, not_or, not_exists, not_and] at hc
      simp only [Option.some.injEq] at h
      subst h
      refine ⟨?_, ?_⟩
      · simp only [List.map_append, List.map_cons, List.map_nil] at hnd ⊢
        rw [List.append_assoc, List.nodup_append] at *
        obtain ⟨h1, h2, h3⟩ := hnd
        refine ⟨h1, ?_, ?_⟩
        · simp only [List.singleton_append, List.nodup_cons]
          refine ⟨?_, h2⟩
          intro hm
          simp only [List.mem_map] at hm
          obtain ⟨x, hx, hxt⟩ := hm
          exact hc.2 x hx hxt
        · intro a ha b hb
          simp only [List.singleton_append, List.mem_cons] at hb
          rcases hb with rfl | hb
          · intro heq
            simp only [List.mem_map] at ha
            obtain ⟨x, hx, hxt⟩ := ha
            exact hc.1 x hx (by rw [hxt, heq])
          · exact h3 a ha b hb
      · intro x
        simp only [recvdOf, List.mem_append, List.mem_singleton, hmem x]
        constructor
        · rintro (h | h)
          · rcases h with h | h
            · exact Or.inl (Or.inl h)
            · exact Or.inr h
          · exact Or.inl (Or.inr h)
        · rintro (h | h)
          · rcases h with h | h
            · exact Or.inl (Or.inl h)
            · exact Or.inr h
          · exact Or.inl (Or.inr h)
  | complete t =>
    simp only [dstep] at h
    split at h
    · rename_i r hr
      simp only [Option.some.injEq] at h
      subst h
      have hrmem := List.mem_of_find?_eq_some hr
      have hrt : r.tok = t := by have := List.find?_some hr; simpa using this
      have huniq : ∀ x ∈ s.inflight, x.tok = t → x = r := by
        intro x hx hxt
        have hnd1 : (s.inflight.map (·.tok)).Nodup := by
          simp only [List.map_append] at hnd; exact (List.nodup_append.mp hnd).1
        exact tok_unique s.inflight hnd1 hx hrmem (by rw [hxt, hrt])
      have hfilter : ∀ x, x ∈ s.inflight.filter (·.tok != t) ↔ (x ∈ s.inflight ∧ x ≠ r) := by
        intro x
        simp only [List.mem_filter, bne_iff_ne, ne_eq]
        constructor
        · rintro ⟨hx, hne⟩; exact ⟨hx, fun he => hne (by rw [he, hrt])⟩
        · rintro ⟨hx, hne⟩; exact ⟨hx, fun he => hne (huniq x hx he)⟩
      refine ⟨?_, ?_⟩
      · -- tokens stay distinct: r moves from inflight to replies
        have hperm : ((s.inflight.filter (·.tok != t)) ++ (s.replies ++ [r])).map (·.tok) =
            ((s.inflight.filter (·.tok != t)).map (·.tok)) ++ (s.replies.map (·.tok) ++ [r.tok]) := by simp
        rw [hperm]
        simp only [List.map_append] at hnd
        obtain ⟨h1, h2, h3⟩ := List.nodup_append.mp hnd
        rw [List.nodup_append]
        refine ⟨(h1.sublist (List.Sublist.map _ List.filter_sublist)), ?_, ?_⟩
        · rw [List.nodup_append]
          refine ⟨h2, by simp, ?_⟩
          intro a ha b hb
          simp only [List.mem_singleton] at hb; subst hb
          intro heq; subst heq
          exact h3 r.tok (List.mem_map.mpr ⟨r, hrmem, rfl⟩) r.tok ha rfl
        · intro a ha b hb
          simp only [List.mem_map] at ha
          obtain ⟨x, hx, rfl⟩ := ha
          have ⟨hxi, hxne⟩ := (hfilter x).mp hx
          simp only [List.mem_append, List.mem_singleton] at hb
          rcases hb with hb | rfl
          · exact h3 x.tok (List.mem_map.mpr ⟨x, hxi, rfl⟩) b hb
          · intro heq
            exact hxne (huniq x hxi (by rw [heq, hrt]))
      · intro x
        simp only [recvdOf, List.append_nil, hmem x, hfilter x, List.mem_append, List.mem_singleton]
        constructor
        · rintro (h | h)
          · by_cases hx : x = r
            · exact Or.inr (Or.inr hx)
            · exact Or.inl ⟨h, hx⟩
          · exact Or.inr (Or.inl h)
        · rintro (⟨h, _⟩ | h | h)
          · exact Or.inl h
          · exact Or.inr h
          · subst h; exact Or.inl hrmem
    · simp at h

theorem recvdOf_append (a b : List DAct) : recvdOf (a ++ b) = recvdOf a ++ recvdOf b := by
  induction a with
  | nil => rfl
  | cons x xs ih => cases x <;> simp [recvdOf, ih]

/-- For every arrival order and every completion order: the calls still running and the replies
    written are exactly the requests received, no call is answered twice, and (by construction of
    `dstep`) each reply carries the id of its own request. When nothing is in flight any more, the
    replies are exactly the received requests. -/
theorem c17_dispatch (acts : List DAct) (s : DSt) (h : drun ⟨[], []⟩ acts = some s) :
    ((s.inflight ++ s.replies).map (·.tok)).Nodup ∧
    (∀ r, r ∈ recvdOf acts ↔ (r ∈ s.inflight ∨ r ∈ s.replies)) ∧
    (s.inflight = [] → ∀ r, r ∈ recvdOf acts ↔ r ∈ s.replies) := by
  have gen : ∀ (acts : List DAct) (pre : List WReq) (s0 s : DSt), DInv pre s0 → drun s0 acts = some s →
      DInv (pre ++ recvdOf acts) s := by
    intro acts
    induction acts with
    | nil => intro pre s0 s hi hr; simp [drun] at hr; subst hr; simpa [recvdOf] using hi
    | cons a as ih =>
      intro pre s0 s hi hr
      simp only [drun] at hr
      split at hr
      · rename_i s1 h1
        have := ih (pre ++ recvdOf [a]) s1 s (dstep_inv pre s0 s1 a hi h1) hr
        have e : pre ++ recvdOf (a :: as) = pre ++ recvdOf [a] ++ recvdOf as := by
          rw [List.append_assoc, ← recvdOf_append]; rfl
        rw [e]; exact this
      · simp at hr
  have := gen acts [] ⟨[], []⟩ s ⟨by simp, by simp⟩ h
  simp only [List.nil_append] at this
  obtain ⟨h1, h2⟩ := this
  refine ⟨h1, h2, ?_⟩
  intro hemp r
  rw [h2 r, hemp]; simp

/-! Non-vacuity -/
example : feedChunks [] [[123, 125, 10], [10, 123], [125, 10, 10, 91]] = ([[123, 125], [123, 125]], [91]) := by decide
example : ∃ s, drun ⟨[], []⟩ [.recv ⟨0, 7⟩, .recv ⟨1, 7⟩, .recv ⟨2, 9⟩, .complete 2, .complete 0, .complete 1] = some s ∧
    s.replies = [⟨2, 9⟩, ⟨0, 7⟩, ⟨1, 7⟩] ∧ s.inflight = [] := ⟨_, rfl, rfl, rfl⟩

end Tramp
