/-
C06, termination of the plugin's side as a whole (owner task, bookkeeper tasks and the replies of
the node taken together).

`c06_owner_steps_decrease` bounds the steps of the owner task alone. Here the measure covers EVERY
step that is not a fresh stimulus from outside: a request of the owner or of a bookkeeper being
answered by the node (truthfully or with a write fault), the pay command ending, a reply being
consumed by the owner or by a bookkeeper, the timer firing, the `select!` taking the fail or the
ready message, the reads of the parameters and of the height. Every such step from a reachable
state strictly decreases the lexicographic measure

    ( measure of the lifecycle's program counter (a pair, `OPc.meas`, shifted by one while a
      lifecycle is live),
      Σ over bookkeepers of 2·(writes left) + [reply not yet computed]
        + number of the owner's outstanding requests whose reply has not been computed )

so there is NO infinite run made of such steps only (`c06_no_infinite_internal_run`): whatever the
scheduler does, between two stimuli from outside (an HTLC arriving, a part being created or
resolved, a clock moving, a block, a crash) the plugin and the node's replies come to rest after
finitely many steps — no livelock, no request/reply ping-pong, no bookkeeper that keeps rewriting.
Together with `c06_can_always_answer` (from every reachable state a finishing continuation exists)
this is the model's content of "eventually": the only things that can keep an HTLC held are a
part that stays pending, a pay command that does not end, the MPP timer (bounded by C11), and the
fairness of the scheduler (E8).
-/
import Tramp.Props.C06
import Tramp.Props.C06Live

namespace Tramp

/-- the steps that are not a stimulus from outside -/
def SAct.isInternal : SAct → Bool
  | .serve _ _ | .fault _ _ _ | .deliver _ _ | .payEnd _ => true
  | .timerFire | .takeFail | .takeReady | .readParams | .readHeight => true
  | _ => false

/-! ### the measure -/

def BPc.stage : BPc → Nat
  | .succS _ _ => 2
  | .failA _ _ => 2
  | .succA _ => 1
  | .failS _ _ => 1

def Bk.meas (b : Bk) : Nat := 2 * b.pc.stage + (if b.served.isNone then 1 else 0)

def bkTotal (bks : List Bk) : Nat := (bks.map Bk.meas).sum

def unserved (o : Owner) : Nat :=
  ((o.pc.outstanding .current).filter (fun q => (lookupS o.served q).isNone)).length

def ownerM (s : SState) : Nat × Nat :=
  match s.active with
  | some (_, o) => (o.pc.meas.1 + 1, o.pc.meas.2)
  | none => (0, 0)

def restM (s : SState) : Nat :=
  bkTotal s.bks + (match s.active with | some (_, o) => unserved o | none => 0)

def termMeas (s : SState) : (Nat × Nat) × Nat := (ownerM s, restM s)

/-- lexicographic: the lifecycle's measure first -/
def ltM (a b : (Nat × Nat) × Nat) : Prop := lt2 a.1 b.1 ∨ (a.1 = b.1 ∧ a.2 < b.2)

theorem ltM_wf : WellFounded ltM := by
  have h : ∀ a b, ltM a b → Prod.Lex lt2 (· < ·) a b := by
    intro a b hab
    obtain ⟨a1, a2⟩ := a; obtain ⟨b1, b2⟩ := b
    rcases hab with h1 | ⟨h1, h2⟩
    · exact Prod.Lex.left _ _ h1
    · simp only at h1 h2; subst h1; exact Prod.Lex.right _ h2
  exact Subrelation.wf (fun {a b} hab => h a b hab)
    (Prod.lex ⟨lt2, lt2_wf⟩ (inferInstance : WellFoundedRelation Nat)).wf

/-! ### bookkeeper bookkeeping -/

theorem Bk.meas_pos (b : Bk) : 0 < b.meas := by
  unfold Bk.meas; cases b.pc <;> simp [BPc.stage] <;> omega

theorem setBk_absent (bks : List Bk) (b' : Bk) (h : ∀ x ∈ bks, x.id ≠ b'.id) : setBk bks b' = bks := by
  induction bks with
  | nil => rfl
  | cons x xs ih =>
    have hx : x.id ≠ b'.id := h x (by simp)
    have : (x.id == b'.id) = false := by simpa using hx
    have ih' := ih (fun y hy => h y (by simp [hy]))
    simp only [setBk, List.map_cons, this, Bool.false_eq_true, ↓reduceIte] at ih' ⊢
    rw [ih']

theorem bkTotal_setBk (bks : List Bk) (b b' : Bk) (hn : (bks.map (·.id)).Nodup)
    (hf : findBk bks b.id = some b) (hid : b'.id = b.id) :
    bkTotal (setBk bks b') + b.meas = bkTotal bks + b'.meas := by
  induction bks with
  | nil => simp [findBk] at hf
  | cons x xs ih =>
    simp only [List.map_cons, List.nodup_cons] at hn
    by_cases hx : x.id = b.id
    · have hxb : x = b := by
        have : (x.id == b.id) = true := by simpa using hx
        simpa [findBk, List.find?_cons, this] using hf
      subst hxb
      have habs : ∀ y ∈ xs, y.id ≠ b'.id := by
        intro y hy hyid
        exact hn.1 (List.mem_map.mpr ⟨y, hy, by rw [hyid, hid]⟩)
      have h1 : setBk (x :: xs) b' = b' :: setBk xs b' := by
        have : (x.id == b'.id) = true := by rw [hid]; simp
        simp only [setBk, List.map_cons, this, ↓reduceIte]
      rw [h1, setBk_absent xs b' habs]
      simp only [bkTotal, List.map_cons, List.sum_cons]; omega
    · have hxf : (x.id == b.id) = false := by simpa using hx
      have hf' : findBk xs b.id = some b := by simpa [findBk, List.find?_cons, hxf] using hf
      have hxb' : (x.id == b'.id) = false := by rw [hid]; exact hxf
      have h1 : setBk (x :: xs) b' = x :: setBk xs b' := by
        simp only [setBk, List.map_cons, hxb', Bool.false_eq_true, ↓reduceIte]
      have := ih hn.2 hf'
      rw [h1]
      simp only [bkTotal, List.map_cons, List.sum_cons] at this ⊢; omega

theorem bkTotal_filter_le (bks : List Bk) (p : Bk → Bool) : bkTotal (bks.filter p) ≤ bkTotal bks := by
  induction bks with
  | nil => simp
  | cons x xs ih =>
    simp only [List.filter_cons]
    split
    · simp only [bkTotal, List.map_cons, List.sum_cons] at ih ⊢; omega
    · simp only [bkTotal, List.map_cons, List.sum_cons] at ih ⊢; omega

theorem bkTotal_dropBk (bks : List Bk) (b : Bk) (id : Nat) (hf : findBk bks id = some b) :
    bkTotal (dropBk bks id) + b.meas ≤ bkTotal bks := by
  induction bks with
  | nil => simp [findBk] at hf
  | cons x xs ih =>
    by_cases hx : x.id = id
    · have hxe : (x.id == id) = true := by simpa using hx
      have hxb : x = b := by simpa [findBk, List.find?_cons, hxe] using hf
      subst hxb
      have h1 : dropBk (x :: xs) id = dropBk xs id := by
        simp [dropBk, List.filter_cons, hx]
      rw [h1]
      have := bkTotal_filter_le xs (fun y => y.id != id)
      simp only [bkTotal, List.map_cons, List.sum_cons, dropBk] at this ⊢; omega
    · have hxf : (x.id == id) = false := by simpa using hx
      have hf' : findBk xs id = some b := by simpa [findBk, List.find?_cons, hxf] using hf
      have h1 : dropBk (x :: xs) id = x :: dropBk xs id := by
        simp [dropBk, List.filter_cons, hx]
      have := ih hf'
      rw [h1]
      simp only [bkTotal, List.map_cons, List.sum_cons] at this ⊢; omega

theorem findBk_id {bks : List Bk} {id : Nat} {b : Bk} (h : findBk bks id = some b) : b.id = id := by
  unfold findBk at h
  have := List.find?_some h
  simpa using this

/-! ### the owner's outstanding requests -/

theorem filter_length_lt {α : Type} (l : List α) (p p' : α → Bool) (himp : ∀ x, p' x = true → p x = true)
    (x : α) (hx : x ∈ l) (hp : p x = true) (hp' : p' x = false) :
    (l.filter p').length < (l.filter p).length := by
  induction l with
  | nil => simp at hx
  | cons y ys ih =>
    have hle : (ys.filter p').length ≤ (ys.filter p).length := by
      clear ih hx
      induction ys with
      | nil => simp
      | cons z zs ihz =>
        simp only [List.filter_cons]
        cases hz' : p' z with
        | true => simp [himp z hz']; exact ihz
        | false => cases hz : p z <;> simp <;> omega
    simp only [List.mem_cons] at hx
    rcases hx with rfl | hx
    · simp only [List.filter_cons, hp, hp']; simp; omega
    · have := ih hx
      simp only [List.filter_cons]
      cases hy' : p' y with
      | true => simp [himp y hy']; exact this
      | false => cases hy : p y <;> simp <;> omega

theorem lookupS_append (l : List (SReq × SReply)) (q q' : SReq) (r : SReply) :
    (lookupS (l ++ [(q, r)]) q').isNone = true → (lookupS l q').isNone = true := by
  unfold lookupS
  simp only [List.find?_append, Option.isNone_map]
  cases h : l.find? (fun x => x.1 == q') with
  | none => simp
  | some y => simp

theorem lookupS_append_self (l : List (SReq × SReply)) (q : SReq) (r : SReply) :
    (lookupS (l ++ [(q, r)]) q).isNone = false := by
  unfold lookupS
  simp only [List.find?_append, Option.isNone_map]
  cases h : l.find? (fun x => x.1 == q) with
  | none => simp
  | some y => simp

/-- computing the reply to an outstanding request that had none leaves fewer without one -/
theorem unserved_serve (o : Owner) (q : SReq) (r : SReply) (hq : q ∈ o.pc.outstanding .current)
    (hl : (lookupS o.served q).isNone = true) :
    unserved { o with served := o.served ++ [(q, r)] } < unserved o := by
  unfold unserved
  exact filter_length_lt _ _ _ (fun x hx => lookupS_append o.served q x r hx) q hq hl
    (lookupS_append_self o.served q r)

/-! ### the lifecycle's part -/

theorem ownerM_of_ownerMeas {s s' : SState} {e : PEntry} {o : Owner} (hact : s.active = some (e, o))
    (h : s'.active = none ∨ lt2 (ownerMeas s') (ownerMeas s)) : lt2 (ownerM s') (ownerM s) := by
  have hm : ownerMeas s = o.pc.meas := by simp [ownerMeas, hact]
  have hM : ownerM s = (o.pc.meas.1 + 1, o.pc.meas.2) := by simp [ownerM, hact]
  rw [hM]
  cases hact' : s'.active with
  | none => simp [ownerM, hact', lt2]
  | some p =>
    obtain ⟨e', o'⟩ := p
    rcases h with h | h
    · rw [hact'] at h; simp at h
    · rw [hm] at h
      have hm' : ownerMeas s' = o'.pc.meas := by simp [ownerMeas, hact']
      rw [hm'] at h
      simp only [ownerM, hact', lt2] at h ⊢
      omega

theorem ownerStep_active {c : Cfg} {s s' : SState} {a : SAct} {outs : List Out} (ha : a.isOwnerStep = true)
    (hs : sstep c .current s a = some (s', outs)) : ∃ e o, s.active = some (e, o) := by
  cases hact : s.active with
  | some p => exact ⟨p.1, p.2, rfl⟩
  | none =>
    exfalso
    cases a with
    | deliver t q =>
      cases t with
      | owner => simp [sstep, stepDeliverOwner, hact] at hs
      | bk id => simp [SAct.isOwnerStep] at ha
    | timerFire => simp [sstep, hact] at hs
    | takeFail => simp [sstep, hact] at hs
    | takeReady => simp [sstep, hact] at hs
    | readParams => simp [sstep, hact] at hs
    | readHeight => simp [sstep, hact] at hs
    | arrive _ _ _ _ _ => simp [SAct.isOwnerStep] at ha
    | tickMono _ => simp [SAct.isOwnerStep] at ha
    | tickWall _ => simp [SAct.isOwnerStep] at ha
    | block _ => simp [SAct.isOwnerStep] at ha
    | crash => simp [SAct.isOwnerStep] at ha
    | create _ => simp [SAct.isOwnerStep] at ha
    | resolve _ _ => simp [SAct.isOwnerStep] at ha
    | payEnd _ => simp [SAct.isOwnerStep] at ha
    | serve _ _ => simp [SAct.isOwnerStep] at ha
    | fault _ _ _ => simp [SAct.isOwnerStep] at ha

/-- an owner step decreases the first component -/
theorem term_ownerStep (c : Cfg) (s s' : SState) (a : SAct) (outs : List Out) (hr : Reach c s)
    (ha : a.isOwnerStep = true) (hs : sstep c .current s a = some (s', outs)) :
    ltM (termMeas s') (termMeas s) := by
  obtain ⟨e, o, hact⟩ := ownerStep_active ha hs
  exact Or.inl (ownerM_of_ownerMeas hact (c06_owner_steps_decrease c s s' a outs hr ha hs))

/-- the node computing the reply to a request of the owner -/
theorem term_serveOwner (s s1 s' : SState) (q : SReq) (r : SReply) (outs : List Out)
    (hact1 : s1.active = s.active) (hbks : s1.bks = s.bks)
    (hs : stepServeOwner .current s q (some (s1, r)) = some (s', outs)) :
    ltM (termMeas s') (termMeas s) := by
  unfold stepServeOwner at hs
  cases hact : s.active with
  | none => rw [hact] at hs; simp at hs
  | some p =>
    obtain ⟨e, o⟩ := p
    rw [hact] at hs
    simp only at hs
    split at hs
    · rename_i hc
      simp only [Bool.and_eq_true, List.contains_iff_mem] at hc
      simp only [Option.some.injEq, Prod.mk.injEq] at hs
      have h' := hs.1; subst h'
      right
      refine ⟨by simp [termMeas, ownerM, hact], ?_⟩
      have := unserved_serve o q r (by simpa using hc.1) hc.2
      simp only [termMeas, restM, hbks, hact]
      omega
    · simp at hs

/-- the node computing the reply to a request of a bookkeeper -/
theorem term_serveBk (s s1 s' : SState) (id : Nat) (q : SReq) (r : SReply) (outs : List Out)
    (hn : (s.bks.map (·.id)).Nodup) (hact1 : s1.active = s.active)
    (hs : stepServeBk .current s id q (some (s1, r)) = some (s', outs)) :
    ltM (termMeas s') (termMeas s) := by
  unfold stepServeBk at hs
  cases hf : findBk s.bks id with
  | none => rw [hf] at hs; simp at hs
  | some b =>
    rw [hf] at hs
    simp only at hs
    split at hs
    · rename_i hc
      simp only [Bool.and_eq_true] at hc
      simp only [Option.some.injEq, Prod.mk.injEq] at hs
      have h' := hs.1; subst h'
      have hid := findBk_id hf
      have := bkTotal_setBk s.bks b { b with served := some r } hn (by rw [hid]; exact hf) rfl
      have hb : b.meas = ({ b with served := some r } : Bk).meas + 1 := by
        simp [Bk.meas, hc.2]
      right
      refine ⟨by simp [termMeas, ownerM, hact1], ?_⟩
      simp only [termMeas, restM, hact1]
      omega
    · simp at hs

/-- a bookkeeper consuming a reply -/
theorem term_deliverBk (s s' : SState) (id : Nat) (q : SReq) (outs : List Out)
    (hn : (s.bks.map (·.id)).Nodup) (hs : stepDeliverBk .current s id q = some (s', outs)) :
    ltM (termMeas s') (termMeas s) := by
  unfold stepDeliverBk at hs
  cases hf : findBk s.bks id with
  | none => rw [hf] at hs; simp at hs
  | some b =>
    rw [hf] at hs
    simp only at hs
    split at hs
    · cases hsv : b.served with
      | none => rw [hsv] at hs; simp at hs
      | some r =>
        rw [hsv] at hs
        simp only at hs
        have hid := findBk_id hf
        cases hk : bkCont b.pc r with
        | some pc' =>
          rw [hk] at hs
          simp only [Option.some.injEq, Prod.mk.injEq] at hs
          have h' := hs.1; subst h'
          have := bkTotal_setBk s.bks b { b with pc := pc', served := none } hn (by rw [hid]; exact hf) rfl
          have hb : ({ b with pc := pc', served := none } : Bk).meas < b.meas := by
            cases hpc : b.pc <;> rw [hpc] at hk <;> cases r <;> simp [bkCont] at hk <;>
              subst hk <;> simp [Bk.meas, hpc, hsv, BPc.stage]
          right
          refine ⟨by simp [termMeas, ownerM], ?_⟩
          simp only [termMeas, restM]
          omega
        | none =>
          rw [hk] at hs
          simp only [Option.some.injEq, Prod.mk.injEq] at hs
          have h' := hs.1; subst h'
          have := bkTotal_dropBk s.bks b id hf
          have hp := b.meas_pos
          right
          refine ⟨by simp [termMeas, ownerM], ?_⟩
          simp only [termMeas, restM]
          omega
    · simp at hs

/-- every step that is not a stimulus from outside strictly decreases the measure -/
theorem c06_internal_steps_decrease (c : Cfg) (s s' : SState) (a : SAct) (outs : List Out) (hr : Reach c s)
    (ha : a.isInternal = true) (hs : sstep c .current s a = some (s', outs)) :
    ltM (termMeas s') (termMeas s) := by
  have hinv := hr.inv
  cases a with
  | deliver t q =>
    cases t with
    | owner => exact term_ownerStep c s s' _ outs hr rfl hs
    | bk id => exact term_deliverBk s s' id q outs hinv.bkIds.1 (by simpa [sstep] using hs)
  | timerFire => exact term_ownerStep c s s' _ outs hr rfl hs
  | takeFail => exact term_ownerStep c s s' _ outs hr rfl hs
  | takeReady => exact term_ownerStep c s s' _ outs hr rfl hs
  | readParams => exact term_ownerStep c s s' _ outs hr rfl hs
  | readHeight => exact term_ownerStep c s s' _ outs hr rfl hs
  | serve t q =>
    cases t with
    | owner =>
      simp only [sstep] at hs
      split at hs
      · simp at hs
      · cases hres : nodeServe s q with
        | none => rw [hres] at hs; simp [stepServeOwner] at hs
        | some p =>
          obtain ⟨s1, r⟩ := p
          rw [hres] at hs
          exact term_serveOwner s s1 s' q r outs (nodeServe_frame hres).1 (nodeServe_node hres).2.2.2.2 hs
    | bk id =>
      simp only [sstep] at hs
      cases hres : nodeServe s q with
      | none => rw [hres] at hs; simp [stepServeBk] at hs
      | some p =>
        obtain ⟨s1, r⟩ := p
        rw [hres] at hs
        exact term_serveBk s s1 s' id q r outs hinv.bkIds.1 (nodeServe_frame hres).1 hs
  | fault t q f =>
    cases t with
    | owner =>
      simp only [sstep] at hs
      cases hres : nodeFault s q f with
      | none => rw [hres] at hs; simp [stepServeOwner] at hs
      | some p =>
        obtain ⟨s1, r⟩ := p
        rw [hres] at hs
        exact term_serveOwner s s1 s' q r outs (nodeFault_frame hres).1 (nodeFault_node hres).2.2.2.2 hs
    | bk id =>
      simp only [sstep] at hs
      cases hres : nodeFault s q f with
      | none => rw [hres] at hs; simp [stepServeBk] at hs
      | some p =>
        obtain ⟨s1, r⟩ := p
        rw [hres] at hs
        exact term_serveBk s s1 s' id q r outs hinv.bkIds.1 (nodeFault_frame hres).1 hs
  | payEnd r =>
    simp only [sstep] at hs
    cases hact : s.active with
    | none => rw [hact] at hs; simp at hs
    | some p =>
      obtain ⟨e, o⟩ := p
      rw [hact] at hs
      simp only at hs
      split at hs
      · rename_i aid g hpc
        split at hs
        · rename_i hc
          simp only [Bool.and_eq_true] at hc
          simp only [Option.some.injEq, Prod.mk.injEq] at hs
          have h' := hs.1; subst h'
          have := unserved_serve o (.prov .pay) (.prov r)
            (by rw [hpc]; simp [OPc.outstanding, PPc.outstanding]) hc.1.2
          right
          refine ⟨by simp [termMeas, ownerM, hact, hpc], ?_⟩
          simp only [termMeas, restM, hact]
          simp only [unserved, hpc] at this ⊢
          omega
        · simp at hs
      · simp at hs
  | arrive _ _ _ _ _ => simp [SAct.isInternal] at ha
  | tickMono _ => simp [SAct.isInternal] at ha
  | tickWall _ => simp [SAct.isInternal] at ha
  | block _ => simp [SAct.isInternal] at ha
  | crash => simp [SAct.isInternal] at ha
  | create _ => simp [SAct.isInternal] at ha
  | resolve _ _ => simp [SAct.isInternal] at ha

theorem c06_term_measure_wf : WellFounded (fun s' s : SState => ltM (termMeas s') (termMeas s)) :=
  InvImage.wf termMeas ltM_wf

/-- NO infinite run made only of internal steps (answers of the node — truthful or write faults —,
    the pay command ending, replies consumed, timer, `select!` branches, reads) starts in a
    reachable state: between two stimuli from outside the plugin comes to rest. -/
theorem c06_no_infinite_internal_run (c : Cfg) (f : Nat → SState) (acts : Nat → SAct) (h0 : Reach c (f 0))
    (hstep : ∀ n, (acts n).isInternal = true ∧ (acts n).writeFaultOnly ∧
      ∃ outs, sstep c .current (f n) (acts n) = some (f (n + 1), outs)) : False := by
  have hreach : ∀ n, Reach c (f n) := by
    intro n
    induction n with
    | zero => exact h0
    | succ n ih =>
      obtain ⟨_, hf, outs, hs⟩ := hstep n
      exact ih.extend [acts n] (by intro a ha; simp at ha; subst ha; exact hf) (by simp [srun, hs])
  have hdec : ∀ n, ltM (termMeas (f (n + 1))) (termMeas (f n)) := by
    intro n
    obtain ⟨hi, _, outs, hs⟩ := hstep n
    exact c06_internal_steps_decrease c (f n) (f (n + 1)) (acts n) outs (hreach n) hi hs
  have hacc : ∀ x, Acc ltM x → ∀ n, termMeas (f n) = x → False := by
    intro x hx
    induction hx with
    | intro x _ ih =>
      intro n hn
      exact ih (termMeas (f (n + 1))) (hn ▸ hdec n) (n + 1) rfl
  exact hacc _ (ltM_wf.apply _) 0 rfl

/-- non-vacuity: the demo run consists of a stimulus (the arrival) followed by internal steps only up
    to the point where the pay command is started; each of them decreases the measure:
    ((31,0),1) → ((31,0),0) → ((13,0),0) → ((12,0),0) → ((11,0),0) → ((10,0),1) → … -/
example : ∃ s1 s2 s3 outs1 outs2,
    Reach demoCfg s1 ∧
    sstep demoCfg .current s1 (.serve .owner .dsList) = some (s2, outs1) ∧
    sstep demoCfg .current s2 (.deliver .owner .dsList) = some (s3, outs2) ∧
    termMeas s1 = ((31, 0), 1) ∧ termMeas s2 = ((31, 0), 0) ∧ termMeas s3 = ((13, 0), 0) := by
  refine ⟨_, _, _, _, _, ⟨[.arrive ⟨0, 1000000, true⟩ 1006000 1400 300 1006000], ?_, rfl⟩, rfl, rfl, rfl, rfl, rfl⟩
  intro a ha; simp at ha; subst ha; trivial


/-! ### what the plugin waits on when it has come to rest

An internal run ends (previous theorem). Where? In a state in which no step of the plugin and no
truthful reply of the node to one of its RPCs other than `pay` is possible. The next theorem says
what such a state looks like when HTLCs are still held: no bookkeeper is left, and the lifecycle
waits on exactly one of three things —
  * the MPP timer, not yet due, with neither the fail nor the ready message waiting;
  * the node's pay command, which is still running;
  * `waitsendpay` on parts that exist in the node's table and are all still pending.
Nothing else ever keeps an HTLC held: not the datastore, not a listing, not a lock, not another
payment. -/

/-- steps of the plugin itself and truthful replies of the node to a request other than `pay` -/
def SAct.isPluginOrReply : SAct → Bool
  | .serve _ _ | .deliver _ _ => true
  | .timerFire | .takeFail | .takeReady | .readParams | .readHeight => true
  | _ => false

def AtRest (c : Cfg) (s : SState) : Prop := ∀ a, a.isPluginOrReply = true → sstep c .current s a = none

theorem rest_no_request (c : Cfg) (s : SState) (e : PEntry) (o : Owner) (q : SReq) (hr : Reach c s)
    (hact : s.active = some (e, o)) (hrest : AtRest c s) (hq : q ∈ o.pc.outstanding .current) (hnp : q ≠ .prov .pay) :
    lookupS o.served q = none ∧ nodeServe s q = none := by
  cases hl : lookupS o.served q with
  | some r =>
    obtain ⟨s1, outs, hs, _⟩ := deliver_owner_ok c s e o q r hr hact hq hl
    have := hrest (.deliver .owner q) rfl
    rw [hs] at this; simp at this
  | none =>
    refine ⟨rfl, ?_⟩
    cases hn : nodeServe s q with
    | none => rfl
    | some p =>
      obtain ⟨s1, r⟩ := p
      have hs := serve_owner_ok c s s1 e o q r hact hq hnp hl hn
      have := hrest (.serve .owner q) rfl
      rw [hs] at this; simp at this

theorem BPc.request_ds (b : BPc) : ∀ pq, b.request .current ≠ .prov pq := by
  intro pq; cases b <;> simp [BPc.request]

theorem rest_no_bk (c : Cfg) (s : SState) (hrest : AtRest c s) : s.bks = [] := by
  cases hb : s.bks with
  | nil => rfl
  | cons b rest =>
    exfalso
    have hf : findBk s.bks b.id = some b := by simp [findBk, hb, List.find?_cons]
    cases hsv : b.served with
    | none =>
      obtain ⟨s1, r, hn⟩ := nodeServe_ds_some s (b.pc.request .current) b.pc.request_ds
      have := hrest (.serve (.bk b.id) (b.pc.request .current)) rfl
      simp [sstep, stepServeBk, hf, hn, hsv] at this
    | some r =>
      have := hrest (.deliver (.bk b.id) (b.pc.request .current)) rfl
      simp only [sstep, stepDeliverBk, hf, hsv] at this
      cases hk : bkCont b.pc r <;> simp [hk] at this

/-- the three things the plugin waits on -/
def WaitsOn (s : SState) (e : PEntry) (o : Owner) : Prop :=
  (∃ d, o.pc = .waitHtlcs d ∧ s.mono < d ∧ e.failBuf = none ∧ e.readyBuf = false) ∨
  (∃ aid g, o.pc = .paying aid g .paying ∧ s.payRunning = true ∧ lookupS o.served (.prov .pay) = none) ∨
  (∃ rem, ownerWpc o.pc = some (.waiting rem) ∧ rem ≠ [] ∧
     ∀ id ∈ rem, ∃ p, findPart s.parts id = some p ∧ p.st = .pending)

theorem rest_wait (c : Cfg) (s : SState) (e : PEntry) (o : Owner) (w : WPc) (hr : Reach c s)
    (hact : s.active = some (e, o)) (hrest : AtRest c s)
    (hout : o.pc.outstanding .current = w.outstanding.map SReq.prov) (hwpc : ownerWpc o.pc = some w)
    (hwi : WInv s.parts False w) (hnr : w.notRet) (hex : WEx s.parts (some w)) : WaitsOn s e o := by
  cases w with
  | seqPending =>
    have := (rest_no_request c s e o (.prov .listPending) hr hact hrest (by rw [hout]; simp [WPc.outstanding]) (by simp)).2
    simp [nodeServe, serveRead] at this
  | seqComplete pend =>
    have := (rest_no_request c s e o (.prov .listComplete) hr hact hrest (by rw [hout]; simp [WPc.outstanding]) (by simp)).2
    simp [nodeServe, serveRead] at this
  | conc a b => exact absurd hwi (by simp [WInv])
  | ret r => exact absurd hnr (by simp [WPc.notRet])
  | waiting rem =>
    obtain ⟨hne, hall⟩ := hex
    refine Or.inr (Or.inr ⟨rem, hwpc, hne, ?_⟩)
    intro id hid
    obtain ⟨p, hfp, _⟩ := has_findPart (hall id hid)
    refine ⟨p, hfp, ?_⟩
    have := (rest_no_request c s e o (.prov (.waitPart id)) hr hact hrest
      (by rw [hout]; simp [WPc.outstanding]; exact hid) (by simp)).2
    cases hst : p.st with
    | pending => rfl
    | complete x => simp [nodeServe, serveRead, hfp, hst] at this
    | failed => simp [nodeServe, serveRead, hfp, hst] at this

/-- In a reachable state with a live lifecycle in which neither the plugin can take a step nor the
    node can answer one of its requests (other than `pay`), no bookkeeper is left and the lifecycle
    waits on the MPP timer, on the running pay command, or on parts that are all still pending. -/
theorem c06_rest_waits (c : Cfg) (s : SState) (e : PEntry) (o : Owner) (hr : Reach c s)
    (hact : s.active = some (e, o)) (hrest : AtRest c s) : s.bks = [] ∧ WaitsOn s e o := by
  refine ⟨rest_no_bk c s hrest, ?_⟩
  have hinv := hr.inv
  have hlok := hr.linv e o hact
  have hpcinv := (hinv.owner e o hact).1
  have single : ∀ q, o.pc.outstanding .current = [q] → (∀ pq, q ≠ .prov pq) → False := by
    intro q hq hnp
    have := (rest_no_request c s e o q hr hact hrest (by rw [hq]; simp) (hnp .pay)).2
    obtain ⟨s1, r, hn⟩ := nodeServe_ds_some s q hnp
    rw [hn] at this; simp at this
  cases hpc : o.pc with
  | fetch => exact (single .dsList (by simp [hpc, OPc.outstanding]) (by simp)).elim
  | rFailA aid g t => exact (single _ (by simp [hpc, OPc.outstanding]; rfl) (by simp)).elim
  | rFailS aid g t => exact (single _ (by simp [hpc, OPc.outstanding]; rfl) (by simp)).elim
  | addS aid t mf md => exact (single _ (by simp [hpc, OPc.outstanding]; rfl) (by simp)).elim
  | addA aid g mf md => exact (single _ (by simp [hpc, OPc.outstanding]; rfl) (by simp)).elim
  | gotReady =>
    have := hrest .readParams rfl
    simp [sstep, hact, hpc] at this
  | gotParams mf exp =>
    have := hrest .readHeight rfl
    simp [sstep, hact, hpc] at this
  | panicked =>
    have := hlok.np hpc
    rw [c06_no_panic c s hr] at this; simp at this
  | waitHtlcs d =>
    refine Or.inl ⟨d, hpc, ?_, ?_, ?_⟩
    · have := hrest .timerFire rfl
      simp only [sstep, hact, hpc] at this
      by_cases hd : s.mono ≥ d
      · simp [hd] at this
      · omega
    · have := hrest .takeFail rfl
      simp only [sstep, hact, hpc] at this
      cases hf : e.failBuf with
      | none => rfl
      | some r => simp [hf] at this
    · have := hrest .takeReady rfl
      simp only [sstep, hact, hpc] at this
      cases hb : e.readyBuf with
      | false => rfl
      | true => simp [hb] at this
  | rWait aid g t w =>
    rw [hpc] at hpcinv
    have hex := hlok.wex; rw [hpc] at hex
    exact rest_wait c s e o w hr hact hrest (by simp [hpc, OPc.outstanding]) (by simp [hpc, ownerWpc])
      hpcinv.1 hpcinv.2.1 hex
  | paying aid g p =>
    cases p with
    | paying =>
      refine Or.inr (Or.inl ⟨aid, g, hpc, ?_⟩)
      cases hl : lookupS o.served (.prov .pay) with
      | some r =>
        exfalso
        obtain ⟨s1, outs, hs, _⟩ := deliver_owner_ok c s e o (.prov .pay) r hr hact
          (by simp [hpc, OPc.outstanding, PPc.outstanding]) hl
        have := hrest (.deliver .owner (.prov .pay)) rfl
        rw [hs] at this; simp at this
      | none =>
        refine ⟨?_, rfl⟩
        rcases hlok.pay (by simp [hpc, isPayingPay]) with h | h
        · exact h
        · rw [hl] at h; simp at h
    | inWait f w =>
      rw [hpc] at hpcinv
      have hex := hlok.wex; rw [hpc] at hex
      exact rest_wait c s e o w hr hact hrest (by simp [hpc, OPc.outstanding, PPc.outstanding]) (by simp [hpc, ownerWpc])
        hpcinv.2.1 hpcinv.2.2.1 hex
    | retWait r => rw [hpc] at hpcinv; exact hpcinv.elim
    | retPay r => rw [hpc] at hpcinv; exact hpcinv.elim

/-- a lifecycle whose pay request is with the node and no bookkeeper: at rest -/
theorem atRest_paying (c : Cfg) (s : SState) (e : PEntry) (aid g : Nat)
    (hact : s.active = some (e, { pc := .paying aid g .paying, served := [] })) (hb : s.bks = []) : AtRest c s := by
  intro a ha
  cases a with
  | serve t q =>
    cases t with
    | owner =>
      by_cases hq : q = .prov .pay
      · subst hq; rfl
      · have h1 : (q == SReq.prov PReq.pay) = false := by simpa using hq
        simp only [sstep, h1]
        cases nodeServe s q with
        | none => simp [stepServeOwner, hact]
        | some p =>
          have hc : ([SReq.prov PReq.pay].contains q) = false := by
            simp only [List.contains_cons, List.contains_nil, Bool.or_false]; exact h1
          simp [stepServeOwner, hact, OPc.outstanding, PPc.outstanding, hq]
    | bk id => simp [sstep, stepServeBk, findBk, hb]
  | deliver t q =>
    cases t with
    | owner =>
      simp only [sstep, stepDeliverOwner, hact]
      split
      · simp [lookupS]
      · rfl
    | bk id => simp [sstep, stepDeliverBk, findBk, hb]
  | timerFire => simp [sstep, hact]
  | takeFail => simp [sstep, hact]
  | takeReady => simp [sstep, hact]
  | readParams => simp [sstep, hact]
  | readHeight => simp [sstep, hact]
  | arrive _ _ _ _ _ => simp [SAct.isPluginOrReply] at ha
  | tickMono _ => simp [SAct.isPluginOrReply] at ha
  | tickWall _ => simp [SAct.isPluginOrReply] at ha
  | block _ => simp [SAct.isPluginOrReply] at ha
  | crash => simp [SAct.isPluginOrReply] at ha
  | create _ => simp [SAct.isPluginOrReply] at ha
  | resolve _ _ => simp [SAct.isPluginOrReply] at ha
  | payEnd _ => simp [SAct.isPluginOrReply] at ha
  | fault _ _ _ => simp [SAct.isPluginOrReply] at ha

/-- non-vacuity: the demo run, stopped after the pay command was started, is at rest waiting on
    the running pay command -/
example : ∃ s e o, Reach demoCfg s ∧ s.active = some (e, o) ∧ AtRest demoCfg s ∧
    o.pc = .paying 1 0 .paying ∧ s.payRunning = true := by
  refine ⟨_, _, _, ⟨demoActs.take 10, ?_, rfl⟩, rfl, atRest_paying _ _ _ 1 0 rfl rfl, rfl, rfl⟩
  intro a ha
  have : a ∈ demoActs := List.mem_of_mem_take ha
  simp [demoActs] at this
  rcases this with rfl | rfl | rfl | rfl | rfl | rfl | rfl | rfl | rfl | rfl | rfl | rfl | rfl <;> trivial

end Tramp
