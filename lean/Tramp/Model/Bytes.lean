/-
M1 — byte-level model of `/repo/src/tlv.rs`.

Mirrors, function by function:
  ProtoBuf::get_compact_size   → `getCompactSize`        (checked reads; `getCompactSizePinned` = the
                                                          unchecked reads of the pinned tree, which panic)
  ProtoBuf::get_tu64           → `getTu64`
  ProtoBufMut::put_compact_size→ `putCompactSize`
  FromBytes::from_bytes        → `fromBytes`             (loop `while remaining >= 2`)
  TryFrom<Vec<u8>>::try_from   → `tryFromPrefixed`       (reads one BigSize and IGNORES it:
                                                          `b.take(l).into_inner()` is the un-limited buffer)
  ToBytes::to_bytes            → `toBytes`
  SerializedTlvStream::get     → `getEntry`  (first match)
  SerializedTlvStream::remove  → `removeEntry` (first match)

No import outside core: this file is linked into the `driver` executable.
-/
namespace Tramp

abbrev Bytes := List UInt8

/-- Outcome of a partial operation of the code: a value, an `Err(..)`, or a panic. -/
inductive Res (α : Type) where
  | ok    : α → Res α
  | err   : Res α
  | panic : Res α
deriving Repr, DecidableEq

/-- Big-endian value of a byte string. -/
def beVal (bs : Bytes) : Nat :=
  bs.foldl (fun acc b => acc * 256 + b.toNat) 0

/-- The `k` low-order bytes of `n`, big-endian (`to_be_bytes` / `put_uN`). -/
def beBytes : Nat → Nat → Bytes
  | 0,     _ => []
  | k + 1, n => beBytes k (n / 256) ++ [UInt8.ofNat (n % 256)]

/-- How a fixed-width read behaves when too few bytes remain. -/
inductive ShortRead where
  | checked   -- returns `Err` (tree with fix F2)
  | unchecked -- `bytes::Buf::get_uN` panics (pinned tree)
deriving Repr, DecidableEq

def shortRead {α : Type} : ShortRead → Res α
  | .checked   => .err
  | .unchecked => .panic

/-- Read `w` big-endian bytes. -/
def readBE (m : ShortRead) (w : Nat) (bs : Bytes) : Res (Nat × Bytes) :=
  if bs.length < w then shortRead m else .ok (beVal (bs.take w), bs.drop w)

/-- `get_compact_size`: first byte `< 253` is the value; 253/254/255 announce 2/4/8 bytes.
    No minimality check (as in the code). -/
def getCompactSizeWith (m : ShortRead) : Bytes → Res (Nat × Bytes)
  | []        => shortRead m
  | b :: rest =>
    if b.toNat = 253 then readBE m 2 rest
    else if b.toNat = 254 then readBE m 4 rest
    else if b.toNat = 255 then readBE m 8 rest
    else .ok (b.toNat, rest)

def getCompactSize : Bytes → Res (Nat × Bytes) := getCompactSizeWith .checked
def getCompactSizePinned : Bytes → Res (Nat × Bytes) := getCompactSizeWith .unchecked

/-- `put_compact_size` (argument is a u64). -/
def putCompactSize (n : Nat) : Bytes :=
  if n < 253 then [UInt8.ofNat n]
  else if n < 0x10000 then 253 :: beBytes 2 n
  else if n < 0x100000000 then 254 :: beBytes 4 n
  else 255 :: beBytes 8 n

/-- `get_tu64` on a buffer holding exactly the field: 0 bytes → 0, 1..8 → big-endian, >8 → Err. -/
def getTu64 (bs : Bytes) : Res Nat :=
  if bs.length = 0 then .ok 0
  else if bs.length > 8 then .err
  else .ok (beVal bs)

structure Entry where
  typ   : Nat
  value : Bytes
deriving Repr, DecidableEq

/-- One iteration budget per byte is more than enough: every iteration consumes ≥ 2 bytes.
    Running out of fuel is reported as `panic` so that the totality theorem covers it. -/
def fromBytesAux (m : ShortRead) : Nat → Bytes → Res (List Entry)
  | 0,        bs => if bs.length < 2 then .ok [] else .panic
  | fuel + 1, bs =>
    if bs.length < 2 then .ok []          -- a single trailing byte is silently dropped
    else
      match getCompactSizeWith m bs with
      | .err   => .err
      | .panic => .panic
      | .ok (typ, r1) =>
        match getCompactSizeWith m r1 with
        | .err   => .err
        | .panic => .panic
        | .ok (len, r2) =>
          if r2.length < len then .err
          else
            match fromBytesAux m fuel (r2.drop len) with
            | .ok es => .ok ({ typ := typ, value := r2.take len } :: es)
            | .err   => .err
            | .panic => .panic

def fromBytesWith (m : ShortRead) (bs : Bytes) : Res (List Entry) := fromBytesAux m bs.length bs
def fromBytes : Bytes → Res (List Entry) := fromBytesWith .checked
def fromBytesPinned : Bytes → Res (List Entry) := fromBytesWith .unchecked

/-- `TryFrom<Vec<u8>>`: the length prefix is read and ignored. -/
def tryFromPrefixedWith (m : ShortRead) (bs : Bytes) : Res (List Entry) :=
  if bs.length = 0 then .ok []
  else
    match getCompactSizeWith m bs with
    | .ok (_, rest) => fromBytesWith m rest
    | .err   => .err
    | .panic => .panic

def tryFromPrefixed : Bytes → Res (List Entry) := tryFromPrefixedWith .checked
def tryFromPrefixedPinned : Bytes → Res (List Entry) := tryFromPrefixedWith .unchecked

def encodeEntry (e : Entry) : Bytes :=
  putCompactSize e.typ ++ (putCompactSize e.value.length ++ e.value)

def toBytes : List Entry → Bytes
  | []      => []
  | e :: es => encodeEntry e ++ toBytes es

def getEntry (es : List Entry) (t : Nat) : Option Entry :=
  es.find? (fun e => e.typ == t)

def removeEntry : List Entry → Nat → List Entry
  | [],      _ => []
  | e :: es, t => if e.typ == t then es else e :: removeEntry es t

end Tramp
