/-
Specification-side definitions (what the properties talk about, independent of how the code does it).
-/
import Tramp.Model.Bytes

namespace Tramp

/-- BOLT 1 BigSize, strict: the value must not fit a shorter encoding. -/
def strictRead (w min : Nat) (rest : Bytes) : Option (Nat × Bytes) :=
  if rest.length < w then none
  else if beVal (rest.take w) < min then none
  else some (beVal (rest.take w), rest.drop w)

def strictGet : Bytes → Option (Nat × Bytes)
  | [] => none
  | b :: rest =>
    if b.toNat = 253 then strictRead 2 253 rest
    else if b.toNat = 254 then strictRead 4 0x10000 rest
    else if b.toNat = 255 then strictRead 8 0x100000000 rest
    else some (b.toNat, rest)

/-- A valid BOLT TLV stream: exactly a concatenation of `type length value` records with minimal
    BigSize encodings (the ordering rule is not needed). Returns the records. -/
def strictDecodeAux : Nat → Bytes → Option (List Entry)
  | _, [] => some []
  | 0, _ :: _ => none
  | fuel + 1, b :: bs =>
    match strictGet (b :: bs) with
    | none => none
    | some (t, r1) =>
      match strictGet r1 with
      | none => none
      | some (l, r2) =>
        if r2.length < l then none
        else
          match strictDecodeAux fuel (r2.drop l) with
          | none => none
          | some es => some ({ typ := t, value := r2.take l } :: es)

def strictDecode (bs : Bytes) : Option (List Entry) := strictDecodeAux bs.length bs

/-- record lists the encoder is specified for: types and lengths are u64 -/
def EntriesOk (es : List Entry) : Prop := ∀ e ∈ es, e.typ < 2 ^ 64 ∧ e.value.length < 2 ^ 64

end Tramp
