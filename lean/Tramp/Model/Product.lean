/-
M7' — all payment hashes: one component (M7) per hash plus the actions they share (both clocks,
blocks, crash). `handleHtlc` is the top of `HtlcManager::handle_htlc`: classification (M3) decides
whether a request touches any component at all.
-/
import Tramp.Model.System

namespace Tramp

structure GState where
  comps : Nat → SState        -- by payment hash (the hash is a key, nothing else)

inductive GAct where
  | comp (h : Nat) (a : SAct)  -- an action of the component of hash h
  | tickMono (dt : Nat)
  | tickWall (dt : Int)
  | block (n : Nat)
  | crash
deriving Repr

def setComp (f : Nat → SState) (h : Nat) (s : SState) : Nat → SState := fun k => if k = h then s else f k

/-- shared actions are total on every component -/
def sharedStep : GAct → Option (SState → SState)
  | .tickMono dt => some fun s => { s with mono := s.mono + dt }
  | .tickWall dt => some fun s => { s with wall := ((s.wall : Int) + dt).toNat }
  | .block n => some fun s => { s with height := max s.height n }
  | .crash => some fun s => { s with active := none, bks := [], payRunning := false }
  | .comp _ _ => none

def gstep (c : Cfg) (v : SVariant) (g : GState) : GAct → Option (GState × List (Nat × Out))
  | .comp h a =>
    match sstep c v (g.comps h) a with
    | some (s', outs) => some ({ comps := setComp g.comps h s' }, outs.map (fun o => (h, o)))
    | none => none
  | a =>
    match sharedStep a with
    | some f => some ({ comps := fun k => f (g.comps k) }, [])
    | none => none

def grun (c : Cfg) (v : SVariant) : GState → List GAct → Option (GState × List (Nat × Out))
  | g, [] => some (g, [])
  | g, a :: as =>
    match gstep c v g a with
    | some (g', o) =>
      match grun c v g' as with
      | some (g'', os) => some (g'', o ++ os)
      | none => none
    | none => none

/-- immediate answers of `handle_htlc` that involve no component -/
inductive Immediate where
  | cont (payload : Option Bytes)
  | failTNF
deriving Repr, DecidableEq

/-- `handle_htlc` from the top: classify, then (only for a trampoline request) enter the component
    of the invoice's payment hash (`key` maps hash bytes to component keys) -/
def handleHtlc (c : Cfg) (v : SVariant) (parse : Bytes → Option InvoiceView) (allow : Bool) (key : Bytes → Nat)
    (bolt11Id : Bytes → Nat) (g : GState) (req : Req) : Option (GState × List (Nat × Out)) × Option Immediate :=
  match classify parse allow req with
  | .cont p => (some (g, []), some (.cont p))
  | .failTNF => (some (g, []), some .failTNF)
  | .tramp i f =>
    (gstep c v g (.comp (key i.inv.hash)
      (.arrive ⟨bolt11Id i.bolt11, i.amount, i.inv.amount.isSome⟩ req.htlc.amountMsat req.htlc.cltvExpiry req.htlc.cltvRel
        (req.onion.totalMsat.getD f))), none)

end Tramp
