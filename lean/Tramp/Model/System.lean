/-
M7 — one payment hash of the plugin together with its environment, as a labelled transition system.

Plugin side (`/repo/src/htlc_manager.rs`, `store.rs`, `payment_provider.rs`):
  * the table entry `PaymentState` and the task that owns it (`payment_lifecycle`), created together
    under the table lock and removed together by `resolve`;
  * bookkeepers: lifecycles that have already resolved their HTLCs and are still writing
    `mark_succeeded` / `mark_failed` (they overlap with the NEXT entry of the same hash);
  * every `.await` on an RPC is a request that stays outstanding until the node *serves* it (reply
    computed from / effect applied to the node state at that instant) and the reply is *delivered*
    later. Everything between two awaits is one atomic step.
Environment side (M4): datastore cell + attempt records, part table, the pay command, two clocks
(tokio's monotonic clock and the wall clock read by store.rs), chain height, crash, write/read faults.

Appendix A of DESIGN.md pins every step to source lines.
-/
import Tramp.Model.Provider

namespace Tramp

/-! ### configuration and variants -/

structure Cfg where
  cltvDelta   : Nat
  policyDelta : Nat
  feeBase     : Nat
  feePpm      : Nat
  mppTimeout  : Nat
deriving Repr, DecidableEq

/-- code variants: `current` = the tree with the fix: commits, `pinned` = the pinned tree -/
structure SVariant where
  prov           : Variant
  failMustReplace : Bool   -- pinned `mark_failed`: attempt record written with must-replace (defect D4)
  uncheckedSum   : Bool    -- pinned `add_htlc`: `amount_received_msat +=` can overflow (panic)
deriving Repr, DecidableEq

def SVariant.current : SVariant := { prov := Variant.current, failMustReplace := false, uncheckedSum := false }
def SVariant.pinned  : SVariant := { prov := Variant.pinned,  failMustReplace := true,  uncheckedSum := true }

/-! ### plugin data -/

/-- what `TrampolineInfo` equality compares (the policy is configuration) -/
structure SInfo where
  bolt11       : Nat      -- opaque identity of the invoice STRING
  amount       : Nat      -- amount to deliver
  invHasAmount : Bool     -- `invoice.amount_milli_satoshis().is_some()`
deriving Repr, DecidableEq

/-- one `htlc_accepted` call being held -/
structure Inv where
  id     : Nat
  amount : Nat
  expiry : Nat
deriving Repr, DecidableEq

inductive Resp where
  | resolve (pre : Nat)
  | fail (r : FailReason)
deriving Repr, DecidableEq

/-- `PaymentState` (htlc_manager.rs:678) plus the two capacity-1 channels -/
structure PEntry where
  info      : SInfo
  listeners : List Inv
  isReady   : Bool
  isFailReq : Bool
  readyBuf  : Bool            -- a `()` sits in `payment_ready`
  failBuf   : Option Resp     -- a response sits in `fail_requested`
  received  : Nat
  cltv      : Nat             -- minimum expiry (starts at u32::MAX)
  readySent : Bool            -- ghost: `payment_ready.send` happened at some point
deriving Repr, DecidableEq

def PEntry.new (info : SInfo) : PEntry :=
  { info := info, listeners := [], isReady := false, isFailReq := false, readyBuf := false,
    failBuf := none, received := 0, cltv := 4294967295, readySent := false }

def feeOk (c : Cfg) (total amount : Nat) : Bool :=
  match feeSufficient c.feeBase c.feePpm total amount with
  | .ok b => b
  | _ => false

def foei (c : Cfg) : Resp := .fail (.foei c.feeBase c.feePpm c.policyDelta)

/-- `PaymentState::fail`: single shot -/
def PEntry.fail (e : PEntry) (r : Resp) : PEntry :=
  if e.isFailReq then e
  else { e with isReady := false, isFailReq := true, failBuf := some r }

def PEntry.failIf (e : PEntry) (c : Bool) (r : Resp) : PEntry := if c then e.fail r else e

/-- `amount_received_msat += amount` (saturating after fix F7) -/
def satAdd (a b : Nat) : Nat := if a + b ≥ U64 then U64 - 1 else a + b

def PEntry.push (e : PEntry) (i : Inv) : PEntry :=
  { e with received := satAdd e.received i.amount, cltv := min i.expiry e.cltv, listeners := e.listeners ++ [i] }

def PEntry.canReady (c : Cfg) (e : PEntry) : Bool :=
  !e.isReady && !e.isFailReq && feeOk c e.received e.info.amount

def PEntry.markReady (e : PEntry) : PEntry := { e with isReady := true, readyBuf := true, readySent := true }

/-- `PaymentState::add_htlc` -/
def PEntry.add (c : Cfg) (e : PEntry) (i : Inv) : PEntry :=
  if (e.push i).canReady c then (e.push i).markReady else e.push i

/-- the three checks of `handle_htlc` (142-183), in order -/
def PEntry.checks (c : Cfg) (e : PEntry) (info : SInfo) (relExp : Int) (total : Nat) : PEntry :=
  ((e.failIf (info != e.info) (.fail .ttf)).failIf (decide (relExp < (c.policyDelta : Int))) (foei c)).failIf
    (!feeOk c total info.amount) (foei c)

/-! ### requests and replies of the plugin's tasks -/

inductive SReq where
  | dsList
  | dsWriteState (v : DsVal) (mode : DsMode)
  | dsWriteAttempt (aid : Nat) (mode : DsMode)
  | prov (q : PReq)
deriving Repr, DecidableEq

inductive SReply where
  | listed (cell : Option (DsVal × Nat))
  | listErr
  | written (gen : Nat)
  | writeErr
  | prov (r : PReply)
deriving Repr, DecidableEq

/-- program counter of the task that owns the table entry -/
inductive OPc where
  | fetch
  | rWait (aid g t : Nat) (w : WPc)      -- restart path: wait_payment for the interrupted attempt
  | rFailA (aid g t : Nat)               -- restart path: mark_failed, attempt record write
  | rFailS (aid g t : Nat)               -- restart path: mark_failed, state write (Free, generation g)
  | waitHtlcs (deadline : Nat)           -- the `select!`
  | gotReady                             -- took `payment_ready`
  | gotParams (maxfee exp : Nat)         -- read max_fee / cltv_expiry under the lock
  | addS (aid t maxfee maxdelay : Nat)   -- add_payment_attempt: state write (Pending) outstanding
  | addA (aid g maxfee maxdelay : Nat)   -- add_payment_attempt: attempt record write outstanding
  | paying (aid g : Nat) (p : PPc)       -- inside the pay wrapper
  | panicked                             -- the task hit `todo!()`: the entry stays, nobody owns it
deriving Repr, DecidableEq

structure Owner where
  pc     : OPc
  served : List (SReq × SReply)
deriving Repr, DecidableEq

inductive BPc where
  | succS (aid pre : Nat)   -- mark_succeeded: state write
  | succA (aid : Nat)       -- mark_succeeded: attempt record write
  | failA (aid g : Nat)     -- mark_failed: attempt record write
  | failS (aid g : Nat)     -- mark_failed: state write (Free, generation g)
deriving Repr, DecidableEq

structure Bk where
  id     : Nat
  pc     : BPc
  served : Option SReply
deriving Repr, DecidableEq

def failMode (v : SVariant) : DsMode := if v.failMustReplace then .mustReplace none else .createOrReplace

def OPc.outstanding (v : SVariant) : OPc → List SReq
  | .fetch => [.dsList]
  | .rWait _ _ _ w => w.outstanding.map .prov
  | .rFailA aid _ _ => [.dsWriteAttempt aid (failMode v)]
  | .rFailS _ g _ => [.dsWriteState .free (.mustReplace (some g))]
  | .waitHtlcs _ => []
  | .gotReady => []
  | .gotParams _ _ => []
  | .addS aid t _ _ => [.dsWriteState (.pending aid t) .createOrReplace]
  | .addA aid _ _ _ => [.dsWriteAttempt aid .mustCreate]
  | .paying _ _ p => p.outstanding.map .prov
  | .panicked => []

def BPc.request (v : SVariant) : BPc → SReq
  | .succS _ pre => .dsWriteState (.succeeded pre) .createOrReplace
  | .succA aid => .dsWriteAttempt aid (.mustReplace none)
  | .failA aid _ => .dsWriteAttempt aid (failMode v)
  | .failS _ g => .dsWriteState .free (.mustReplace (some g))

/-! ### the whole state -/

structure SState where
  -- the node (durable across a crash)
  ds         : Option (DsVal × Nat)
  attempts   : List Nat            -- attempt records that exist
  parts      : List Part
  payRunning : Bool
  nextAid    : Nat                 -- attempt ids come from the nanosecond wall clock: always fresh (E6)
  -- clocks and chain
  mono       : Nat                 -- tokio clock (timers), seconds
  wall       : Nat                 -- wall clock (store.rs), seconds
  height     : Nat                 -- the plugin's height register (M10)
  -- the plugin (lost in a crash)
  active     : Option (PEntry × Owner)
  bks        : List Bk
  nextInv    : Nat
  nextBk     : Nat
  panicked   : Bool                -- some task hit `todo!()` / an overflow panic
deriving Repr, DecidableEq

def SState.init : SState :=
  { ds := none, attempts := [], parts := [], payRunning := false, nextAid := 1, mono := 0, wall := 0,
    height := 0, active := none, bks := [], nextInv := 0, nextBk := 0, panicked := false }

/-- no part of this hash pending or complete and no pay command running -/
def SState.quiet (s : SState) : Prop := partsQuiet s.parts ∧ s.payRunning = false

instance (s : SState) : Decidable s.quiet := by unfold SState.quiet; infer_instance

inductive Out where
  | resp (i : Inv) (r : Resp)
  | pay (bolt11 : Nat) (amount : Option Nat) (maxfee maxdelay : Nat)
deriving Repr, DecidableEq

inductive TaskRef where
  | owner
  | bk (id : Nat)
deriving Repr, DecidableEq

inductive Fault where
  | writeReject    -- the write is refused (nothing applied, error reported)
  | writeLostAck   -- the write is applied but an error is reported
  | writeLost      -- the write is reported ok but not applied (C09 only)
  | readErr        -- a read (listdatastore / listsendpays / waitsendpay) fails
deriving Repr, DecidableEq

inductive SAct where
  | arrive (info : SInfo) (amount expiry : Nat) (relExp : Int) (total : Nat)
  | tickMono (dt : Nat)
  | tickWall (dt : Int)        -- the wall clock moves (forward, or back when it is stepped: a stored attempt time may lie in the future)
  | block (n : Nat)
  | crash
  | create (id : Nat)
  | resolve (id : Nat) (st : PStatus)
  | payEnd (r : PReply)
  | serve (t : TaskRef) (q : SReq)
  | fault (t : TaskRef) (q : SReq) (f : Fault)
  | deliver (t : TaskRef) (q : SReq)
  | timerFire
  | takeFail
  | takeReady
  | readParams
  | readHeight
deriving Repr, DecidableEq

/-! ### node side -/

def attemptWrite (as : List Nat) (aid : Nat) : DsMode → Option (List Nat)
  | .createOrReplace => some (if as.contains aid then as else as ++ [aid])
  | .mustCreate      => if as.contains aid then none else some (as ++ [aid])
  | .mustReplace _   => if as.contains aid then some as else none

/-- truthful service of a request NOW (E1, E4): new node state and reply -/
def nodeServe (s : SState) : SReq → Option (SState × SReply)
  | .dsList => some (s, .listed s.ds)
  | .dsWriteState v mode =>
    match dsWrite s.ds mode v with
    | (ds', some g) => some ({ s with ds := ds' }, .written g)
    | (_, none)     => some (s, .writeErr)
  | .dsWriteAttempt aid mode =>
    match attemptWrite s.attempts aid mode with
    | some as' => some ({ s with attempts := as' }, .written 0)
    | none     => some (s, .writeErr)
  | .prov q =>
    match serveRead s.parts q with
    | some r => some (s, .prov r)
    | none   => none

def SReq.isWrite : SReq → Bool
  | .dsWriteState _ _ => true
  | .dsWriteAttempt _ _ => true
  | _ => false

def SReq.isRead : SReq → Bool
  | .dsList => true
  | .prov .pay => false
  | .prov _ => true
  | _ => false

def nodeFault (s : SState) (q : SReq) : Fault → Option (SState × SReply)
  | .writeReject => if q.isWrite then some (s, .writeErr) else none
  | .writeLostAck =>
    if q.isWrite then
      match nodeServe s q with
      | some (s', _) => some (s', .writeErr)
      | none => none
    else none
  | .writeLost =>
    if q.isWrite then
      match nodeServe s q with
      | some (_, .written g) => some (s, .written g)
      | _ => none
    else none
  | .readErr =>
    match q with
    | .dsList => some (s, .listErr)
    | .prov .pay => none
    | .prov _ => some (s, .prov .rpcErr)
    | _ => none

/-! ### plugin side: continuations -/

inductive ONext where
  | stay (pc : OPc)
  | pay (pc : OPc) (maxfee maxdelay : Nat)     -- like `stay`, and the pay RPC is issued
  | finish (r : Resp)                          -- resolve(r), the task ends
  | finishBk (r : Resp) (b : BPc)              -- resolve(r), the task goes on as a bookkeeper
  | panic
deriving Repr, DecidableEq

/-- enter the HTLC-wait phase with `tl` seconds left (518-530) -/
def enterWait (s : SState) (tl : Nat) : ONext :=
  if tl = 0 then .finish (.fail .ttf) else .stay (.waitHtlcs (s.mono + tl))

def afterRestartWait (aid g t : Nat) : WPc → ONext
  | .ret (.some pre) => .finishBk (.resolve pre) (.succS aid pre)
  | .ret .none       => .stay (.rFailA aid g t)
  | .ret .err        => .panic                       -- `todo!()` (K4)
  | w                => .stay (.rWait aid g t w)

def afterPay (aid g : Nat) : PPc → ONext
  | .retPay (.ok pre) => .finishBk (.resolve pre) (.succS aid pre)
  | .retPay .err      => .finishBk (.fail .ttf) (.failA aid g)
  | p                 => .stay (.paying aid g p)

/-- what the owner does when the reply `r` to its request `q` arrives -/
def ownerCont (c : Cfg) (v : SVariant) (s : SState) (pc : OPc) (q : SReq) (r : SReply) : ONext :=
  match pc, r with
  | .fetch, .listed none                         => enterWait s c.mppTimeout
  | .fetch, .listed (some (.free, _))            => enterWait s c.mppTimeout
  | .fetch, .listed (some (.pending aid t, g))   => .stay (.rWait aid g t (WPc.start v.prov))
  | .fetch, .listed (some (.succeeded pre, _))   => .finish (.resolve pre)
  | .fetch, _                                    => .finish (.fail .tnf)
  | .rWait aid g t w, .prov pr =>
    match q with
    | .prov pq => afterRestartWait aid g t (wDeliver w pq pr)
    | _ => .stay pc
  | .rFailA aid g t, .written _ => .stay (.rFailS aid g t)
  | .rFailA _ _ _, _            => .finish (.fail .tnf)
  | .rFailS _ _ t, .written _   => enterWait s (c.mppTimeout - (s.wall - t))
  | .rFailS _ _ _, _            => .finish (.fail .tnf)
  | .addS aid _ mf md, .written g => .stay (.addA aid g mf md)
  | .addS _ _ _ _, _              => .finish (.fail .tnf)
  | .addA aid g mf md, .written _ => .pay (.paying aid g .paying) mf md
  | .addA _ _ _ _, _              => .finish (.fail .tnf)
  | .paying aid g p, .prov pr =>
    match q with
    | .prov pq => afterPay aid g (pDeliver v.prov p pq pr)
    | _ => .stay pc
  | pc, _ => .stay pc

def respAll (e : PEntry) (r : Resp) : List Out := e.listeners.map (fun i => Out.resp i r)

def payOut (e : PEntry) (mf md : Nat) : Out :=
  .pay e.info.bolt11 (if e.info.invHasAmount then none else some e.info.amount) mf md

def lookupS (l : List (SReq × SReply)) (q : SReq) : Option SReply :=
  (l.find? (fun x => x.1 == q)).map (·.2)

/-- the owner stays inside the same `wait_payment` call (only then other requests stay in flight:
    leaving the call drops its `FuturesUnordered` and with it every other request) -/
def sameWait : OPc → OPc → Bool
  | .rWait _ _ _ _, .rWait _ _ _ _ => true
  | .paying _ _ (.inWait _ _), .paying _ _ (.inWait _ _) => true
  | _, _ => false

/-- replies still waiting after the owner moved from `pc` to `pc'` -/
def keepServed (v : SVariant) (pc pc' : OPc) (served : List (SReq × SReply)) (q : SReq) : List (SReq × SReply) :=
  if sameWait pc pc' && !(pc'.outstanding v).isEmpty then served.filter (fun x => x.1 != q) else []

/-- apply an owner continuation to the state -/
def applyONext (v : SVariant) (s : SState) (e : PEntry) (o : Owner) (q : SReq) : ONext → SState × List Out
  | .stay pc => ({ s with active := some (e, { pc := pc, served := keepServed v o.pc pc o.served q }) }, [])
  | .pay pc mf md =>
    ({ s with active := some (e, { pc := pc, served := [] }), payRunning := true }, [payOut e mf md])
  | .finish r => ({ s with active := none }, respAll e r)
  | .finishBk r b =>
    ({ s with active := none, bks := s.bks ++ [{ id := s.nextBk, pc := b, served := none }], nextBk := s.nextBk + 1 },
     respAll e r)
  | .panic => ({ s with active := some (e, { pc := .panicked, served := [] }), panicked := true }, [])

def bkCont : BPc → SReply → Option BPc
  | .succS aid _, .written _ => some (.succA aid)
  | .failA aid g, .written _ => some (.failS aid g)
  | _, _ => none                                    -- finished (or stopped at the first error)

def findBk (bks : List Bk) (id : Nat) : Option Bk := bks.find? (fun b => b.id == id)

def setBk (bks : List Bk) (b : Bk) : List Bk := bks.map (fun x => if x.id == b.id then b else x)

def dropBk (bks : List Bk) (id : Nat) : List Bk := bks.filter (fun x => x.id != id)

/-- `maxdelay` (575-583) -/
def maxDelay (c : Cfg) (exp height : Nat) : Nat :=
  min (min (exp - height - c.cltvDelta) 65535) c.policyDelta

/-! ### the step function -/

def stepArrive (c : Cfg) (v : SVariant) (s : SState) (info : SInfo) (amount expiry : Nat) (relExp : Int)
    (total : Nat) : Option (SState × List Out) :=
  if v.uncheckedSum &&
      decide ((match s.active with | some (e, _) => e.received | none => 0) + amount ≥ U64) then
    some ({ s with panicked := true, nextInv := s.nextInv + 1 }, [])     -- pinned: overflow panic in add_htlc
  else
    match s.active with
    | none =>
      some ({ s with
              active := some (((PEntry.new info).checks c info relExp total).add c ⟨s.nextInv, amount, expiry⟩,
                              { pc := .fetch, served := [] }),
              nextInv := s.nextInv + 1 }, [])
    | some (e, o) =>
      some ({ s with active := some ((e.checks c info relExp total).add c ⟨s.nextInv, amount, expiry⟩, o),
                     nextInv := s.nextInv + 1 }, [])

def stepServeOwner (v : SVariant) (s : SState) (q : SReq) (res : Option (SState × SReply)) :
    Option (SState × List Out) :=
  match s.active, res with
  | some (e, o), some (s', r) =>
    if (o.pc.outstanding v).contains q && (lookupS o.served q).isNone then
      some ({ s' with active := some (e, { o with served := o.served ++ [(q, r)] }) }, [])
    else none
  | _, _ => none

def stepServeBk (v : SVariant) (s : SState) (id : Nat) (q : SReq) (res : Option (SState × SReply)) :
    Option (SState × List Out) :=
  match findBk s.bks id, res with
  | some b, some (s', r) =>
    if b.pc.request v == q && b.served.isNone then
      some ({ s' with bks := setBk s.bks { b with served := some r } }, [])
    else none
  | _, _ => none

def stepDeliverOwner (c : Cfg) (v : SVariant) (s : SState) (q : SReq) : Option (SState × List Out) :=
  match s.active with
  | some (e, o) =>
    if (o.pc.outstanding v).contains q then
      match lookupS o.served q with
      | some r => some (applyONext v s e o q (ownerCont c v s o.pc q r))
      | none => none
    else none
  | none => none

def stepDeliverBk (v : SVariant) (s : SState) (id : Nat) (q : SReq) : Option (SState × List Out) :=
  match findBk s.bks id with
  | some b =>
    if b.pc.request v == q then
      match b.served with
      | some r =>
        match bkCont b.pc r with
        | some pc' => some ({ s with bks := setBk s.bks { b with pc := pc', served := none } }, [])
        | none => some ({ s with bks := dropBk s.bks id }, [])
      | none => none
    else none
  | none => none

def sstep (c : Cfg) (v : SVariant) (s : SState) : SAct → Option (SState × List Out)
  | .arrive info amount expiry relExp total => stepArrive c v s info amount expiry relExp total
  | .tickMono dt => some ({ s with mono := s.mono + dt }, [])
  | .tickWall dt => some ({ s with wall := ((s.wall : Int) + dt).toNat }, [])
  | .block n => some ({ s with height := max s.height n }, [])
  | .crash => some ({ s with active := none, bks := [], payRunning := false }, [])
  | .create id =>
    if s.payRunning && (findPart s.parts id).isNone then
      some ({ s with parts := s.parts ++ [{ id := id, st := .pending }] }, [])
    else none
  | .resolve id st =>
    if st != .pending then some ({ s with parts := resolvePart s.parts id st }, []) else none
  | .payEnd r =>
    match s.active with
    | some (e, o) =>
      match o.pc with
      | .paying aid g .paying =>
        if s.payRunning && (lookupS o.served (.prov .pay)).isNone && payReplyOk s.parts r then
          some ({ s with payRunning := false,
                         active := some (e, { pc := .paying aid g .paying, served := o.served ++ [(.prov .pay, .prov r)] }) }, [])
        else none
      | _ => none
    | none => none
  | .serve .owner q => if q == .prov .pay then none else stepServeOwner v s q (nodeServe s q)
  | .serve (.bk id) q => stepServeBk v s id q (nodeServe s q)
  | .fault .owner q f => stepServeOwner v s q (nodeFault s q f)
  | .fault (.bk id) q f => stepServeBk v s id q (nodeFault s q f)
  | .deliver .owner q => stepDeliverOwner c v s q
  | .deliver (.bk id) q => stepDeliverBk v s id q
  | .timerFire =>
    match s.active with
    | some (e, o) =>
      match o.pc with
      | .waitHtlcs d => if s.mono ≥ d then some ({ s with active := none }, respAll e (.fail .ttf)) else none
      | _ => none
    | none => none
  | .takeFail =>
    match s.active with
    | some (e, o) =>
      match o.pc, e.failBuf with
      | .waitHtlcs _, some r => some ({ s with active := none }, respAll e r)
      | _, _ => none
    | none => none
  | .takeReady =>
    match s.active with
    | some (e, o) =>
      match o.pc with
      | .waitHtlcs _ =>
        if e.readyBuf then some ({ s with active := some ({ e with readyBuf := false }, { pc := .gotReady, served := [] }) }, [])
        else none
      | _ => none
    | none => none
  | .readParams =>
    match s.active with
    | some (e, o) =>
      match o.pc with
      | .gotReady => some ({ s with active := some (e, { pc := .gotParams (e.received - e.info.amount) e.cltv, served := [] }) }, [])
      | _ => none
    | none => none
  | .readHeight =>
    match s.active with
    | some (e, o) =>
      match o.pc with
      | .gotParams mf exp =>
        some ({ s with active := some (e, { pc := .addS s.nextAid s.wall mf (maxDelay c exp s.height), served := [] }),
                       nextAid := s.nextAid + 1 }, [])
      | _ => none
    | none => none

/-- run a list of actions, collecting the outputs of every step together with the state in which
    the step was taken -/
def srun (c : Cfg) (v : SVariant) : SState → List SAct → Option SState
  | s, [] => some s
  | s, a :: as => match sstep c v s a with
    | some (s', _) => srun c v s' as
    | none => none

end Tramp
