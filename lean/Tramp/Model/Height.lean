/-
M10 — `BlockWatcher` (`/repo/src/block_watcher.rs`): the height register, the startup query, the
60-second poll loop and `block_added` notifications. `getinfo` is a request/reply pair: the node
computes the reply when it *serves* it, the plugin consumes it later.
-/
namespace Tramp

def POLL_INTERVAL : Nat := 60

inductive HPhase where
  | starting                  -- `start()`: first getinfo outstanding
  | sleeping (deadline : Nat) -- `tokio::time::sleep(POLL_INTERVAL)` armed
  | polling                   -- periodic getinfo outstanding
  | dead                      -- startup query failed: `start()` returned Err, main exits
deriving Repr, DecidableEq

structure HSt where
  height : Nat                     -- the register `current_height`
  nodeH  : Nat                     -- the node's height (environment)
  now    : Nat                     -- the loop's clock, seconds
  phase  : HPhase
  served : Option (Option Nat)     -- reply computed by the node, not yet consumed (`none` inside = error)
  told   : List Nat                -- ghost: every height the plugin has been told so far
deriving Repr, DecidableEq

inductive HAct where
  | setNode (n : Nat)      -- the chain moves (any value)
  | notify (n : Nat)       -- `block_added` notification carrying n (may be stale or repeated)
  | advance (dt : Nat)     -- time passes
  | serve                  -- node answers the outstanding getinfo with its height NOW
  | serveErr               -- the getinfo fails
  | deliver                -- the plugin consumes the served reply
deriving Repr, DecidableEq

/-- `update_height`: only ever moves up -/
def updateHeight (cur new : Nat) : Nat := if new > cur then new else cur

def HSt.init (nodeH : Nat) : HSt :=
  { height := 0, nodeH := nodeH, now := 0, phase := .starting, served := none, told := [] }

def HSt.outstanding (s : HSt) : Bool := s.phase == .starting || s.phase == .polling

def hstep (s : HSt) : HAct → Option HSt
  | .setNode n => some { s with nodeH := n }
  | .notify n =>
    match s.phase with
    | .starting => none       -- notifications are dispatched only after start() returned
    | .dead => none
    | _ => some { s with height := updateHeight s.height n, told := s.told ++ [n] }
  | .advance dt =>
    match s.phase with
    | .sleeping d => if s.now + dt ≥ d then some { s with now := s.now + dt, phase := .polling }
                     else some { s with now := s.now + dt }
    | _ => some { s with now := s.now + dt }
  | .serve => if s.outstanding && s.served.isNone then some { s with served := some (some s.nodeH) } else none
  | .serveErr => if s.outstanding && s.served.isNone then some { s with served := some none } else none
  | .deliver =>
    match s.served, s.phase with
    | some (some n), .starting => some { s with height := updateHeight s.height n, told := s.told ++ [n],
                                                  phase := .sleeping (s.now + POLL_INTERVAL), served := none }
    | some none,     .starting => some { s with phase := .dead, served := none }
    | some (some n), .polling  => some { s with height := updateHeight s.height n, told := s.told ++ [n],
                                                  phase := .sleeping (s.now + POLL_INTERVAL), served := none }
    | some none,     .polling  => some { s with phase := .sleeping (s.now + POLL_INTERVAL), served := none }
    | _, _ => none

def hrun : HSt → List HAct → Option HSt
  | s, [] => some s
  | s, a :: as => match hstep s a with
    | some s' => hrun s' as
    | none => none

end Tramp
