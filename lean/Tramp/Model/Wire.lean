/-
M8 — the plugin's wire protocol (`/repo/src/cln_plugin/codec.rs`, `mod.rs`):
`MultiLineCodec` (messages separated by a blank line), the FramedRead feeding discipline, the
dispatcher (one spawned handler per request, replies tagged with the request's id, written in
completion order through one channel) and the shared writer.
-/
import Tramp.Model.Bytes

namespace Tramp

def NL : UInt8 := 10

/-- `find_separator`: leftmost index `i` with `buf[i] = buf[i+1] = '\n'` -/
def findSep : Bytes → Option Nat
  | a :: b :: rest =>
    if a = NL ∧ b = NL then some 0
    else (findSep (b :: rest)).map (· + 1)
  | _ => none

/-- `MultiLineCodec::decode`: split off one message (without its separator) -/
def decodeOne (buf : Bytes) : Option (Bytes × Bytes) :=
  match findSep buf with
  | some i => some (buf.take i, buf.drop (i + 2))
  | none => none

/-- decode until no complete message is left; fuel = buffer length (each message consumes ≥ 2 bytes) -/
def decodeAllAux : Nat → Bytes → List Bytes × Bytes
  | 0, buf => ([], buf)
  | fuel + 1, buf =>
    match decodeOne buf with
    | none => ([], buf)
    | some (m, rest) =>
      ((m :: (decodeAllAux fuel rest).1), (decodeAllAux fuel rest).2)

def decodeAll (buf : Bytes) : List Bytes × Bytes := decodeAllAux buf.length buf

/-- FramedRead: append the chunk to the residual buffer, decode everything that is complete -/
def feed (residual chunk : Bytes) : List Bytes × Bytes := decodeAll (residual ++ chunk)

/-- feed a sequence of read chunks one by one -/
def feedChunks : Bytes → List Bytes → List Bytes × Bytes
  | residual, [] => ([], residual)
  | residual, c :: cs =>
    ((feed residual c).1 ++ (feedChunks (feed residual c).2 cs).1, (feedChunks (feed residual c).2 cs).2)

/-- `MultiLineCodec::encode` -/
def encodeMsg (m : Bytes) : Bytes := m ++ [NL, NL]

/-! ### dispatcher -/

/-- a request as the dispatcher sees it: `tok` identifies the call (arrival index), `id` is the
    JSON-RPC id chosen by the node (ids may repeat; the dispatcher never looks at them) -/
structure WReq where
  tok : Nat
  id  : Nat
deriving Repr, DecidableEq

structure DSt where
  inflight : List WReq          -- handlers spawned and not finished
  replies  : List WReq          -- replies written so far, in order (each carries the request's id)
deriving Repr, DecidableEq

inductive DAct where
  | recv (r : WReq)             -- a request for a registered method is decoded: its handler is spawned
  | complete (tok : Nat)        -- that handler finishes: `{"id": <its request's id>, "result": ...}` is written
deriving Repr, DecidableEq

def dstep (s : DSt) : DAct → Option DSt
  | .recv r => if s.inflight.any (·.tok == r.tok) || s.replies.any (·.tok == r.tok) then none
               else some { s with inflight := s.inflight ++ [r] }
  | .complete t =>
    match s.inflight.find? (·.tok == t) with
    | some r => some { inflight := s.inflight.filter (·.tok != t), replies := s.replies ++ [r] }
    | none => none

def drun : DSt → List DAct → Option DSt
  | s, [] => some s
  | s, a :: as => match dstep s a with
    | some s' => drun s' as
    | none => none

end Tramp
