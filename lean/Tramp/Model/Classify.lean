/-
M3 — classification of an `htlc_accepted` request (`/repo/src/htlc_manager.rs`:
`check_htlc`, `extract_trampoline_info`, `default_response`, and the `forward_msat` test at the top
of `handle_htlc`).

External functions are parameters:
  `parse : Bytes → Option InvoiceView`  = `from_utf8` + `Bolt11Invoice::from_str` (None = either fails)
                                          + what the code then reads off the invoice
                                          (`check_signature`, `payment_hash`, `amount_milli_satoshis`,
                                          `get_payee_pub_key`, "some route hint ends in the local node").
Nothing is assumed about `parse`.
-/
import Tramp.Model.Fee

namespace Tramp

def TLV_PAYMENT_METADATA : Nat := 16
def TLV_TRAMPOLINE_INVOICE : Nat := 33001
def TLV_TRAMPOLINE_AMOUNT : Nat := 33003

structure InvoiceView where
  hash        : Bytes          -- invoice.payment_hash()
  amount      : Option Nat     -- invoice.amount_milli_satoshis()
  sigOk       : Bool           -- invoice.check_signature().is_ok()
  selfLastHop : Bool           -- ∃ route hint whose last hop's src_node_id is the local node
  payee       : Nat            -- opaque identity of get_payee_pub_key()
deriving Repr, DecidableEq

structure Policy where
  base  : Nat
  ppm   : Nat
  delta : Nat
deriving Repr, DecidableEq

/-- `TrampolineInfo` (the routing policy is configuration, constant per plugin lifetime). -/
structure Info where
  bolt11 : Bytes
  amount : Nat
  inv    : InvoiceView
deriving Repr, DecidableEq

structure Onion where
  payload     : List Entry
  hasScid     : Bool
  forwardMsat : Option Nat
  totalMsat   : Option Nat
deriving Repr, DecidableEq

structure Htlc where
  amountMsat : Nat
  cltvExpiry : Nat
  cltvRel    : Int
  hash       : Bytes
deriving Repr, DecidableEq

structure Req where
  onion : Onion
  htlc  : Htlc
deriving Repr, DecidableEq

inductive Class where
  | cont (payload : Option Bytes)   -- `continue`, possibly with a rewritten payload
  | failTNF                         -- `fail temporary_node_failure`
  | tramp (info : Info) (forward : Nat)
deriving Repr, DecidableEq

/-- `default_response`: note the metadata is re-parsed with the *length-prefixed* entry point. -/
def hasTrampolineRecords (md : List Entry) : Bool :=
  (getEntry md TLV_TRAMPOLINE_INVOICE).isSome || (getEntry md TLV_TRAMPOLINE_AMOUNT).isSome

def defaultResponse (payload : List Entry) : Class :=
  match getEntry payload TLV_PAYMENT_METADATA with
  | none => .cont none
  | some e =>
    match tryFromPrefixed e.value with
    | .ok md =>
      if hasTrampolineRecords md then .cont (some (toBytes (removeEntry payload TLV_PAYMENT_METADATA)))
      else .cont none
    | _ => .cont none

/-- the optional amount record: `get_tu64`, errors are swallowed into `None`. -/
def tlvAmount (md : List Entry) : Option Nat :=
  match getEntry md TLV_TRAMPOLINE_AMOUNT with
  | none => none
  | some e =>
    match getTu64 e.value with
    | .ok v => some v
    | _     => none

/-- "Either the invoice has an amount or the amount is set in the TLV." -/
def reconcileAmount (invAmount tlv : Option Nat) : Option Nat :=
  match invAmount, tlv with
  | some a, some t => if a = t then some a else none
  | some a, none   => some a
  | none,   some t => some t
  | none,   none   => none

inductive Extract where
  | notTrampoline        -- Ok(None)
  | error                -- Err(_)
  | info (i : Info)
deriving Repr, DecidableEq

/-- `extract_trampoline_info`, in the order of the code. `checkHash = false` is the pinned tree
    (no comparison of the invoice hash with the HTLC's); `true` is the tree with fix F1. -/
def extractWith (checkHash : Bool) (parse : Bytes → Option InvoiceView) (req : Req) : Extract :=
  match getEntry req.onion.payload TLV_PAYMENT_METADATA with
  | none => .notTrampoline
  | some mdE =>
    match fromBytes mdE.value with
    | .ok md =>
      match getEntry md TLV_TRAMPOLINE_INVOICE with
      | none => .notTrampoline
      | some invE =>
        match parse invE.value with
        | none => .error
        | some v =>
          if !v.sigOk then .error
          else if checkHash && v.hash != req.htlc.hash then .error
          else
            match reconcileAmount v.amount (tlvAmount md) with
            | none => .error
            | some a => .info { bolt11 := invE.value, amount := a, inv := v }
    | _ => .notTrampoline

/-- `check_htlc` followed by the `forward_msat` test of `handle_htlc`. -/
def classifyWith (checkHash : Bool) (parse : Bytes → Option InvoiceView) (allowSelfHints : Bool)
    (req : Req) : Class :=
  if req.onion.hasScid then defaultResponse req.onion.payload
  else
    match extractWith checkHash parse req with
    | .notTrampoline => defaultResponse req.onion.payload
    | .error         => defaultResponse req.onion.payload
    | .info i =>
      if i.inv.selfLastHop && !allowSelfHints then .failTNF
      else
        match req.onion.forwardMsat with
        | none   => defaultResponse req.onion.payload
        | some f => .tramp i f

def classify := classifyWith true
def classifyPinned := classifyWith false

end Tramp
