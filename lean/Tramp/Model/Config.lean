/-
M9 — option validation and wiring (`/repo/src/main.rs:133-180`, `PayPaymentProvider::new`).
Option values arrive as i64 (`ConfigOption::new_i64_with_default`); each is narrowed with `try_into()?`
(u16 / u32 / u64), a failed narrowing or `policy_delta <= cltv_delta` makes `main` return `Err`
before the `init` reply is sent: the plugin refuses to start.
-/
namespace Tramp

structure Opts where
  cltvDelta   : Int    -- trampoline-cltv-delta            → u16
  policyDelta : Int    -- trampoline-policy-cltv-delta     → u16
  feeBase     : Int    -- trampoline-policy-fee-base       → u32
  feePpm      : Int    -- trampoline-policy-fee-per-satoshi→ u32
  mppTimeout  : Int    -- trampoline-mpp-timeout           → u64 seconds
  payTimeout  : Int    -- trampoline-payment-timeout       → u64 seconds
  noSelfHints : Bool   -- trampoline-no-self-route-hints (flag)
  xpay        : Bool
deriving Repr, DecidableEq

structure Config where
  cltvDelta   : Nat
  policyDelta : Nat
  feeBase     : Nat
  feePpm      : Nat
  mppTimeout  : Nat
  retryFor    : Nat    -- `payment_timeout.as_secs().try_into().unwrap_or(u16::MAX)`
  allowSelf   : Bool
  xpay        : Bool
deriving Repr, DecidableEq

def inRange (x : Int) (bound : Nat) : Bool := decide (0 ≤ x) && decide (x < (bound : Int))

/-- `retry_for`: the payment timeout in seconds, capped at `u16::MAX` -/
def retryFor (secs : Nat) : Nat := if secs < 65536 then secs else 65535

def Opts.valid (o : Opts) : Bool :=
  inRange o.cltvDelta 65536 && inRange o.policyDelta 65536 &&
  decide (o.policyDelta > o.cltvDelta) &&
  inRange o.feeBase 4294967296 && inRange o.feePpm 4294967296 &&
  inRange o.mppTimeout 9223372036854775808 && inRange o.payTimeout 9223372036854775808

def configure (o : Opts) : Option Config :=
  if o.valid then
    some { cltvDelta := o.cltvDelta.toNat, policyDelta := o.policyDelta.toNat, feeBase := o.feeBase.toNat,
           feePpm := o.feePpm.toNat, mppTimeout := o.mppTimeout.toNat, retryFor := retryFor o.payTimeout.toNat,
           allowSelf := !o.noSelfHints, xpay := o.xpay }
  else none

end Tramp
