/-
M2 — `TrampolineRoutingPolicy::fee_sufficient` and `HtlcFailReason::encode`
(`/repo/src/messages.rs`), operation by operation.

u64 values are `Nat`s; every place where the Rust code can overflow is an explicit branch.
`Arith` is the build profile (rustc `overflow-checks` on = debug/test, off = release).
-/
import Tramp.Model.Bytes

namespace Tramp

def U64 : Nat := 18446744073709551616   -- 2^64
def U32 : Nat := 4294967296             -- 2^32
def U16 : Nat := 65536                  -- 2^16

inductive Arith where
  | checked   -- overflow-checks = on  : an overflowing `+` panics
  | wrapping  -- overflow-checks = off : an overflowing `+` wraps modulo 2^64
deriving Repr, DecidableEq

/-- `invoice_msat.checked_mul(ppm) / 1_000_000` (when the product fits). -/
def ratePart (inv ppm : Nat) : Nat := inv * ppm / 1000000

/-- `base.checked_add(rate_part)` (when it fits). -/
def feeMsat (base ppm inv : Nat) : Nat := base + ratePart inv ppm

/-- The code on the current tree: the final addition is a `checked_add`, overflow → `false`.
    Independent of the build profile. -/
def feeSufficient (base ppm total inv : Nat) : Res Bool :=
  if total < inv then .ok false
  else if inv * ppm ≥ U64 then .ok false                 -- checked_mul → None
  else if feeMsat base ppm inv ≥ U64 then .ok false      -- checked_add → None
  else if inv + feeMsat base ppm inv ≥ U64 then .ok false -- checked_add → None (fix F3)
  else .ok (decide (total ≥ inv + feeMsat base ppm inv))

/-- The pinned tree: `total_msat >= invoice_msat + fee_msat` with a plain `+`. -/
def feeSufficientPinned (a : Arith) (base ppm total inv : Nat) : Res Bool :=
  if total < inv then .ok false
  else if inv * ppm ≥ U64 then .ok false
  else if feeMsat base ppm inv ≥ U64 then .ok false
  else if inv + feeMsat base ppm inv ≥ U64 then
    match a with
    | .checked  => .panic
    | .wrapping => .ok (decide (total ≥ (inv + feeMsat base ppm inv) % U64))
  else .ok (decide (total ≥ inv + feeMsat base ppm inv))

/-- The exact integer predicate of property C12. -/
def feeExact (base ppm total inv : Nat) : Prop :=
  total ≥ inv + base + inv * ppm / 1000000

instance (base ppm total inv : Nat) : Decidable (feeExact base ppm total inv) := by
  unfold feeExact; infer_instance

inductive FailReason where
  | tnf                               -- temporary_node_failure
  | ttf                               -- temporary_trampoline_failure
  | foei (base ppm delta : Nat)       -- trampoline_fee_or_expiry_insufficient(policy)
deriving Repr, DecidableEq

def encodeFailure : FailReason → Bytes
  | .tnf => [0x20, 2]
  | .ttf => [0x20, 25]
  | .foei base ppm delta => [0x20, 26] ++ (beBytes 4 base ++ (beBytes 4 ppm ++ beBytes 2 delta))

end Tramp
