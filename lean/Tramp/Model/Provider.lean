/-
M5 — `PayPaymentProvider::{wait_payment, pay}` (`/repo/src/payment_provider.rs`) as a process over the
part table of one payment hash.

`wait_payment`:  listsendpays(pending) → listsendpays(complete) → one waitsendpay per pending part
                 (tree with fix F5: sequential, pending first; the pinned tree issues both listings
                 concurrently — `Variant.concListing`).
`pay` wrapper :  pay RPC → COMPLETE ⇒ Ok | PENDING / FAILED+warning / RPC error ⇒ wait_payment
                 | FAILED without warning ⇒ wait_payment (fix F6; pinned: Err at once).

Requests stay outstanding until the node *serves* them (reply computed from the table at that
instant) and the reply is *delivered* later; part resolutions may happen anywhere in between.
-/
import Tramp.Model.Node

namespace Tramp

structure Variant where
  concListing   : Bool   -- pinned wait_payment: both listsendpays in flight at once (defect D5)
  failedNoCheck : Bool   -- pinned pay wrapper: FAILED without warning returns Err unchecked
deriving Repr, DecidableEq

def Variant.current : Variant := { concListing := false, failedNoCheck := false }
def Variant.pinned  : Variant := { concListing := true,  failedNoCheck := true }

inductive PReq where
  | listPending
  | listComplete
  | waitPart (id : Nat)
  | pay
deriving Repr, DecidableEq

inductive PReply where
  | pendingIds (ids : List Nat)
  | completePres (pres : List Nat)
  | waitPre (pre : Nat)          -- waitsendpay result with a preimage
  | waitCode                     -- RpcError code 202/203/204/208/209: this part failed
  | payComplete (pre : Nat)
  | payPending
  | payFailed (warn : Bool)
  | rpcErr                       -- any other error (for `pay`: the RPC failed; for reads: a read fault)
deriving Repr, DecidableEq

inductive WRes where
  | some (pre : Nat)
  | none
  | err
deriving Repr, DecidableEq

/-- program counter of `wait_payment` -/
inductive WPc where
  | seqPending                                              -- listsendpays(pending) outstanding
  | seqComplete (pend : List Nat)                           -- listsendpays(complete) outstanding
  | conc (c : Option (Option (List Nat))) (p : Option (Option (List Nat)))
      -- pinned: both outstanding; `some (some x)` = reply consumed, `some none` = it was an error
  | waiting (rem : List Nat)                                -- one waitsendpay outstanding per id
  | ret (r : WRes)
deriving Repr, DecidableEq

def WPc.start (v : Variant) : WPc := if v.concListing then .conc none none else .seqPending

/-- after both listings: a preimage wins, else wait for every pending part -/
def afterListings (pres pend : List Nat) : WPc :=
  match pres with
  | x :: _ => .ret (.some x)
  | [] => if pend.isEmpty then .ret .none else .waiting pend

def concJoin : Option (Option (List Nat)) → Option (Option (List Nat)) → WPc
  | some (some pres), some (some pend) => afterListings pres pend
  | some none,        some _           => .ret .err
  | some _,           some none        => .ret .err
  | c,                p                => .conc c p

/-- requests of `wait_payment` that are in flight in a given state -/
def WPc.outstanding : WPc → List PReq
  | .seqPending    => [.listPending]
  | .seqComplete _ => [.listComplete]
  | .conc c p      => (if c.isNone then [.listComplete] else []) ++ (if p.isNone then [.listPending] else [])
  | .waiting rem   => rem.map .waitPart
  | .ret _         => []

/-- continuation of `wait_payment` when the reply to request `q` is consumed -/
def wDeliver (pc : WPc) (q : PReq) (r : PReply) : WPc :=
  match pc, q, r with
  | .seqPending,       .listPending,  .pendingIds ids    => .seqComplete ids
  | .seqPending,       .listPending,  _                  => .ret .err
  | .seqComplete pend, .listComplete, .completePres pres => afterListings pres pend
  | .seqComplete _,    .listComplete, _                  => .ret .err
  | .conc none p,      .listComplete, .completePres pres => concJoin (some (some pres)) p
  | .conc none p,      .listComplete, _                  => concJoin (some none) p
  | .conc c none,      .listPending,  .pendingIds ids    => concJoin c (some (some ids))
  | .conc c none,      .listPending,  _                  => concJoin c (some none)
  | .waiting _,        .waitPart _,   .waitPre pre       => .ret (.some pre)
  | .waiting rem,      .waitPart id,  .waitCode          =>
      if (rem.erase id).isEmpty then .ret .none else .waiting (rem.erase id)
  | .waiting _,        .waitPart _,   _                  => .ret .err
  | pc,                _,             _                  => pc

/-- the truthful reply of the node to a read, computed from the table NOW (E4).
    `waitsendpay` only answers once the part has left `pending`. -/
def serveRead (ps : List Part) : PReq → Option PReply
  | .listPending  => some (.pendingIds (pendingIds ps))
  | .listComplete => some (.completePres (completePres ps))
  | .waitPart id  =>
    match findPart ps id with
    | some p => match p.st with
      | .complete x => some (.waitPre x)
      | .failed     => some .waitCode
      | .pending    => none
    | none => none
  | .pay => none

inductive PayRes where
  | ok (pre : Nat)
  | err
deriving Repr, DecidableEq

/-- program counter of the `pay` wrapper (and of a direct `wait_payment` call) -/
inductive PPc where
  | paying                       -- pay RPC outstanding; the node's pay command is running
  | inWait (fromPay : Bool) (w : WPc)
  | retWait (r : WRes)           -- direct wait_payment returned
  | retPay (r : PayRes)
deriving Repr, DecidableEq

def finishWait (fromPay : Bool) (w : WPc) : PPc :=
  match w with
  | .ret r =>
    if fromPay then
      match r with
      | .some x => .retPay (.ok x)
      | .none   => .retPay .err
      | .err    => .retPay .err
    else .retWait r
  | w => .inWait fromPay w

def payDeliver (v : Variant) (r : PReply) : PPc :=
  match r with
  | .payComplete pre => .retPay (.ok pre)
  | .payPending      => .inWait true (WPc.start v)
  | .payFailed true  => .inWait true (WPc.start v)
  | .payFailed false => if v.failedNoCheck then .retPay .err else .inWait true (WPc.start v)
  | _                => .inWait true (WPc.start v)      -- RPC error

def PPc.outstanding : PPc → List PReq
  | .paying     => [.pay]
  | .inWait _ w => w.outstanding
  | _           => []

def pDeliver (v : Variant) (pc : PPc) (q : PReq) (r : PReply) : PPc :=
  match pc with
  | .paying     => if q = .pay then payDeliver v r else pc
  | .inWait f w => finishWait f (wDeliver w q r)
  | pc          => pc

/-- the provider together with the node's part table -/
structure PSys where
  parts      : List Part
  payRunning : Bool                      -- the node's pay command for this hash is running (E3)
  pc         : PPc
  served     : List (PReq × PReply)      -- replies computed by the node, not yet consumed
deriving Repr, DecidableEq

inductive PAct where
  | create (id : Nat)                    -- the running pay command creates a part (fresh id)
  | resolve (id : Nat) (st : PStatus)    -- a pending part becomes complete/failed
  | serve (q : PReq)                     -- node answers a read truthfully
  | serveErr (q : PReq)                  -- node/transport answers a read with an RPC error (read fault)
  | payEnd (r : PReply)                  -- the pay command ends with this reply (E3)
  | deliver (q : PReq)                   -- the plugin consumes the reply to q
deriving Repr, DecidableEq

def lookupServed (s : List (PReq × PReply)) (q : PReq) : Option PReply :=
  (s.find? (fun x => x.1 == q)).map (·.2)

def isServed (s : List (PReq × PReply)) (q : PReq) : Bool := (lookupServed s q).isSome

/-- E3: a pay reply is one of the four pay outcomes; COMPLETE carries the preimage of a complete part -/
def payReplyOk (ps : List Part) : PReply → Bool
  | .payComplete pre => ps.any (fun p => p.st == .complete pre)
  | .payPending      => true
  | .payFailed _     => true
  | .rpcErr          => true
  | _                => false

def pstep (v : Variant) (s : PSys) : PAct → Option PSys
  | .create id =>
    if s.payRunning && (findPart s.parts id).isNone then
      some { s with parts := s.parts ++ [{ id := id, st := .pending }] }
    else none
  | .resolve id st =>
    if st != .pending then some { s with parts := resolvePart s.parts id st } else none
  | .serve q =>
    if s.pc.outstanding.contains q && !isServed s.served q then
      match serveRead s.parts q with
      | some r => some { s with served := s.served ++ [(q, r)] }
      | none => none
    else none
  | .serveErr q =>
    if s.pc.outstanding.contains q && !isServed s.served q && q != .pay then
      some { s with served := s.served ++ [(q, .rpcErr)] }
    else none
  | .payEnd r =>
    if s.payRunning && s.pc == .paying && !isServed s.served .pay && payReplyOk s.parts r then
      some { s with payRunning := false, served := s.served ++ [(.pay, r)] }
    else none
  | .deliver q =>
    if s.pc.outstanding.contains q then
      match lookupServed s.served q with
      | some r =>
        some { s with pc := pDeliver v s.pc q r,
                      served := if (pDeliver v s.pc q r).outstanding.isEmpty then []
                                else s.served.filter (fun x => x.1 != q) }
      | none => none
    else none

def prun (v : Variant) : PSys → List PAct → Option PSys
  | s, [] => some s
  | s, a :: as => match pstep v s a with
    | some s' => prun v s' as
    | none => none

/-- a direct `wait_payment` call on an arbitrary part table, no pay command running -/
def PSys.initWait (v : Variant) (ps : List Part) : PSys :=
  { parts := ps, payRunning := false, pc := .inWait false (WPc.start v), served := [] }

/-- a `pay` call: the pay command starts on an arbitrary table of earlier parts -/
def PSys.initPay (ps : List Part) : PSys :=
  { parts := ps, payRunning := true, pc := .paying, served := [] }

end Tramp
