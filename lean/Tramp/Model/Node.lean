/-
M4 — the environment (Core Lightning) as seen through the six RPCs the plugin uses, for ONE
payment hash: the datastore entry `trampoline/payments/<hash>/state` (+ attempt records), the
sendpay part table, running `pay` commands.

Every RPC is a request/reply pair with the node's effect in between:
  `serve`   : the node computes the reply from (and applies the effect to) its state NOW;
  `deliver` : the plugin task consumes the reply LATER (anything may happen in between).
Assumptions E1–E4 of DESIGN.md §7 are exactly the definitions of the truthful `serve*` functions
below; fault variants are separate, explicit reply choices.
-/
import Tramp.Model.Classify

namespace Tramp

/-- status of one sendpay part -/
inductive PStatus where
  | pending
  | complete (pre : Nat)
  | failed
deriving Repr, DecidableEq

structure Part where
  id : Nat
  st : PStatus
deriving Repr, DecidableEq

def Part.isPending (p : Part) : Bool := p.st == .pending
def Part.isComplete (p : Part) : Bool := match p.st with | .complete _ => true | _ => false
def Part.preimage? (p : Part) : Option Nat := match p.st with | .complete x => some x | _ => none

/-- `listsendpays status=pending` : ids of the parts pending now -/
def pendingIds (ps : List Part) : List Nat := (ps.filter Part.isPending).map Part.id
/-- `listsendpays status=complete` : preimages of the parts complete now -/
def completePres (ps : List Part) : List Nat := ps.filterMap Part.preimage?

def findPart (ps : List Part) (id : Nat) : Option Part := ps.find? (fun p => p.id == id)

/-- nothing of this hash is live on the node: no part pending or complete -/
def partsQuiet (ps : List Part) : Prop := ∀ p ∈ ps, p.st = .failed

instance (ps : List Part) : Decidable (partsQuiet ps) := by unfold partsQuiet; infer_instance

/-- resolve a pending part (pending → complete pre | failed); final states never change (E2) -/
def resolvePart (ps : List Part) (id : Nat) (st : PStatus) : List Part :=
  ps.map fun p => if p.id == id && p.st == .pending then { p with st := st } else p

/-- stored payment state (`PersistPaymentState`) -/
inductive DsVal where
  | free
  | pending (aid : Nat) (time : Nat)
  | succeeded (pre : Nat)
deriving Repr, DecidableEq

/-- `datastore` modes used by the plugin -/
inductive DsMode where
  | createOrReplace
  | mustCreate
  | mustReplace (gen : Option Nat)
deriving Repr, DecidableEq

/-- a keyed datastore cell with its generation (E1: 0 on creation, +1 on every update) -/
def dsWrite {α : Type} (cell : Option (α × Nat)) (mode : DsMode) (v : α) : Option (α × Nat) × Option Nat :=
  match cell, mode with
  | none,        .createOrReplace => (some (v, 0), some 0)
  | none,        .mustCreate      => (some (v, 0), some 0)
  | none,        .mustReplace _   => (none, none)                 -- fails: does not exist
  | some (_, g), .createOrReplace => (some (v, g + 1), some (g + 1))
  | some c,      .mustCreate      => (some c, none)               -- fails: exists
  | some (_, g), .mustReplace none => (some (v, g + 1), some (g + 1))
  | some (o, g), .mustReplace (some g') =>
      if g = g' then (some (v, g + 1), some (g + 1)) else (some (o, g), none)   -- generation mismatch

end Tramp
