/- Invariant of the provider process M5 (sequential listing; any interleaving of resolutions). -/
import Tramp.Model.Provider

namespace Tramp

def HasComplete (ps : List Part) (x : Nat) : Prop := ∃ p ∈ ps, p.st = .complete x
def NonPendingOutside (ps : List Part) (ids : List Nat) : Prop := ∀ p ∈ ps, p.id ∉ ids → p.st ≠ .pending
def PartsNodup (ps : List Part) : Prop := (ps.map Part.id).Nodup

/-- ghost: did any read fault (`serveErr`) occur? Derived from the action list. -/
def noReadFault : List PAct → Bool
  | [] => true
  | .serveErr _ :: _ => false
  | _ :: as => noReadFault as

/-- what a served-but-not-consumed reply guarantees about the CURRENT table (stable facts) -/
def ServedFact (ps : List Part) (w : Option WPc) (faulty : Prop) : PReq × PReply → Prop
  | (.listPending, .pendingIds ids) => ids.Nodup ∧ NonPendingOutside ps ids
  | (.listComplete, .completePres pres) =>
      (∀ x ∈ pres, HasComplete ps x) ∧
      (pres = [] → ∀ pend, w = some (.seqComplete pend) → ∀ p ∈ ps, p.isComplete = true → p.id ∈ pend)
  | (.waitPart _, .waitPre x) => HasComplete ps x
  | (.waitPart id, .waitCode) => ∀ p ∈ ps, p.id = id → p.st = .failed
  | (.pay, .payComplete x) => HasComplete ps x
  | (.pay, .payPending) => True
  | (.pay, .payFailed _) => True
  | (.pay, .rpcErr) => True
  | (.listPending, .rpcErr) => faulty
  | (.listComplete, .rpcErr) => faulty
  | (.waitPart _, .rpcErr) => faulty
  | _ => False

def WInv (ps : List Part) (faulty : Prop) : WPc → Prop
  | .seqPending => True
  | .seqComplete pend => pend.Nodup ∧ NonPendingOutside ps pend
  | .waiting rem => rem.Nodup ∧ ∀ p ∈ ps, p.st ≠ .failed → p.id ∈ rem
  | .ret (.some x) => HasComplete ps x
  | .ret .none => partsQuiet ps
  | .ret .err => faulty
  | .conc _ _ => False

def wpcOf : PPc → Option WPc
  | .inWait _ w => some w
  | _ => none

def PInv (faulty : Prop) (s : PSys) : Prop :=
  PartsNodup s.parts ∧
  (s.payRunning = true → s.pc = .paying ∧ s.served = []) ∧
  (∀ x ∈ s.served, x.1 ∈ s.pc.outstanding ∧ ServedFact s.parts (wpcOf s.pc) faulty x) ∧
  (match s.pc with
   | .paying => True
   | .inWait _ w => WInv s.parts faulty w
   | .retWait (.some x) => HasComplete s.parts x
   | .retWait .none => partsQuiet s.parts
   | .retWait .err => faulty
   | .retPay (.ok x) => HasComplete s.parts x
   | .retPay .err => partsQuiet s.parts ∨ faulty)

/-! ### basic facts about the part table -/

theorem mem_pendingIds {ps : List Part} {p : Part} (hp : p ∈ ps) (h : p.st = .pending) :
    p.id ∈ pendingIds ps := by
  unfold pendingIds
  simp only [List.mem_map, List.mem_filter]
  exact ⟨p, ⟨hp, by simp [Part.isPending, h]⟩, rfl⟩

theorem mem_completePres {ps : List Part} {x : Nat} (h : x ∈ completePres ps) : HasComplete ps x := by
  unfold completePres at h
  simp only [List.mem_filterMap] at h
  obtain ⟨p, hp, hx⟩ := h
  refine ⟨p, hp, ?_⟩
  unfold Part.preimage? at hx
  split at hx
  · rename_i y hy; simp at hx; subst hx; exact hy
  · simp at hx

theorem completePres_nil {ps : List Part} (h : completePres ps = []) : ∀ p ∈ ps, p.isComplete = false := by
  intro p hp
  unfold completePres at h
  cases hst : p.st with
  | complete x =>
    have : x ∈ List.filterMap Part.preimage? ps := by
      simp only [List.mem_filterMap]
      exact ⟨p, hp, by simp [Part.preimage?, hst]⟩
    rw [h] at this; simp at this
  | pending => simp [Part.isComplete, hst]
  | failed => simp [Part.isComplete, hst]

theorem findPart_mem {ps : List Part} {id : Nat} {p : Part} (h : findPart ps id = some p) :
    p ∈ ps ∧ p.id = id := by
  unfold findPart at h
  have h1 := List.find?_some h
  have h2 := List.mem_of_find?_eq_some h
  simp at h1
  exact ⟨h2, h1⟩

theorem nodup_id_unique {ps : List Part} (hn : PartsNodup ps) {p q : Part} (hp : p ∈ ps) (hq : q ∈ ps)
    (hid : p.id = q.id) : p = q := by
  unfold PartsNodup at hn
  induction ps with
  | nil => simp at hp
  | cons a ps ih =>
    simp only [List.map_cons, List.nodup_cons, List.mem_map, not_exists, not_and] at hn
    simp only [List.mem_cons] at hp hq
    rcases hp with rfl | hp <;> rcases hq with rfl | hq
    · rfl
    · exact absurd hid.symm (hn.1 q hq)
    · exact absurd hid (hn.1 p hp)
    · exact ih hn.2 hp hq

/-! ### resolution of a part keeps every fact -/

theorem resolvePart_map_id (ps : List Part) (id : Nat) (st : PStatus) :
    (resolvePart ps id st).map Part.id = ps.map Part.id := by
  unfold resolvePart
  simp only [List.map_map]
  apply List.map_congr_left
  intro p _
  simp only [Function.comp]
  split <;> rfl

/-- each part after a resolution comes from a part before: unchanged, or it was pending -/
theorem resolvePart_mem {ps : List Part} {id : Nat} {st : PStatus} {q : Part}
    (h : q ∈ resolvePart ps id st) :
    ∃ p ∈ ps, p.id = q.id ∧ (q = p ∨ (p.st = .pending ∧ q.st = st)) := by
  unfold resolvePart at h
  simp only [List.mem_map] at h
  obtain ⟨p, hp, hq⟩ := h
  refine ⟨p, hp, ?_⟩
  split at hq
  · rename_i hc
    simp only [Bool.and_eq_true, beq_iff_eq] at hc
    subst hq
    exact ⟨rfl, Or.inr ⟨hc.2, rfl⟩⟩
  · subst hq; exact ⟨rfl, Or.inl rfl⟩

/-- a non-pending part is untouched by a resolution -/
theorem resolvePart_keeps {ps : List Part} {id : Nat} {st : PStatus} {p : Part}
    (hp : p ∈ ps) (h : p.st ≠ .pending) : p ∈ resolvePart ps id st := by
  unfold resolvePart
  simp only [List.mem_map]
  refine ⟨p, hp, ?_⟩
  have : (p.id == id && p.st == PStatus.pending) = false := by
    simp only [Bool.and_eq_false_iff, beq_eq_false_iff_ne, ne_eq]
    exact Or.inr h
  simp [this]

theorem hasComplete_resolve {ps : List Part} {x : Nat} (id : Nat) (st : PStatus)
    (h : HasComplete ps x) : HasComplete (resolvePart ps id st) x := by
  obtain ⟨p, hp, hst⟩ := h
  exact ⟨p, resolvePart_keeps hp (by rw [hst]; simp), hst⟩

theorem nonPendingOutside_resolve {ps : List Part} {ids : List Nat} (id : Nat) {st : PStatus}
    (hst : st ≠ .pending) (h : NonPendingOutside ps ids) : NonPendingOutside (resolvePart ps id st) ids := by
  intro q hq hnot
  obtain ⟨p, hp, hid, hcase⟩ := resolvePart_mem hq
  rcases hcase with rfl | ⟨_, hqs⟩
  · exact h _ hp hnot
  · rw [hqs]; exact hst

theorem quiet_resolve {ps : List Part} (id : Nat) (st : PStatus) (h : partsQuiet ps) :
    partsQuiet (resolvePart ps id st) := by
  intro q hq
  obtain ⟨p, hp, _, hcase⟩ := resolvePart_mem hq
  rcases hcase with rfl | ⟨hpend, _⟩
  · exact h _ hp
  · have := h p hp; rw [this] at hpend; simp at hpend

end Tramp

namespace Tramp

/-! ### facts are stable under a resolution / a creation -/

theorem servedFact_resolve {ps : List Part} {w : Option WPc} {faulty : Prop} {x : PReq × PReply}
    (id : Nat) {st : PStatus} (hst : st ≠ .pending)
    (hw : ∀ pend, w = some (.seqComplete pend) → NonPendingOutside ps pend)
    (h : ServedFact ps w faulty x) : ServedFact (resolvePart ps id st) w faulty x := by
  obtain ⟨q, r⟩ := x
  cases q <;> cases r <;> simp only [ServedFact] at h ⊢ <;> try exact h
  · exact ⟨h.1, nonPendingOutside_resolve id hst h.2⟩
  · refine ⟨fun x hx => hasComplete_resolve id st (h.1 x hx), ?_⟩
    intro hnil pend hpc q hq hcomp
    obtain ⟨p, hp, hid, hcase⟩ := resolvePart_mem hq
    rcases hcase with rfl | ⟨hpend, _⟩
    · exact h.2 hnil pend hpc _ hp hcomp
    · rw [← hid]
      apply Classical.byContradiction
      intro hnot
      exact hw pend hpc p hp hnot hpend
  · exact hasComplete_resolve id st h
  · intro q hq hid
    obtain ⟨p, hp, hid', hcase⟩ := resolvePart_mem hq
    rcases hcase with rfl | ⟨hpend, _⟩
    · exact h _ hp hid
    · have := h p hp (by rw [hid', hid]); rw [this] at hpend; simp at hpend
  · exact hasComplete_resolve id st h

theorem wInv_resolve {ps : List Part} {faulty : Prop} {w : WPc} (id : Nat) {st : PStatus}
    (hst : st ≠ .pending) (h : WInv ps faulty w) : WInv (resolvePart ps id st) faulty w := by
  cases w with
  | seqPending => trivial
  | seqComplete pend => exact ⟨h.1, nonPendingOutside_resolve id hst h.2⟩
  | conc c p => exact h
  | waiting rem =>
    refine ⟨h.1, ?_⟩
    intro q hq hnf
    obtain ⟨p, hp, hid, hcase⟩ := resolvePart_mem hq
    rw [← hid]
    rcases hcase with rfl | ⟨hpend, _⟩
    · exact h.2 _ hp hnf
    · exact h.2 p hp (by rw [hpend]; simp)
  | ret r =>
    cases r with
    | some x => exact hasComplete_resolve id st h
    | none => exact quiet_resolve id st h
    | err => exact h

theorem hasComplete_append {ps : List Part} {x : Nat} (q : Part) (h : HasComplete ps x) :
    HasComplete (ps ++ [q]) x := by
  obtain ⟨p, hp, hst⟩ := h
  exact ⟨p, by simp [hp], hst⟩

/-! ### the step lemma -/

theorem lookupServed_mem {s : List (PReq × PReply)} {q : PReq} {r : PReply}
    (h : lookupServed s q = some r) : (q, r) ∈ s := by
  unfold lookupServed at h
  simp only [Option.map_eq_some_iff] at h
  obtain ⟨x, hx, hr⟩ := h
  have h1 := List.find?_some hx
  have h2 := List.mem_of_find?_eq_some hx
  simp at h1
  obtain ⟨a, b⟩ := x
  simp at h1 hr
  subst h1; subst hr
  exact h2

theorem afterListings_inv {ps : List Part} {faulty : Prop} {pres pend : List Nat}
    (hnp : NonPendingOutside ps pend) (hpend : pend.Nodup)
    (hpres : ∀ x ∈ pres, HasComplete ps x)
    (hnil : pres = [] → ∀ p ∈ ps, p.isComplete = true → p.id ∈ pend) :
    WInv ps faulty (afterListings pres pend) := by
  unfold afterListings
  cases pres with
  | cons x xs => exact hpres x (by simp)
  | nil =>
    simp only
    have hall : ∀ p ∈ ps, p.st ≠ .failed → p.id ∈ pend := by
      intro p hp hnf
      cases hst : p.st with
      | failed => exact absurd hst hnf
      | pending =>
        apply Classical.byContradiction
        intro hnot; exact hnp p hp hnot hst
      | complete x => exact hnil rfl p hp (by simp [Part.isComplete, hst])
    split
    · rename_i hemp
      intro p hp
      apply Classical.byContradiction
      intro hnf
      have := hall p hp hnf
      simp only [List.isEmpty_iff] at hemp
      rw [hemp] at this; simp at this
    · exact ⟨hpend, hall⟩

theorem pendingIds_nodup {ps : List Part} (h : PartsNodup ps) : (pendingIds ps).Nodup := by
  unfold pendingIds PartsNodup at *
  induction ps with
  | nil => simp
  | cons a ps ih =>
    simp only [List.map_cons, List.nodup_cons] at h
    simp only [List.filter_cons]
    split
    · simp only [List.map_cons, List.nodup_cons]
      refine ⟨?_, ih h.2⟩
      intro hmem
      apply h.1
      simp only [List.mem_map, List.mem_filter] at hmem ⊢
      obtain ⟨p, ⟨hp, _⟩, hid⟩ := hmem
      exact ⟨p, hp, hid⟩
    · exact ih h.2

end Tramp

namespace Tramp

theorem wpcOf_seqComplete_inv {ps : List Part} {faulty : Prop} {pc : PPc}
    (h : match pc with
      | .paying => True
      | .inWait _ w => WInv ps faulty w
      | .retWait (.some x) => HasComplete ps x
      | .retWait .none => partsQuiet ps
      | .retWait .err => faulty
      | .retPay (.ok x) => HasComplete ps x
      | .retPay .err => partsQuiet ps ∨ faulty) :
    ∀ pend, wpcOf pc = some (.seqComplete pend) → NonPendingOutside ps pend := by
  intro pend hw
  cases pc <;> simp [wpcOf] at hw
  subst hw
  exact h.2

/-- creating / resolving parts and serving reads preserve the invariant -/
theorem pinv_env (faulty : Prop) (s s' : PSys) (a : PAct) (hinv : PInv faulty s)
    (hstep : pstep Variant.current s a = some s')
    (hkind : (∃ id, a = .create id) ∨ (∃ id st, a = .resolve id st) ∨ (∃ q, a = .serve q) ∨
             (∃ q, a = .serveErr q ∧ faulty) ∨ (∃ r, a = .payEnd r)) : PInv faulty s' := by
  obtain ⟨hnd, hpay, hserved, hpc⟩ := hinv
  rcases hkind with ⟨id, rfl⟩ | ⟨id, st, rfl⟩ | ⟨q, rfl⟩ | ⟨q, rfl, hf⟩ | ⟨r, rfl⟩
  · -- create: only while the pay command runs, i.e. pc = paying
    simp only [pstep] at hstep
    split at hstep
    · rename_i hc
      simp only [Bool.and_eq_true, Option.isNone_iff_eq_none] at hc
      simp only [Option.some.injEq] at hstep
      subst hstep
      have ⟨hpaying, hnil⟩ := hpay hc.1
      refine ⟨?_, fun _ => ⟨hpaying, hnil⟩, ?_, ?_⟩
      · unfold PartsNodup at *
        simp only [List.map_append, List.map_cons, List.map_nil]
        rw [List.nodup_append]
        refine ⟨hnd, by simp, ?_⟩
        intro a ha b hb
        simp at hb; subst hb
        intro heq; subst heq
        simp only [List.mem_map] at ha
        obtain ⟨p, hp, hid⟩ := ha
        have hfind := hc.2
        unfold findPart at hfind
        rw [List.find?_eq_none] at hfind
        have := hfind p hp
        simp [hid] at this
      · intro x hx
        simp only at hx
        rw [hnil] at hx; simp at hx
      · simp only; rw [hpaying]; trivial
    · simp at hstep
  · -- resolve
    simp only [pstep] at hstep
    split at hstep
    · rename_i hc
      have hst : st ≠ .pending := by simpa using hc
      simp only [Option.some.injEq] at hstep
      subst hstep
      refine ⟨?_, hpay, ?_, ?_⟩
      · unfold PartsNodup; rw [resolvePart_map_id]; exact hnd
      · intro x hx
        have := hserved x hx
        exact ⟨this.1, servedFact_resolve id hst (wpcOf_seqComplete_inv hpc) this.2⟩
      · simp only
        cases hpcs : s.pc with
        | paying => trivial
        | inWait f w => rw [hpcs] at hpc; exact wInv_resolve id hst hpc
        | retWait r =>
          rw [hpcs] at hpc
          cases r with
          | some x => exact hasComplete_resolve id st hpc
          | none => exact quiet_resolve id st hpc
          | err => exact hpc
        | retPay r =>
          rw [hpcs] at hpc
          cases r with
          | ok x => exact hasComplete_resolve id st hpc
          | err => exact hpc.imp (quiet_resolve id st) (fun h => h)
    · simp at hstep
  · -- truthful serve
    simp only [pstep] at hstep
    split at hstep
    · rename_i hc
      simp only [Bool.and_eq_true, List.contains_iff_mem, Bool.not_eq_true'] at hc
      split at hstep
      · rename_i r hr
        simp only [Option.some.injEq] at hstep
        subst hstep
        have hnotrun : s.payRunning = true → False := by
          intro hrun
          have ⟨hp, _⟩ := hpay hrun
          rw [hp] at hc
          have : q = .pay := by simpa [PPc.outstanding] using hc.1
          subst this
          simp [serveRead] at hr
        refine ⟨hnd, fun hrun => (hnotrun hrun).elim, ?_, hpc⟩
        intro x hx
        simp only [List.mem_append, List.mem_singleton] at hx
        rcases hx with hx | rfl
        · exact hserved x hx
        · refine ⟨hc.1, ?_⟩
          simp only
          cases q with
          | listPending =>
            simp only [serveRead, Option.some.injEq] at hr; subst hr
            simp only [ServedFact]
            refine ⟨pendingIds_nodup hnd, ?_⟩
            intro p hp hnot hpend
            exact hnot (mem_pendingIds hp hpend)
          | listComplete =>
            simp only [serveRead, Option.some.injEq] at hr; subst hr
            simp only [ServedFact]
            refine ⟨fun x hx => mem_completePres hx, ?_⟩
            intro hnil pend _ p hp hcomp
            have := completePres_nil hnil p hp
            rw [this] at hcomp; simp at hcomp
          | waitPart id =>
            simp only [serveRead] at hr
            split at hr
            · rename_i p hfind
              have ⟨hp, hid⟩ := findPart_mem hfind
              split at hr
              · rename_i x hst
                simp only [Option.some.injEq] at hr; subst hr
                exact ⟨p, hp, hst⟩
              · rename_i hst
                simp only [Option.some.injEq] at hr; subst hr
                simp only [ServedFact]
                intro p' hp' hid'
                have : p' = p := nodup_id_unique hnd hp' hp (by rw [hid', hid])
                rw [this]; exact hst
              · simp at hr
            · simp at hr
          | pay => simp [serveRead] at hr
      · simp at hstep
    · simp at hstep
  · -- read fault
    simp only [pstep] at hstep
    split at hstep
    · rename_i hc
      simp only [Bool.and_eq_true, List.contains_iff_mem, Bool.not_eq_true', bne_iff_ne, ne_eq] at hc
      simp only [Option.some.injEq] at hstep
      subst hstep
      have hnotrun : s.payRunning = true → False := by
        intro hrun
        have ⟨hp, _⟩ := hpay hrun
        rw [hp] at hc
        have : q = .pay := by simpa [PPc.outstanding] using hc.1.1
        exact hc.2 this
      refine ⟨hnd, fun hrun => (hnotrun hrun).elim, ?_, hpc⟩
      intro x hx
      simp only [List.mem_append, List.mem_singleton] at hx
      rcases hx with hx | rfl
      · exact hserved x hx
      · refine ⟨hc.1.1, ?_⟩
        cases q <;> simp only [ServedFact] <;> first | exact hf | exact absurd rfl hc.2
    · simp at hstep
  · -- the pay command ends
    simp only [pstep] at hstep
    split at hstep
    · rename_i hc
      simp only [Bool.and_eq_true, beq_iff_eq, Bool.not_eq_true'] at hc
      simp only [Option.some.injEq] at hstep
      subst hstep
      refine ⟨hnd, by simp, ?_, hpc⟩
      intro x hx
      simp only [List.mem_append, List.mem_singleton] at hx
      rcases hx with hx | rfl
      · exact hserved x hx
      · refine ⟨by rw [hc.1.1.2]; simp [PPc.outstanding], ?_⟩
        simp only
        have hok := hc.2
        cases r with
        | payComplete x =>
          simp only [payReplyOk, List.any_eq_true, beq_iff_eq] at hok
          obtain ⟨p, hp, hst⟩ := hok
          exact ⟨p, hp, hst⟩
        | payPending => trivial
        | payFailed w => trivial
        | rpcErr => trivial
        | pendingIds ids => simp [payReplyOk] at hok
        | completePres pres => simp [payReplyOk] at hok
        | waitPre x => simp [payReplyOk] at hok
        | waitCode => simp [payReplyOk] at hok
    · simp at hstep

end Tramp

namespace Tramp

theorem erase_subset_singleton {rem : List Nat} {id a : Nat} (hn : rem.Nodup)
    (he : (rem.erase id).isEmpty = true) (ha : a ∈ rem) : a = id := by
  simp only [List.isEmpty_iff] at he
  apply Classical.byContradiction
  intro hne
  have : a ∈ rem.erase id := (List.mem_erase_of_ne hne).mpr ha
  rw [he] at this; simp at this

/-- consuming a reply inside `wait_payment` preserves the invariant of `wait_payment` -/
theorem wDeliver_inv {ps : List Part} {faulty : Prop} {w : WPc} {q : PReq} {r : PReply}
    (hw : WInv ps faulty w) (hq : q ∈ w.outstanding) (hf : ServedFact ps (some w) faulty (q, r)) :
    WInv ps faulty (wDeliver w q r) := by
  cases w with
  | conc c p => exact hw.elim
  | ret res => simp [WPc.outstanding] at hq
  | seqPending =>
    have : q = .listPending := by simpa [WPc.outstanding] using hq
    subst this
    cases r <;> simp only [ServedFact] at hf <;> simp only [wDeliver, WInv] <;> first | exact hf | exact hf.elim
  | seqComplete pend =>
    have : q = .listComplete := by simpa [WPc.outstanding] using hq
    subst this
    cases r <;> simp only [ServedFact] at hf <;> simp only [wDeliver, WInv] <;> try first | exact hf | exact hf.elim
    rename_i pres
    exact afterListings_inv hw.2 hw.1 hf.1 (fun hnil => hf.2 hnil pend rfl)
  | waiting rem =>
    simp only [WPc.outstanding, List.mem_map] at hq
    obtain ⟨id, hid, rfl⟩ := hq
    cases r with
    | waitPre x => exact hf
    | waitCode =>
      simp only [ServedFact] at hf
      show WInv ps faulty (if (rem.erase id).isEmpty then .ret .none else .waiting (rem.erase id))
      by_cases hemp : (rem.erase id).isEmpty = true
      · rw [if_pos hemp]
        intro p hp
        apply Classical.byContradiction
        intro hnf
        have hin := hw.2 p hp hnf
        have := erase_subset_singleton hw.1 hemp hin
        exact hnf (hf p hp this)
      · rw [if_neg hemp]
        refine ⟨hw.1.erase id, ?_⟩
        intro p hp hnf
        have hin := hw.2 p hp hnf
        have hne : p.id ≠ id := fun h => hnf (hf p hp h)
        exact (List.mem_erase_of_ne hne).mpr hin
    | rpcErr => exact hf
    | pendingIds ids => exact hf.elim
    | completePres pres => exact hf.elim
    | payComplete x => exact hf.elim
    | payPending => exact hf.elim
    | payFailed w => exact hf.elim

/-- after a reply is consumed the still-served replies belong to requests still in flight -/
theorem wDeliver_outstanding {w : WPc} {q q' : PReq} {r : PReply}
    (hq : q ∈ w.outstanding) (hq' : q' ∈ w.outstanding) (hne : q' ≠ q)
    (hnc : ∀ c p, w ≠ .conc c p) :
    q' ∈ (wDeliver w q r).outstanding ∨ (wDeliver w q r).outstanding = [] := by
  cases w with
  | conc c p => exact absurd rfl (hnc c p)
  | ret res => simp [WPc.outstanding] at hq
  | seqPending =>
    simp only [WPc.outstanding, List.mem_singleton] at hq hq'
    exact absurd (hq'.trans hq.symm) hne
  | seqComplete pend =>
    simp only [WPc.outstanding, List.mem_singleton] at hq hq'
    exact absurd (hq'.trans hq.symm) hne
  | waiting rem =>
    simp only [WPc.outstanding, List.mem_map] at hq hq'
    obtain ⟨id, hid, rfl⟩ := hq
    obtain ⟨id', hid', rfl⟩ := hq'
    have hne' : id' ≠ id := fun h => hne (by rw [h])
    cases r with
    | waitCode =>
      show _ ∈ (if (rem.erase id).isEmpty then WPc.ret .none else WPc.waiting (rem.erase id)).outstanding ∨
        (if (rem.erase id).isEmpty then WPc.ret .none else WPc.waiting (rem.erase id)).outstanding = []
      by_cases hemp : (rem.erase id).isEmpty = true
      · rw [if_pos hemp]; right; rfl
      · rw [if_neg hemp]; left
        simp only [WPc.outstanding, List.mem_map]
        exact ⟨id', (List.mem_erase_of_ne hne').mpr hid', rfl⟩
    | waitPre x => right; rfl
    | rpcErr => right; rfl
    | pendingIds ids => right; rfl
    | completePres pres => right; rfl
    | payComplete x => right; rfl
    | payPending => right; rfl
    | payFailed w => right; rfl

/-- a served fact about a waitsendpay reply does not depend on the program counter -/
theorem servedFact_wait_indep {ps : List Part} {w w' : Option WPc} {faulty : Prop} {id : Nat} {r : PReply}
    (h : ServedFact ps w faulty (.waitPart id, r)) : ServedFact ps w' faulty (.waitPart id, r) := by
  cases r <;> simp only [ServedFact] at h ⊢ <;> exact h

theorem finishWait_outstanding (f : Bool) (w : WPc) : (finishWait f w).outstanding = w.outstanding := by
  cases w with
  | ret r =>
    simp only [finishWait]
    split
    · cases r <;> rfl
    · rfl
  | _ => rfl

theorem pinv_deliver (faulty : Prop) (s s' : PSys) (q : PReq) (hinv : PInv faulty s)
    (hstep : pstep Variant.current s (.deliver q) = some s') : PInv faulty s' := by
  obtain ⟨parts, run, pc, served⟩ := s
  obtain ⟨hnd, hpay, hserved, hpc⟩ := hinv
  simp only at hnd hpay hserved hpc
  simp only [pstep] at hstep
  by_cases hc : pc.outstanding.contains q = true
  · rw [if_pos hc] at hstep
    simp only [List.contains_iff_mem] at hc
    cases hr : lookupServed served q with
    | none => rw [hr] at hstep; simp at hstep
    | some r =>
      rw [hr] at hstep
      simp only [Option.some.injEq] at hstep
      have hmem := lookupServed_mem hr
      have ⟨_, hfact⟩ := hserved _ hmem
      have hnotrun : run = false := by
        cases hrun : run with
        | false => rfl
        | true =>
          have ⟨_, hnil⟩ := hpay hrun
          rw [hnil] at hmem; simp at hmem
      cases pc with
      | retWait res => simp [PPc.outstanding] at hc
      | retPay res => simp [PPc.outstanding] at hc
      | paying =>
        have hq : q = .pay := by simpa [PPc.outstanding] using hc
        subst hq
        have hpd : pDeliver Variant.current .paying .pay r = payDeliver Variant.current r := by
          simp [pDeliver]
        rw [hpd] at hstep
        subst hstep
        have hflt : ∀ x ∈ served, x ∈ List.filter (fun x => x.1 != PReq.pay) served → False := by
          intro x hx hxf
          have h1 := (hserved x hx).1
          simp only [PPc.outstanding, List.mem_singleton] at h1
          simp [h1] at hxf
        refine ⟨hnd, by simp [hnotrun], ?_, ?_⟩
        · intro x hx
          simp only at hx
          by_cases hemp : (payDeliver Variant.current r).outstanding.isEmpty = true
          · rw [if_pos hemp] at hx; simp at hx
          · rw [if_neg hemp] at hx
            exact (hflt x (List.mem_filter.mp hx).1 hx).elim
        · simp only
          cases r with
          | payComplete x => exact hfact
          | payPending => trivial
          | payFailed warn => cases warn <;> trivial
          | rpcErr => trivial
          | pendingIds ids => exact hfact.elim
          | completePres pres => exact hfact.elim
          | waitPre x => exact hfact.elim
          | waitCode => exact hfact.elim
      | inWait f w =>
        simp only [PPc.outstanding] at hc
        simp only [wpcOf] at hfact
        have hpd : pDeliver Variant.current (.inWait f w) q r = finishWait f (wDeliver w q r) := rfl
        rw [hpd] at hstep
        have hw' := wDeliver_inv hpc hc hfact
        have hnc : ∀ c p, w ≠ .conc c p := by
          intro c p h; rw [h] at hpc; exact hpc
        subst hstep
        refine ⟨hnd, by simp [hnotrun], ?_, ?_⟩
        · intro x hx
          simp only at hx
          by_cases hne : (finishWait f (wDeliver w q r)).outstanding.isEmpty = true
          · rw [if_pos hne] at hx; simp at hx
          · rw [if_neg hne] at hx
            rw [finishWait_outstanding] at hne
            have ⟨hxs, hxq⟩ := List.mem_filter.mp hx
            have hxq' : x.1 ≠ q := by simpa using hxq
            have ⟨hxo, hxf⟩ := hserved x hxs
            simp only [PPc.outstanding] at hxo
            rcases wDeliver_outstanding (r := r) hc hxo hxq' hnc with hin | hemp
            · refine ⟨by rw [finishWait_outstanding]; exact hin, ?_⟩
              -- only `waiting` keeps other requests in flight, and those are waitsendpay
              cases w with
              | waiting rem =>
                simp only [WPc.outstanding, List.mem_map] at hxo
                obtain ⟨id', _, hx1⟩ := hxo
                obtain ⟨x1, x2⟩ := x
                simp only at hx1; subst hx1
                exact servedFact_wait_indep hxf
              | seqPending =>
                simp only [WPc.outstanding, List.mem_singleton] at hxo hc
                exact absurd (hxo.trans hc.symm) hxq'
              | seqComplete pend =>
                simp only [WPc.outstanding, List.mem_singleton] at hxo hc
                exact absurd (hxo.trans hc.symm) hxq'
              | conc c p => exact (hnc c p rfl).elim
              | ret res => simp [WPc.outstanding] at hc
            · simp [hemp] at hne
        · simp only
          generalize hwd : wDeliver w q r = w' at hw'
          cases w' with
          | ret res =>
            simp only [finishWait]
            cases f
            · simp only [Bool.false_eq_true, if_false]
              cases res <;> exact hw'
            · simp only [if_true]
              cases res with
              | some x => exact hw'
              | none => exact Or.inl hw'
              | err => exact Or.inr hw'
          | seqPending => exact hw'
          | seqComplete pend => exact hw'
          | waiting rem => exact hw'
          | conc c p => exact hw'
  · rw [if_neg hc] at hstep; simp at hstep

/-- The invariant is inductive: every step of the provider system preserves it (read faults only
    when `faulty` is granted). -/
theorem pstep_inv (faulty : Prop) (s s' : PSys) (a : PAct) (hinv : PInv faulty s)
    (hstep : pstep Variant.current s a = some s') (hf : ∀ q, a = .serveErr q → faulty) : PInv faulty s' := by
  cases a with
  | create id => exact pinv_env faulty s s' _ hinv hstep (Or.inl ⟨id, rfl⟩)
  | resolve id st => exact pinv_env faulty s s' _ hinv hstep (Or.inr (Or.inl ⟨id, st, rfl⟩))
  | serve q => exact pinv_env faulty s s' _ hinv hstep (Or.inr (Or.inr (Or.inl ⟨q, rfl⟩)))
  | serveErr q => exact pinv_env faulty s s' _ hinv hstep (Or.inr (Or.inr (Or.inr (Or.inl ⟨q, rfl, hf q rfl⟩))))
  | payEnd r => exact pinv_env faulty s s' _ hinv hstep (Or.inr (Or.inr (Or.inr (Or.inr ⟨r, rfl⟩))))
  | deliver q => exact pinv_deliver faulty s s' q hinv hstep

theorem prun_inv (faulty : Prop) (acts : List PAct) (s s' : PSys) (hinv : PInv faulty s)
    (hrun : prun Variant.current s acts = some s') (hf : noReadFault acts = false → faulty) : PInv faulty s' := by
  induction acts generalizing s with
  | nil => simp [prun] at hrun; subst hrun; exact hinv
  | cons a as ih =>
    simp only [prun] at hrun
    split at hrun
    · rename_i s1 h1
      apply ih s1 _ hrun
      · intro hnf; apply hf
        cases a <;> simp [noReadFault, hnf]
      · apply pstep_inv faulty s s1 a hinv h1
        intro q hq; apply hf; subst hq; rfl
    · simp at hrun

end Tramp

namespace Tramp

/-- the truthful reply to a read carries its fact at the instant it is computed -/
theorem servedFact_serveRead {ps : List Part} (wo : Option WPc) (faulty : Prop) (hnd : PartsNodup ps)
    {q : PReq} {r : PReply} (hr : serveRead ps q = some r) : ServedFact ps wo faulty (q, r) := by
  cases q with
  | listPending =>
    simp only [serveRead, Option.some.injEq] at hr; subst hr
    simp only [ServedFact]
    refine ⟨pendingIds_nodup hnd, ?_⟩
    intro p hp hnot hpend
    exact hnot (mem_pendingIds hp hpend)
  | listComplete =>
    simp only [serveRead, Option.some.injEq] at hr; subst hr
    simp only [ServedFact]
    refine ⟨fun x hx => mem_completePres hx, ?_⟩
    intro hnil pend _ p hp hcomp
    have := completePres_nil hnil p hp
    rw [this] at hcomp; simp at hcomp
  | waitPart id =>
    simp only [serveRead] at hr
    split at hr
    · rename_i p hfind
      have ⟨hp, hid⟩ := findPart_mem hfind
      split at hr
      · rename_i x hst
        simp only [Option.some.injEq] at hr; subst hr
        exact ⟨p, hp, hst⟩
      · rename_i hst
        simp only [Option.some.injEq] at hr; subst hr
        simp only [ServedFact]
        intro p' hp' hid'
        have : p' = p := nodup_id_unique hnd hp' hp (by rw [hid', hid])
        rw [this]; exact hst
      · simp at hr
    · simp at hr
  | pay => simp [serveRead] at hr

/-- a served fact does not mention the program counter unless it is a `listComplete` reply -/
theorem servedFact_wpc_indep {ps : List Part} {w w' : Option WPc} {faulty : Prop} {q : PReq} {r : PReply}
    (hq : q ≠ .listComplete) (h : ServedFact ps w faulty (q, r)) : ServedFact ps w' faulty (q, r) := by
  cases q <;> cases r <;> simp only [ServedFact] at h ⊢ <;> first | exact h | exact absurd rfl hq

end Tramp
