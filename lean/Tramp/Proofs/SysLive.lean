/- Support invariant for deadlock freedom: whatever the owner is waiting for can be provided by the
   node — a pay command it waits on is still running or has already answered, and every part it
   waits on (or is about to wait on) exists in the node's table. Inductive under every action. -/
import Tramp.Proofs.SysMeasure
import Tramp.Proofs.SysPcInv
import Tramp.Proofs.SysStepD
import Tramp.Proofs.SysMisc

namespace Tramp

/-- the node's table has a part with this id -/
def Has (ps : List Part) (id : Nat) : Prop := id ∈ ps.map Part.id

theorem has_append {ps : List Part} {id : Nat} (x : Part) (h : Has ps id) : Has (ps ++ [x]) id := by
  unfold Has at *; simp; exact Or.inl (by simpa using h)

theorem has_resolve {ps : List Part} {id : Nat} (i : Nat) (st : PStatus) (h : Has ps id) : Has (resolvePart ps i st) id := by
  unfold Has at *; rw [resolvePart_map_id]; exact h

theorem has_pendingIds {ps : List Part} {id : Nat} (h : id ∈ pendingIds ps) : Has ps id := by
  unfold pendingIds at h
  obtain ⟨p, hp, rfl⟩ := List.mem_map.mp h
  exact List.mem_map.mpr ⟨p, (List.mem_filter.mp hp).1, rfl⟩

theorem has_findPart {ps : List Part} {id : Nat} (h : Has ps id) : ∃ p, findPart ps id = some p ∧ p.id = id := by
  obtain ⟨p, hp, rfl⟩ := List.mem_map.mp h
  unfold findPart
  have : (ps.find? (fun q => q.id == p.id)).isSome := by
    rw [List.find?_isSome]; exact ⟨p, hp, by simp⟩
  obtain ⟨q, hq⟩ := Option.isSome_iff_exists.mp this
  exact ⟨q, hq, by have := List.find?_some hq; simpa using this⟩

/-- every id the wait is (going to be) about exists -/
def WEx (ps : List Part) : Option WPc → Prop
  | some (.seqComplete pend) => ∀ id ∈ pend, Has ps id
  | some (.waiting rem) => rem ≠ [] ∧ ∀ id ∈ rem, Has ps id
  | _ => True

def isPayingPay : OPc → Bool
  | .paying _ _ .paying => true
  | _ => false

structure LOk (s : SState) (o : Owner) : Prop where
  pay  : isPayingPay o.pc = true → s.payRunning = true ∨ (lookupS o.served (.prov .pay)).isSome = true
  wex  : WEx s.parts (ownerWpc o.pc)
  sids : ∀ x ∈ o.served, ∀ ids, x.2 = .prov (.pendingIds ids) → ∀ id ∈ ids, Has s.parts id
  np   : o.pc = .panicked → s.panicked = true

def LInv (s : SState) : Prop := ∀ e o, s.active = some (e, o) → LOk s o

theorem wex_mono {ps ps' : List Part} (hm : ∀ id, Has ps id → Has ps' id) {w : Option WPc} (h : WEx ps w) : WEx ps' w := by
  cases w with
  | none => trivial
  | some w =>
    cases w with
    | seqComplete pend => exact fun id hid => hm id (h id hid)
    | waiting rem => exact ⟨h.1, fun id hid => hm id (h.2 id hid)⟩
    | seqPending => trivial
    | conc a b => trivial
    | ret r => trivial

/-- parts only grow / resolve, the pay flag and the owner are untouched -/
theorem lok_parts {s s' : SState} {o : Owner} (hm : ∀ id, Has s.parts id → Has s'.parts id)
    (hp : s'.payRunning = s.payRunning) (hk : s'.panicked = s.panicked) (h : LOk s o) : LOk s' o :=
  ⟨fun hpc => by rw [hp]; exact h.pay hpc, wex_mono hm h.wex, fun x hx ids hr id hid => hm id (h.sids x hx ids hr id hid),
   fun hpc => by rw [hk]; exact h.np hpc⟩

theorem afterListings_wex {ps : List Part} (pres pend : List Nat) (h : ∀ id ∈ pend, Has ps id) :
    WEx ps (some (afterListings pres pend)) := by
  unfold afterListings
  cases pres with
  | cons x xs => trivial
  | nil =>
    simp only
    split
    · trivial
    · rename_i hne
      refine ⟨?_, h⟩
      intro h0; subst h0; simp at hne

theorem wDeliver_wex {ps : List Part} (w : WPc) (pq : PReq) (pr : PReply) (h : WEx ps (some w))
    (hnc : ∀ a b, w ≠ .conc a b) (hs : ∀ ids, pr = .pendingIds ids → ∀ id ∈ ids, Has ps id) :
    WEx ps (some (wDeliver w pq pr)) := by
  cases w with
  | seqPending =>
    cases pq <;> cases pr <;> simp only [wDeliver] <;> first | trivial | exact (fun id hid => hs _ rfl id hid)
  | seqComplete pend =>
    cases pq <;> cases pr <;> simp only [wDeliver] <;> first | exact afterListings_wex _ _ h | exact h | trivial
  | conc a b => exact absurd rfl (hnc a b)
  | waiting rem =>
    cases pq <;> cases pr <;> simp only [wDeliver] <;> first | exact h | trivial | skip
    rename_i id
    split
    · trivial
    · rename_i hne
      refine ⟨?_, fun i hi => h.2 i (List.mem_of_mem_erase hi)⟩
      intro h0; rw [h0] at hne; simp at hne
  | ret r => cases pq <;> cases pr <;> simp only [wDeliver] <;> trivial

theorem start_current : WPc.start SVariant.current.prov = .seqPending := by
  simp [WPc.start, SVariant.current, Variant.current]

theorem enterWait_wpc (s : SState) (tl : Nat) (pc' : OPc) (h : enterWait s tl = .stay pc') : ownerWpc pc' = none := by
  unfold enterWait at h; split at h
  · simp at h
  · simp only [ONext.stay.injEq] at h; subst h; rfl

/-- what the owner waits on after a continuation still exists; it is not waiting on `pay` again -/
theorem ownerCont_wex (c : Cfg) (s : SState) (pc : OPc) (q : SReq) (r : SReply) (pc' : OPc) (ps : List Part)
    (h : WEx ps (ownerWpc pc)) (hnc : ∀ w a b, ownerWpc pc = some w → w ≠ .conc a b)
    (hq : q ∈ pc.outstanding .current) (hm : ∀ pq, q = .prov pq → ∃ pr, r = .prov pr)
    (hs : ∀ ids, r = .prov (.pendingIds ids) → ∀ id ∈ ids, Has ps id)
    (hst : ownerCont c .current s pc q r = .stay pc') :
    WEx ps (ownerWpc pc') ∧ isPayingPay pc' = false ∧ pc' ≠ .panicked := by
  cases pc with
  | fetch =>
    cases r with
    | listed cell =>
      rcases cell with _ | ⟨v0, g0⟩
      · simp only [ownerCont] at hst
        have hw := enterWait_wpc s _ pc' hst
        rw [hw]; refine ⟨trivial, ?_⟩
        unfold enterWait at hst; split at hst <;> simp at hst; subst hst; exact ⟨rfl, by simp⟩
      · cases v0 <;> simp only [ownerCont] at hst
        · have hw := enterWait_wpc s _ pc' hst
          rw [hw]; refine ⟨trivial, ?_⟩
          unfold enterWait at hst; split at hst <;> simp at hst; subst hst; exact ⟨rfl, by simp⟩
        · simp at hst; subst hst
          simp only [ownerWpc, start_current]; exact ⟨trivial, rfl, by simp⟩
        · simp at hst
    | listErr => simp [ownerCont] at hst
    | written g0 => simp [ownerCont] at hst
    | writeErr => simp [ownerCont] at hst
    | prov pr => simp [ownerCont] at hst
  | rWait aid g t w =>
    simp only [OPc.outstanding, List.mem_map] at hq
    obtain ⟨pq, hpq, rfl⟩ := hq
    obtain ⟨pr, rfl⟩ := hm pq rfl
    simp only [ownerCont] at hst
    have hw := wDeliver_wex (ps := ps) w pq pr h (fun a b => hnc w a b rfl) (fun ids hr => hs ids (by rw [hr]))
    cases hw' : wDeliver w pq pr with
    | ret res =>
      rw [hw'] at hst
      cases res <;> simp [afterRestartWait] at hst
      subst hst; exact ⟨trivial, rfl, by simp⟩
    | seqPending => rw [hw'] at hst hw; simp [afterRestartWait] at hst; subst hst; exact ⟨hw, rfl, by simp⟩
    | seqComplete p => rw [hw'] at hst hw; simp [afterRestartWait] at hst; subst hst; exact ⟨hw, rfl, by simp⟩
    | conc a b => rw [hw'] at hst hw; simp [afterRestartWait] at hst; subst hst; exact ⟨hw, rfl, by simp⟩
    | waiting rem => rw [hw'] at hst hw; simp [afterRestartWait] at hst; subst hst; exact ⟨hw, rfl, by simp⟩
  | rFailA aid g t =>
    cases r <;> simp only [ownerCont] at hst <;> simp at hst
    subst hst; exact ⟨trivial, rfl, by simp⟩
  | rFailS aid g t =>
    cases r <;> simp only [ownerCont] at hst <;> (try (simp at hst; done))
    have hw := enterWait_wpc s _ pc' hst
    rw [hw]; refine ⟨trivial, ?_⟩
    unfold enterWait at hst; split at hst <;> simp at hst; subst hst; exact ⟨rfl, by simp⟩
  | waitHtlcs d => simp [OPc.outstanding] at hq
  | gotReady => simp [OPc.outstanding] at hq
  | gotParams a b => simp [OPc.outstanding] at hq
  | addS aid t mf0 md0 =>
    cases r <;> simp only [ownerCont] at hst <;> simp at hst
    subst hst; exact ⟨trivial, rfl, by simp⟩
  | addA aid g mf0 md0 =>
    cases r <;> simp only [ownerCont] at hst <;> simp at hst
  | paying aid g p =>
    simp only [OPc.outstanding, List.mem_map] at hq
    obtain ⟨pq, hpq, rfl⟩ := hq
    obtain ⟨pr, rfl⟩ := hm pq rfl
    simp only [ownerCont] at hst
    cases p with
    | paying =>
      simp only [PPc.outstanding, List.mem_singleton] at hpq; subst hpq
      simp only [pDeliver, if_true] at hst
      cases pr <;> simp only [payDeliver, afterPay] at hst <;> (try (simp at hst; done))
      all_goals first
        | (simp only [ONext.stay.injEq] at hst; subst hst; simp only [ownerWpc, start_current]; exact ⟨trivial, rfl, by simp⟩)
        | (rename_i warn; cases warn <;> simp [SVariant.current, Variant.current, afterPay] at hst <;> subst hst <;> simp only [ownerWpc, start_current] <;> exact ⟨trivial, rfl, by simp⟩)
    | inWait f w =>
      simp only [PPc.outstanding] at hpq
      have hw := wDeliver_wex (ps := ps) w pq pr h (fun a b => hnc w a b rfl) (fun ids hr => hs ids (by rw [hr]))
      simp only [pDeliver] at hst
      cases hw' : wDeliver w pq pr with
      | ret res =>
        rw [hw'] at hst
        cases f <;> cases res <;> simp [finishWait, afterPay] at hst <;> subst hst <;> exact ⟨trivial, rfl, by simp⟩
      | seqPending => rw [hw'] at hst hw; simp [finishWait, afterPay] at hst; subst hst; exact ⟨hw, rfl, by simp⟩
      | seqComplete p0 => rw [hw'] at hst hw; simp [finishWait, afterPay] at hst; subst hst; exact ⟨hw, rfl, by simp⟩
      | conc a b => rw [hw'] at hst hw; simp [finishWait, afterPay] at hst; subst hst; exact ⟨hw, rfl, by simp⟩
      | waiting rem => rw [hw'] at hst hw; simp [finishWait, afterPay] at hst; subst hst; exact ⟨hw, rfl, by simp⟩
    | retWait res => simp [PPc.outstanding] at hpq
    | retPay res => simp [PPc.outstanding] at hpq
  | panicked => simp [OPc.outstanding] at hq

theorem ownerCont_pay_pc (c : Cfg) (s : SState) (pc : OPc) (q : SReq) (r : SReply) (pc' : OPc) (mf md : Nat)
    (h : ownerCont c .current s pc q r = .pay pc' mf md) : ownerWpc pc' = none ∧ isPayingPay pc' = true := by
  cases pc with
  | addA aid g mf0 md0 =>
    cases r <;> simp only [ownerCont] at h <;> simp at h
    obtain ⟨rfl, _⟩ := h; exact ⟨rfl, rfl⟩
  | fetch =>
    exfalso
    cases r with
    | listed cell =>
      rcases cell with _ | ⟨v0, g0⟩
      · simp only [ownerCont] at h; exact (enterWait_free s _ pc').2 mf md h
      · cases v0 <;> simp only [ownerCont] at h
        · exact (enterWait_free s _ pc').2 mf md h
        · simp at h
        · simp at h
    | listErr => simp [ownerCont] at h
    | written g0 => simp [ownerCont] at h
    | writeErr => simp [ownerCont] at h
    | prov pr => simp [ownerCont] at h
  | rWait aid g t w =>
    exfalso
    cases r with
    | prov pr =>
      cases q with
      | prov pq => simp only [ownerCont] at h; exact (afterRestartWait_free aid g t _ pc').2 mf md h
      | dsList => simp [ownerCont] at h
      | dsWriteState a b => simp [ownerCont] at h
      | dsWriteAttempt a b => simp [ownerCont] at h
    | listed cell => simp [ownerCont] at h
    | listErr => simp [ownerCont] at h
    | written g0 => simp [ownerCont] at h
    | writeErr => simp [ownerCont] at h
  | rFailA aid g t => exfalso; cases r <;> simp [ownerCont] at h
  | rFailS aid g t =>
    exfalso
    cases r <;> simp only [ownerCont] at h <;> (try (simp at h; done))
    exact (enterWait_free s _ pc').2 mf md h
  | waitHtlcs d => exfalso; cases r <;> simp [ownerCont] at h
  | gotReady => exfalso; cases r <;> simp [ownerCont] at h
  | gotParams a b => exfalso; cases r <;> simp [ownerCont] at h
  | addS aid t mf0 md0 => exfalso; cases r <;> simp [ownerCont] at h
  | paying aid g p =>
    exfalso
    cases r with
    | prov pr =>
      cases q with
      | prov pq => simp only [ownerCont] at h; exact (afterPay_free aid g _ pc').2 mf md h
      | dsList => simp [ownerCont] at h
      | dsWriteState a b => simp [ownerCont] at h
      | dsWriteAttempt a b => simp [ownerCont] at h
    | listed cell => simp [ownerCont] at h
    | listErr => simp [ownerCont] at h
    | written g0 => simp [ownerCont] at h
    | writeErr => simp [ownerCont] at h
  | panicked => exfalso; cases r <;> simp [ownerCont] at h

theorem lookupS_append_some {l : List (SReq × SReply)} {q : SReq} (x : SReq × SReply)
    (h : (lookupS l q).isSome = true) : (lookupS (l ++ [x]) q).isSome = true := by
  unfold lookupS at *
  simp only [Option.isSome_map] at *
  rw [List.find?_append]
  cases hf : l.find? (fun y => y.1 == q) with
  | none => rw [hf] at h; simp at h
  | some y => simp

theorem lookupS_append_new {l : List (SReq × SReply)} {q : SReq} (r : SReply) :
    (lookupS (l ++ [(q, r)]) q).isSome = true := by
  unfold lookupS
  simp only [Option.isSome_map]
  rw [List.find?_append]
  cases hf : l.find? (fun y => y.1 == q) with
  | none => simp
  | some y => simp

theorem serveRead_pendingIds {ps : List Part} {q : PReq} {ids : List Nat} (h : serveRead ps q = some (.pendingIds ids)) :
    ids = pendingIds ps := by
  cases q with
  | listPending => simp [serveRead] at h; exact h.symm
  | listComplete => simp [serveRead] at h
  | waitPart id =>
    simp only [serveRead] at h
    split at h
    · split at h <;> simp at h
    · simp at h
  | pay => simp [serveRead] at h

theorem nodeServe_pendingIds {s s1 : SState} {q : SReq} {ids : List Nat} (h : nodeServe s q = some (s1, .prov (.pendingIds ids))) :
    ∀ id ∈ ids, Has s.parts id := by
  cases q with
  | dsList => simp [nodeServe] at h
  | dsWriteState v m => simp only [nodeServe] at h; split at h <;> simp at h
  | dsWriteAttempt a m => simp only [nodeServe] at h; split at h <;> simp at h
  | prov pq =>
    simp only [nodeServe] at h
    split at h
    · rename_i r hr
      simp only [Option.some.injEq, Prod.mk.injEq, SReply.prov.injEq] at h
      obtain ⟨_, rfl⟩ := h
      rw [serveRead_pendingIds hr]
      exact fun id hid => has_pendingIds hid
    · simp at h

theorem nodeFault_not_pendingIds {s s1 : SState} {q : SReq} {f : Fault} {r : SReply} {ids : List Nat}
    (h : nodeFault s q f = some (s1, r)) : r ≠ .prov (.pendingIds ids) := by
  cases f with
  | writeReject =>
    simp only [nodeFault] at h
    split at h
    · simp only [Option.some.injEq, Prod.mk.injEq] at h; obtain ⟨_, rfl⟩ := h; simp
    · simp at h
  | writeLostAck =>
    simp only [nodeFault] at h
    split at h
    · cases hn : nodeServe s q with
      | none => rw [hn] at h; simp at h
      | some p => obtain ⟨s2, r2⟩ := p; rw [hn] at h; simp only [Option.some.injEq, Prod.mk.injEq] at h; obtain ⟨_, rfl⟩ := h; simp
    · simp at h
  | writeLost =>
    simp only [nodeFault] at h
    split at h
    · split at h
      · simp only [Option.some.injEq, Prod.mk.injEq] at h; obtain ⟨_, rfl⟩ := h; simp
      · simp at h
    · simp at h
  | readErr =>
    cases q with
    | dsList => simp [nodeFault] at h; obtain ⟨_, rfl⟩ := h; simp
    | dsWriteState v m => simp [nodeFault] at h
    | dsWriteAttempt a m => simp [nodeFault] at h
    | prov pq =>
      cases pq <;> simp [nodeFault] at h
      all_goals (obtain ⟨_, rfl⟩ := h; simp)

/-- active and served untouched; parts monotone; pay flag same -/
def LKept (s s' : SState) : Prop :=
  s'.active = s.active ∧ s'.payRunning = s.payRunning ∧ s'.panicked = s.panicked ∧ ∀ id, Has s.parts id → Has s'.parts id

theorem linv_kept {s s' : SState} (h : LInv s) (hk : LKept s s') : LInv s' := by
  intro e o ha
  rw [hk.1] at ha
  exact lok_parts hk.2.2.2 hk.2.1 hk.2.2.1 (h e o ha)

theorem linv_none {s' : SState} (ha : s'.active = none) : LInv s' := by
  intro e o h; rw [ha] at h; simp at h

theorem lok_fresh (s : SState) (pc : OPc) (hw : ownerWpc pc = none) (hp : isPayingPay pc = false)
    (hn : pc = .panicked → s.panicked = true) :
    LOk s { pc := pc, served := [] } :=
  ⟨by intro h; simp [hp] at h, by simp only [hw]; trivial, by intro x hx; simp at hx, hn⟩

theorem linv_serveOwner {s s' : SState} {outs : List Out} (q : SReq) (res : Option (SState × SReply)) (h : LInv s)
    (hres : ∀ s1 r, res = some (s1, r) → s1.parts = s.parts ∧ s1.payRunning = s.payRunning ∧ s1.panicked = s.panicked ∧
      ∀ ids, r = .prov (.pendingIds ids) → ∀ id ∈ ids, Has s.parts id)
    (hs : stepServeOwner .current s q res = some (s', outs)) : LInv s' := by
  unfold stepServeOwner at hs
  cases hact : s.active with
  | none => rw [hact] at hs; simp at hs
  | some p =>
    obtain ⟨e, o⟩ := p
    rw [hact] at hs
    cases hr : res with
    | none => rw [hr] at hs; simp at hs
    | some p1 =>
      obtain ⟨s1, r⟩ := p1
      rw [hr] at hs
      simp only at hs
      split at hs
      · simp only [Option.some.injEq, Prod.mk.injEq] at hs
        rw [← hs.1]
        obtain ⟨hp, hpr, hpk, hids⟩ := hres s1 r hr
        have h0 := h e o hact
        intro e1 o1 ha
        simp only [Option.some.injEq, Prod.mk.injEq] at ha
        obtain ⟨_, rfl⟩ := ha
        refine ⟨?_, ?_, ?_, ?_⟩
        · intro hpc
          rcases h0.pay hpc with h1 | h1
          · left; simp only; rw [hpr]; exact h1
          · right; exact lookupS_append_some _ h1
        · simp only; rw [hp]; exact h0.wex
        · intro x hx ids hxr id hid
          simp only at hx
          rcases List.mem_append.mp hx with hx | hx
          · simp only; rw [hp]; exact h0.sids x hx ids hxr id hid
          · simp only [List.mem_singleton] at hx; subst hx
            simp only; rw [hp]; exact hids ids hxr id hid
        · intro hpc; simp only; rw [hpk]; exact h0.np hpc
      · simp at hs

theorem linv_serveBk {s s' : SState} {outs : List Out} (id : Nat) (q : SReq) (res : Option (SState × SReply)) (h : LInv s)
    (hres : ∀ s1 r, res = some (s1, r) → s1.active = s.active ∧ s1.parts = s.parts ∧ s1.payRunning = s.payRunning ∧ s1.panicked = s.panicked)
    (hs : stepServeBk .current s id q res = some (s', outs)) : LInv s' := by
  unfold stepServeBk at hs
  cases hf : findBk s.bks id with
  | none => rw [hf] at hs; simp at hs
  | some b =>
    rw [hf] at hs
    cases hr : res with
    | none => rw [hr] at hs; simp at hs
    | some p1 =>
      obtain ⟨s1, r⟩ := p1
      rw [hr] at hs
      simp only at hs
      split at hs
      · simp only [Option.some.injEq, Prod.mk.injEq] at hs
        rw [← hs.1]
        obtain ⟨ha, hp, hpr, hpk⟩ := hres s1 r hr
        exact linv_kept h ⟨by simp [ha], by simp [hpr], by simp [hpk], by intro i hi; simp only; rw [hp]; exact hi⟩
      · simp at hs

/-- `LInv` is inductive under every action; `SInv` supplies that replies have the type of their
    request and that the concurrent-listing program counter of the pinned variant is unreachable -/
theorem linv_step (c : Cfg) {s s' : SState} {outs : List Out} (a : SAct) (h : LInv s) (hi : SInv .current s)
    (hs : sstep c .current s a = some (s', outs)) : LInv s' := by
  cases a with
  | arrive info amount expiry relExp total =>
    simp only [sstep, stepArrive, SVariant.current, Bool.false_and, Bool.false_eq_true, if_false] at hs
    cases hact : s.active with
    | none =>
      rw [hact] at hs
      simp only [Option.some.injEq, Prod.mk.injEq] at hs
      rw [← hs.1]
      intro e o ha
      simp only [Option.some.injEq, Prod.mk.injEq] at ha
      obtain ⟨_, rfl⟩ := ha
      exact lok_fresh _ .fetch rfl rfl (by intro h; cases h)
    | some p =>
      obtain ⟨e0, o0⟩ := p
      rw [hact] at hs
      simp only [Option.some.injEq, Prod.mk.injEq] at hs
      rw [← hs.1]
      intro e o ha
      simp only [Option.some.injEq, Prod.mk.injEq] at ha
      obtain ⟨_, rfl⟩ := ha
      exact lok_parts (s := s) (fun _ x => x) rfl rfl (h e0 o0 hact)
  | tickMono dt =>
    simp only [sstep, Option.some.injEq, Prod.mk.injEq] at hs; rw [← hs.1]
    exact linv_kept h ⟨rfl, rfl, rfl, fun _ x => x⟩
  | tickWall dt =>
    simp only [sstep, Option.some.injEq, Prod.mk.injEq] at hs; rw [← hs.1]
    exact linv_kept h ⟨rfl, rfl, rfl, fun _ x => x⟩
  | block n =>
    simp only [sstep, Option.some.injEq, Prod.mk.injEq] at hs; rw [← hs.1]
    exact linv_kept h ⟨rfl, rfl, rfl, fun _ x => x⟩
  | crash =>
    simp only [sstep, Option.some.injEq, Prod.mk.injEq] at hs; rw [← hs.1]
    exact linv_none rfl
  | create id =>
    simp only [sstep] at hs
    split at hs
    · simp only [Option.some.injEq, Prod.mk.injEq] at hs; rw [← hs.1]
      exact linv_kept h ⟨rfl, rfl, rfl, fun _ x => has_append _ x⟩
    · simp at hs
  | resolve id st =>
    simp only [sstep] at hs
    split at hs
    · simp only [Option.some.injEq, Prod.mk.injEq] at hs; rw [← hs.1]
      exact linv_kept h ⟨rfl, rfl, rfl, fun _ x => has_resolve _ _ x⟩
    · simp at hs
  | payEnd r =>
    simp only [sstep] at hs
    cases hact : s.active with
    | none => rw [hact] at hs; simp at hs
    | some p =>
      obtain ⟨e, o⟩ := p
      rw [hact] at hs
      simp only at hs
      split at hs
      · split at hs
        · rename_i hc
          simp only [Option.some.injEq, Prod.mk.injEq] at hs; rw [← hs.1]
          have h0 := h e o hact
          intro e1 o1 ha
          simp only [Option.some.injEq, Prod.mk.injEq] at ha
          obtain ⟨_, rfl⟩ := ha
          refine ⟨fun _ => Or.inr (lookupS_append_new _), trivial, ?_, by intro hp; cases hp⟩
          intro x hx ids hxr id hid
          simp only at hx
          rcases List.mem_append.mp hx with hx | hx
          · exact h0.sids x hx ids hxr id hid
          · simp only [List.mem_singleton] at hx; subst hx
            simp only [SReply.prov.injEq] at hxr; subst hxr
            simp [payReplyOk] at hc
        · simp at hs
      · simp at hs
  | serve t q =>
    cases t with
    | owner =>
      simp only [sstep] at hs
      split at hs
      · simp at hs
      · refine linv_serveOwner q _ h ?_ hs
        intro s1 r hr
        have hn := nodeServe_node hr
        exact ⟨hn.1, hn.2.1, hn.2.2.1, fun ids hrr id hid => nodeServe_pendingIds (by rw [hrr] at hr; exact hr) id hid⟩
    | bk id =>
      simp only [sstep] at hs
      refine linv_serveBk id q _ h ?_ hs
      intro s1 r hr
      have hn := nodeServe_node hr
      exact ⟨(nodeServe_frame hr).1, hn.1, hn.2.1, hn.2.2.1⟩
  | fault t q f =>
    cases t with
    | owner =>
      simp only [sstep] at hs
      refine linv_serveOwner q _ h ?_ hs
      intro s1 r hr
      have hn := nodeFault_node hr
      exact ⟨hn.1, hn.2.1, hn.2.2.1, fun ids hrr => absurd hrr (nodeFault_not_pendingIds hr)⟩
    | bk id =>
      simp only [sstep] at hs
      refine linv_serveBk id q _ h ?_ hs
      intro s1 r hr
      have hn := nodeFault_node hr
      exact ⟨(nodeFault_frame hr).1, hn.1, hn.2.1, hn.2.2.1⟩
  | deliver t q =>
    cases t with
    | owner =>
      simp only [sstep, stepDeliverOwner] at hs
      cases hact : s.active with
      | none => rw [hact] at hs; simp at hs
      | some p =>
        obtain ⟨e, o⟩ := p
        rw [hact] at hs
        simp only at hs
        split at hs
        · rename_i hout
          cases hl : lookupS o.served q with
          | none => rw [hl] at hs; simp at hs
          | some r =>
            rw [hl] at hs
            simp only [Option.some.injEq] at hs
            have h0 := h e o hact
            have hmem := lookupS_mem hl
            have hown := hi.owner e o hact
            have hq : q ∈ o.pc.outstanding .current := by simpa using hout
            have hm : ∀ pq, q = .prov pq → ∃ pr, r = .prov pr := by
              intro pq hq'; subst hq'
              have hf := (hown.2 (.prov pq, r) hmem).2
              cases r with
              | prov pr => exact ⟨pr, rfl⟩
              | listed cell => simp [OFact] at hf
              | listErr => simp [OFact] at hf
              | written g => simp [OFact] at hf
              | writeErr => simp [OFact] at hf
            have hnc : ∀ w a b, ownerWpc o.pc = some w → w ≠ .conc a b := by
              intro w a b hw hc; subst hc
              have hpc := hown.1
              cases hpcc : o.pc with
              | rWait aid g t w0 =>
                rw [hpcc] at hw hpc; simp only [ownerWpc, Option.some.injEq] at hw; subst hw
                simp [OPcInv, WInv] at hpc
              | paying aid g p0 =>
                rw [hpcc] at hw hpc
                cases p0 with
                | inWait f w0 =>
                  simp only [ownerWpc, Option.some.injEq] at hw; subst hw
                  simp [OPcInv, WInv] at hpc
                | paying => simp [ownerWpc] at hw
                | retWait r0 => simp [ownerWpc] at hw
                | retPay r0 => simp [ownerWpc] at hw
              | fetch => rw [hpcc] at hw; simp [ownerWpc] at hw
              | rFailA _ _ _ => rw [hpcc] at hw; simp [ownerWpc] at hw
              | rFailS _ _ _ => rw [hpcc] at hw; simp [ownerWpc] at hw
              | waitHtlcs _ => rw [hpcc] at hw; simp [ownerWpc] at hw
              | gotReady => rw [hpcc] at hw; simp [ownerWpc] at hw
              | gotParams _ _ => rw [hpcc] at hw; simp [ownerWpc] at hw
              | addS _ _ _ _ => rw [hpcc] at hw; simp [ownerWpc] at hw
              | addA _ _ _ _ => rw [hpcc] at hw; simp [ownerWpc] at hw
              | panicked => rw [hpcc] at hw; simp [ownerWpc] at hw
            have hsid : ∀ ids, r = .prov (.pendingIds ids) → ∀ id ∈ ids, Has s.parts id :=
              fun ids hr => h0.sids (q, r) hmem ids hr
            cases hn : ownerCont c .current s o.pc q r with
            | stay pc' =>
              rw [hn] at hs; simp only [applyONext, Prod.mk.injEq] at hs; rw [← hs.1]
              have hw := ownerCont_wex c s o.pc q r pc' s.parts h0.wex hnc hq hm hsid hn
              intro e1 o1 ha
              simp only [Option.some.injEq, Prod.mk.injEq] at ha
              obtain ⟨_, rfl⟩ := ha
              refine ⟨by intro hp; simp [hw.2.1] at hp, hw.1, ?_, ?_⟩
              · intro x hx ids hxr id hid
                exact h0.sids x (keepServed_mem hx).2.2.1 ids hxr id hid
              · intro hpc; exact absurd hpc hw.2.2
            | pay pc' mf md =>
              rw [hn] at hs; simp only [applyONext, Prod.mk.injEq] at hs; rw [← hs.1]
              have hw := ownerCont_pay_pc c s o.pc q r pc' mf md hn
              intro e1 o1 ha
              simp only [Option.some.injEq, Prod.mk.injEq] at ha
              obtain ⟨_, rfl⟩ := ha
              exact ⟨fun _ => Or.inl rfl, by simp only [hw.1]; trivial, by intro x hx; simp at hx, by intro hp; simp only at hp; subst hp; simp [isPayingPay] at hw⟩
            | finish r' =>
              rw [hn] at hs; simp only [applyONext, Prod.mk.injEq] at hs; rw [← hs.1]; exact linv_none rfl
            | finishBk r' b =>
              rw [hn] at hs; simp only [applyONext, Prod.mk.injEq] at hs; rw [← hs.1]; exact linv_none rfl
            | panic =>
              rw [hn] at hs; simp only [applyONext, Prod.mk.injEq] at hs; rw [← hs.1]
              intro e1 o1 ha
              simp only [Option.some.injEq, Prod.mk.injEq] at ha
              obtain ⟨_, rfl⟩ := ha
              exact lok_fresh _ .panicked rfl rfl (fun _ => rfl)
        · simp at hs
    | bk id =>
      simp only [sstep, stepDeliverBk] at hs
      repeat' split at hs
      all_goals first
        | (simp only [Option.some.injEq, Prod.mk.injEq] at hs; rw [← hs.1]; exact linv_kept h ⟨rfl, rfl, rfl, fun _ x => x⟩)
        | simp at hs
  | timerFire =>
    simp only [sstep] at hs
    repeat' split at hs
    all_goals first
      | (simp only [Option.some.injEq, Prod.mk.injEq] at hs; rw [← hs.1]; exact linv_none rfl)
      | simp at hs
  | takeFail =>
    simp only [sstep] at hs
    repeat' split at hs
    all_goals first
      | (simp only [Option.some.injEq, Prod.mk.injEq] at hs; rw [← hs.1]; exact linv_none rfl)
      | simp at hs
  | takeReady =>
    simp only [sstep] at hs
    repeat' split at hs
    all_goals first
      | (simp only [Option.some.injEq, Prod.mk.injEq] at hs; rw [← hs.1]
         intro e1 o1 ha
         simp only [Option.some.injEq, Prod.mk.injEq] at ha
         obtain ⟨_, rfl⟩ := ha
         exact lok_fresh _ .gotReady rfl rfl (by intro h; cases h))
      | simp at hs
  | readParams =>
    simp only [sstep] at hs
    repeat' split at hs
    all_goals first
      | (simp only [Option.some.injEq, Prod.mk.injEq] at hs; rw [← hs.1]
         intro e1 o1 ha
         simp only [Option.some.injEq, Prod.mk.injEq] at ha
         obtain ⟨_, rfl⟩ := ha
         exact lok_fresh _ _ rfl rfl (by intro h; cases h))
      | simp at hs
  | readHeight =>
    simp only [sstep] at hs
    repeat' split at hs
    all_goals first
      | (simp only [Option.some.injEq, Prod.mk.injEq] at hs; rw [← hs.1]
         intro e1 o1 ha
         simp only [Option.some.injEq, Prod.mk.injEq] at ha
         obtain ⟨_, rfl⟩ := ha
         exact lok_fresh _ _ rfl rfl (by intro h; cases h))
      | simp at hs

theorem linv_init : LInv SState.init := linv_none rfl

theorem linv_run (c : Cfg) (acts : List SAct) (s s' : SState) (h : LInv s) (hi : SInv .current s)
    (hf : WriteFaultsOnly acts) (hr : srun c .current s acts = some s') : LInv s' := by
  induction acts generalizing s with
  | nil => simp [srun] at hr; subst hr; exact h
  | cons a as ih =>
    simp only [srun] at hr
    split at hr
    · rename_i s1 o1 h1
      have hfa : a.writeFaultOnly := hf a (by simp)
      have hfs : WriteFaultsOnly as := fun x hx => hf x (by simp [hx])
      exact ih s1 (linv_step c a h hi h1) (sstep_inv c a hi hfa h1) hfs hr
    · simp at hr

end Tramp
