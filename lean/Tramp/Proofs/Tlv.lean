/- Round-trip lemmas for the TLV codec. -/
import Tramp.Model.Spec
import Tramp.Proofs.Bytes

namespace Tramp

theorem encodeEntry_length_ge (e : Entry) : 2 ≤ (encodeEntry e).length := by
  unfold encodeEntry
  have h1 := putCompactSize_length_pos e.typ
  have h2 := putCompactSize_length_pos e.value.length
  simp only [List.length_append]; omega

theorem fromBytesAux_toBytes (m : ShortRead) (es : List Entry) (hes : EntriesOk es) :
    ∀ fuel, (toBytes es).length ≤ fuel → fromBytesAux m fuel (toBytes es) = .ok es := by
  induction es with
  | nil => intro fuel _; cases fuel <;> simp [toBytes, fromBytesAux]
  | cons e es ih =>
    intro fuel hf
    have hge := encodeEntry_length_ge e
    have hlen : (toBytes (e :: es)).length = (encodeEntry e).length + (toBytes es).length := by
      simp [toBytes]
    have he := hes e (by simp)
    have hes' : EntriesOk es := fun x hx => hes x (by simp [hx])
    cases fuel with
    | zero => omega
    | succ fuel =>
      unfold fromBytesAux
      have hnot : ¬ (toBytes (e :: es)).length < 2 := by omega
      rw [if_neg hnot]
      have e1 : toBytes (e :: es) =
          putCompactSize e.typ ++ (putCompactSize e.value.length ++ (e.value ++ toBytes es)) := by
        simp [toBytes, encodeEntry, List.append_assoc]
      rw [e1, getCompactSize_put m e.typ he.1]
      simp only
      rw [getCompactSize_put m e.value.length he.2]
      simp only
      have hnl : ¬ (e.value ++ toBytes es).length < e.value.length := by simp
      rw [if_neg hnl]
      have hd : List.drop e.value.length (e.value ++ toBytes es) = toBytes es := List.drop_left' rfl
      have ht : List.take e.value.length (e.value ++ toBytes es) = e.value := List.take_left' rfl
      rw [hd, ht]
      have hp1 := putCompactSize_length_pos e.typ
      have hp2 := putCompactSize_length_pos e.value.length
      have : (toBytes es).length ≤ fuel := by
        rw [e1] at hf; simp only [List.length_append] at hf; omega
      rw [ih hes' fuel this]

theorem strictRead_spec (w min : Nat) (rest r : Bytes) (n : Nat)
    (h : strictRead w min rest = some (n, r)) :
    rest = beBytes w n ++ r ∧ min ≤ n ∧ n < 256 ^ w := by
  unfold strictRead at h
  split at h
  · simp at h
  · split at h
    · simp at h
    · rename_i hl hm
      simp only [Option.some.injEq, Prod.mk.injEq] at h
      have hlen : (List.take w rest).length = w := by simp; omega
      have hb := beBytes_beVal (List.take w rest)
      rw [hlen] at hb
      have hlt := beVal_lt (List.take w rest)
      rw [hlen] at hlt
      refine ⟨?_, ?_, ?_⟩
      · rw [← h.1, ← h.2, hb, List.take_append_drop]
      · rw [← h.1]; omega
      · rw [← h.1]; exact hlt

theorem strictGet_spec (bs r : Bytes) (n : Nat) (h : strictGet bs = some (n, r)) :
    bs = putCompactSize n ++ r ∧ n < 2 ^ 64 := by
  cases bs with
  | nil => simp [strictGet] at h
  | cons b rest =>
    simp only [strictGet] at h
    have hbyte : ∀ k : Nat, b.toNat = k → k < 256 → b = UInt8.ofNat k := by
      intro k hk _
      apply UInt8.toNat_inj.mp
      rw [UInt8.toNat_ofNat', hk]; omega
    split at h
    · rename_i hb
      have ⟨h1, h2, h3⟩ := strictRead_spec _ _ _ _ _ h
      refine ⟨?_, by omega⟩
      unfold putCompactSize
      rw [if_neg (by omega), if_pos (by omega), h1, hbyte 253 hb (by decide)]; rfl
    · split at h
      · rename_i hb
        have ⟨h1, h2, h3⟩ := strictRead_spec _ _ _ _ _ h
        refine ⟨?_, by omega⟩
        unfold putCompactSize
        rw [if_neg (by omega), if_neg (by omega), if_pos (by omega), h1, hbyte 254 hb (by decide)]; rfl
      · split at h
        · rename_i hb
          have ⟨h1, h2, h3⟩ := strictRead_spec _ _ _ _ _ h
          refine ⟨?_, by omega⟩
          unfold putCompactSize
          rw [if_neg (by omega), if_neg (by omega), if_neg (by omega), h1, hbyte 255 hb (by decide)]; rfl
        · rename_i h253 h254 h255
          simp only [Option.some.injEq, Prod.mk.injEq] at h
          have hlt := b.toNat_lt
          refine ⟨?_, by omega⟩
          unfold putCompactSize
          have : n < 253 := by omega
          rw [if_pos this, ← h.1, ← h.2]
          simp

theorem strictDecodeAux_spec (fuel : Nat) (bs : Bytes) (es : List Entry)
    (h : strictDecodeAux fuel bs = some es) : bs = toBytes es ∧ EntriesOk es := by
  induction fuel generalizing bs es with
  | zero =>
    cases bs with
    | nil => simp [strictDecodeAux] at h; subst h; exact ⟨rfl, by intro e he; simp at he⟩
    | cons b bs => simp [strictDecodeAux] at h
  | succ fuel ih =>
    cases bs with
    | nil => simp [strictDecodeAux] at h; subst h; exact ⟨rfl, by intro e he; simp at he⟩
    | cons b bs =>
      simp only [strictDecodeAux] at h
      split at h
      · simp at h
      · rename_i t r1 h1
        split at h
        · simp at h
        · rename_i l r2 h2
          split at h
          · simp at h
          · rename_i hl
            split at h
            · simp at h
            · rename_i es' h3
              simp only [Option.some.injEq] at h
              subst h
              have ⟨e1, b1⟩ := strictGet_spec _ _ _ h1
              have ⟨e2, b2⟩ := strictGet_spec _ _ _ h2
              have ⟨e3, b3⟩ := ih _ _ h3
              have hlen : (List.take l r2).length = l := by simp; omega
              refine ⟨?_, ?_⟩
              · rw [e1, e2]
                simp only [toBytes, encodeEntry, hlen, List.append_assoc]
                rw [← e3, List.take_append_drop]
              · intro e he
                simp only [List.mem_cons] at he
                rcases he with he | he
                · subst he; simp only [hlen]; exact ⟨b1, b2⟩
                · exact b3 e he

end Tramp
