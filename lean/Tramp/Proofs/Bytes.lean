/- Helper lemmas about M1 (big-endian integers, BigSize, the TLV loop). -/
import Tramp.Model.Bytes

namespace Tramp

theorem beVal_nil : beVal [] = 0 := rfl

/-- induction from the right end of a byte string -/
theorem snoc_induction {P : Bytes → Prop} (hnil : P [])
    (hsnoc : ∀ bs b, P bs → P (bs ++ [b])) : ∀ bs, P bs := by
  intro bs
  generalize hn : bs.length = n
  induction n generalizing bs with
  | zero => have : bs = [] := List.length_eq_zero_iff.mp hn; subst this; exact hnil
  | succ n ih =>
    rcases List.eq_nil_or_concat bs with h | ⟨l, b, h⟩
    · subst h; simp at hn
    · subst h
      rw [List.concat_eq_append] at *
      apply hsnoc
      apply ih
      simp at hn; omega

theorem beVal_snoc (bs : Bytes) (b : UInt8) : beVal (bs ++ [b]) = beVal bs * 256 + b.toNat := by
  simp [beVal, List.foldl_append]

theorem beBytes_length (k n : Nat) : (beBytes k n).length = k := by
  induction k generalizing n with
  | zero => rfl
  | succ k ih => simp [beBytes, ih]

theorem beVal_beBytes (k n : Nat) : beVal (beBytes k n) = n % 256 ^ k := by
  induction k generalizing n with
  | zero => simp [beBytes, beVal, Nat.mod_one]
  | succ k ih =>
    simp only [beBytes, beVal_snoc, ih]
    have h : (UInt8.ofNat (n % 256)).toNat = n % 256 := by
      simp [UInt8.toNat_ofNat']
    rw [h, Nat.pow_succ]
    have := Nat.mod_mul_left_div_self n 256 (256 ^ k)
    have h2 : n % (256 ^ k * 256) = 256 * (n / 256 % 256 ^ k) + n % 256 := by
      rw [Nat.mul_comm (256 ^ k) 256, Nat.mod_mul]
      omega
    omega

theorem beVal_lt (bs : Bytes) : beVal bs < 256 ^ bs.length := by
  induction bs using snoc_induction with
  | hnil => simp [beVal]
  | hsnoc bs b ih =>
    rw [beVal_snoc]
    have hb : b.toNat < 256 := by have := b.toNat_lt; omega
    simp only [List.length_append, List.length_singleton, Nat.pow_succ]
    omega

theorem beBytes_beVal (bs : Bytes) : beBytes bs.length (beVal bs) = bs := by
  induction bs using snoc_induction with
  | hnil => rfl
  | hsnoc bs b ih =>
    have hb : b.toNat < 256 := by have := b.toNat_lt; omega
    simp only [List.length_append, List.length_singleton, beBytes, beVal_snoc]
    have h1 : (beVal bs * 256 + b.toNat) / 256 = beVal bs := by omega
    have h2 : (beVal bs * 256 + b.toNat) % 256 = b.toNat := by omega
    rw [h1, h2, ih]
    simp

/-! ### BigSize -/

theorem putCompactSize_length_pos (n : Nat) : 0 < (putCompactSize n).length := by
  unfold putCompactSize; split <;> (try split) <;> (try split) <;> simp

theorem readBE_beBytes (m : ShortRead) (w n : Nat) (r : Bytes) :
    readBE m w (beBytes w n ++ r) = .ok (n % 256 ^ w, r) := by
  unfold readBE
  have hl := beBytes_length w n
  have : ¬ (beBytes w n ++ r).length < w := by simp [hl]
  rw [if_neg this]
  have ht : List.take w (beBytes w n ++ r) = beBytes w n := List.take_left' hl
  have hd : List.drop w (beBytes w n ++ r) = r := List.drop_left' hl
  rw [ht, hd, beVal_beBytes]

/-- decoding what `put_compact_size` wrote gives the value back and leaves the rest untouched -/
theorem getCompactSize_put (m : ShortRead) (n : Nat) (hn : n < 2 ^ 64) (r : Bytes) :
    getCompactSizeWith m (putCompactSize n ++ r) = .ok (n, r) := by
  unfold putCompactSize
  by_cases h1 : n < 253
  · have hb : (UInt8.ofNat n).toNat = n := by rw [UInt8.toNat_ofNat']; omega
    simp only [h1, if_true, List.cons_append, List.nil_append, getCompactSizeWith, hb]
    rw [if_neg (by omega), if_neg (by omega), if_neg (by omega)]
  · by_cases h2 : n < 0x10000
    · simp only [h1, h2, if_false, if_true, List.cons_append, getCompactSizeWith]
      simp only [show (253 : UInt8).toNat = 253 from rfl, if_true]
      rw [readBE_beBytes]; congr 2; omega
    · by_cases h3 : n < 0x100000000
      · simp only [h1, h2, h3, if_false, if_true, List.cons_append, getCompactSizeWith]
        simp only [show (254 : UInt8).toNat = 254 from rfl, if_true, show ¬ (254 = 253) by decide, if_false]
        rw [readBE_beBytes]; congr 2; omega
      · simp only [h1, h2, h3, if_false, List.cons_append, getCompactSizeWith]
        simp only [show (255 : UInt8).toNat = 255 from rfl, if_true, show ¬ (255 = 253) by decide,
          show ¬ (255 = 254) by decide, if_false]
        rw [readBE_beBytes]; congr 2; omega

/-- every successful read consumes at least one byte -/
theorem getCompactSize_length (m : ShortRead) (bs r : Bytes) (n : Nat)
    (h : getCompactSizeWith m bs = .ok (n, r)) : r.length < bs.length := by
  cases bs with
  | nil => cases m <;> simp [getCompactSizeWith, shortRead] at h
  | cons b rest =>
    simp only [getCompactSizeWith] at h
    have hr : ∀ w, readBE m w rest = .ok (n, r) → r.length ≤ rest.length := by
      intro w hw
      unfold readBE at hw
      split at hw
      · cases m <;> simp [shortRead] at hw
      · simp only [Res.ok.injEq, Prod.mk.injEq] at hw
        rw [← hw.2]; simp
    split at h
    · have := hr 2 h; simp; omega
    · split at h
      · have := hr 4 h; simp; omega
      · split at h
        · have := hr 8 h; simp; omega
        · simp only [Res.ok.injEq, Prod.mk.injEq] at h
          rw [← h.2]; simp

/-- the value read is a u64 -/
theorem getCompactSize_lt (m : ShortRead) (bs r : Bytes) (n : Nat)
    (h : getCompactSizeWith m bs = .ok (n, r)) : n < 2 ^ 64 := by
  cases bs with
  | nil => cases m <;> simp [getCompactSizeWith, shortRead] at h
  | cons b rest =>
    simp only [getCompactSizeWith] at h
    have hr : ∀ w, w ≤ 8 → readBE m w rest = .ok (n, r) → n < 2 ^ 64 := by
      intro w hw8 hw
      unfold readBE at hw
      split at hw
      · cases m <;> simp [shortRead] at hw
      · rename_i hlen
        simp only [Res.ok.injEq, Prod.mk.injEq] at hw
        rw [← hw.1]
        have h1 := beVal_lt (List.take w rest)
        have h2 : (List.take w rest).length = w := by simp; omega
        rw [h2] at h1
        have : 256 ^ w ≤ 256 ^ 8 := Nat.pow_le_pow_right (by decide) hw8
        have : (256:Nat) ^ 8 = 2 ^ 64 := by decide
        omega
    split at h
    · exact hr 2 (by decide) h
    · split at h
      · exact hr 4 (by decide) h
      · split at h
        · exact hr 8 (by decide) h
        · simp only [Res.ok.injEq, Prod.mk.injEq] at h
          have := b.toNat_lt
          omega

/-- the checked reader never panics -/
theorem getCompactSize_no_panic (bs : Bytes) : getCompactSize bs ≠ .panic := by
  unfold getCompactSize
  cases bs with
  | nil => simp [getCompactSizeWith, shortRead]
  | cons b rest =>
    simp only [getCompactSizeWith, readBE, shortRead]
    repeat' split
    all_goals simp

/-! ### the decode loop -/

/-- more fuel than bytes is never needed, and the result does not depend on it -/
theorem fromBytesAux_no_panic (fuel : Nat) (bs : Bytes) (h : bs.length ≤ fuel) :
    fromBytesAux .checked fuel bs ≠ .panic := by
  induction fuel generalizing bs with
  | zero =>
    have : bs.length < 2 := by omega
    simp [fromBytesAux, this]
  | succ fuel ih =>
    unfold fromBytesAux
    split
    · simp
    · split
      · simp
      · rename_i hp; exact absurd hp (getCompactSize_no_panic bs)
      · rename_i typ r1 h1
        split
        · simp
        · rename_i hp; exact absurd hp (getCompactSize_no_panic r1)
        · rename_i len r2 h2
          split
          · simp
          · have l1 := getCompactSize_length _ _ _ _ h1
            have l2 := getCompactSize_length _ _ _ _ h2
            have hd : (List.drop len r2).length ≤ fuel := by simp; omega
            have := ih (List.drop len r2) hd
            split
            · simp
            · simp
            · rename_i hp; exact absurd hp this

end Tramp
