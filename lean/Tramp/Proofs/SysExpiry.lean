/- C04 end to end: the delay granted to pay is a value of `maxDelay` computed from (i) an expiry that
   is a lower bound of the expiries of the HTLCs held when the payment was initiated — the first `k`
   listeners of the entry, listeners only ever being appended — and (ii) a height the register had at
   that time, which is at most the height it has now. Inductive under every action. -/
import Tramp.Proofs.SysPcInv
import Tramp.Proofs.SysProbe

namespace Tramp

/-- the first `k` listeners (those held at initiation) all expire at `exp` or later -/
def HeldAtInit (e : PEntry) (k exp : Nat) : Prop :=
  k ≤ e.listeners.length ∧ ∀ i ∈ e.listeners.take k, exp ≤ i.expiry

def ExpOk (c : Cfg) (s : SState) (e : PEntry) : OPc → Prop
  | .gotParams _ exp => ∃ k, HeldAtInit e k exp
  | .addS _ _ _ md => ∃ exp h k, md = maxDelay c exp h ∧ h ≤ s.height ∧ HeldAtInit e k exp
  | .addA _ _ _ md => ∃ exp h k, md = maxDelay c exp h ∧ h ≤ s.height ∧ HeldAtInit e k exp
  | _ => True

def ExpInv (c : Cfg) (s : SState) : Prop := ∀ e o, s.active = some (e, o) → ExpOk c s e o.pc

theorem heldAtInit_append {e e' : PEntry} {k exp : Nat} (x : Inv) (hl : e'.listeners = e.listeners ++ [x])
    (h : HeldAtInit e k exp) : HeldAtInit e' k exp := by
  obtain ⟨hk, hall⟩ := h
  refine ⟨by rw [hl]; simp; omega, ?_⟩
  intro i hi
  rw [hl, List.take_append_of_le_length hk] at hi
  exact hall i hi

theorem heldAtInit_same {e e' : PEntry} {k exp : Nat} (hl : e'.listeners = e.listeners)
    (h : HeldAtInit e k exp) : HeldAtInit e' k exp := by
  unfold HeldAtInit at *; rw [hl]; exact h

/-- the entry only gained a listener (or is the same), the height did not go down, the pc is the same -/
theorem expOk_transfer {c : Cfg} {s s' : SState} {e e' : PEntry} {pc : OPc}
    (hh : s.height ≤ s'.height)
    (hl : e'.listeners = e.listeners ∨ ∃ x, e'.listeners = e.listeners ++ [x])
    (h : ExpOk c s e pc) : ExpOk c s' e' pc := by
  have tr : ∀ k exp, HeldAtInit e k exp → HeldAtInit e' k exp := by
    intro k exp hk
    rcases hl with hl | ⟨x, hl⟩
    · exact heldAtInit_same hl hk
    · exact heldAtInit_append x hl hk
  cases pc with
  | gotParams mf exp => obtain ⟨k, hk⟩ := h; exact ⟨k, tr k exp hk⟩
  | addS aid t mf md => obtain ⟨exp, h0, k, hmd, hle, hk⟩ := h; exact ⟨exp, h0, k, hmd, by omega, tr k exp hk⟩
  | addA aid g mf md => obtain ⟨exp, h0, k, hmd, hle, hk⟩ := h; exact ⟨exp, h0, k, hmd, by omega, tr k exp hk⟩
  | fetch => trivial
  | rWait _ _ _ _ => trivial
  | rFailA _ _ _ => trivial
  | rFailS _ _ _ => trivial
  | waitHtlcs _ => trivial
  | gotReady => trivial
  | paying _ _ _ => trivial
  | panicked => trivial

theorem expOk_of_free {c : Cfg} {s : SState} {e : PEntry} {pc : OPc} (h : pc.free) : ExpOk c s e pc := by
  cases pc <;> first | trivial | (simp [OPc.free] at h)

/-- continuations: `addS → addA` keeps the delay; everything else stays put or lands on a pc without parameters -/
theorem ownerCont_expOk (c : Cfg) (s : SState) (e : PEntry) (pc : OPc) (q : SReq) (r : SReply) (pc' : OPc)
    (h : ExpOk c s e pc) :
    (ownerCont c .current s pc q r = .stay pc' → ExpOk c s e pc') ∧
    (∀ mf md, ownerCont c .current s pc q r = .pay pc' mf md → ExpOk c s e pc') := by
  have hs := ownerCont_shape c .current s pc q r pc'
  refine ⟨fun hh => ?_, fun mf md hh => expOk_of_free (hs.2 mf md hh)⟩
  rcases hs.1 hh with rfl | ⟨aid, t, mf, md, g, rfl, rfl⟩ | hf
  · exact h
  · exact h
  · exact expOk_of_free hf

theorem nodeServe_height {s s1 : SState} {q : SReq} {r : SReply} (h : nodeServe s q = some (s1, r)) :
    s1.height = s.height := by
  cases q with
  | dsList => simp [nodeServe] at h; obtain ⟨rfl, _⟩ := h; rfl
  | dsWriteState v m =>
    simp only [nodeServe] at h
    split at h <;> simp only [Option.some.injEq, Prod.mk.injEq] at h <;> obtain ⟨rfl, _⟩ := h <;> rfl
  | dsWriteAttempt a m =>
    simp only [nodeServe] at h
    split at h <;> simp only [Option.some.injEq, Prod.mk.injEq] at h <;> obtain ⟨rfl, _⟩ := h <;> rfl
  | prov pq =>
    simp only [nodeServe] at h
    split at h
    · simp only [Option.some.injEq, Prod.mk.injEq] at h; obtain ⟨rfl, _⟩ := h; rfl
    · simp at h

theorem nodeFault_height {s s1 : SState} {q : SReq} {f : Fault} {r : SReply} (h : nodeFault s q f = some (s1, r)) :
    s1.height = s.height := by
  cases f with
  | writeReject =>
    simp only [nodeFault] at h
    split at h
    · simp only [Option.some.injEq, Prod.mk.injEq] at h; obtain ⟨rfl, _⟩ := h; rfl
    · simp at h
  | writeLostAck =>
    simp only [nodeFault] at h
    split at h
    · cases hn : nodeServe s q with
      | none => rw [hn] at h; simp at h
      | some p =>
        obtain ⟨s2, r2⟩ := p
        rw [hn] at h; simp only [Option.some.injEq, Prod.mk.injEq] at h
        obtain ⟨rfl, _⟩ := h
        exact nodeServe_height hn
    · simp at h
  | writeLost =>
    simp only [nodeFault] at h
    split at h
    · split at h
      · simp only [Option.some.injEq, Prod.mk.injEq] at h; obtain ⟨rfl, _⟩ := h; rfl
      · simp at h
    · simp at h
  | readErr =>
    cases q with
    | dsList => simp [nodeFault] at h; obtain ⟨rfl, _⟩ := h; rfl
    | dsWriteState v m => simp [nodeFault] at h
    | dsWriteAttempt a m => simp [nodeFault] at h
    | prov pq =>
      cases pq <;> simp [nodeFault] at h
      all_goals (obtain ⟨rfl, _⟩ := h; rfl)

/-- the step keeps the owner's pc and entry listeners (possibly one more), height does not go down -/
def ExpKept (s s' : SState) : Prop :=
  s.height ≤ s'.height ∧ ∀ e' o', s'.active = some (e', o') →
    ∃ e o, s.active = some (e, o) ∧ o'.pc = o.pc ∧ (e'.listeners = e.listeners ∨ ∃ x, e'.listeners = e.listeners ++ [x])

theorem exp_kept {c : Cfg} {s s' : SState} (h : ExpInv c s) (hk : ExpKept s s') : ExpInv c s' := by
  intro e' o' ha'
  obtain ⟨e, o, ha, hpc, hl⟩ := hk.2 e' o' ha'
  rw [hpc]; exact expOk_transfer hk.1 hl (h e o ha)

theorem ekept_same {s s' : SState} (ha : s'.active = s.active) (hh : s.height ≤ s'.height) : ExpKept s s' :=
  ⟨hh, fun e' o' h => ⟨e', o', by rw [← ha]; exact h, rfl, Or.inl rfl⟩⟩

theorem ekept_none {s s' : SState} (ha : s'.active = none) (hh : s.height ≤ s'.height) : ExpKept s s' :=
  ⟨hh, fun e' o' h => by rw [ha] at h; simp at h⟩

theorem ekept_serveOwner {s s' : SState} {outs : List Out} (q : SReq) (res : Option (SState × SReply))
    (hres : ∀ s1 r, res = some (s1, r) → s1.active = s.active ∧ s1.height = s.height)
    (hs : stepServeOwner .current s q res = some (s', outs)) : ExpKept s s' := by
  unfold stepServeOwner at hs
  cases hact : s.active with
  | none => rw [hact] at hs; simp at hs
  | some p =>
    obtain ⟨e, o⟩ := p
    rw [hact] at hs
    cases hr : res with
    | none => rw [hr] at hs; simp at hs
    | some p1 =>
      obtain ⟨s1, r⟩ := p1
      rw [hr] at hs
      simp only at hs
      split at hs
      · simp only [Option.some.injEq, Prod.mk.injEq] at hs
        rw [← hs.1]
        have hm := (hres s1 r hr).2
        refine ⟨by simp [hm], ?_⟩
        intro e' o' ha'
        simp only [Option.some.injEq, Prod.mk.injEq] at ha'
        obtain ⟨rfl, rfl⟩ := ha'
        exact ⟨e, o, hact, rfl, Or.inl rfl⟩
      · simp at hs

theorem ekept_serveBk {s s' : SState} {outs : List Out} (id : Nat) (q : SReq) (res : Option (SState × SReply))
    (hres : ∀ s1 r, res = some (s1, r) → s1.active = s.active ∧ s1.height = s.height)
    (hs : stepServeBk .current s id q res = some (s', outs)) : ExpKept s s' := by
  unfold stepServeBk at hs
  cases hf : findBk s.bks id with
  | none => rw [hf] at hs; simp at hs
  | some b =>
    rw [hf] at hs
    cases hr : res with
    | none => rw [hr] at hs; simp at hs
    | some p1 =>
      obtain ⟨s1, r⟩ := p1
      rw [hr] at hs
      simp only at hs
      split at hs
      · simp only [Option.some.injEq, Prod.mk.injEq] at hs
        rw [← hs.1]
        have ⟨ha, hm⟩ := hres s1 r hr
        exact ekept_same (by simp [ha]) (by simp [hm])
      · simp at hs

/-- `ExpInv` is inductive (the entry invariant supplies `cltv ≤ every held expiry` at initiation) -/
theorem exp_step (c : Cfg) {s s' : SState} {outs : List Out} (a : SAct) (h : ExpInv c s) (he : EInvS c s)
    (hs : sstep c .current s a = some (s', outs)) : ExpInv c s' := by
  cases a with
  | arrive info amount expiry relExp total =>
    simp only [sstep, stepArrive, SVariant.current, Bool.false_and, Bool.false_eq_true, if_false] at hs
    cases hact : s.active with
    | none =>
      rw [hact] at hs
      simp only [Option.some.injEq, Prod.mk.injEq] at hs
      rw [← hs.1]
      intro e o ha
      simp only [Option.some.injEq, Prod.mk.injEq] at ha
      obtain ⟨_, rfl⟩ := ha
      trivial
    | some p =>
      obtain ⟨e0, o0⟩ := p
      rw [hact] at hs
      simp only [Option.some.injEq, Prod.mk.injEq] at hs
      rw [← hs.1]
      refine exp_kept h ⟨Nat.le_refl _, ?_⟩
      intro e' o' ha
      simp only [Option.some.injEq, Prod.mk.injEq] at ha
      obtain ⟨rfl, rfl⟩ := ha
      exact ⟨e0, o0, hact, rfl, Or.inr ⟨_, by rw [add_listeners, checks_listeners]⟩⟩
  | tickMono dt =>
    simp only [sstep, Option.some.injEq, Prod.mk.injEq] at hs; rw [← hs.1]
    exact exp_kept h (ekept_same rfl (Nat.le_refl _))
  | tickWall dt =>
    simp only [sstep, Option.some.injEq, Prod.mk.injEq] at hs; rw [← hs.1]
    exact exp_kept h (ekept_same rfl (Nat.le_refl _))
  | block n =>
    simp only [sstep, Option.some.injEq, Prod.mk.injEq] at hs; rw [← hs.1]
    exact exp_kept h (ekept_same rfl (by simp; omega))
  | crash =>
    simp only [sstep, Option.some.injEq, Prod.mk.injEq] at hs; rw [← hs.1]
    exact exp_kept h (ekept_none rfl (Nat.le_refl _))
  | create id =>
    simp only [sstep] at hs
    split at hs
    · simp only [Option.some.injEq, Prod.mk.injEq] at hs; rw [← hs.1]; exact exp_kept h (ekept_same rfl (Nat.le_refl _))
    · simp at hs
  | resolve id st =>
    simp only [sstep] at hs
    split at hs
    · simp only [Option.some.injEq, Prod.mk.injEq] at hs; rw [← hs.1]; exact exp_kept h (ekept_same rfl (Nat.le_refl _))
    · simp at hs
  | payEnd r =>
    simp only [sstep] at hs
    cases hact : s.active with
    | none => rw [hact] at hs; simp at hs
    | some p =>
      obtain ⟨e, o⟩ := p
      rw [hact] at hs
      simp only at hs
      split at hs
      · split at hs
        · simp only [Option.some.injEq, Prod.mk.injEq] at hs; rw [← hs.1]
          intro e1 o1 ha
          simp only [Option.some.injEq, Prod.mk.injEq] at ha
          obtain ⟨_, rfl⟩ := ha
          trivial
        · simp at hs
      · simp at hs
  | serve t q =>
    cases t with
    | owner =>
      simp only [sstep] at hs
      split at hs
      · simp at hs
      · exact exp_kept h (ekept_serveOwner q _ (fun s1 r hr => ⟨(nodeServe_frame hr).1, nodeServe_height hr⟩) hs)
    | bk id =>
      simp only [sstep] at hs
      exact exp_kept h (ekept_serveBk id q _ (fun s1 r hr => ⟨(nodeServe_frame hr).1, nodeServe_height hr⟩) hs)
  | fault t q f =>
    cases t with
    | owner =>
      simp only [sstep] at hs
      exact exp_kept h (ekept_serveOwner q _ (fun s1 r hr => ⟨(nodeFault_frame hr).1, nodeFault_height hr⟩) hs)
    | bk id =>
      simp only [sstep] at hs
      exact exp_kept h (ekept_serveBk id q _ (fun s1 r hr => ⟨(nodeFault_frame hr).1, nodeFault_height hr⟩) hs)
  | deliver t q =>
    cases t with
    | owner =>
      simp only [sstep, stepDeliverOwner] at hs
      cases hact : s.active with
      | none => rw [hact] at hs; simp at hs
      | some p =>
        obtain ⟨e, o⟩ := p
        rw [hact] at hs
        simp only at hs
        split at hs
        · cases hl : lookupS o.served q with
          | none => rw [hl] at hs; simp at hs
          | some r =>
            rw [hl] at hs
            simp only [Option.some.injEq] at hs
            have hok := ownerCont_expOk c s e o.pc q r
            cases hn : ownerCont c .current s o.pc q r with
            | stay pc' =>
              rw [hn] at hs; simp only [applyONext, Prod.mk.injEq] at hs; rw [← hs.1]
              intro e1 o1 ha
              simp only [Option.some.injEq, Prod.mk.injEq] at ha
              obtain ⟨rfl, rfl⟩ := ha
              exact (hok pc' (h e o hact)).1 hn
            | pay pc' mf md =>
              rw [hn] at hs; simp only [applyONext, Prod.mk.injEq] at hs; rw [← hs.1]
              intro e1 o1 ha
              simp only [Option.some.injEq, Prod.mk.injEq] at ha
              obtain ⟨rfl, rfl⟩ := ha
              exact (hok pc' (h e o hact)).2 mf md hn
            | finish r' =>
              rw [hn] at hs; simp only [applyONext, Prod.mk.injEq] at hs; rw [← hs.1]
              exact exp_kept h (ekept_none rfl (Nat.le_refl _))
            | finishBk r' b =>
              rw [hn] at hs; simp only [applyONext, Prod.mk.injEq] at hs; rw [← hs.1]
              exact exp_kept h (ekept_none rfl (Nat.le_refl _))
            | panic =>
              rw [hn] at hs; simp only [applyONext, Prod.mk.injEq] at hs; rw [← hs.1]
              intro e1 o1 ha
              simp only [Option.some.injEq, Prod.mk.injEq] at ha
              obtain ⟨_, rfl⟩ := ha
              trivial
        · simp at hs
    | bk id =>
      simp only [sstep, stepDeliverBk] at hs
      repeat' split at hs
      all_goals first
        | (simp only [Option.some.injEq, Prod.mk.injEq] at hs; rw [← hs.1]; exact exp_kept h (ekept_same rfl (Nat.le_refl _)))
        | simp at hs
  | timerFire =>
    simp only [sstep] at hs
    repeat' split at hs
    all_goals first
      | (simp only [Option.some.injEq, Prod.mk.injEq] at hs; rw [← hs.1]; exact exp_kept h (ekept_none rfl (Nat.le_refl _)))
      | simp at hs
  | takeFail =>
    simp only [sstep] at hs
    repeat' split at hs
    all_goals first
      | (simp only [Option.some.injEq, Prod.mk.injEq] at hs; rw [← hs.1]; exact exp_kept h (ekept_none rfl (Nat.le_refl _)))
      | simp at hs
  | takeReady =>
    simp only [sstep] at hs
    repeat' split at hs
    all_goals first
      | (simp only [Option.some.injEq, Prod.mk.injEq] at hs; rw [← hs.1]
         intro e1 o1 ha
         simp only [Option.some.injEq, Prod.mk.injEq] at ha
         obtain ⟨_, rfl⟩ := ha
         trivial)
      | simp at hs
  | readParams =>
    simp only [sstep] at hs
    cases hact : s.active with
    | none => rw [hact] at hs; simp at hs
    | some p =>
      obtain ⟨e, o⟩ := p
      rw [hact] at hs
      simp only at hs
      split at hs
      · simp only [Option.some.injEq, Prod.mk.injEq] at hs; rw [← hs.1]
        intro e1 o1 ha
        simp only [Option.some.injEq, Prod.mk.injEq] at ha
        obtain ⟨rfl, rfl⟩ := ha
        exact ⟨e.listeners.length, Nat.le_refl _, by rw [List.take_length]; exact (he e o hact).cltvLe⟩
      · simp at hs
  | readHeight =>
    simp only [sstep] at hs
    cases hact : s.active with
    | none => rw [hact] at hs; simp at hs
    | some p =>
      obtain ⟨e, o⟩ := p
      rw [hact] at hs
      simp only at hs
      split at hs
      · rename_i mf exp hpc
        simp only [Option.some.injEq, Prod.mk.injEq] at hs; rw [← hs.1]
        intro e1 o1 ha
        simp only [Option.some.injEq, Prod.mk.injEq] at ha
        obtain ⟨rfl, rfl⟩ := ha
        have h0 := h e o hact
        rw [hpc] at h0
        obtain ⟨k, hk⟩ := h0
        exact ⟨exp, s.height, k, rfl, Nat.le_refl _, hk⟩
      all_goals simp at hs

theorem exp_run (c : Cfg) (acts : List SAct) (s s' : SState) (h : ExpInv c s) (he : EInvS c s) (hb : RecvBounded s)
    (hr : srun c .current s acts = some s') : ExpInv c s' := by
  induction acts generalizing s with
  | nil => simp [srun] at hr; subst hr; exact h
  | cons a as ih =>
    simp only [srun] at hr
    split at hr
    · rename_i s1 o1 h1
      have he' := estep_inv c a he hb h1
      exact ih s1 (exp_step c a h he h1) he'.1 he'.2 hr
    · simp at hr

theorem exp_init (c : Cfg) : ExpInv c SState.init := by
  intro e o ha; simp [SState.init] at ha

end Tramp
