/- Preservation of the system invariant, part A: actions that do not run plugin continuations. -/
import Tramp.Proofs.SysInv

namespace Tramp

open SVariant in
/-- nothing the invariant reads has changed -/
theorem sinv_frame {v : SVariant} {s s' : SState} (h : SInv v s)
    (hp : s'.parts = s.parts) (hr : s'.payRunning = s.payRunning) (hd : s'.ds = s.ds)
    (hb : s'.bks = s.bks) (ha : s'.active = s.active) (hn : s'.nextBk = s.nextBk) : SInv v s' := by
  refine ⟨by rw [hp]; exact h.nodup, ?_, ?_, ?_, ?_, ?_, ?_⟩
  · intro hrun; rw [hr] at hrun; rw [ha]; exact h.payOwn hrun
  · intro hq; rw [dsNonFree_congr hd]; exact h.wal (fun hq' => hq ((quiet_congr hp hr).mpr hq'))
  · intro pre g hs; rw [hd] at hs; rw [hp]; exact h.succ pre g hs
  · intro e o hact
    rw [ha] at hact
    have ⟨h1, h2⟩ := h.owner e o hact
    exact ⟨(oPcInv_congr hp hr hd hb o.pc).mpr h1,
      fun x hx => ⟨(h2 x hx).1, (oFact_congr hp hr hd hb o.pc x).mpr (h2 x hx).2⟩⟩
  · intro b hb'; rw [hb] at hb'; exact (bkInv_congr hp hr hd b).mpr (h.bks b hb')
  · rw [hb, hn]; exact h.bkIds

/-- only the table entry changed (an HTLC was added, a channel buffer was read): same owner -/
theorem sinv_entry {v : SVariant} {s : SState} (h : SInv v s) (e e' : PEntry) (o : Owner)
    (hact : s.active = some (e, o)) (n : Nat) :
    SInv v { s with active := some (e', o), nextInv := n } := by
  refine ⟨h.nodup, ?_, h.wal, h.succ, ?_, h.bks, h.bkIds⟩
  · intro hrun
    obtain ⟨e0, o0, aid, g, ha, hpc, hs⟩ := h.payOwn hrun
    rw [hact] at ha; simp only [Option.some.injEq, Prod.mk.injEq] at ha
    exact ⟨e', o, aid, g, rfl, by rw [ha.2]; exact hpc, by rw [ha.2]; exact hs⟩
  · intro e1 o1 ha
    simp only [Option.some.injEq, Prod.mk.injEq] at ha
    obtain ⟨_, ho⟩ := ha
    subst ho
    exact h.owner e o hact

/-- a new entry with a fresh owner at `fetch` -/
theorem sinv_new_entry {v : SVariant} {s : SState} (h : SInv v s) (e' : PEntry)
    (hact : s.active = none) (n : Nat) :
    SInv v { s with active := some (e', { pc := .fetch, served := [] }), nextInv := n } := by
  refine ⟨h.nodup, ?_, h.wal, h.succ, ?_, h.bks, h.bkIds⟩
  · intro hrun
    obtain ⟨e0, o0, aid, g, ha, _, _⟩ := h.payOwn hrun
    rw [hact] at ha; simp at ha
  · intro e1 o1 ha
    simp only [Option.some.injEq, Prod.mk.injEq] at ha
    obtain ⟨_, rfl⟩ := ha
    exact ⟨trivial, by simp⟩

theorem sinv_arrive (c : Cfg) {s s' : SState} {outs : List Out} (h : SInv .current s)
    (info : SInfo) (amount expiry : Nat) (relExp : Int) (total : Nat)
    (hs : sstep c .current s (.arrive info amount expiry relExp total) = some (s', outs)) : SInv .current s' := by
  simp only [sstep, stepArrive, SVariant.current, Bool.false_and, Bool.false_eq_true, if_false] at hs
  cases hact : s.active with
  | none =>
    rw [hact] at hs
    simp only [Option.some.injEq, Prod.mk.injEq] at hs
    rw [← hs.1]
    exact sinv_new_entry h _ hact _
  | some p =>
    obtain ⟨e, o⟩ := p
    rw [hact] at hs
    simp only [Option.some.injEq, Prod.mk.injEq] at hs
    rw [← hs.1]
    exact sinv_entry h e _ o hact _

/-- the owner is gone (resolved without bookkeeping, or the plugin crashed) -/
theorem sinv_drop_owner {v : SVariant} {s : SState} (h : SInv v s) (hrun : s.payRunning = false) :
    SInv v { s with active := none } := by
  refine ⟨h.nodup, ?_, h.wal, h.succ, by simp, h.bks, h.bkIds⟩
  intro hr; simp only at hr; rw [hrun] at hr; simp at hr

theorem sinv_crash (c : Cfg) {v : SVariant} {s s' : SState} {outs : List Out} (h : SInv v s)
    (hs : sstep c v s .crash = some (s', outs)) : SInv v s' := by
  simp only [sstep, Option.some.injEq, Prod.mk.injEq] at hs
  rw [← hs.1]
  refine ⟨h.nodup, by simp, ?_, h.succ, by simp, by simp, by simp⟩
  intro hq
  apply h.wal
  intro hq'
  exact hq ⟨hq'.1, rfl⟩

theorem quiet_not_running {s : SState} (h : s.quiet) : s.payRunning = false := h.2

theorem sinv_create (c : Cfg) {v : SVariant} {s s' : SState} {outs : List Out} (h : SInv v s) (id : Nat)
    (hs : sstep c v s (.create id) = some (s', outs)) : SInv v s' := by
  simp only [sstep] at hs
  split at hs
  · rename_i hc
    simp only [Bool.and_eq_true, Option.isNone_iff_eq_none] at hc
    simp only [Option.some.injEq, Prod.mk.injEq] at hs
    rw [← hs.1]
    have hnq : ¬ s.quiet := fun hq => by have := hq.2; rw [hc.1] at this; simp at this
    obtain ⟨e, o, aid, g, hact, hpc, hsv⟩ := h.payOwn hc.1
    refine ⟨?_, ?_, ?_, ?_, ?_, ?_, h.bkIds⟩
    · unfold PartsNodup at *
      simp only [List.map_append, List.map_cons, List.map_nil]
      rw [List.nodup_append]
      refine ⟨h.nodup, by simp, ?_⟩
      intro a ha b hb
      simp at hb; subst hb
      intro heq; subst heq
      simp only [List.mem_map] at ha
      obtain ⟨p, hp, hid⟩ := ha
      have hfind := hc.2
      unfold findPart at hfind
      rw [List.find?_eq_none] at hfind
      have := hfind p hp
      simp [hid] at this
    · intro _; exact ⟨e, o, aid, g, hact, hpc, hsv⟩
    · intro _; exact h.wal hnq
    · intro pre g' hds; exact hasComplete_append _ (h.succ pre g' hds)
    · intro e1 o1 ha
      simp only at ha
      rw [hact] at ha; simp only [Option.some.injEq, Prod.mk.injEq] at ha
      obtain ⟨_, rfl⟩ := ha
      have ⟨h1, _⟩ := h.owner e o hact
      rw [hpc] at h1 ⊢
      refine ⟨?_, by rw [hsv]; simp⟩
      simp only [OPcInv] at h1 ⊢
      exact h1
    · intro b hb
      have hb' := h.bks b hb
      unfold BkInv at *
      cases hbp : b.pc with
      | succS aid' pre => rw [hbp] at hb'; exact hasComplete_append _ hb'
      | succA aid' => trivial
      | failA aid' g' =>
        rw [hbp] at hb'
        exact ⟨hb'.1, fun hg => absurd (hb'.2 hg) hnq⟩
      | failS aid' g' =>
        rw [hbp] at hb'
        exact ⟨hb'.1, fun hg => absurd (hb'.2 hg) hnq⟩
  · simp at hs

theorem quiet_resolve_state {s : SState} (id : Nat) (st : PStatus) (h : s.quiet) :
    ({ s with parts := resolvePart s.parts id st } : SState).quiet :=
  ⟨quiet_resolve id st h.1, h.2⟩

theorem oFact_resolve {s : SState} {pc : OPc} {x : SReq × SReply} (id : Nat) {st : PStatus} (hst : st ≠ .pending)
    (hpc : OPcInv s pc) (h : OFact s pc x) :
    OFact { s with parts := resolvePart s.parts id st } pc x := by
  obtain ⟨q, r⟩ := x
  cases q <;> cases r <;> simp only [OFact] at h ⊢ <;> try exact h
  case dsList.listed cell =>
    rcases cell with _ | ⟨v, g⟩
    · exact quiet_resolve_state id st h
    · cases v <;> simp only at h ⊢
      · exact quiet_resolve_state id st h
      · exact hasComplete_resolve id st h
  case dsWriteState.written v m g =>
    cases v <;> simp only at h ⊢
    exact h
  case prov.prov q r =>
    apply servedFact_resolve id hst ?_ h
    intro pend hw
    cases pc with
    | rWait aid g t w =>
      simp only [ownerWpc, Option.some.injEq] at hw; subst hw
      exact hpc.1.2
    | paying aid g p =>
      cases p with
      | inWait f w =>
        simp only [ownerWpc, Option.some.injEq] at hw; subst hw
        exact hpc.2.1.2
      | paying => simp [ownerWpc] at hw
      | retWait r => simp [ownerWpc] at hw
      | retPay r => simp [ownerWpc] at hw
    | fetch => simp [ownerWpc] at hw
    | rFailA _ _ _ => simp [ownerWpc] at hw
    | rFailS _ _ _ => simp [ownerWpc] at hw
    | waitHtlcs _ => simp [ownerWpc] at hw
    | gotReady => simp [ownerWpc] at hw
    | gotParams _ _ => simp [ownerWpc] at hw
    | addS _ _ _ _ => simp [ownerWpc] at hw
    | addA _ _ _ _ => simp [ownerWpc] at hw
    | panicked => simp [ownerWpc] at hw

theorem oPcInv_resolve {s : SState} {pc : OPc} (id : Nat) {st : PStatus} (hst : st ≠ .pending)
    (h : OPcInv s pc) : OPcInv { s with parts := resolvePart s.parts id st } pc := by
  cases pc with
  | fetch => trivial
  | rWait aid g t w => exact ⟨wInv_resolve id hst h.1, h.2⟩
  | rFailA _ _ _ => exact quiet_resolve_state id st h
  | rFailS _ _ _ => exact quiet_resolve_state id st h
  | waitHtlcs _ => exact quiet_resolve_state id st h
  | gotReady => exact quiet_resolve_state id st h
  | gotParams _ _ => exact quiet_resolve_state id st h
  | addS _ _ _ _ => exact quiet_resolve_state id st h
  | addA aid g mf md => exact ⟨quiet_resolve_state id st h.1, h.2⟩
  | paying aid g p =>
    cases p with
    | paying => exact h
    | inWait f w => exact ⟨h.1, wInv_resolve id hst h.2.1, h.2.2⟩
    | retWait r => exact h
    | retPay r => exact h
  | panicked => trivial

theorem sinv_resolve (c : Cfg) {v : SVariant} {s s' : SState} {outs : List Out} (h : SInv v s) (id : Nat)
    (st : PStatus) (hs : sstep c v s (.resolve id st) = some (s', outs)) : SInv v s' := by
  simp only [sstep] at hs
  split at hs
  · rename_i hc
    have hst : st ≠ .pending := by simpa using hc
    simp only [Option.some.injEq, Prod.mk.injEq] at hs
    rw [← hs.1]
    refine ⟨?_, h.payOwn, ?_, ?_, ?_, ?_, h.bkIds⟩
    · unfold PartsNodup; rw [resolvePart_map_id]; exact h.nodup
    · intro hq; apply h.wal; intro hq'; exact hq (quiet_resolve_state id st hq')
    · intro pre g hds; exact hasComplete_resolve id st (h.succ pre g hds)
    · intro e o hact
      have ⟨h1, h2⟩ := h.owner e o hact
      exact ⟨oPcInv_resolve id hst h1, fun x hx => ⟨(h2 x hx).1, oFact_resolve id hst h1 (h2 x hx).2⟩⟩
    · intro b hb
      have hb' := h.bks b hb
      unfold BkInv at *
      cases hbp : b.pc with
      | succS aid' pre => rw [hbp] at hb'; exact hasComplete_resolve id st hb'
      | succA aid' => trivial
      | failA aid' g' => rw [hbp] at hb'; exact ⟨hb'.1, fun hg => quiet_resolve_state id st (hb'.2 hg)⟩
      | failS aid' g' => rw [hbp] at hb'; exact ⟨hb'.1, fun hg => quiet_resolve_state id st (hb'.2 hg)⟩
  · simp at hs

end Tramp
