/- Preservation of the system invariant, part D: the owner's continuations and internal steps. -/
import Tramp.Proofs.SysStepC

namespace Tramp

theorem lookupS_mem {l : List (SReq × SReply)} {q : SReq} {r : SReply} (h : lookupS l q = some r) : (q, r) ∈ l := by
  unfold lookupS at h
  simp only [Option.map_eq_some_iff] at h
  obtain ⟨x, hx, hr⟩ := h
  have h1 := List.find?_some hx
  have h2 := List.mem_of_find?_eq_some hx
  simp at h1
  obtain ⟨a, b⟩ := x
  simp at h1 hr
  subst h1; subst hr
  exact h2

/-- while a reply waits for the owner no pay command runs -/
theorem not_running_of_served {v : SVariant} {s : SState} (h : SInv v s) {e : PEntry} {o : Owner}
    (hact : s.active = some (e, o)) {x : SReq × SReply} (hx : x ∈ o.served) (hnp : x.1 ≠ .prov .pay ∨ True) :
    s.payRunning = false ∨ True := Or.inr trivial

theorem not_running_of_nonempty {v : SVariant} {s : SState} (h : SInv v s) {e : PEntry} {o : Owner}
    (hact : s.active = some (e, o)) (hne : o.served ≠ []) : s.payRunning = false := by
  cases hr : s.payRunning with
  | false => rfl
  | true =>
    obtain ⟨e0, o0, aid, g, ha, _, hs⟩ := h.payOwn hr
    rw [hact] at ha; simp only [Option.some.injEq, Prod.mk.injEq] at ha
    obtain ⟨_, rfl⟩ := ha
    exact absurd hs hne

/-- the owner moves on to `pc'` keeping the replies in `served'` -/
theorem sinv_owner_stay {v : SVariant} {s : SState} (h : SInv v s) (e e' : PEntry) (o : Owner)
    (hact : s.active = some (e, o)) (hrun : s.payRunning = false) (pc' : OPc) (served' : List (SReq × SReply))
    (hpc : OPcInv s pc') (hsv : ∀ x ∈ served', x.1 ∈ pc'.outstanding v ∧ OFact s pc' x) :
    SInv v { s with active := some (e', { pc := pc', served := served' }) } := by
  refine ⟨h.nodup, ?_, h.wal, h.succ, ?_, h.bks, h.bkIds⟩
  · intro hr; simp only at hr; rw [hrun] at hr; simp at hr
  · intro e1 o1 ha
    simp only [Option.some.injEq, Prod.mk.injEq] at ha
    obtain ⟨_, rfl⟩ := ha
    exact ⟨hpc, hsv⟩

/-- the owner resolved its HTLCs and goes on as a bookkeeper -/
theorem sinv_owner_to_bk {v : SVariant} {s : SState} (h : SInv v s) (hrun : s.payRunning = false) (b : BPc)
    (hb : BkInv s { id := s.nextBk, pc := b, served := none }) :
    SInv v { s with active := none, bks := s.bks ++ [{ id := s.nextBk, pc := b, served := none }],
                    nextBk := s.nextBk + 1 } := by
  refine ⟨h.nodup, ?_, h.wal, h.succ, by simp, ?_, ?_⟩
  · intro hr; simp only at hr; rw [hrun] at hr; simp at hr
  · intro x hx
    simp only [List.mem_append, List.mem_singleton] at hx
    rcases hx with hx | rfl
    · have := h.bks x hx; unfold BkInv at *; exact this
    · unfold BkInv at *; exact hb
  · refine ⟨?_, ?_⟩
    · simp only [List.map_append, List.map_cons, List.map_nil]
      rw [List.nodup_append]
      refine ⟨h.bkIds.1, by simp, ?_⟩
      intro a ha b' hb'
      simp only [List.mem_singleton] at hb'; subst hb'
      simp only [List.mem_map] at ha
      obtain ⟨y, hy, rfl⟩ := ha
      have := h.bkIds.2 y hy
      omega
    · intro x hx
      simp only [List.mem_append, List.mem_singleton] at hx
      rcases hx with hx | rfl
      · have := h.bkIds.2 x hx; simp only; omega
      · simp

/-- the pay RPC is issued -/
theorem sinv_issue_pay {v : SVariant} {s : SState} (h : SInv v s) (e : PEntry) (aid g : Nat)
    (hq : s.quiet) (hpm : PastMarker s g) :
    SInv v { s with active := some (e, { pc := .paying aid g .paying, served := [] }), payRunning := true } := by
  refine ⟨h.nodup, fun _ => ⟨e, _, aid, g, rfl, rfl, rfl⟩, fun _ => hpm.2.2, h.succ, ?_, ?_, h.bkIds⟩
  · intro e1 o1 ha
    simp only [Option.some.injEq, Prod.mk.injEq] at ha
    obtain ⟨_, rfl⟩ := ha
    exact ⟨hpm, by simp⟩
  · intro b hb
    have hbi := h.bks b hb
    unfold BkInv at *
    have hne : ∀ gb, b.pc.failGen = some gb → ¬ dsGenIs s gb := by
      intro gb hgb ⟨v1, hd1⟩
      have h1 := hpm.1 b hb gb hgb
      obtain ⟨v2, g2, hd2, hle⟩ := hpm.2.1
      rw [hd1] at hd2; simp only [Option.some.injEq, Prod.mk.injEq] at hd2
      omega
    cases hbp : b.pc with
    | succS a p => rw [hbp] at hbi; exact hbi
    | succA a => trivial
    | failA a g0 =>
      rw [hbp] at hbi
      exact ⟨hbi.1, fun hg => absurd hg (hne g0 (by rw [hbp]; rfl))⟩
    | failS a g0 =>
      rw [hbp] at hbi
      exact ⟨hbi.1, fun hg => absurd hg (hne g0 (by rw [hbp]; rfl))⟩

theorem sinv_payEnd (c : Cfg) {s s' : SState} {outs : List Out} (h : SInv .current s) (r : PReply)
    (hs : sstep c .current s (.payEnd r) = some (s', outs)) : SInv .current s' := by
  simp only [sstep] at hs
  cases hact : s.active with
  | none => rw [hact] at hs; simp at hs
  | some p =>
    obtain ⟨e, o⟩ := p
    rw [hact] at hs
    simp only at hs
    split at hs
    · rename_i aid g hpc
      split at hs
      · rename_i hc
        simp only [Bool.and_eq_true, Option.isNone_iff_eq_none] at hc
        simp only [Option.some.injEq, Prod.mk.injEq] at hs
        rw [← hs.1]
        have hnq : ¬ s.quiet := fun hq => by have := hq.2; rw [hc.1.1] at this; simp at this
        obtain ⟨e0, o0, aid0, g0, ha0, _, hsv0⟩ := h.payOwn hc.1.1
        rw [hact] at ha0; simp only [Option.some.injEq, Prod.mk.injEq] at ha0
        obtain ⟨_, rfl⟩ := ha0
        have ⟨hpci, _⟩ := h.owner e o hact
        rw [hpc] at hpci
        refine ⟨h.nodup, by simp, ?_, h.succ, ?_, ?_, h.bkIds⟩
        · intro hq'
          apply h.wal
          exact hnq
        · intro e1 o1 ha
          simp only [Option.some.injEq, Prod.mk.injEq] at ha
          obtain ⟨_, rfl⟩ := ha
          refine ⟨hpci, ?_⟩
          intro x hx
          rw [hsv0] at hx
          simp only [List.nil_append, List.mem_singleton] at hx
          subst hx
          refine ⟨by simp [OPc.outstanding, PPc.outstanding], ?_⟩
          simp only [OFact, ownerWpc]
          have hok := hc.2
          cases r with
          | payComplete x =>
            simp only [payReplyOk, List.any_eq_true, beq_iff_eq] at hok
            obtain ⟨p, hp, hst⟩ := hok
            exact ⟨p, hp, hst⟩
          | payPending => trivial
          | payFailed w => trivial
          | rpcErr => trivial
          | pendingIds ids => simp [payReplyOk] at hok
          | completePres pres => simp [payReplyOk] at hok
          | waitPre x => simp [payReplyOk] at hok
          | waitCode => simp [payReplyOk] at hok
        · intro b hb
          have hbi := h.bks b hb
          unfold BkInv at *
          cases hbp : b.pc with
          | succS a p => rw [hbp] at hbi; exact hbi
          | succA a => trivial
          | failA a g0 => rw [hbp] at hbi; exact ⟨hbi.1, fun hg => absurd (hbi.2 hg) hnq⟩
          | failS a g0 => rw [hbp] at hbi; exact ⟨hbi.1, fun hg => absurd (hbi.2 hg) hnq⟩
      · simp at hs
    · simp at hs

end Tramp

namespace Tramp

theorem keepServed_mem {v : SVariant} {pc pc' : OPc} {served : List (SReq × SReply)} {q : SReq} {x : SReq × SReply}
    (h : x ∈ keepServed v pc pc' served q) :
    sameWait pc pc' = true ∧ (pc'.outstanding v).isEmpty = false ∧ x ∈ served ∧ x.1 ≠ q := by
  unfold keepServed at h
  split at h
  · rename_i hc
    simp only [Bool.and_eq_true, Bool.not_eq_true'] at hc
    simp only [List.mem_filter, bne_iff_ne, ne_eq] at h
    exact ⟨hc.1, hc.2, h.1, h.2⟩
  · simp at h

/-- facts about the replies that stay parked when `wait_payment` consumes one reply and goes on -/
theorem wait_keep_facts {s : SState} {w : WPc} {pq : PReq} {pr : PReply} {pcOld pcNew : OPc}
    (hwOld : ownerWpc pcOld = some w) (hwNew : ownerWpc pcNew = some (wDeliver w pq pr))
    (houtOld : pcOld.outstanding .current = w.outstanding.map .prov)
    (houtNew : pcNew.outstanding .current = (wDeliver w pq pr).outstanding.map .prov)
    (hwinv : WInv s.parts False w) (hq : pq ∈ w.outstanding)
    (served : List (SReq × SReply))
    (hserved : ∀ x ∈ served, x.1 ∈ pcOld.outstanding .current ∧ OFact s pcOld x)
    (x : SReq × SReply) (hx : x ∈ served) (hne : x.1 ≠ .prov pq)
    (hnonempty : (pcNew.outstanding .current).isEmpty = false) :
    x.1 ∈ pcNew.outstanding .current ∧ OFact s pcNew x := by
  have ⟨hxo, hxf⟩ := hserved x hx
  rw [houtOld] at hxo
  simp only [List.mem_map] at hxo
  obtain ⟨pq', hpq', hx1⟩ := hxo
  obtain ⟨x1, x2⟩ := x
  simp only at hx1; subst hx1
  have hne' : pq' ≠ pq := fun h => hne (by rw [h])
  have hnc : ∀ c p, w ≠ .conc c p := by intro c p hc; rw [hc] at hwinv; exact hwinv
  rcases wDeliver_outstanding (r := pr) hq hpq' hne' hnc with hin | hemp
  · refine ⟨by rw [houtNew]; exact List.mem_map.mpr ⟨pq', hin, rfl⟩, ?_⟩
    -- only `waiting` keeps other requests in flight, and those are waitsendpay
    cases w with
    | waiting rem =>
      simp only [WPc.outstanding, List.mem_map] at hpq'
      obtain ⟨id', _, rfl⟩ := hpq'
      cases x2 with
      | prov r2 =>
        simp only [OFact, hwOld, hwNew] at hxf ⊢
        exact servedFact_wait_indep hxf
      | listed c => simp only [OFact] at hxf
      | listErr => simp only [OFact] at hxf
      | written g => simp only [OFact] at hxf
      | writeErr => simp only [OFact] at hxf
    | seqPending =>
      simp only [WPc.outstanding, List.mem_singleton] at hpq' hq
      exact absurd (hpq'.trans hq.symm) hne'
    | seqComplete pend =>
      simp only [WPc.outstanding, List.mem_singleton] at hpq' hq
      exact absurd (hpq'.trans hq.symm) hne'
    | conc c p => exact (hnc c p rfl).elim
    | ret res => simp [WPc.outstanding] at hq
  · rw [houtNew, hemp] at hnonempty; simp at hnonempty

@[simp] theorem applyONext_stay (v : SVariant) (s : SState) (e : PEntry) (o : Owner) (q : SReq) (pc : OPc) :
    (applyONext v s e o q (.stay pc)).1 =
      { s with active := some (e, { pc := pc, served := keepServed v o.pc pc o.served q }) } := rfl
@[simp] theorem applyONext_pay (v : SVariant) (s : SState) (e : PEntry) (o : Owner) (q : SReq) (pc : OPc) (mf md : Nat) :
    (applyONext v s e o q (.pay pc mf md)).1 =
      { s with active := some (e, { pc := pc, served := [] }), payRunning := true } := rfl
@[simp] theorem applyONext_finish (v : SVariant) (s : SState) (e : PEntry) (o : Owner) (q : SReq) (r : Resp) :
    (applyONext v s e o q (.finish r)).1 = { s with active := none } := rfl
@[simp] theorem applyONext_finishBk (v : SVariant) (s : SState) (e : PEntry) (o : Owner) (q : SReq) (r : Resp) (b : BPc) :
    (applyONext v s e o q (.finishBk r b)).1 =
      { s with active := none, bks := s.bks ++ [{ id := s.nextBk, pc := b, served := none }], nextBk := s.nextBk + 1 } := rfl

theorem notRet_of_not_ret {w : WPc} (h : ∀ r, w ≠ .ret r) : w.notRet := by
  cases w <;> simp only [WPc.notRet] <;> exact absurd rfl (h _)

theorem sinv_deliver_owner (c : Cfg) {s s' : SState} {outs : List Out} (h : SInv .current s) (q : SReq)
    (hs : sstep c .current s (.deliver .owner q) = some (s', outs)) : SInv .current s' := by
  simp only [sstep, stepDeliverOwner] at hs
  cases hact : s.active with
  | none => rw [hact] at hs; simp at hs
  | some p =>
    obtain ⟨e, o⟩ := p
    rw [hact] at hs
    simp only at hs
    split at hs
    · rename_i hc
      simp only [List.contains_iff_mem] at hc
      cases hl : lookupS o.served q with
      | none => rw [hl] at hs; simp at hs
      | some r =>
        rw [hl] at hs
        simp only [Option.some.injEq] at hs
        have hs1 : (applyONext .current s e o q (ownerCont c .current s o.pc q r)).1 = s' := by rw [hs]
        rw [← hs1]
        have hmem := lookupS_mem hl
        have hrun : s.payRunning = false := not_running_of_nonempty h hact (by intro hn; rw [hn] at hmem; simp at hmem)
        have ⟨hpci, hserved⟩ := h.owner e o hact
        have hfact := (hserved _ hmem).2
        -- by program counter
        cases hpc : o.pc with
        | waitHtlcs d => rw [hpc] at hc; simp [OPc.outstanding] at hc
        | gotReady => rw [hpc] at hc; simp [OPc.outstanding] at hc
        | gotParams a b => rw [hpc] at hc; simp [OPc.outstanding] at hc
        | panicked => rw [hpc] at hc; simp [OPc.outstanding] at hc
        | fetch =>
          rw [hpc] at hc hfact
          simp only [OPc.outstanding, List.mem_singleton] at hc; subst hc
          cases r with
          | listed cell =>
            rcases cell with _ | ⟨v0, g0⟩
            · simp only [OFact] at hfact
              simp only [ownerCont, enterWait]
              split
              · simp only [applyONext_finish]; exact sinv_drop_owner h hrun
              · simp only [applyONext_stay]; exact sinv_owner_stay h e e o hact hrun _ _ (by simp only [OPcInv]; exact hfact)
                  (by intro x hx; simp [keepServed, sameWait, hpc] at hx)
            · cases v0 with
              | free =>
                simp only [OFact] at hfact
                simp only [ownerCont, enterWait]
                split
                · simp only [applyONext_finish]; exact sinv_drop_owner h hrun
                · simp only [applyONext_stay]; exact sinv_owner_stay h e e o hact hrun _ _ (by simp only [OPcInv]; exact hfact)
                    (by intro x hx; simp [keepServed, sameWait, hpc] at hx)
              | pending aid t =>
                simp only [ownerCont, applyONext_stay, applyONext_finish, applyONext_finishBk, applyONext_pay]
                exact sinv_owner_stay h e e o hact hrun _ _
                  (by simp only [OPcInv]; exact ⟨by simp [WPc.start, Variant.current, SVariant.current, WInv], by simp [WPc.start, Variant.current, SVariant.current, WPc.notRet], hrun⟩)
                  (by intro x hx; simp [keepServed, sameWait, hpc] at hx)
              | succeeded pre =>
                simp only [ownerCont, applyONext_stay, applyONext_finish, applyONext_finishBk, applyONext_pay]
                exact sinv_drop_owner h hrun
          | listErr => simp only [OFact] at hfact
          | written g => simp only [OFact] at hfact
          | writeErr => simp only [OFact] at hfact
          | prov pr => simp only [OFact] at hfact
        | rFailA aid g t =>
          rw [hpc] at hc hfact hpci
          simp only [OPc.outstanding, List.mem_singleton] at hc; subst hc
          cases r with
          | written g0 =>
            simp only [ownerCont, applyONext_stay, applyONext_finish, applyONext_finishBk, applyONext_pay]
            exact sinv_owner_stay h e e o hact hrun _ _ (by simp only [OPcInv]; exact hpci)
              (by intro x hx; simp [keepServed, sameWait, hpc] at hx)
          | writeErr => simp only [ownerCont, applyONext_finish]; exact sinv_drop_owner h hrun
          | listed cell => simp only [OFact] at hfact
          | listErr => simp only [OFact] at hfact
          | prov pr => simp only [OFact] at hfact
        | rFailS aid g t =>
          rw [hpc] at hc hfact hpci
          simp only [OPc.outstanding, List.mem_singleton] at hc; subst hc
          cases r with
          | written g0 =>
            simp only [ownerCont, enterWait]
            split
            · simp only [applyONext_finish]; exact sinv_drop_owner h hrun
            · simp only [applyONext_stay]; exact sinv_owner_stay h e e o hact hrun _ _ (by simp only [OPcInv]; exact hpci)
                (by intro x hx; simp [keepServed, sameWait, hpc] at hx)
          | writeErr => simp only [ownerCont, applyONext_finish]; exact sinv_drop_owner h hrun
          | listed cell => simp only [OFact] at hfact
          | listErr => simp only [OFact] at hfact
          | prov pr => simp only [OFact] at hfact
        | addS aid t mf md =>
          rw [hpc] at hc hfact hpci
          simp only [OPc.outstanding, List.mem_singleton] at hc; subst hc
          cases r with
          | written g0 =>
            simp only [OFact] at hfact
            simp only [ownerCont, applyONext_stay, applyONext_finish, applyONext_finishBk, applyONext_pay]
            exact sinv_owner_stay h e e o hact hrun _ _ (by simp only [OPcInv]; exact ⟨hpci, hfact⟩)
              (by intro x hx; simp [keepServed, sameWait, hpc] at hx)
          | writeErr => simp only [ownerCont, applyONext_finish]; exact sinv_drop_owner h hrun
          | listed cell => simp only [OFact] at hfact
          | listErr => simp only [OFact] at hfact
          | prov pr => simp only [OFact] at hfact
        | addA aid g mf md =>
          rw [hpc] at hc hfact hpci
          simp only [OPc.outstanding, List.mem_singleton] at hc; subst hc
          cases r with
          | written g0 =>
            simp only [ownerCont, applyONext_stay, applyONext_finish, applyONext_finishBk, applyONext_pay]
            exact sinv_issue_pay h e aid g hpci.1 hpci.2
          | writeErr => simp only [ownerCont, applyONext_finish]; exact sinv_drop_owner h hrun
          | listed cell => simp only [OFact] at hfact
          | listErr => simp only [OFact] at hfact
          | prov pr => simp only [OFact] at hfact
        | rWait aid g t w =>
          rw [hpc] at hc hfact hpci hserved
          simp only [OPc.outstanding, List.mem_map] at hc
          obtain ⟨pq, hpq, rfl⟩ := hc
          cases r with
          | prov pr =>
            simp only [OFact, ownerWpc] at hfact
            have hw' := wDeliver_inv hpci.1 hpq hfact
            simp only [ownerCont, applyONext_stay, applyONext_finish, applyONext_finishBk, applyONext_pay]
            generalize hwd : wDeliver w pq pr = w' at hw'
            cases w' with
            | ret res =>
              cases res with
              | some pre =>
                simp only [afterRestartWait, applyONext_stay, applyONext_finish, applyONext_finishBk, applyONext_pay]
                exact sinv_owner_to_bk h hrun _ (by unfold BkInv; exact hw')
              | none =>
                simp only [afterRestartWait, applyONext_stay, applyONext_finish, applyONext_finishBk, applyONext_pay]
                exact sinv_owner_stay h e e o hact hrun _ _ (by simp only [OPcInv]; exact ⟨hw', hpci.2.2⟩)
                  (by intro x hx; simp [keepServed, sameWait, hpc] at hx)
              | err => exact hw'.elim
            | seqPending =>
              simp only [afterRestartWait, applyONext_stay, applyONext_finish, applyONext_finishBk, applyONext_pay]
              apply sinv_owner_stay h e e o hact hrun _ _ (by simp only [OPcInv]; exact ⟨hw', trivial, hpci.2.2⟩)
              intro x hx
              have ⟨_, hne, hxs, hxq⟩ := keepServed_mem hx
              exact wait_keep_facts (pcOld := .rWait aid g t w) (pcNew := .rWait aid g t .seqPending) rfl (by rw [← hwd]; rfl) rfl (by rw [← hwd]; rfl)
                hpci.1 hpq o.served hserved x hxs hxq hne
            | seqComplete pend =>
              simp only [afterRestartWait, applyONext_stay, applyONext_finish, applyONext_finishBk, applyONext_pay]
              apply sinv_owner_stay h e e o hact hrun _ _ (by simp only [OPcInv]; exact ⟨hw', trivial, hpci.2.2⟩)
              intro x hx
              have ⟨_, hne, hxs, hxq⟩ := keepServed_mem hx
              exact wait_keep_facts (pcOld := .rWait aid g t w) (pcNew := .rWait aid g t (.seqComplete pend)) rfl (by rw [← hwd]; rfl) rfl (by rw [← hwd]; rfl)
                hpci.1 hpq o.served hserved x hxs hxq hne
            | waiting rem =>
              simp only [afterRestartWait, applyONext_stay, applyONext_finish, applyONext_finishBk, applyONext_pay]
              apply sinv_owner_stay h e e o hact hrun _ _ (by simp only [OPcInv]; exact ⟨hw', trivial, hpci.2.2⟩)
              intro x hx
              have ⟨_, hne, hxs, hxq⟩ := keepServed_mem hx
              exact wait_keep_facts (pcOld := .rWait aid g t w) (pcNew := .rWait aid g t (.waiting rem)) rfl (by rw [← hwd]; rfl) rfl (by rw [← hwd]; rfl)
                hpci.1 hpq o.served hserved x hxs hxq hne
            | conc c0 p0 => exact hw'.elim
          | listed cell => simp only [OFact] at hfact
          | listErr => simp only [OFact] at hfact
          | written g0 => simp only [OFact] at hfact
          | writeErr => simp only [OFact] at hfact
        | paying aid g p =>
          rw [hpc] at hc hfact hpci hserved
          cases p with
          | retWait res => exact hpci.elim
          | retPay res => exact hpci.elim
          | paying =>
            simp only [OPc.outstanding, PPc.outstanding, List.map_cons, List.map_nil, List.mem_singleton] at hc
            subst hc
            cases r with
            | prov pr =>
              simp only [OFact, ownerWpc] at hfact
              simp only [ownerCont, pDeliver, if_true, payDeliver, SVariant.current, Variant.current, WPc.start,
                Bool.false_eq_true, if_false]
              cases pr with
              | payComplete pre =>
                simp only [afterPay, applyONext_stay, applyONext_finish, applyONext_finishBk, applyONext_pay]
                exact sinv_owner_to_bk h hrun _ (by unfold BkInv; exact hfact)
              | payPending =>
                simp only [afterPay, applyONext_stay, applyONext_finish, applyONext_finishBk, applyONext_pay]
                exact sinv_owner_stay h e e o hact hrun _ _ (by simp only [OPcInv]; exact ⟨hpci, trivial, trivial, hrun, trivial⟩)
                  (by intro x hx; simp [keepServed, sameWait, hpc] at hx)
              | payFailed warn =>
                cases warn <;> simp only [afterPay, Bool.false_eq_true, if_false, applyONext_stay, applyONext_finish, applyONext_finishBk, applyONext_pay] <;>
                exact sinv_owner_stay h e e o hact hrun _ _ (by simp only [OPcInv]; exact ⟨hpci, trivial, trivial, hrun, trivial⟩)
                  (by intro x hx; simp [keepServed, sameWait, hpc] at hx)
              | rpcErr =>
                simp only [afterPay, applyONext_stay, applyONext_finish, applyONext_finishBk, applyONext_pay]
                exact sinv_owner_stay h e e o hact hrun _ _ (by simp only [OPcInv]; exact ⟨hpci, trivial, trivial, hrun, trivial⟩)
                  (by intro x hx; simp [keepServed, sameWait, hpc] at hx)
              | pendingIds ids => exact hfact.elim
              | completePres pres => exact hfact.elim
              | waitPre x => exact hfact.elim
              | waitCode => exact hfact.elim
            | listed cell => simp only [OFact] at hfact
            | listErr => simp only [OFact] at hfact
            | written g0 => simp only [OFact] at hfact
            | writeErr => simp only [OFact] at hfact
          | inWait f w =>
            simp only [OPc.outstanding, PPc.outstanding, List.mem_map] at hc
            obtain ⟨pq, hpq, rfl⟩ := hc
            cases r with
            | prov pr =>
              simp only [OFact, ownerWpc] at hfact
              have hw' := wDeliver_inv hpci.2.1 hpq hfact
              simp only [ownerCont, pDeliver]
              generalize hwd : wDeliver w pq pr = w' at hw'
              cases w' with
              | ret res =>
                cases res with
                | some pre =>
                  cases f <;> simp only [finishWait, afterPay, Bool.false_eq_true, if_false, if_true, applyONext_stay, applyONext_finish, applyONext_finishBk, applyONext_pay]
                  · -- a direct wait inside `paying` does not occur, but is harmless: the task goes on waiting
                    exact absurd hpci.2.2.2.2 (by simp)
                  · exact sinv_owner_to_bk h hrun _ (by unfold BkInv; exact hw')
                | none =>
                  cases f <;> simp only [finishWait, afterPay, Bool.false_eq_true, if_false, if_true, applyONext_stay, applyONext_finish, applyONext_finishBk, applyONext_pay]
                  · exact absurd hpci.2.2.2.2 (by simp)
                  · exact sinv_owner_to_bk h hrun _ (by unfold BkInv; exact ⟨hpci.1.2.1, fun _ => ⟨hw', hrun⟩⟩)
                | err => exact hw'.elim
              | seqPending =>
                simp only [finishWait, afterPay, applyONext_stay, applyONext_finish, applyONext_finishBk, applyONext_pay]
                apply sinv_owner_stay h e e o hact hrun _ _ (by simp only [OPcInv]; exact ⟨hpci.1, hw', trivial, hpci.2.2.2⟩)
                intro x hx
                have ⟨_, hne, hxs, hxq⟩ := keepServed_mem hx
                exact wait_keep_facts (pcOld := .paying aid g (.inWait f w)) (pcNew := .paying aid g (.inWait f .seqPending)) rfl (by rw [← hwd]; rfl) rfl (by rw [← hwd]; rfl)
                  hpci.2.1 hpq o.served hserved x hxs hxq hne
              | seqComplete pend =>
                simp only [finishWait, afterPay, applyONext_stay, applyONext_finish, applyONext_finishBk, applyONext_pay]
                apply sinv_owner_stay h e e o hact hrun _ _ (by simp only [OPcInv]; exact ⟨hpci.1, hw', trivial, hpci.2.2.2⟩)
                intro x hx
                have ⟨_, hne, hxs, hxq⟩ := keepServed_mem hx
                exact wait_keep_facts (pcOld := .paying aid g (.inWait f w)) (pcNew := .paying aid g (.inWait f (.seqComplete pend))) rfl (by rw [← hwd]; rfl) rfl (by rw [← hwd]; rfl)
                  hpci.2.1 hpq o.served hserved x hxs hxq hne
              | waiting rem =>
                simp only [finishWait, afterPay, applyONext_stay, applyONext_finish, applyONext_finishBk, applyONext_pay]
                apply sinv_owner_stay h e e o hact hrun _ _ (by simp only [OPcInv]; exact ⟨hpci.1, hw', trivial, hpci.2.2.2⟩)
                intro x hx
                have ⟨_, hne, hxs, hxq⟩ := keepServed_mem hx
                exact wait_keep_facts (pcOld := .paying aid g (.inWait f w)) (pcNew := .paying aid g (.inWait f (.waiting rem))) rfl (by rw [← hwd]; rfl) rfl (by rw [← hwd]; rfl)
                  hpci.2.1 hpq o.served hserved x hxs hxq hne
              | conc c0 p0 => exact hw'.elim
            | listed cell => simp only [OFact] at hfact
            | listErr => simp only [OFact] at hfact
            | written g0 => simp only [OFact] at hfact
            | writeErr => simp only [OFact] at hfact
    · simp at hs

end Tramp
