/- Over a whole run no `htlc_accepted` call is answered twice (C06 "exactly one response", the
   at-most-once half at the level of histories; C07's "one resolution per set" is its by-product).
   Ids are allocated from a counter, a held call is in the listener list of the one active entry,
   and answering removes the entry. -/
import Tramp.Proofs.SysProbe
import Tramp.Proofs.SysMisc

namespace Tramp

/-- the ids of the calls answered by a list of outputs, in order -/
def respIds (outs : List Out) : List Nat :=
  outs.filterMap fun o => match o with
    | .resp i _ => some i.id
    | _ => none

theorem respIds_append (a b : List Out) : respIds (a ++ b) = respIds a ++ respIds b := by
  simp [respIds, List.filterMap_append]

theorem respIds_respAll (e : PEntry) (r : Resp) : respIds (respAll e r) = e.listeners.map (·.id) := by
  simp only [respIds, respAll, List.filterMap_map]
  induction e.listeners with
  | nil => rfl
  | cons x xs ih => simp [ih]

/-- how the set of held calls evolves in one step: a held call was held before, or is the one call
    that just arrived (and got the counter's value) -/
def LStep (s s' : SState) : Prop :=
  s.nextInv ≤ s'.nextInv ∧
  ∀ e' o', s'.active = some (e', o') → ∀ i ∈ e'.listeners,
    (∃ e o, s.active = some (e, o) ∧ i ∈ e.listeners) ∨ i.id = s.nextInv

theorem lstep_same {s s' : SState} (ha : s'.active = s.active) (hn : s'.nextInv = s.nextInv) : LStep s s' :=
  ⟨by omega, fun e' o' h i hi => Or.inl ⟨e', o', by rw [← ha]; exact h, hi⟩⟩

theorem lstep_none {s s' : SState} (ha : s'.active = none) (hn : s.nextInv ≤ s'.nextInv) : LStep s s' :=
  ⟨hn, fun e' o' h => by rw [ha] at h; simp at h⟩

/-- same entry, possibly another owner state -/
theorem lstep_entry {s s' : SState} {e : PEntry} {o o' : Owner} (ha : s.active = some (e, o))
    (ha' : s'.active = some (e, o')) (hn : s.nextInv ≤ s'.nextInv) : LStep s s' := by
  refine ⟨hn, ?_⟩
  intro e1 o1 h i hi
  rw [ha'] at h; simp only [Option.some.injEq, Prod.mk.injEq] at h
  obtain ⟨rfl, _⟩ := h
  exact Or.inl ⟨e, o, ha, hi⟩

theorem lstep_serveOwner {s s' : SState} {outs : List Out} (q : SReq) (res : Option (SState × SReply))
    (hres : ∀ s1 r, res = some (s1, r) → s1.active = s.active ∧ s1.nextInv = s.nextInv)
    (hs : stepServeOwner .current s q res = some (s', outs)) : LStep s s' := by
  unfold stepServeOwner at hs
  cases hact : s.active with
  | none => rw [hact] at hs; simp at hs
  | some p =>
    obtain ⟨e, o⟩ := p
    rw [hact] at hs
    cases hr : res with
    | none => rw [hr] at hs; simp at hs
    | some p1 =>
      obtain ⟨s1, r⟩ := p1
      rw [hr] at hs
      simp only at hs
      split at hs
      · simp only [Option.some.injEq, Prod.mk.injEq] at hs
        rw [← hs.1]
        have hn := (hres s1 r hr).2
        exact lstep_entry (o' := { o with served := o.served ++ [(q, r)] }) hact rfl (by simp [hn])
      · simp at hs

theorem lstep_serveBk {s s' : SState} {outs : List Out} (id : Nat) (q : SReq) (res : Option (SState × SReply))
    (hres : ∀ s1 r, res = some (s1, r) → s1.active = s.active ∧ s1.nextInv = s.nextInv)
    (hs : stepServeBk .current s id q res = some (s', outs)) : LStep s s' := by
  unfold stepServeBk at hs
  cases hf : findBk s.bks id with
  | none => rw [hf] at hs; simp at hs
  | some b =>
    rw [hf] at hs
    cases hr : res with
    | none => rw [hr] at hs; simp at hs
    | some p1 =>
      obtain ⟨s1, r⟩ := p1
      rw [hr] at hs
      simp only at hs
      split at hs
      · simp only [Option.some.injEq, Prod.mk.injEq] at hs
        rw [← hs.1]
        have ⟨ha, hn⟩ := hres s1 r hr
        exact lstep_same (by simp [ha]) (by simp [hn])
      · simp at hs

theorem sstep_lstep (c : Cfg) {s s' : SState} {outs : List Out} (a : SAct)
    (hs : sstep c .current s a = some (s', outs)) : LStep s s' := by
  cases a with
  | arrive info amount expiry relExp total =>
    simp only [sstep, stepArrive, SVariant.current, Bool.false_and, Bool.false_eq_true, if_false] at hs
    cases hact : s.active with
    | none =>
      rw [hact] at hs
      simp only [Option.some.injEq, Prod.mk.injEq] at hs
      rw [← hs.1]
      refine ⟨by simp, ?_⟩
      intro e' o' h i hi
      simp only [Option.some.injEq, Prod.mk.injEq] at h
      obtain ⟨rfl, _⟩ := h
      rw [add_listeners, checks_listeners] at hi
      simp [PEntry.new] at hi
      right; rw [hi]
    | some p =>
      obtain ⟨e0, o0⟩ := p
      rw [hact] at hs
      simp only [Option.some.injEq, Prod.mk.injEq] at hs
      rw [← hs.1]
      refine ⟨by simp, ?_⟩
      intro e' o' h i hi
      simp only [Option.some.injEq, Prod.mk.injEq] at h
      obtain ⟨rfl, _⟩ := h
      rw [add_listeners, checks_listeners] at hi
      rcases List.mem_append.mp hi with hi | hi
      · exact Or.inl ⟨e0, o0, hact, hi⟩
      · simp at hi; right; rw [hi]
  | tickMono dt => simp only [sstep, Option.some.injEq, Prod.mk.injEq] at hs; rw [← hs.1]; exact lstep_same rfl rfl
  | tickWall dt => simp only [sstep, Option.some.injEq, Prod.mk.injEq] at hs; rw [← hs.1]; exact lstep_same rfl rfl
  | block n => simp only [sstep, Option.some.injEq, Prod.mk.injEq] at hs; rw [← hs.1]; exact lstep_same rfl rfl
  | crash => simp only [sstep, Option.some.injEq, Prod.mk.injEq] at hs; rw [← hs.1]; exact lstep_none rfl (Nat.le_refl _)
  | create id =>
    simp only [sstep] at hs
    split at hs
    · simp only [Option.some.injEq, Prod.mk.injEq] at hs; rw [← hs.1]; exact lstep_same rfl rfl
    · simp at hs
  | resolve id st =>
    simp only [sstep] at hs
    split at hs
    · simp only [Option.some.injEq, Prod.mk.injEq] at hs; rw [← hs.1]; exact lstep_same rfl rfl
    · simp at hs
  | payEnd r =>
    simp only [sstep] at hs
    cases hact : s.active with
    | none => rw [hact] at hs; simp at hs
    | some p =>
      obtain ⟨e, o⟩ := p
      rw [hact] at hs
      simp only at hs
      split at hs
      · split at hs
        · simp only [Option.some.injEq, Prod.mk.injEq] at hs; rw [← hs.1]
          exact lstep_entry hact rfl (Nat.le_refl _)
        · simp at hs
      · simp at hs
  | serve t q =>
    cases t with
    | owner =>
      simp only [sstep] at hs
      split at hs
      · simp at hs
      · exact lstep_serveOwner q _ (fun s1 r hr => nodeServe_frame hr) hs
    | bk id =>
      simp only [sstep] at hs
      exact lstep_serveBk id q _ (fun s1 r hr => nodeServe_frame hr) hs
  | fault t q f =>
    cases t with
    | owner =>
      simp only [sstep] at hs
      exact lstep_serveOwner q _ (fun s1 r hr => nodeFault_frame hr) hs
    | bk id =>
      simp only [sstep] at hs
      exact lstep_serveBk id q _ (fun s1 r hr => nodeFault_frame hr) hs
  | deliver t q =>
    cases t with
    | owner =>
      simp only [sstep, stepDeliverOwner] at hs
      cases hact : s.active with
      | none => rw [hact] at hs; simp at hs
      | some p =>
        obtain ⟨e, o⟩ := p
        rw [hact] at hs
        simp only at hs
        split at hs
        · cases hl : lookupS o.served q with
          | none => rw [hl] at hs; simp at hs
          | some r =>
            rw [hl] at hs
            simp only [Option.some.injEq] at hs
            cases hn : ownerCont c .current s o.pc q r <;> rw [hn] at hs <;>
              simp only [applyONext, Prod.mk.injEq] at hs <;> rw [← hs.1]
            · exact lstep_entry hact rfl (Nat.le_refl _)
            · exact lstep_entry hact rfl (Nat.le_refl _)
            · exact lstep_none rfl (Nat.le_refl _)
            · exact lstep_none rfl (Nat.le_refl _)
            · exact lstep_entry hact rfl (Nat.le_refl _)
        · simp at hs
    | bk id =>
      simp only [sstep, stepDeliverBk] at hs
      repeat' split at hs
      all_goals first
        | (simp only [Option.some.injEq, Prod.mk.injEq] at hs; rw [← hs.1]; exact lstep_same rfl rfl)
        | simp at hs
  | timerFire =>
    simp only [sstep] at hs
    repeat' split at hs
    all_goals first
      | (simp only [Option.some.injEq, Prod.mk.injEq] at hs; rw [← hs.1]; exact lstep_none rfl (Nat.le_refl _))
      | simp at hs
  | takeFail =>
    simp only [sstep] at hs
    repeat' split at hs
    all_goals first
      | (simp only [Option.some.injEq, Prod.mk.injEq] at hs; rw [← hs.1]; exact lstep_none rfl (Nat.le_refl _))
      | simp at hs
  | takeReady =>
    simp only [sstep] at hs
    cases hact : s.active with
    | none => rw [hact] at hs; simp at hs
    | some p =>
      obtain ⟨e, o⟩ := p
      rw [hact] at hs
      simp only at hs
      repeat' split at hs
      all_goals first
        | (simp only [Option.some.injEq, Prod.mk.injEq] at hs; rw [← hs.1]
           refine ⟨Nat.le_refl _, ?_⟩
           intro e1 o1 h i hi
           simp only [Option.some.injEq, Prod.mk.injEq] at h
           obtain ⟨rfl, _⟩ := h
           exact Or.inl ⟨e, o, hact, hi⟩)
        | simp at hs
  | readParams =>
    simp only [sstep] at hs
    cases hact : s.active with
    | none => rw [hact] at hs; simp at hs
    | some p =>
      obtain ⟨e, o⟩ := p
      rw [hact] at hs
      simp only at hs
      repeat' split at hs
      all_goals first
        | (simp only [Option.some.injEq, Prod.mk.injEq] at hs; rw [← hs.1]; exact lstep_entry hact rfl (Nat.le_refl _))
        | simp at hs
  | readHeight =>
    simp only [sstep] at hs
    cases hact : s.active with
    | none => rw [hact] at hs; simp at hs
    | some p =>
      obtain ⟨e, o⟩ := p
      rw [hact] at hs
      simp only at hs
      repeat' split at hs
      all_goals first
        | (simp only [Option.some.injEq, Prod.mk.injEq] at hs; rw [← hs.1]; exact lstep_entry hact rfl (Nat.le_refl _))
        | simp at hs

/-- what has been answered so far (`past`) against the current state -/
structure Once (s : SState) (past : List Nat) : Prop where
  nodup : past.Nodup
  below : ∀ x ∈ past, x < s.nextInv
  fresh : ∀ e o, s.active = some (e, o) → ∀ i ∈ e.listeners, i.id ∉ past

theorem once_init : Once SState.init [] :=
  ⟨List.nodup_nil, by simp, by simp⟩

/-- one step extends the history of answers without repeating an id -/
theorem once_step (c : Cfg) {s s' : SState} {outs : List Out} {past : List Nat} (a : SAct)
    (h : SInv .current s) (he : EInvS c s) (ho : Once s past)
    (hs : sstep c .current s a = some (s', outs)) : Once s' (past ++ respIds outs) := by
  have hl := sstep_lstep c a hs
  have silent : respIds outs = [] → Once s' (past ++ respIds outs) := by
    intro h0
    rw [h0, List.append_nil]
    refine ⟨ho.nodup, fun x hx => Nat.lt_of_lt_of_le (ho.below x hx) hl.1, ?_⟩
    intro e' o' ha' i hi hmem
    rcases hl.2 e' o' ha' i hi with ⟨e, o, ha, hi0⟩ | hid
    · exact ho.fresh e o ha i hi0 hmem
    · have := ho.below _ hmem; omega
  cases step_emit c a h he hs with
  | silent h0 => exact silent (by rw [h0]; rfl)
  | paid e o aid g mf md ha hpc h0 _ _ _ => exact silent (by rw [h0]; rfl)
  | answered e o r ha h0 hnone _ =>
    rw [h0, respIds_respAll]
    have hids := (he e o ha).ids
    refine ⟨?_, ?_, ?_⟩
    · refine List.nodup_append.mpr ⟨ho.nodup, hids.1, ?_⟩
      intro x hx y hy hxy
      subst hxy
      obtain ⟨i, hi, rfl⟩ := List.mem_map.mp hy
      exact ho.fresh e o ha i hi hx
    · intro x hx
      rcases List.mem_append.mp hx with hx | hx
      · exact Nat.lt_of_lt_of_le (ho.below x hx) hl.1
      · obtain ⟨i, hi, rfl⟩ := List.mem_map.mp hx
        exact Nat.lt_of_lt_of_le (hids.2 i hi) hl.1
    · intro e' o' ha'; rw [hnone] at ha'; simp at ha'

/-- over any run (any interleaving, crash points, write faults) the ids answered are pairwise distinct -/
theorem once_run (c : Cfg) (acts : List SAct) (s s' : SState) (past : List Nat) (outs : List Out)
    (h : SInv .current s) (he : EInvS c s) (hb : RecvBounded s) (ho : Once s past) (hf : WriteFaultsOnly acts)
    (hr : srunO c .current s acts = some (s', outs)) : Once s' (past ++ respIds outs) := by
  induction acts generalizing s past outs with
  | nil => simp [srunO] at hr; obtain ⟨rfl, rfl⟩ := hr; simpa [respIds] using ho
  | cons a as ih =>
    simp only [srunO] at hr
    cases h1 : sstep c .current s a with
    | none => rw [h1] at hr; simp at hr
    | some p =>
      obtain ⟨s1, o1⟩ := p
      rw [h1] at hr
      simp only at hr
      cases h2 : srunO c .current s1 as with
      | none => rw [h2] at hr; simp at hr
      | some p2 =>
        obtain ⟨s2, o2⟩ := p2
        rw [h2] at hr
        simp only [Option.some.injEq, Prod.mk.injEq] at hr
        obtain ⟨rfl, rfl⟩ := hr
        have hfa : a.writeFaultOnly := hf a (by simp)
        have hfs : WriteFaultsOnly as := fun x hx => hf x (by simp [hx])
        have h' := sstep_inv c a h hfa h1
        have he' := estep_inv c a he hb h1
        have ho' := once_step c a h he ho h1
        have := ih s1 (past ++ respIds o1) o2 h' he'.1 he'.2 ho' hfs h2
        rw [respIds_append, ← List.append_assoc]; exact this

end Tramp
