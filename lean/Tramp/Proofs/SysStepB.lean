/- Preservation of the system invariant, part B: datastore effects, serving requests, faults. -/
import Tramp.Proofs.SysStepA

namespace Tramp

/-- every stored generation is below `g'` (what a successful write returns) -/
def dsNewer (s : SState) (g' : Nat) : Prop := ∀ v g, s.ds = some (v, g) → g < g'

theorem dsWrite_cor {α : Type} (cell : Option (α × Nat)) (v : α) :
    ∃ g', dsWrite cell .createOrReplace v = (some (v, g'), some g') ∧ ∀ o g, cell = some (o, g) → g < g' := by
  cases cell with
  | none => exact ⟨0, rfl, by simp⟩
  | some p => obtain ⟨o, g⟩ := p; exact ⟨g + 1, rfl, by intro o' g' h; simp at h; omega⟩

theorem dsWrite_mr {α : Type} (cell : Option (α × Nat)) (v : α) (gw : Nat) :
    (∃ o, cell = some (o, gw) ∧ dsWrite cell (.mustReplace (some gw)) v = (some (v, gw + 1), some (gw + 1))) ∨
    (dsWrite cell (.mustReplace (some gw)) v = (cell, none)) := by
  cases cell with
  | none => right; rfl
  | some p =>
    obtain ⟨o, g⟩ := p
    by_cases h : g = gw
    · left; subst h; exact ⟨o, rfl, by simp [dsWrite]⟩
    · right; simp [dsWrite, h]

theorem pastMarker_gen_up {s : SState} {g : Nat} (v' : DsVal) (g' : Nat) (hv : v' ≠ .free) (hnew : dsNewer s g')
    (h : PastMarker s g) : PastMarker { s with ds := some (v', g') } g := by
  obtain ⟨h1, ⟨v0, g0, hds, hle⟩, h3⟩ := h
  refine ⟨h1, ⟨v', g', rfl, ?_⟩, ⟨v', g', rfl, hv⟩⟩
  have := hnew v0 g0 hds
  omega

theorem bkInv_gen_up {s : SState} {b : Bk} (v' : DsVal) (g' : Nat) (hnew : dsNewer s g') (h : BkInv s b) :
    BkInv { s with ds := some (v', g') } b := by
  unfold BkInv at *
  cases hb : b.pc with
  | succS aid pre => rw [hb] at h; exact h
  | succA aid => trivial
  | failA aid g =>
    rw [hb] at h
    obtain ⟨⟨v0, g0, hds, hle⟩, _⟩ := h
    have := hnew v0 g0 hds
    refine ⟨⟨v', g', rfl, by omega⟩, ?_⟩
    rintro ⟨v1, h1⟩
    simp only [Option.some.injEq, Prod.mk.injEq] at h1
    omega
  | failS aid g =>
    rw [hb] at h
    obtain ⟨⟨v0, g0, hds, hle⟩, _⟩ := h
    have := hnew v0 g0 hds
    refine ⟨⟨v', g', rfl, by omega⟩, ?_⟩
    rintro ⟨v1, h1⟩
    simp only [Option.some.injEq, Prod.mk.injEq] at h1
    omega

theorem oFact_ds_nonfree {s : SState} {pc : OPc} {x : SReq × SReply} (v' : DsVal) (g' : Nat) (hv : v' ≠ .free)
    (hnew : dsNewer s g') (h : OFact s pc x) : OFact { s with ds := some (v', g') } pc x := by
  obtain ⟨q, r⟩ := x
  cases q <;> cases r <;> simp only [OFact] at h ⊢ <;> try exact h
  case dsList.listed cell =>
    rcases cell with _ | ⟨v, g⟩
    · exact h
    · cases v <;> simp only at h ⊢ <;> exact h
  case dsWriteState.written v m g =>
    cases v <;> simp only at h ⊢
    exact pastMarker_gen_up v' g' hv hnew h

theorem oPcInv_ds_nonfree {s : SState} {pc : OPc} (v' : DsVal) (g' : Nat) (hv : v' ≠ .free)
    (hnew : dsNewer s g') (h : OPcInv s pc) : OPcInv { s with ds := some (v', g') } pc := by
  cases pc with
  | addA aid g mf md => exact ⟨h.1, pastMarker_gen_up v' g' hv hnew h.2⟩
  | paying aid g p =>
    cases p with
    | paying => exact pastMarker_gen_up v' g' hv hnew h
    | inWait f w => exact ⟨pastMarker_gen_up v' g' hv hnew h.1, h.2⟩
    | retWait r => exact h
    | retPay r => exact h
  | fetch => trivial
  | rWait _ _ _ _ => exact h
  | rFailA _ _ _ => exact h
  | rFailS _ _ _ => exact h
  | waitHtlcs _ => exact h
  | gotReady => exact h
  | gotParams _ _ => exact h
  | addS _ _ _ _ => exact h
  | panicked => trivial

/-- a Pending or Succeeded value is stored with a fresh generation -/
theorem sinv_ds_nonfree {v : SVariant} {s : SState} (h : SInv v s) (v' : DsVal) (g' : Nat) (hv : v' ≠ .free)
    (hnew : dsNewer s g') (hsucc : ∀ pre, v' = .succeeded pre → HasComplete s.parts pre) :
    SInv v { s with ds := some (v', g') } := by
  refine ⟨h.nodup, h.payOwn, fun _ => ⟨v', g', rfl, hv⟩, ?_, ?_, ?_, h.bkIds⟩
  · intro pre g hds
    simp only [Option.some.injEq, Prod.mk.injEq] at hds
    exact hsucc pre hds.1
  · intro e o hact
    have ⟨h1, h2⟩ := h.owner e o hact
    exact ⟨oPcInv_ds_nonfree v' g' hv hnew h1, fun x hx => ⟨(h2 x hx).1, oFact_ds_nonfree v' g' hv hnew (h2 x hx).2⟩⟩
  · intro b hb; exact bkInv_gen_up v' g' hnew (h.bks b hb)

/-- nobody relies on the stored state being non-free -/
def NoClaim (s : SState) : Prop :=
  ∀ e o, s.active = some (e, o) →
    (∀ aid g mf md, o.pc ≠ .addA aid g mf md) ∧ (∀ aid g p, o.pc ≠ .paying aid g p) ∧
    (∀ x ∈ o.served, ∀ aid t m g, x ≠ (.dsWriteState (.pending aid t) m, .written g))

theorem oFact_ds_free {s : SState} {pc : OPc} {x : SReq × SReply} (g' : Nat)
    (hx : ∀ aid t m g, x ≠ (.dsWriteState (.pending aid t) m, .written g))
    (h : OFact s pc x) : OFact { s with ds := some (.free, g') } pc x := by
  obtain ⟨q, r⟩ := x
  cases q <;> cases r <;> simp only [OFact] at h ⊢ <;> try exact h
  case dsList.listed cell =>
    rcases cell with _ | ⟨v, g⟩
    · exact h
    · cases v <;> simp only at h ⊢ <;> exact h
  case dsWriteState.written v m g =>
    cases v <;> simp only at h ⊢
    exact absurd rfl (hx _ _ m g)

/-- Free is stored (guarded write landed): allowed when nothing is live and nobody holds a marker -/
theorem sinv_ds_free {v : SVariant} {s : SState} (h : SInv v s) (g' : Nat) (hq : s.quiet)
    (hnew : dsNewer s g') (hnc : NoClaim s) : SInv v { s with ds := some (.free, g') } := by
  refine ⟨h.nodup, h.payOwn, fun hn => absurd hq hn, ?_, ?_, ?_, h.bkIds⟩
  · intro pre g hds; simp at hds
  · intro e o hact
    have ⟨h1, h2⟩ := h.owner e o hact
    have ⟨n1, n2, n3⟩ := hnc e o hact
    refine ⟨?_, fun x hx => ⟨(h2 x hx).1, oFact_ds_free g' (n3 x hx) (h2 x hx).2⟩⟩
    cases hpc : o.pc with
    | addA aid g mf md => exact absurd hpc (n1 aid g mf md)
    | paying aid g p => exact absurd hpc (n2 aid g p)
    | fetch => trivial
    | rWait _ _ _ _ => rw [hpc] at h1; exact h1
    | rFailA _ _ _ => rw [hpc] at h1; exact h1
    | rFailS _ _ _ => rw [hpc] at h1; exact h1
    | waitHtlcs _ => rw [hpc] at h1; exact h1
    | gotReady => rw [hpc] at h1; exact h1
    | gotParams _ _ => rw [hpc] at h1; exact h1
    | addS _ _ _ _ => rw [hpc] at h1; exact h1
    | panicked => trivial
  · intro b hb; exact bkInv_gen_up .free g' hnew (h.bks b hb)

/-- the attempt records are not read by the invariant -/
theorem sinv_attempts {v : SVariant} {s : SState} (h : SInv v s) (as' : List Nat) :
    SInv v { s with attempts := as' } := sinv_frame h rfl rfl rfl rfl rfl rfl

/-- a reply has been computed for the owner and waits to be consumed -/
theorem sinv_owner_served {v : SVariant} {s : SState} (h : SInv v s) (e : PEntry) (o : Owner)
    (hact : s.active = some (e, o)) (q : SReq) (r : SReply) (hq : q ∈ o.pc.outstanding v)
    (hf : OFact s o.pc (q, r)) (hnp : q ≠ .prov .pay) :
    SInv v { s with active := some (e, { o with served := o.served ++ [(q, r)] }) } := by
  refine ⟨h.nodup, ?_, h.wal, h.succ, ?_, h.bks, h.bkIds⟩
  · intro hrun
    obtain ⟨e0, o0, aid, g, ha, hpc, hs⟩ := h.payOwn hrun
    rw [hact] at ha; simp only [Option.some.injEq, Prod.mk.injEq] at ha
    obtain ⟨_, rfl⟩ := ha
    rw [hpc] at hq
    simp only [OPc.outstanding, PPc.outstanding, List.map_cons, List.map_nil, List.mem_singleton] at hq
    exact absurd hq hnp
  · intro e1 o1 ha
    simp only [Option.some.injEq, Prod.mk.injEq] at ha
    obtain ⟨_, rfl⟩ := ha
    have ⟨h1, h2⟩ := h.owner e o hact
    refine ⟨h1, ?_⟩
    intro x hx
    simp only [List.mem_append, List.mem_singleton] at hx
    rcases hx with hx | rfl
    · exact h2 x hx
    · exact ⟨hq, hf⟩

end Tramp

namespace Tramp

theorem failMode_current : failMode SVariant.current = .createOrReplace := rfl

theorem ds_quiet_of_free {v : SVariant} {s : SState} (h : SInv v s) :
    (s.ds = none ∨ ∃ g, s.ds = some (.free, g)) → s.quiet := by
  intro hd
  apply Classical.byContradiction
  intro hnq
  obtain ⟨v0, g0, hds, hne⟩ := h.wal hnq
  rcases hd with hd | ⟨g, hd⟩
  · rw [hd] at hds; simp at hds
  · rw [hd] at hds; simp only [Option.some.injEq, Prod.mk.injEq] at hds; exact hne hds.1.symm

/-- the owner's own requests, by program counter (current variant) -/
theorem owner_write_state_cases {pc : OPc} {v' : DsVal} {m : DsMode}
    (h : SReq.dsWriteState v' m ∈ pc.outstanding SVariant.current) :
    (∃ aid g t, pc = .rFailS aid g t ∧ v' = .free ∧ m = .mustReplace (some g)) ∨
    (∃ aid t mf md, pc = .addS aid t mf md ∧ v' = .pending aid t ∧ m = .createOrReplace) := by
  cases pc <;> simp only [OPc.outstanding, List.mem_singleton, List.mem_map, List.mem_nil_iff, SReq.dsWriteState.injEq,
    reduceCtorEq, false_and, and_false, exists_false] at h
  case rFailS aid g t => left; exact ⟨aid, g, t, rfl, h.1, h.2⟩
  case addS aid t mf md => right; exact ⟨aid, t, mf, md, rfl, h.1, h.2⟩

/-- The node serves a request of the owner truthfully: the node state moves to `s1`, the invariant
    holds there, and the reply carries its fact. -/
theorem node_effect_owner {s s1 : SState} {r : SReply} (h : SInv .current s) (e : PEntry) (o : Owner)
    (hact : s.active = some (e, o)) (q : SReq) (hq : q ∈ o.pc.outstanding .current)
    (hres : nodeServe s q = some (s1, r)) :
    SInv .current s1 ∧ s1.active = s.active ∧ OFact s1 o.pc (q, r) := by
  have ⟨hpcinv, hserved⟩ := h.owner e o hact
  cases q with
  | dsList =>
    simp only [nodeServe, Option.some.injEq, Prod.mk.injEq] at hres
    obtain ⟨rfl, rfl⟩ := hres
    refine ⟨h, rfl, ?_⟩
    simp only [OFact]
    cases hds : s.ds with
    | none => exact ds_quiet_of_free h (Or.inl hds)
    | some cell =>
      obtain ⟨v0, g0⟩ := cell
      cases v0 with
      | free => exact ds_quiet_of_free h (Or.inr ⟨g0, hds⟩)
      | pending aid t => trivial
      | succeeded pre => exact h.succ pre g0 hds
  | dsWriteAttempt aid m =>
    simp only [nodeServe] at hres
    cases haw : attemptWrite s.attempts aid m with
    | some as' =>
      rw [haw] at hres
      simp only [Option.some.injEq, Prod.mk.injEq] at hres
      obtain ⟨rfl, rfl⟩ := hres
      exact ⟨sinv_attempts h as', rfl, by simp only [OFact]⟩
    | none =>
      rw [haw] at hres
      simp only [Option.some.injEq, Prod.mk.injEq] at hres
      obtain ⟨rfl, rfl⟩ := hres
      exact ⟨h, rfl, by simp only [OFact]⟩
  | prov pq =>
    simp only [nodeServe] at hres
    split at hres
    · rename_i pr hpr
      simp only [Option.some.injEq, Prod.mk.injEq] at hres
      obtain ⟨rfl, rfl⟩ := hres
      refine ⟨h, rfl, ?_⟩
      simp only [OFact]
      exact servedFact_serveRead _ _ h.nodup hpr
    · simp at hres
  | dsWriteState v' m =>
    rcases owner_write_state_cases hq with ⟨aid, g, t, hpc, rfl, rfl⟩ | ⟨aid, t, mf, md, hpc, rfl, rfl⟩
    · -- restart path: guarded Free write
      have hqt : s.quiet := by rw [hpc] at hpcinv; exact hpcinv
      simp only [nodeServe] at hres
      rcases dsWrite_mr s.ds DsVal.free g with ⟨o0, hds, hw⟩ | hw
      · rw [hw] at hres
        simp only [Option.some.injEq, Prod.mk.injEq] at hres
        obtain ⟨rfl, rfl⟩ := hres
        have hnc : NoClaim s := by
          intro e1 o1 ha
          rw [hact] at ha; simp only [Option.some.injEq, Prod.mk.injEq] at ha
          obtain ⟨_, rfl⟩ := ha
          refine ⟨by intro a b c d; rw [hpc]; simp, by intro a b c; rw [hpc]; simp, ?_⟩
          intro x hx aid' t' m' g' hxe
          have := (hserved x hx).1
          rw [hpc, hxe] at this
          simp [OPc.outstanding] at this
        have hnew : dsNewer s (g + 1) := by
          intro v0 g0 hd; rw [hds] at hd; simp only [Option.some.injEq, Prod.mk.injEq] at hd; omega
        exact ⟨sinv_ds_free h (g + 1) hqt hnew hnc, rfl, by simp only [OFact]⟩
      · rw [hw] at hres
        simp only [Option.some.injEq, Prod.mk.injEq] at hres
        obtain ⟨rfl, rfl⟩ := hres
        exact ⟨h, rfl, by simp only [OFact]⟩
    · -- the in-flight marker
      simp only [nodeServe] at hres
      obtain ⟨g', hw, hnewer⟩ := dsWrite_cor s.ds (DsVal.pending aid t)
      rw [hw] at hres
      simp only [Option.some.injEq, Prod.mk.injEq] at hres
      obtain ⟨rfl, rfl⟩ := hres
      have hnew : dsNewer s g' := fun v0 g0 hd => hnewer v0 g0 hd
      have h1 := sinv_ds_nonfree h (.pending aid t) g' (by simp) hnew (by intro pre hp; simp at hp)
      refine ⟨h1, rfl, ?_⟩
      simp only [OFact]
      refine ⟨?_, ⟨_, g', rfl, Nat.le_refl _⟩, ⟨_, g', rfl, by simp⟩⟩
      intro b hb gb hgb
      have hbi := h.bks b hb
      unfold BkInv at hbi
      cases hbp : b.pc with
      | succS a p => rw [hbp] at hgb; simp [BPc.failGen] at hgb
      | succA a => rw [hbp] at hgb; simp [BPc.failGen] at hgb
      | failA a g0 =>
        rw [hbp] at hgb hbi; simp only [BPc.failGen, Option.some.injEq] at hgb; subst hgb
        obtain ⟨⟨v1, g1, hd1, hle⟩, _⟩ := hbi
        have := hnewer v1 g1 hd1; omega
      | failS a g0 =>
        rw [hbp] at hgb hbi; simp only [BPc.failGen, Option.some.injEq] at hgb; subst hgb
        obtain ⟨⟨v1, g1, hd1, hle⟩, _⟩ := hbi
        have := hnewer v1 g1 hd1; omega

theorem oFact_writeErr (s : SState) (pc : OPc) (q : SReq) (hw : q.isWrite = true) : OFact s pc (q, .writeErr) := by
  cases q with
  | dsWriteState v m => cases v <;> simp only [OFact]
  | dsWriteAttempt aid m => simp only [OFact]
  | dsList => simp [SReq.isWrite] at hw
  | prov pq => simp [SReq.isWrite] at hw

/-- common shape of "a reply is parked for the owner" -/
theorem sinv_stepServeOwner {s s' : SState} {outs : List Out} (h : SInv .current s) (q : SReq)
    (res : Option (SState × SReply)) (hnp : q ≠ .prov .pay)
    (hres : ∀ e o s1 r, s.active = some (e, o) → q ∈ o.pc.outstanding .current → res = some (s1, r) →
      SInv .current s1 ∧ s1.active = s.active ∧ OFact s1 o.pc (q, r))
    (hs : stepServeOwner .current s q res = some (s', outs)) : SInv .current s' := by
  unfold stepServeOwner at hs
  cases hact : s.active with
  | none => rw [hact] at hs; simp at hs
  | some p =>
    obtain ⟨e, o⟩ := p
    rw [hact] at hs
    cases hr : res with
    | none => rw [hr] at hs; simp at hs
    | some p1 =>
      obtain ⟨s1, r⟩ := p1
      rw [hr] at hs
      simp only at hs
      split at hs
      · rename_i hc
        simp only [Bool.and_eq_true, List.contains_iff_mem, Option.isNone_iff_eq_none] at hc
        simp only [Option.some.injEq, Prod.mk.injEq] at hs
        rw [← hs.1]
        have ⟨h1, ha1, hf⟩ := hres e o s1 r hact hc.1 hr
        exact sinv_owner_served h1 e o (by rw [ha1]; exact hact) q r hc.1 hf hnp
      · simp at hs

theorem sinv_serve_owner (c : Cfg) {s s' : SState} {outs : List Out} (h : SInv .current s) (q : SReq)
    (hs : sstep c .current s (.serve .owner q) = some (s', outs)) : SInv .current s' := by
  simp only [sstep] at hs
  split at hs
  · simp at hs
  · rename_i hnp
    have hnp' : q ≠ .prov .pay := by simpa using hnp
    exact sinv_stepServeOwner h q _ hnp' (fun e o s1 r ha hq hr => node_effect_owner h e o ha q hq hr) hs

/-- write faults against the owner: refused, or applied but reported as failed -/
theorem sinv_fault_owner (c : Cfg) {s s' : SState} {outs : List Out} (h : SInv .current s) (q : SReq) (f : Fault)
    (hf : f = .writeReject ∨ f = .writeLostAck)
    (hs : sstep c .current s (.fault .owner q f) = some (s', outs)) : SInv .current s' := by
  simp only [sstep] at hs
  have hnp : q.isWrite = true → q ≠ .prov .pay := by intro hw hq; subst hq; simp [SReq.isWrite] at hw
  rcases hf with rfl | rfl
  · -- refused
    by_cases hw : q.isWrite = true
    · apply sinv_stepServeOwner h q _ (hnp hw) _ hs
      intro e o s1 r ha hq hr
      simp only [nodeFault, hw, if_true, Option.some.injEq, Prod.mk.injEq] at hr
      obtain ⟨rfl, rfl⟩ := hr
      exact ⟨h, rfl, oFact_writeErr _ _ q hw⟩
    · simp only [nodeFault, hw] at hs
      simp [stepServeOwner] at hs
  · -- applied, error reported
    by_cases hw : q.isWrite = true
    · apply sinv_stepServeOwner h q _ (hnp hw) _ hs
      intro e o s1 r ha hq hr
      simp only [nodeFault, hw, if_true] at hr
      cases hn : nodeServe s q with
      | none => rw [hn] at hr; simp at hr
      | some p =>
        obtain ⟨s2, r2⟩ := p
        rw [hn] at hr
        simp only [Option.some.injEq, Prod.mk.injEq] at hr
        obtain ⟨rfl, rfl⟩ := hr
        have ⟨h1, h2, _⟩ := node_effect_owner h e o ha q hq hn
        exact ⟨h1, h2, oFact_writeErr _ _ q hw⟩
    · simp only [nodeFault, hw] at hs
      simp [stepServeOwner] at hs

end Tramp
