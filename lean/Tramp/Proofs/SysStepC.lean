/- Preservation of the system invariant, part C: bookkeepers. -/
import Tramp.Proofs.SysStepB

namespace Tramp

theorem findBk_mem {bks : List Bk} {id : Nat} {b : Bk} (h : findBk bks id = some b) : b ∈ bks ∧ b.id = id := by
  unfold findBk at h
  have h1 := List.find?_some h
  have h2 := List.mem_of_find?_eq_some h
  simp at h1
  exact ⟨h2, h1⟩

theorem setBk_map_id (bks : List Bk) (b' : Bk) : (setBk bks b').map (·.id) = bks.map (·.id) := by
  unfold setBk
  simp only [List.map_map]
  apply List.map_congr_left
  intro x _
  simp only [Function.comp]
  split
  · rename_i h; simp at h; exact h.symm
  · rfl

theorem mem_setBk {bks : List Bk} {b' x : Bk} (h : x ∈ setBk bks b') : x = b' ∨ (x ∈ bks ∧ x.id ≠ b'.id) := by
  unfold setBk at h
  simp only [List.mem_map] at h
  obtain ⟨y, hy, hx⟩ := h
  split at hx
  · left; exact hx.symm
  · rename_i hne; right; subst hx; exact ⟨hy, by simpa using hne⟩

theorem mem_dropBk {bks : List Bk} {id : Nat} {x : Bk} (h : x ∈ dropBk bks id) : x ∈ bks ∧ x.id ≠ id := by
  unfold dropBk at h
  simp only [List.mem_filter, bne_iff_ne, ne_eq] at h
  exact h

theorem bkBelow_mono {s : SState} {bks' : List Bk} {g : Nat}
    (hsub : ∀ x ∈ bks', ∀ gb, x.pc.failGen = some gb → ∃ y ∈ s.bks, y.pc.failGen = some gb)
    (h : BkBelow s g) : BkBelow { s with bks := bks' } g := by
  intro x hx gb hgb
  obtain ⟨y, hy, hyg⟩ := hsub x hx gb hgb
  exact h y hy gb hyg

/-- the bookkeeper list changes without introducing new failure generations -/
theorem sinv_bks {v : SVariant} {s : SState} (h : SInv v s) (bks' : List Bk)
    (hids : (bks'.map (·.id)).Nodup ∧ ∀ b ∈ bks', b.id < s.nextBk)
    (hinv : ∀ b ∈ bks', BkInv s b)
    (hsub : ∀ x ∈ bks', ∀ gb, x.pc.failGen = some gb → ∃ y ∈ s.bks, y.pc.failGen = some gb) :
    SInv v { s with bks := bks' } := by
  have hpm : ∀ g, PastMarker s g → PastMarker { s with bks := bks' } g :=
    fun g hp => ⟨bkBelow_mono hsub hp.1, hp.2.1, hp.2.2⟩
  refine ⟨h.nodup, h.payOwn, h.wal, h.succ, ?_, ?_, hids⟩
  · intro e o hact
    have ⟨h1, h2⟩ := h.owner e o hact
    refine ⟨?_, ?_⟩
    · cases hpc : o.pc with
      | addA aid g mf md => rw [hpc] at h1; exact ⟨h1.1, hpm g h1.2⟩
      | paying aid g p =>
        rw [hpc] at h1
        cases p with
        | paying => exact hpm g h1
        | inWait f w => exact ⟨hpm g h1.1, h1.2⟩
        | retWait r => exact h1
        | retPay r => exact h1
      | fetch => trivial
      | rWait _ _ _ _ => rw [hpc] at h1; exact h1
      | rFailA _ _ _ => rw [hpc] at h1; exact h1
      | rFailS _ _ _ => rw [hpc] at h1; exact h1
      | waitHtlcs _ => rw [hpc] at h1; exact h1
      | gotReady => rw [hpc] at h1; exact h1
      | gotParams _ _ => rw [hpc] at h1; exact h1
      | addS _ _ _ _ => rw [hpc] at h1; exact h1
      | panicked => trivial
    · intro x hx
      refine ⟨(h2 x hx).1, ?_⟩
      have hf := (h2 x hx).2
      obtain ⟨q, r⟩ := x
      cases q <;> cases r <;> simp only [OFact] at hf ⊢ <;> try exact hf
      case dsList.listed cell =>
        rcases cell with _ | ⟨v0, g0⟩
        · exact hf
        · cases v0 <;> simp only at hf ⊢ <;> exact hf
      case dsWriteState.written v0 m g =>
        cases v0 <;> simp only at hf ⊢
        exact hpm g hf
  · intro b hb
    have := hinv b hb
    unfold BkInv at *
    exact this

/-- The node serves a bookkeeper's request truthfully. -/
theorem node_effect_bk {s s1 : SState} {r : SReply} (h : SInv .current s) (b : Bk) (hb : b ∈ s.bks)
    (hres : nodeServe s (b.pc.request .current) = some (s1, r)) :
    SInv .current s1 ∧ s1.bks = s.bks ∧ s1.nextBk = s.nextBk := by
  have hbi := h.bks b hb
  unfold BkInv at hbi
  cases hpc : b.pc with
  | succS aid pre =>
    rw [hpc] at hres hbi
    simp only [BPc.request, nodeServe] at hres
    obtain ⟨g', hw, hnewer⟩ := dsWrite_cor s.ds (DsVal.succeeded pre)
    rw [hw] at hres
    simp only [Option.some.injEq, Prod.mk.injEq] at hres
    obtain ⟨rfl, rfl⟩ := hres
    refine ⟨sinv_ds_nonfree h (.succeeded pre) g' (by simp) (fun v0 g0 hd => hnewer v0 g0 hd) ?_, rfl, rfl⟩
    intro pre' hp; simp only [DsVal.succeeded.injEq] at hp; subst hp; exact hbi
  | succA aid =>
    rw [hpc] at hres
    simp only [BPc.request, nodeServe] at hres
    cases haw : attemptWrite s.attempts aid (.mustReplace none) with
    | some as' =>
      rw [haw] at hres; simp only [Option.some.injEq, Prod.mk.injEq] at hres
      obtain ⟨rfl, rfl⟩ := hres
      exact ⟨sinv_attempts h as', rfl, rfl⟩
    | none =>
      rw [haw] at hres; simp only [Option.some.injEq, Prod.mk.injEq] at hres
      obtain ⟨rfl, rfl⟩ := hres
      exact ⟨h, rfl, rfl⟩
  | failA aid g =>
    rw [hpc] at hres
    simp only [BPc.request, nodeServe] at hres
    cases haw : attemptWrite s.attempts aid (failMode .current) with
    | some as' =>
      rw [haw] at hres; simp only [Option.some.injEq, Prod.mk.injEq] at hres
      obtain ⟨rfl, rfl⟩ := hres
      exact ⟨sinv_attempts h as', rfl, rfl⟩
    | none =>
      rw [haw] at hres; simp only [Option.some.injEq, Prod.mk.injEq] at hres
      obtain ⟨rfl, rfl⟩ := hres
      exact ⟨h, rfl, rfl⟩
  | failS aid g =>
    rw [hpc] at hres hbi
    simp only [BPc.request, nodeServe] at hres
    rcases dsWrite_mr s.ds DsVal.free g with ⟨o0, hds, hw⟩ | hw
    · rw [hw] at hres
      simp only [Option.some.injEq, Prod.mk.injEq] at hres
      obtain ⟨rfl, rfl⟩ := hres
      have hq : s.quiet := hbi.2 ⟨o0, hds⟩
      -- nobody can hold a marker: it would have to be above g and at most the stored generation g
      have hnopm : ∀ g0, ¬ PastMarker s g0 := by
        intro g0 ⟨hbel, ⟨v1, g1, hd1, hle⟩, _⟩
        have := hbel b hb g (by rw [hpc]; rfl)
        rw [hds] at hd1; simp only [Option.some.injEq, Prod.mk.injEq] at hd1
        omega
      have hnc : NoClaim s := by
        intro e o hact
        have ⟨h1, h2⟩ := h.owner e o hact
        refine ⟨?_, ?_, ?_⟩
        · intro a g0 mf md hp; rw [hp] at h1; exact hnopm g0 h1.2
        · intro a g0 p hp
          rw [hp] at h1
          cases p with
          | paying => exact hnopm g0 h1
          | inWait f w => exact hnopm g0 h1.1
          | retWait r => exact h1
          | retPay r => exact h1
        · intro x hx a t m g0 hxe
          have := (h2 x hx).2
          rw [hxe] at this
          simp only [OFact] at this
          exact hnopm g0 this
      have hnew : dsNewer s (g + 1) := by
        intro v0 g0 hd; rw [hds] at hd; simp only [Option.some.injEq, Prod.mk.injEq] at hd; omega
      exact ⟨sinv_ds_free h (g + 1) hq hnew hnc, rfl, rfl⟩
    · rw [hw] at hres
      simp only [Option.some.injEq, Prod.mk.injEq] at hres
      obtain ⟨rfl, rfl⟩ := hres
      exact ⟨h, rfl, rfl⟩

/-- a reply is parked for a bookkeeper: nothing the invariant reads changes -/
theorem sinv_bk_served {v : SVariant} {s : SState} (h : SInv v s) (b : Bk) (hb : b ∈ s.bks) (r : SReply) :
    SInv v { s with bks := setBk s.bks { b with served := some r } } := by
  apply sinv_bks h
  · rw [setBk_map_id]
    refine ⟨h.bkIds.1, ?_⟩
    intro x hx
    rcases mem_setBk hx with rfl | ⟨hx', _⟩
    · exact h.bkIds.2 b hb
    · exact h.bkIds.2 x hx'
  · intro x hx
    rcases mem_setBk hx with rfl | ⟨hx', _⟩
    · have := h.bks b hb; unfold BkInv at *; exact this
    · exact h.bks x hx'
  · intro x hx gb hgb
    rcases mem_setBk hx with rfl | ⟨hx', _⟩
    · exact ⟨b, hb, hgb⟩
    · exact ⟨x, hx', hgb⟩

theorem sinv_stepServeBk {s s' : SState} {outs : List Out} (h : SInv .current s) (id : Nat) (q : SReq)
    (res : Option (SState × SReply))
    (hres : ∀ b s1 r, b ∈ s.bks → q = b.pc.request .current → res = some (s1, r) →
      SInv .current s1 ∧ s1.bks = s.bks ∧ s1.nextBk = s.nextBk)
    (hs : stepServeBk .current s id q res = some (s', outs)) : SInv .current s' := by
  unfold stepServeBk at hs
  cases hf : findBk s.bks id with
  | none => rw [hf] at hs; simp at hs
  | some b =>
    rw [hf] at hs
    have ⟨hb, _⟩ := findBk_mem hf
    cases hr : res with
    | none => rw [hr] at hs; simp at hs
    | some p =>
      obtain ⟨s1, r⟩ := p
      rw [hr] at hs
      simp only at hs
      split at hs
      · rename_i hc
        simp only [Bool.and_eq_true, beq_iff_eq, Option.isNone_iff_eq_none] at hc
        simp only [Option.some.injEq, Prod.mk.injEq] at hs
        rw [← hs.1]
        have ⟨h1, hb1, _⟩ := hres b s1 r hb hc.1.symm hr
        have := sinv_bk_served h1 b (by rw [hb1]; exact hb) r
        rw [hb1] at this
        exact this
      · simp at hs

theorem sinv_serve_bk (c : Cfg) {s s' : SState} {outs : List Out} (h : SInv .current s) (id : Nat) (q : SReq)
    (hs : sstep c .current s (.serve (.bk id) q) = some (s', outs)) : SInv .current s' := by
  simp only [sstep] at hs
  apply sinv_stepServeBk h id q _ _ hs
  intro b s1 r hb hq hr
  subst hq
  exact node_effect_bk h b hb hr

theorem bk_request_isWrite (b : BPc) : (b.request SVariant.current).isWrite = true := by
  cases b <;> rfl

theorem sinv_fault_bk (c : Cfg) {s s' : SState} {outs : List Out} (h : SInv .current s) (id : Nat) (q : SReq)
    (f : Fault) (hf : f = .writeReject ∨ f = .writeLostAck)
    (hs : sstep c .current s (.fault (.bk id) q f) = some (s', outs)) : SInv .current s' := by
  simp only [sstep] at hs
  apply sinv_stepServeBk h id q _ _ hs
  intro b s1 r hb hq hr
  subst hq
  have hw := bk_request_isWrite b.pc
  rcases hf with rfl | rfl
  · simp only [nodeFault, hw, if_true, Option.some.injEq, Prod.mk.injEq] at hr
    obtain ⟨rfl, rfl⟩ := hr
    exact ⟨h, rfl, rfl⟩
  · simp only [nodeFault, hw, if_true] at hr
    cases hn : nodeServe s (b.pc.request .current) with
    | none => rw [hn] at hr; simp at hr
    | some p =>
      obtain ⟨s2, r2⟩ := p
      rw [hn] at hr
      simp only [Option.some.injEq, Prod.mk.injEq] at hr
      obtain ⟨rfl, rfl⟩ := hr
      exact node_effect_bk h b hb hn

theorem bkCont_failGen {pc pc' : BPc} {r : SReply} (h : bkCont pc r = some pc') : pc'.failGen = pc.failGen := by
  cases pc <;> cases r <;> simp [bkCont] at h <;> subst h <;> rfl

theorem sinv_deliver_bk (c : Cfg) {s s' : SState} {outs : List Out} (h : SInv .current s) (id : Nat) (q : SReq)
    (hs : sstep c .current s (.deliver (.bk id) q) = some (s', outs)) : SInv .current s' := by
  simp only [sstep, stepDeliverBk] at hs
  cases hf : findBk s.bks id with
  | none => rw [hf] at hs; simp at hs
  | some b =>
    rw [hf] at hs
    have ⟨hb, hbid⟩ := findBk_mem hf
    simp only at hs
    split at hs
    · cases hsv : b.served with
      | none => rw [hsv] at hs; simp at hs
      | some r =>
        rw [hsv] at hs
        simp only at hs
        cases hk : bkCont b.pc r with
        | some pc' =>
          rw [hk] at hs
          simp only [Option.some.injEq, Prod.mk.injEq] at hs
          rw [← hs.1]
          have hfg := bkCont_failGen hk
          apply sinv_bks h
          · rw [setBk_map_id]
            refine ⟨h.bkIds.1, ?_⟩
            intro x hx
            rcases mem_setBk hx with rfl | ⟨hx', _⟩
            · exact h.bkIds.2 b hb
            · exact h.bkIds.2 x hx'
          · intro x hx
            rcases mem_setBk hx with rfl | ⟨hx', _⟩
            · have hbi := h.bks b hb
              unfold BkInv at *
              cases hbp : b.pc with
              | succS a p => rw [hbp] at hk; cases r <;> simp [bkCont] at hk <;> subst hk <;> trivial
              | succA a => rw [hbp] at hk; cases r <;> simp [bkCont] at hk
              | failA a g =>
                rw [hbp] at hk hbi
                cases r <;> simp [bkCont] at hk
                subst hk; exact hbi
              | failS a g => rw [hbp] at hk; cases r <;> simp [bkCont] at hk
            · exact h.bks x hx'
          · intro x hx gb hgb
            rcases mem_setBk hx with rfl | ⟨hx', _⟩
            · simp only at hgb; rw [hfg] at hgb; exact ⟨b, hb, hgb⟩
            · exact ⟨x, hx', hgb⟩
        | none =>
          rw [hk] at hs
          simp only [Option.some.injEq, Prod.mk.injEq] at hs
          rw [← hs.1]
          apply sinv_bks h
          · refine ⟨?_, fun x hx => h.bkIds.2 x (mem_dropBk hx).1⟩
            unfold dropBk
            exact h.bkIds.1.sublist (List.Sublist.map _ List.filter_sublist)
          · intro x hx; exact h.bks x (mem_dropBk hx).1
          · intro x hx gb hgb; exact ⟨x, (mem_dropBk hx).1, hgb⟩
    · simp at hs

end Tramp
