/- No task of the plugin panics (write faults allowed, read faults excluded). -/
import Tramp.Proofs.SysMisc

namespace Tramp

theorem ownerCont_no_panic (c : Cfg) {s : SState} {pc : OPc} {q : SReq} {r : SReply}
    (hq : q ∈ pc.outstanding .current) (hpci : OPcInv s pc) (hfact : OFact s pc (q, r)) :
    ownerCont c .current s pc q r ≠ .panic := by
  cases pc with
  | waitHtlcs d => simp [OPc.outstanding] at hq
  | gotReady => simp [OPc.outstanding] at hq
  | gotParams a b => simp [OPc.outstanding] at hq
  | panicked => simp [OPc.outstanding] at hq
  | fetch =>
    cases r with
    | listed cell =>
      rcases cell with _ | ⟨v0, g0⟩
      · simp only [ownerCont, enterWait]; split <;> simp
      · cases v0 <;> simp only [ownerCont, enterWait] <;> first | (split <;> simp) | simp
    | listErr => simp [ownerCont]
    | written g => simp [ownerCont]
    | writeErr => simp [ownerCont]
    | prov pr => simp [ownerCont]
  | rFailA aid g t => cases r <;> simp [ownerCont]
  | rFailS aid g t =>
    cases r <;> simp only [ownerCont, enterWait] <;> first | (split <;> simp) | simp
  | addS aid t mf0 md0 => cases r <;> simp [ownerCont]
  | addA aid g mf0 md0 => cases r <;> simp [ownerCont]
  | rWait aid g t w =>
    simp only [OPc.outstanding, List.mem_map] at hq
    obtain ⟨pq, hpq, rfl⟩ := hq
    simp only [OPcInv] at hpci
    cases r with
    | prov pr =>
      simp only [OFact, ownerWpc] at hfact
      have hw' := wDeliver_inv hpci.1 hpq hfact
      simp only [ownerCont]
      generalize wDeliver w pq pr = w' at hw'
      cases w' with
      | ret res =>
        cases res with
        | some pre => simp [afterRestartWait]
        | none => simp [afterRestartWait]
        | err => exact hw'.elim
      | seqPending => simp [afterRestartWait]
      | seqComplete pend => simp [afterRestartWait]
      | waiting rem => simp [afterRestartWait]
      | conc c0 p0 => exact hw'.elim
    | listed cell => simp only [OFact] at hfact
    | listErr => simp only [OFact] at hfact
    | written g0 => simp only [OFact] at hfact
    | writeErr => simp only [OFact] at hfact
  | paying aid g p =>
    cases r with
    | prov pr =>
      cases q with
      | prov pq =>
        simp only [ownerCont]
        generalize pDeliver SVariant.current.prov p pq pr = p'
        cases p' with
        | retPay res => cases res <;> simp [afterPay]
        | paying => simp [afterPay]
        | inWait f w => simp [afterPay]
        | retWait res => simp [afterPay]
      | dsList => simp [ownerCont]
      | dsWriteState a b => simp [ownerCont]
      | dsWriteAttempt a b => simp [ownerCont]
    | listed cell => simp [ownerCont]
    | listErr => simp [ownerCont]
    | written g0 => simp [ownerCont]
    | writeErr => simp [ownerCont]

/-- no step sets the panic flag (current tree: the sum of amounts saturates; the `todo!()` of the
    restart path needs a read fault) -/
theorem panicked_step (c : Cfg) {s s' : SState} {outs : List Out} (a : SAct) (h : SInv .current s)
    (hs : sstep c .current s a = some (s', outs)) : s'.panicked = s.panicked := by
  cases a with
  | arrive info amount expiry relExp total =>
    simp only [sstep, stepArrive, SVariant.current, Bool.false_and, Bool.false_eq_true, if_false] at hs
    split at hs <;> (simp only [Option.some.injEq, Prod.mk.injEq] at hs; rw [← hs.1])
  | tickMono dt => simp only [sstep, Option.some.injEq, Prod.mk.injEq] at hs; rw [← hs.1]
  | tickWall dt => simp only [sstep, Option.some.injEq, Prod.mk.injEq] at hs; rw [← hs.1]
  | block n => simp only [sstep, Option.some.injEq, Prod.mk.injEq] at hs; rw [← hs.1]
  | crash => simp only [sstep, Option.some.injEq, Prod.mk.injEq] at hs; rw [← hs.1]
  | create id =>
    simp only [sstep] at hs
    split at hs
    · simp only [Option.some.injEq, Prod.mk.injEq] at hs; rw [← hs.1]
    · simp at hs
  | resolve id st =>
    simp only [sstep] at hs
    split at hs
    · simp only [Option.some.injEq, Prod.mk.injEq] at hs; rw [← hs.1]
    · simp at hs
  | payEnd r =>
    simp only [sstep] at hs
    repeat' split at hs
    all_goals first | (simp only [Option.some.injEq, Prod.mk.injEq] at hs; rw [← hs.1]) | simp at hs
  | serve t q =>
    cases t with
    | owner =>
      simp only [sstep] at hs
      split at hs
      · simp at hs
      · obtain ⟨s1, r, hr, _, _, hp, _⟩ := stepServeOwner_frame hs
        rw [hp]; exact (nodeServe_node hr).2.2.1
    | bk id =>
      simp only [sstep] at hs
      obtain ⟨s1, r, hr, _, _, hp, _⟩ := stepServeBk_frame hs
      rw [hp]; exact (nodeServe_node hr).2.2.1
  | fault t q f =>
    cases t with
    | owner =>
      simp only [sstep] at hs
      obtain ⟨s1, r, hr, _, _, hp, _⟩ := stepServeOwner_frame hs
      rw [hp]; exact (nodeFault_node hr).2.2.1
    | bk id =>
      simp only [sstep] at hs
      obtain ⟨s1, r, hr, _, _, hp, _⟩ := stepServeBk_frame hs
      rw [hp]; exact (nodeFault_node hr).2.2.1
  | deliver t q =>
    cases t with
    | owner =>
      simp only [sstep, stepDeliverOwner] at hs
      cases hact : s.active with
      | none => rw [hact] at hs; simp at hs
      | some p =>
        obtain ⟨e, o⟩ := p
        rw [hact] at hs
        simp only at hs
        split at hs
        · rename_i hc
          simp only [List.contains_iff_mem] at hc
          cases hl : lookupS o.served q with
          | none => rw [hl] at hs; simp at hs
          | some r =>
            rw [hl] at hs
            simp only [Option.some.injEq] at hs
            have hmem := lookupS_mem hl
            have ⟨hpci, hserved⟩ := h.owner e o hact
            have hnp := ownerCont_no_panic c hc hpci (hserved _ hmem).2
            cases hn : ownerCont c .current s o.pc q r with
            | panic => exact absurd hn hnp
            | stay pc' => rw [hn] at hs; simp only [applyONext, Prod.mk.injEq] at hs; rw [← hs.1]
            | pay pc' mf md => rw [hn] at hs; simp only [applyONext, Prod.mk.injEq] at hs; rw [← hs.1]
            | finish r' => rw [hn] at hs; simp only [applyONext, Prod.mk.injEq] at hs; rw [← hs.1]
            | finishBk r' b => rw [hn] at hs; simp only [applyONext, Prod.mk.injEq] at hs; rw [← hs.1]
        · simp at hs
    | bk id =>
      simp only [sstep, stepDeliverBk] at hs
      repeat' split at hs
      all_goals first | (simp only [Option.some.injEq, Prod.mk.injEq] at hs; rw [← hs.1]) | simp at hs
  | timerFire =>
    simp only [sstep] at hs
    repeat' split at hs
    all_goals first | (simp only [Option.some.injEq, Prod.mk.injEq] at hs; rw [← hs.1]) | simp at hs
  | takeFail =>
    simp only [sstep] at hs
    repeat' split at hs
    all_goals first | (simp only [Option.some.injEq, Prod.mk.injEq] at hs; rw [← hs.1]) | simp at hs
  | takeReady =>
    simp only [sstep] at hs
    repeat' split at hs
    all_goals first | (simp only [Option.some.injEq, Prod.mk.injEq] at hs; rw [← hs.1]) | simp at hs
  | readParams =>
    simp only [sstep] at hs
    repeat' split at hs
    all_goals first | (simp only [Option.some.injEq, Prod.mk.injEq] at hs; rw [← hs.1]) | simp at hs
  | readHeight =>
    simp only [sstep] at hs
    repeat' split at hs
    all_goals first | (simp only [Option.some.injEq, Prod.mk.injEq] at hs; rw [← hs.1]) | simp at hs

theorem no_panic_run (c : Cfg) (acts : List SAct) (s0 s : SState) (h : SInv .current s0) (hf : WriteFaultsOnly acts)
    (hr : srun c .current s0 acts = some s) : s.panicked = s0.panicked := by
  induction acts generalizing s0 with
  | nil => simp [srun] at hr; subst hr; rfl
  | cons a as ih =>
    simp only [srun] at hr
    split at hr
    · rename_i s1 o1 h1
      rw [ih s1 (sstep_inv c a h (hf a (by simp)) h1) (fun x hx => hf x (by simp [hx])) hr]
      exact panicked_step c a h h1
    · simp at hr

end Tramp
