/- Symbolic execution helpers for C09: a fresh, fully funded HTLC arriving over an arbitrary image. -/
import Tramp.Proofs.SysEntry

namespace Tramp

/-- run a list of actions collecting every output -/
def srunO (c : Cfg) (v : SVariant) : SState → List SAct → Option (SState × List Out)
  | s, [] => some (s, [])
  | s, a :: as =>
    match sstep c v s a with
    | some (s', o) =>
      match srunO c v s' as with
      | some (s'', os) => some (s'', o ++ os)
      | none => none
    | none => none

theorem srunO_cons (c : Cfg) (v : SVariant) (s s1 : SState) (a : SAct) (as : List SAct) (o : List Out)
    (h : sstep c v s a = some (s1, o)) :
    srunO c v s (a :: as) = (srunO c v s1 as).map (fun r => (r.1, o ++ r.2)) := by
  simp only [srunO, h]
  cases srunO c v s1 as with
  | none => rfl
  | some p => rfl

theorem srunO_append (c : Cfg) (v : SVariant) (l1 l2 : List SAct) (sa sb sc : SState) (o1 o2 : List Out)
    (h1 : srunO c v sa l1 = some (sb, o1)) (h2 : srunO c v sb l2 = some (sc, o2)) :
    srunO c v sa (l1 ++ l2) = some (sc, o1 ++ o2) := by
  induction l1 generalizing sa o1 with
  | nil => simp [srunO] at h1; obtain ⟨rfl, rfl⟩ := h1; simpa using h2
  | cons y ys ih =>
    simp only [srunO, List.cons_append] at h1 ⊢
    cases hy : sstep c v sa y with
    | none => rw [hy] at h1; simp at h1
    | some p =>
      obtain ⟨s1, oy⟩ := p
      rw [hy] at h1; simp only at h1 ⊢
      cases hr : srunO c v s1 ys with
      | none => rw [hr] at h1; simp at h1
      | some q =>
        obtain ⟨s2, os⟩ := q
        rw [hr] at h1; simp only [Option.some.injEq, Prod.mk.injEq] at h1
        obtain ⟨rfl, rfl⟩ := h1
        rw [ih s1 os hr]
        simp [List.append_assoc]

theorem srunO_append_eq (c : Cfg) (v : SVariant) (l1 l2 : List SAct) (sa : SState) :
    srunO c v sa (l1 ++ l2) =
      match srunO c v sa l1 with
      | some (s1, o1) => (srunO c v s1 l2).map (fun r => (r.1, o1 ++ r.2))
      | none => none := by
  induction l1 generalizing sa with
  | nil =>
    simp only [srunO, List.nil_append]
    cases srunO c v sa l2 with
    | none => rfl
    | some r => simp
  | cons y ys ih =>
    simp only [srunO, List.cons_append]
    cases hy : sstep c v sa y with
    | none => simp
    | some p =>
      obtain ⟨s1, oy⟩ := p
      simp only
      rw [ih s1]
      cases hr : srunO c v s1 ys with
      | none => simp
      | some q =>
        obtain ⟨s2, os⟩ := q
        simp only
        cases srunO c v s2 l2 with
        | none => simp
        | some r => simp [List.append_assoc]

theorem checks_listeners (c : Cfg) (e : PEntry) (info : SInfo) (relExp : Int) (total : Nat) :
    (e.checks c info relExp total).listeners = e.listeners := by
  unfold PEntry.checks PEntry.failIf
  repeat' split
  all_goals simp [(entry_fail_fields _ _).1]

theorem add_listeners (c : Cfg) (e : PEntry) (i : Inv) : (e.add c i).listeners = e.listeners ++ [i] := by
  unfold PEntry.add; split <;> simp [PEntry.markReady, PEntry.push]

/-- the probe's HTLC passes the three checks -/
structure ProbeOk (c : Cfg) (info : SInfo) (amount : Nat) (relExp : Int) (total : Nat) : Prop where
  rel   : ¬ relExp < (c.policyDelta : Int)
  tot   : feeOk c total info.amount = true
  fund  : feeOk c amount info.amount = true
  small : amount < U64

/-- the entry the probe creates: one listener, readiness signalled, nothing rejected -/
def probeEntry (c : Cfg) (info : SInfo) (i : Inv) (relExp : Int) (total : Nat) : PEntry :=
  ((PEntry.new info).checks c info relExp total).add c i

theorem probeEntry_shape (c : Cfg) (info : SInfo) (id amount expiry : Nat) (relExp : Int) (total : Nat)
    (h : ProbeOk c info amount relExp total) :
    probeEntry c info ⟨id, amount, expiry⟩ relExp total =
      { info := info, listeners := [⟨id, amount, expiry⟩], isReady := true, isFailReq := false, readyBuf := true,
        failBuf := none, received := amount, cltv := min expiry 4294967295, readySent := true } := by
  have hrel : decide (relExp < (c.policyDelta : Int)) = false := by simpa using h.rel
  have hsat : satAdd 0 amount = amount := by
    unfold satAdd; have := h.small; unfold U64 at *; split <;> omega
  unfold probeEntry PEntry.checks PEntry.failIf PEntry.add PEntry.canReady PEntry.push PEntry.markReady PEntry.new
  simp [hrel, h.tot, hsat, h.fund]

theorem arrive_fresh (c : Cfg) (s : SState) (hact : s.active = none) (info : SInfo) (amount expiry : Nat)
    (relExp : Int) (total : Nat) :
    sstep c .current s (.arrive info amount expiry relExp total) =
      some ({ s with active := some (probeEntry c info ⟨s.nextInv, amount, expiry⟩ relExp total, { pc := .fetch, served := [] }),
                     nextInv := s.nextInv + 1 }, []) := by
  simp [sstep, stepArrive, SVariant.current, hact, probeEntry]

end Tramp
