/- The deadline of a waiting lifecycle is never more than one MPP timeout ahead of the monotonic
   clock (C06 "answered no later than one MPP timeout after the stored state was read", C11 upper
   bound). Inductive under EVERY action (faults included). -/
import Tramp.Proofs.SysMisc

namespace Tramp

def PcOk (c : Cfg) (mono : Nat) : OPc → Prop
  | .waitHtlcs d => d ≤ mono + c.mppTimeout
  | _ => True

/-- every waiting owner has its deadline within one timeout of the clock -/
def DlInv (c : Cfg) (s : SState) : Prop := ∀ e o, s.active = some (e, o) → PcOk c s.mono o.pc

theorem pcOk_mono {c : Cfg} {m m' : Nat} {pc : OPc} (hm : m ≤ m') (h : PcOk c m pc) : PcOk c m' pc := by
  cases pc <;> simp only [PcOk] at * <;> omega

theorem enterWait_ok (c : Cfg) (s : SState) (tl : Nat) (htl : tl ≤ c.mppTimeout) (pc' : OPc) :
    (enterWait s tl = .stay pc' → PcOk c s.mono pc') ∧ (∀ mf md, enterWait s tl ≠ .pay pc' mf md) := by
  unfold enterWait
  refine ⟨?_, ?_⟩
  · intro h
    split at h
    · simp at h
    · simp only [ONext.stay.injEq] at h; subst h; simp only [PcOk]; omega
  · intro mf md h; split at h <;> simp at h

theorem afterRestartWait_ok (c : Cfg) (m aid g t : Nat) (w : WPc) (pc' : OPc) :
    (afterRestartWait aid g t w = .stay pc' → PcOk c m pc') ∧ (∀ mf md, afterRestartWait aid g t w ≠ .pay pc' mf md) := by
  cases w with
  | ret res => cases res <;> simp [afterRestartWait] <;> (try (intro h; subst h; simp [PcOk]))
  | seqPending => simp [afterRestartWait]; intro h; subst h; simp [PcOk]
  | seqComplete p => simp [afterRestartWait]; intro h; subst h; simp [PcOk]
  | conc a b => simp [afterRestartWait]; intro h; subst h; simp [PcOk]
  | waiting rem => simp [afterRestartWait]; intro h; subst h; simp [PcOk]

theorem afterPay_ok (c : Cfg) (m aid g : Nat) (p : PPc) (pc' : OPc) :
    (afterPay aid g p = .stay pc' → PcOk c m pc') ∧ (∀ mf md, afterPay aid g p ≠ .pay pc' mf md) := by
  cases p with
  | retPay res => cases res <;> simp [afterPay]
  | paying => simp [afterPay]; intro h; subst h; simp [PcOk]
  | inWait f w => simp [afterPay]; intro h; subst h; simp [PcOk]
  | retWait res => simp [afterPay]; intro h; subst h; simp [PcOk]

/-- a continuation enters the wait with a deadline at most one timeout ahead, and otherwise keeps or
    leaves it -/
theorem ownerCont_pcOk (c : Cfg) (v : SVariant) (s : SState) (pc : OPc) (q : SReq) (r : SReply) (pc' : OPc)
    (h : PcOk c s.mono pc) :
    (ownerCont c v s pc q r = .stay pc' → PcOk c s.mono pc') ∧
    (∀ mf md, ownerCont c v s pc q r = .pay pc' mf md → PcOk c s.mono pc') := by
  cases pc with
  | fetch =>
    cases r with
    | listed cell =>
      rcases cell with _ | ⟨v0, g0⟩
      · simp only [ownerCont]
        have := enterWait_ok c s c.mppTimeout (Nat.le_refl _) pc'
        exact ⟨this.1, fun mf md hh => absurd hh (this.2 mf md)⟩
      · cases v0 <;> simp only [ownerCont]
        · have := enterWait_ok c s c.mppTimeout (Nat.le_refl _) pc'
          exact ⟨this.1, fun mf md hh => absurd hh (this.2 mf md)⟩
        · exact ⟨by intro hh; simp at hh; subst hh; simp [PcOk], by intro mf md hh; simp at hh⟩
        · exact ⟨by intro hh; simp at hh, by intro mf md hh; simp at hh⟩
    | listErr => simp [ownerCont]
    | written g0 => simp [ownerCont]
    | writeErr => simp [ownerCont]
    | prov pr => simp [ownerCont]
  | rWait aid g t w =>
    cases r with
    | prov pr =>
      cases q with
      | prov pq =>
        simp only [ownerCont]
        have := afterRestartWait_ok c s.mono aid g t (wDeliver w pq pr) pc'
        exact ⟨this.1, fun mf md hh => absurd hh (this.2 mf md)⟩
      | dsList => simp [ownerCont]; intro hh; subst hh; simp [PcOk]
      | dsWriteState a b => simp [ownerCont]; intro hh; subst hh; simp [PcOk]
      | dsWriteAttempt a b => simp [ownerCont]; intro hh; subst hh; simp [PcOk]
    | listed cell => simp [ownerCont]; intro hh; subst hh; simp [PcOk]
    | listErr => simp [ownerCont]; intro hh; subst hh; simp [PcOk]
    | written g0 => simp [ownerCont]; intro hh; subst hh; simp [PcOk]
    | writeErr => simp [ownerCont]; intro hh; subst hh; simp [PcOk]
  | rFailA aid g t =>
    cases r <;> simp only [ownerCont] <;> refine ⟨?_, by intro mf md hh; simp at hh⟩ <;> intro hh <;> simp at hh
    subst hh; simp [PcOk]
  | rFailS aid g t =>
    cases r with
    | written g0 =>
      simp only [ownerCont]
      have := enterWait_ok c s (c.mppTimeout - (s.wall - t)) (by omega) pc'
      exact ⟨this.1, fun mf md hh => absurd hh (this.2 mf md)⟩
    | listed cell => simp [ownerCont]
    | listErr => simp [ownerCont]
    | writeErr => simp [ownerCont]
    | prov pr => simp [ownerCont]
  | waitHtlcs d =>
    cases r <;> simp only [ownerCont] <;> refine ⟨?_, by intro mf md hh; simp at hh⟩ <;> intro hh <;> simp at hh <;> subst hh <;> exact h
  | gotReady =>
    cases r <;> simp only [ownerCont] <;> refine ⟨?_, by intro mf md hh; simp at hh⟩ <;> intro hh <;> simp at hh <;> subst hh <;> exact h
  | gotParams mf0 exp =>
    cases r <;> simp only [ownerCont] <;> refine ⟨?_, by intro mf md hh; simp at hh⟩ <;> intro hh <;> simp at hh <;> subst hh <;> exact h
  | addS aid t mf0 md0 =>
    cases r <;> simp only [ownerCont] <;> refine ⟨?_, by intro mf md hh; simp at hh⟩ <;> intro hh <;> simp at hh
    subst hh; simp [PcOk]
  | addA aid g mf0 md0 =>
    cases r <;> simp only [ownerCont] <;> refine ⟨by intro hh; simp at hh, ?_⟩ <;> intro mf md hh <;> simp at hh
    obtain ⟨rfl, _⟩ := hh; simp [PcOk]
  | paying aid g p =>
    cases r with
    | prov pr =>
      cases q with
      | prov pq =>
        simp only [ownerCont]
        have := afterPay_ok c s.mono aid g (pDeliver v.prov p pq pr) pc'
        exact ⟨this.1, fun mf md hh => absurd hh (this.2 mf md)⟩
      | dsList => simp [ownerCont]; intro hh; subst hh; simp [PcOk]
      | dsWriteState a b => simp [ownerCont]; intro hh; subst hh; simp [PcOk]
      | dsWriteAttempt a b => simp [ownerCont]; intro hh; subst hh; simp [PcOk]
    | listed cell => simp [ownerCont]; intro hh; subst hh; simp [PcOk]
    | listErr => simp [ownerCont]; intro hh; subst hh; simp [PcOk]
    | written g0 => simp [ownerCont]; intro hh; subst hh; simp [PcOk]
    | writeErr => simp [ownerCont]; intro hh; subst hh; simp [PcOk]
  | panicked =>
    cases r <;> simp only [ownerCont] <;> refine ⟨?_, by intro mf md hh; simp at hh⟩ <;> intro hh <;> simp at hh <;> subst hh <;> exact h

/-- the step keeps (or drops) the owner without changing its program counter, and the clock does not go back -/
def PcKept (s s' : SState) : Prop :=
  s.mono ≤ s'.mono ∧ ∀ e' o', s'.active = some (e', o') → ∃ e o, s.active = some (e, o) ∧ o'.pc = o.pc

theorem dl_kept {c : Cfg} {s s' : SState} (h : DlInv c s) (hk : PcKept s s') : DlInv c s' := by
  intro e' o' ha'
  obtain ⟨e, o, ha, hpc⟩ := hk.2 e' o' ha'
  rw [hpc]; exact pcOk_mono hk.1 (h e o ha)

theorem kept_same {s s' : SState} (ha : s'.active = s.active) (hm : s.mono ≤ s'.mono) : PcKept s s' :=
  ⟨hm, fun e' o' h => ⟨e', o', by rw [← ha]; exact h, rfl⟩⟩

theorem kept_none {s s' : SState} (ha : s'.active = none) (hm : s.mono ≤ s'.mono) : PcKept s s' :=
  ⟨hm, fun e' o' h => by rw [ha] at h; simp at h⟩

theorem kept_serveOwner {s s' : SState} {outs : List Out} (q : SReq) (res : Option (SState × SReply))
    (hres : ∀ s1 r, res = some (s1, r) → s1.active = s.active ∧ s1.mono = s.mono)
    (hs : stepServeOwner .current s q res = some (s', outs)) : PcKept s s' := by
  unfold stepServeOwner at hs
  cases hact : s.active with
  | none => rw [hact] at hs; simp at hs
  | some p =>
    obtain ⟨e, o⟩ := p
    rw [hact] at hs
    cases hr : res with
    | none => rw [hr] at hs; simp at hs
    | some p1 =>
      obtain ⟨s1, r⟩ := p1
      rw [hr] at hs
      simp only at hs
      split at hs
      · simp only [Option.some.injEq, Prod.mk.injEq] at hs
        rw [← hs.1]
        have hm := (hres s1 r hr).2
        refine ⟨by simp [hm], ?_⟩
        intro e' o' ha'
        simp only [Option.some.injEq, Prod.mk.injEq] at ha'
        obtain ⟨rfl, rfl⟩ := ha'
        exact ⟨e, o, hact, rfl⟩
      · simp at hs

theorem kept_serveBk {s s' : SState} {outs : List Out} (id : Nat) (q : SReq) (res : Option (SState × SReply))
    (hres : ∀ s1 r, res = some (s1, r) → s1.active = s.active ∧ s1.mono = s.mono)
    (hs : stepServeBk .current s id q res = some (s', outs)) : PcKept s s' := by
  unfold stepServeBk at hs
  cases hf : findBk s.bks id with
  | none => rw [hf] at hs; simp at hs
  | some b =>
    rw [hf] at hs
    cases hr : res with
    | none => rw [hr] at hs; simp at hs
    | some p1 =>
      obtain ⟨s1, r⟩ := p1
      rw [hr] at hs
      simp only at hs
      split at hs
      · simp only [Option.some.injEq, Prod.mk.injEq] at hs
        rw [← hs.1]
        have ⟨ha, hm⟩ := hres s1 r hr
        exact kept_same (by simp [ha]) (by simp [hm])
      · simp at hs

/-- `DlInv` is inductive under every action (faults of every kind included) -/
theorem dl_step (c : Cfg) {s s' : SState} {outs : List Out} (a : SAct) (h : DlInv c s)
    (hs : sstep c .current s a = some (s', outs)) : DlInv c s' := by
  cases a with
  | arrive info amount expiry relExp total =>
    simp only [sstep, stepArrive, SVariant.current, Bool.false_and, Bool.false_eq_true, if_false] at hs
    cases hact : s.active with
    | none =>
      rw [hact] at hs
      simp only [Option.some.injEq, Prod.mk.injEq] at hs
      rw [← hs.1]
      intro e o ha
      simp only [Option.some.injEq, Prod.mk.injEq] at ha
      obtain ⟨_, rfl⟩ := ha
      simp [PcOk]
    | some p =>
      obtain ⟨e0, o0⟩ := p
      rw [hact] at hs
      simp only [Option.some.injEq, Prod.mk.injEq] at hs
      rw [← hs.1]
      intro e o ha
      simp only [Option.some.injEq, Prod.mk.injEq] at ha
      obtain ⟨_, rfl⟩ := ha
      exact h e0 o0 hact
  | tickMono dt =>
    simp only [sstep, Option.some.injEq, Prod.mk.injEq] at hs; rw [← hs.1]
    exact dl_kept h (kept_same rfl (by simp))
  | tickWall dt =>
    simp only [sstep, Option.some.injEq, Prod.mk.injEq] at hs; rw [← hs.1]
    exact dl_kept h (kept_same rfl (Nat.le_refl _))
  | block n =>
    simp only [sstep, Option.some.injEq, Prod.mk.injEq] at hs; rw [← hs.1]
    exact dl_kept h (kept_same rfl (Nat.le_refl _))
  | crash =>
    simp only [sstep, Option.some.injEq, Prod.mk.injEq] at hs; rw [← hs.1]
    exact dl_kept h (kept_none rfl (Nat.le_refl _))
  | create id =>
    simp only [sstep] at hs
    split at hs
    · simp only [Option.some.injEq, Prod.mk.injEq] at hs; rw [← hs.1]; exact dl_kept h (kept_same rfl (Nat.le_refl _))
    · simp at hs
  | resolve id st =>
    simp only [sstep] at hs
    split at hs
    · simp only [Option.some.injEq, Prod.mk.injEq] at hs; rw [← hs.1]; exact dl_kept h (kept_same rfl (Nat.le_refl _))
    · simp at hs
  | payEnd r =>
    simp only [sstep] at hs
    cases hact : s.active with
    | none => rw [hact] at hs; simp at hs
    | some p =>
      obtain ⟨e, o⟩ := p
      rw [hact] at hs
      simp only at hs
      split at hs
      · split at hs
        · simp only [Option.some.injEq, Prod.mk.injEq] at hs; rw [← hs.1]
          intro e1 o1 ha
          simp only [Option.some.injEq, Prod.mk.injEq] at ha
          obtain ⟨_, rfl⟩ := ha
          simp [PcOk]
        · simp at hs
      · simp at hs
  | serve t q =>
    cases t with
    | owner =>
      simp only [sstep] at hs
      split at hs
      · simp at hs
      · exact dl_kept h (kept_serveOwner q _ (fun s1 r hr => ⟨(nodeServe_frame hr).1, (nodeServe_node hr).2.2.2.1⟩) hs)
    | bk id =>
      simp only [sstep] at hs
      exact dl_kept h (kept_serveBk id q _ (fun s1 r hr => ⟨(nodeServe_frame hr).1, (nodeServe_node hr).2.2.2.1⟩) hs)
  | fault t q f =>
    cases t with
    | owner =>
      simp only [sstep] at hs
      exact dl_kept h (kept_serveOwner q _ (fun s1 r hr => ⟨(nodeFault_frame hr).1, (nodeFault_node hr).2.2.2.1⟩) hs)
    | bk id =>
      simp only [sstep] at hs
      exact dl_kept h (kept_serveBk id q _ (fun s1 r hr => ⟨(nodeFault_frame hr).1, (nodeFault_node hr).2.2.2.1⟩) hs)
  | deliver t q =>
    cases t with
    | owner =>
      simp only [sstep, stepDeliverOwner] at hs
      cases hact : s.active with
      | none => rw [hact] at hs; simp at hs
      | some p =>
        obtain ⟨e, o⟩ := p
        rw [hact] at hs
        simp only at hs
        split at hs
        · cases hl : lookupS o.served q with
          | none => rw [hl] at hs; simp at hs
          | some r =>
            rw [hl] at hs
            simp only [Option.some.injEq] at hs
            have hok := ownerCont_pcOk c .current s o.pc q r
            cases hn : ownerCont c .current s o.pc q r with
            | stay pc' =>
              rw [hn] at hs; simp only [applyONext, Prod.mk.injEq] at hs; rw [← hs.1]
              intro e1 o1 ha
              simp only [Option.some.injEq, Prod.mk.injEq] at ha
              obtain ⟨_, rfl⟩ := ha
              exact (hok pc' (h e o hact)).1 hn
            | pay pc' mf md =>
              rw [hn] at hs; simp only [applyONext, Prod.mk.injEq] at hs; rw [← hs.1]
              intro e1 o1 ha
              simp only [Option.some.injEq, Prod.mk.injEq] at ha
              obtain ⟨_, rfl⟩ := ha
              exact (hok pc' (h e o hact)).2 mf md hn
            | finish r' =>
              rw [hn] at hs; simp only [applyONext, Prod.mk.injEq] at hs; rw [← hs.1]
              exact dl_kept h (kept_none rfl (Nat.le_refl _))
            | finishBk r' b =>
              rw [hn] at hs; simp only [applyONext, Prod.mk.injEq] at hs; rw [← hs.1]
              exact dl_kept h (kept_none rfl (Nat.le_refl _))
            | panic =>
              rw [hn] at hs; simp only [applyONext, Prod.mk.injEq] at hs; rw [← hs.1]
              intro e1 o1 ha
              simp only [Option.some.injEq, Prod.mk.injEq] at ha
              obtain ⟨_, rfl⟩ := ha
              simp [PcOk]
        · simp at hs
    | bk id =>
      simp only [sstep, stepDeliverBk] at hs
      repeat' split at hs
      all_goals first
        | (simp only [Option.some.injEq, Prod.mk.injEq] at hs; rw [← hs.1]; exact dl_kept h (kept_same rfl (Nat.le_refl _)))
        | simp at hs
  | timerFire =>
    simp only [sstep] at hs
    repeat' split at hs
    all_goals first
      | (simp only [Option.some.injEq, Prod.mk.injEq] at hs; rw [← hs.1]; exact dl_kept h (kept_none rfl (Nat.le_refl _)))
      | simp at hs
  | takeFail =>
    simp only [sstep] at hs
    repeat' split at hs
    all_goals first
      | (simp only [Option.some.injEq, Prod.mk.injEq] at hs; rw [← hs.1]; exact dl_kept h (kept_none rfl (Nat.le_refl _)))
      | simp at hs
  | takeReady =>
    simp only [sstep] at hs
    repeat' split at hs
    all_goals first
      | (simp only [Option.some.injEq, Prod.mk.injEq] at hs; rw [← hs.1]
         intro e1 o1 ha
         simp only [Option.some.injEq, Prod.mk.injEq] at ha
         obtain ⟨_, rfl⟩ := ha
         simp [PcOk])
      | simp at hs
  | readParams =>
    simp only [sstep] at hs
    repeat' split at hs
    all_goals first
      | (simp only [Option.some.injEq, Prod.mk.injEq] at hs; rw [← hs.1]
         intro e1 o1 ha
         simp only [Option.some.injEq, Prod.mk.injEq] at ha
         obtain ⟨_, rfl⟩ := ha
         simp [PcOk])
      | simp at hs
  | readHeight =>
    simp only [sstep] at hs
    repeat' split at hs
    all_goals first
      | (simp only [Option.some.injEq, Prod.mk.injEq] at hs; rw [← hs.1]
         intro e1 o1 ha
         simp only [Option.some.injEq, Prod.mk.injEq] at ha
         obtain ⟨_, rfl⟩ := ha
         simp [PcOk])
      | simp at hs

theorem dl_init (c : Cfg) : DlInv c SState.init := by
  intro e o ha; simp [SState.init] at ha

theorem dl_run (c : Cfg) (acts : List SAct) (s s' : SState) (h : DlInv c s)
    (hr : srun c .current s acts = some s') : DlInv c s' := by
  induction acts generalizing s with
  | nil => simp [srun] at hr; subst hr; exact h
  | cons a as ih =>
    simp only [srun] at hr
    split at hr
    · rename_i s1 o1 h1; exact ih s1 (dl_step c a h h1) hr
    · simp at hr

end Tramp
