/- Further small invariants of M7: how the part table evolves, panics, deadlines. -/
import Tramp.Proofs.SysOut

namespace Tramp

theorem nodeServe_node {s s1 : SState} {q : SReq} {r : SReply} (h : nodeServe s q = some (s1, r)) :
    s1.parts = s.parts ∧ s1.payRunning = s.payRunning ∧ s1.panicked = s.panicked ∧ s1.mono = s.mono ∧ s1.bks = s.bks := by
  cases q with
  | dsList => simp [nodeServe] at h; obtain ⟨rfl, _⟩ := h; simp
  | dsWriteState v m =>
    simp only [nodeServe] at h
    split at h <;> simp only [Option.some.injEq, Prod.mk.injEq] at h <;> obtain ⟨rfl, _⟩ := h <;> simp
  | dsWriteAttempt a m =>
    simp only [nodeServe] at h
    split at h <;> simp only [Option.some.injEq, Prod.mk.injEq] at h <;> obtain ⟨rfl, _⟩ := h <;> simp
  | prov pq =>
    simp only [nodeServe] at h
    split at h
    · simp only [Option.some.injEq, Prod.mk.injEq] at h; obtain ⟨rfl, _⟩ := h; simp
    · simp at h

theorem nodeFault_node {s s1 : SState} {q : SReq} {f : Fault} {r : SReply} (h : nodeFault s q f = some (s1, r)) :
    s1.parts = s.parts ∧ s1.payRunning = s.payRunning ∧ s1.panicked = s.panicked ∧ s1.mono = s.mono ∧ s1.bks = s.bks := by
  cases f with
  | writeReject =>
    simp only [nodeFault] at h
    split at h
    · simp only [Option.some.injEq, Prod.mk.injEq] at h; obtain ⟨rfl, _⟩ := h; simp
    · simp at h
  | writeLostAck =>
    simp only [nodeFault] at h
    split at h
    · cases hn : nodeServe s q with
      | none => rw [hn] at h; simp at h
      | some p =>
        obtain ⟨s2, r2⟩ := p
        rw [hn] at h; simp only [Option.some.injEq, Prod.mk.injEq] at h
        obtain ⟨rfl, _⟩ := h
        exact nodeServe_node hn
    · simp at h
  | writeLost =>
    simp only [nodeFault] at h
    split at h
    · split at h
      · simp only [Option.some.injEq, Prod.mk.injEq] at h; obtain ⟨rfl, _⟩ := h; simp
      · simp at h
    · simp at h
  | readErr =>
    cases q with
    | dsList => simp [nodeFault] at h; obtain ⟨rfl, _⟩ := h; simp
    | dsWriteState v m => simp [nodeFault] at h
    | dsWriteAttempt a m => simp [nodeFault] at h
    | prov pq =>
      cases pq <;> simp [nodeFault] at h
      all_goals (obtain ⟨rfl, _⟩ := h; simp)

theorem stepServeOwner_frame {v : SVariant} {s s' : SState} {q : SReq} {res : Option (SState × SReply)} {outs : List Out}
    (hs : stepServeOwner v s q res = some (s', outs)) :
    ∃ s1 r, res = some (s1, r) ∧ s'.parts = s1.parts ∧ s'.payRunning = s1.payRunning ∧ s'.panicked = s1.panicked ∧
      s'.mono = s1.mono ∧ s'.ds = s1.ds ∧ s'.bks = s1.bks ∧ outs = [] := by
  unfold stepServeOwner at hs
  cases hact : s.active with
  | none => rw [hact] at hs; simp at hs
  | some p =>
    obtain ⟨e, o⟩ := p
    rw [hact] at hs
    cases hr : res with
    | none => rw [hr] at hs; simp at hs
    | some p1 =>
      obtain ⟨s1, r⟩ := p1
      rw [hr] at hs
      simp only at hs
      split at hs
      · simp only [Option.some.injEq, Prod.mk.injEq] at hs
        refine ⟨s1, r, rfl, ?_⟩
        rw [← hs.1]; exact ⟨rfl, rfl, rfl, rfl, rfl, rfl, hs.2.symm⟩
      · simp at hs

theorem stepServeBk_frame {v : SVariant} {s s' : SState} {id : Nat} {q : SReq} {res : Option (SState × SReply)} {outs : List Out}
    (hs : stepServeBk v s id q res = some (s', outs)) :
    ∃ s1 r, res = some (s1, r) ∧ s'.parts = s1.parts ∧ s'.payRunning = s1.payRunning ∧ s'.panicked = s1.panicked ∧
      s'.mono = s1.mono ∧ s'.ds = s1.ds ∧ s'.active = s1.active ∧ outs = [] := by
  unfold stepServeBk at hs
  cases hf : findBk s.bks id with
  | none => rw [hf] at hs; simp at hs
  | some b =>
    rw [hf] at hs
    cases hr : res with
    | none => rw [hr] at hs; simp at hs
    | some p1 =>
      obtain ⟨s1, r⟩ := p1
      rw [hr] at hs
      simp only at hs
      split at hs
      · simp only [Option.some.injEq, Prod.mk.injEq] at hs
        refine ⟨s1, r, rfl, ?_⟩
        rw [← hs.1]; exact ⟨rfl, rfl, rfl, rfl, rfl, rfl, hs.2.symm⟩
      · simp at hs

/-- the part table changes only through the environment: creation by a running pay command and
    resolution of pending parts; every other action leaves it alone -/
theorem sstep_parts (c : Cfg) (v : SVariant) {s s' : SState} {outs : List Out} (a : SAct)
    (hs : sstep c v s a = some (s', outs)) :
    s'.parts = s.parts ∨
    (∃ id, a = .create id ∧ s'.parts = s.parts ++ [{ id := id, st := .pending }]) ∨
    (∃ id st, a = .resolve id st ∧ st ≠ .pending ∧ s'.parts = resolvePart s.parts id st) := by
  cases a with
  | arrive info amount expiry relExp total =>
    simp only [sstep, stepArrive] at hs
    repeat' split at hs
    all_goals (simp only [Option.some.injEq, Prod.mk.injEq] at hs; left; rw [← hs.1])
  | tickMono dt => simp only [sstep, Option.some.injEq, Prod.mk.injEq] at hs; left; rw [← hs.1]
  | tickWall dt => simp only [sstep, Option.some.injEq, Prod.mk.injEq] at hs; left; rw [← hs.1]
  | block n => simp only [sstep, Option.some.injEq, Prod.mk.injEq] at hs; left; rw [← hs.1]
  | crash => simp only [sstep, Option.some.injEq, Prod.mk.injEq] at hs; left; rw [← hs.1]
  | create id =>
    simp only [sstep] at hs
    split at hs
    · simp only [Option.some.injEq, Prod.mk.injEq] at hs; right; left; exact ⟨id, rfl, by rw [← hs.1]⟩
    · simp at hs
  | resolve id st =>
    simp only [sstep] at hs
    split at hs
    · rename_i hc
      simp only [Option.some.injEq, Prod.mk.injEq] at hs; right; right
      exact ⟨id, st, rfl, by simpa using hc, by rw [← hs.1]⟩
    · simp at hs
  | payEnd r =>
    simp only [sstep] at hs
    repeat' split at hs
    all_goals first | (simp only [Option.some.injEq, Prod.mk.injEq] at hs; left; rw [← hs.1]) | simp at hs
  | serve t q =>
    left
    cases t with
    | owner =>
      simp only [sstep] at hs
      split at hs
      · simp at hs
      · obtain ⟨s1, r, hr, hp, _⟩ := stepServeOwner_frame hs
        rw [hp]; exact (nodeServe_node hr).1
    | bk id =>
      simp only [sstep] at hs
      obtain ⟨s1, r, hr, hp, _⟩ := stepServeBk_frame hs
      rw [hp]; exact (nodeServe_node hr).1
  | fault t q f =>
    left
    cases t with
    | owner =>
      simp only [sstep] at hs
      obtain ⟨s1, r, hr, hp, _⟩ := stepServeOwner_frame hs
      rw [hp]; exact (nodeFault_node hr).1
    | bk id =>
      simp only [sstep] at hs
      obtain ⟨s1, r, hr, hp, _⟩ := stepServeBk_frame hs
      rw [hp]; exact (nodeFault_node hr).1
  | deliver t q =>
    left
    cases t with
    | owner =>
      simp only [sstep, stepDeliverOwner] at hs
      cases hact : s.active with
      | none => rw [hact] at hs; simp at hs
      | some p =>
        obtain ⟨e, o⟩ := p
        rw [hact] at hs
        simp only at hs
        split at hs
        · cases hl : lookupS o.served q with
          | none => rw [hl] at hs; simp at hs
          | some r =>
            rw [hl] at hs
            simp only [Option.some.injEq] at hs
            cases hn : ownerCont c v s o.pc q r <;> rw [hn] at hs <;> simp only [applyONext, Prod.mk.injEq] at hs <;> rw [← hs.1]
        · simp at hs
    | bk id =>
      simp only [sstep, stepDeliverBk] at hs
      repeat' split at hs
      all_goals first | (simp only [Option.some.injEq, Prod.mk.injEq] at hs; rw [← hs.1]) | simp at hs
  | timerFire =>
    simp only [sstep] at hs
    repeat' split at hs
    all_goals first | (simp only [Option.some.injEq, Prod.mk.injEq] at hs; left; rw [← hs.1]) | simp at hs
  | takeFail =>
    simp only [sstep] at hs
    repeat' split at hs
    all_goals first | (simp only [Option.some.injEq, Prod.mk.injEq] at hs; left; rw [← hs.1]) | simp at hs
  | takeReady =>
    simp only [sstep] at hs
    repeat' split at hs
    all_goals first | (simp only [Option.some.injEq, Prod.mk.injEq] at hs; left; rw [← hs.1]) | simp at hs
  | readParams =>
    simp only [sstep] at hs
    repeat' split at hs
    all_goals first | (simp only [Option.some.injEq, Prod.mk.injEq] at hs; left; rw [← hs.1]) | simp at hs
  | readHeight =>
    simp only [sstep] at hs
    repeat' split at hs
    all_goals first | (simp only [Option.some.injEq, Prod.mk.injEq] at hs; left; rw [← hs.1]) | simp at hs

/-- complete parts stay complete, with the same preimage, whatever happens -/
theorem hasComplete_step (c : Cfg) (v : SVariant) {s s' : SState} {outs : List Out} (a : SAct) (x : Nat)
    (hs : sstep c v s a = some (s', outs)) (h : HasComplete s.parts x) : HasComplete s'.parts x := by
  rcases sstep_parts c v a hs with hp | ⟨id, _, hp⟩ | ⟨id, st, _, _, hp⟩
  · rw [hp]; exact h
  · rw [hp]; exact hasComplete_append _ h
  · rw [hp]; exact hasComplete_resolve id st h

theorem hasComplete_run (c : Cfg) (v : SVariant) (acts : List SAct) (s s' : SState) (x : Nat)
    (hr : srun c v s acts = some s') (h : HasComplete s.parts x) : HasComplete s'.parts x := by
  induction acts generalizing s with
  | nil => simp [srun] at hr; subst hr; exact h
  | cons a as ih =>
    simp only [srun] at hr
    split at hr
    · rename_i s1 o1 h1; exact ih s1 hr (hasComplete_step c v a x h1 h)
    · simp at hr

end Tramp
