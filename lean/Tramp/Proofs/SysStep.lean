/- The system invariant is inductive. -/
import Tramp.Proofs.SysStepD

namespace Tramp

/-- faults covered by the safety theorems: failed writes (refused, or applied but reported failed).
    Read errors are K2–K4; acknowledged-but-lost writes belong to C09 only. -/
def SAct.writeFaultOnly : SAct → Prop
  | .fault _ _ f => f = .writeReject ∨ f = .writeLostAck
  | _ => True

theorem sinv_internal (c : Cfg) {s s' : SState} {outs : List Out} (h : SInv .current s) (a : SAct)
    (ha : a = .timerFire ∨ a = .takeFail ∨ a = .takeReady ∨ a = .readParams ∨ a = .readHeight)
    (hs : sstep c .current s a = some (s', outs)) : SInv .current s' := by
  cases hact : s.active with
  | none => rcases ha with rfl | rfl | rfl | rfl | rfl <;> simp [sstep, hact] at hs
  | some p =>
    obtain ⟨e, o⟩ := p
    have ⟨hpci, hserved⟩ := h.owner e o hact
    have hrun_of_quiet : s.quiet → s.payRunning = false := fun hq => hq.2
    rcases ha with rfl | rfl | rfl | rfl | rfl
    · -- timerFire
      simp only [sstep, hact] at hs
      split at hs
      · rename_i d hpc
        split at hs
        · simp only [Option.some.injEq, Prod.mk.injEq] at hs
          rw [← hs.1]
          rw [hpc] at hpci
          exact sinv_drop_owner h (hrun_of_quiet hpci)
        · simp at hs
      · simp at hs
    · -- takeFail
      simp only [sstep, hact] at hs
      split at hs
      · rename_i d r hpc hfb
        simp only [Option.some.injEq, Prod.mk.injEq] at hs
        rw [← hs.1]
        rw [hpc] at hpci
        exact sinv_drop_owner h (hrun_of_quiet hpci)
      · simp at hs
    · -- takeReady
      simp only [sstep, hact] at hs
      split at hs
      · rename_i d hpc
        split at hs
        · simp only [Option.some.injEq, Prod.mk.injEq] at hs
          rw [← hs.1]
          rw [hpc] at hpci
          exact sinv_owner_stay h e _ o hact (hrun_of_quiet hpci) .gotReady [] (by simp only [OPcInv]; exact hpci) (by simp)
        · simp at hs
      · simp at hs
    · -- readParams
      simp only [sstep, hact] at hs
      split at hs
      · rename_i hpc
        simp only [Option.some.injEq, Prod.mk.injEq] at hs
        rw [← hs.1]
        rw [hpc] at hpci
        exact sinv_owner_stay h e _ o hact (hrun_of_quiet hpci) _ [] (by simp only [OPcInv]; exact hpci) (by simp)
      · simp at hs
    · -- readHeight
      simp only [sstep, hact] at hs
      split at hs
      · rename_i mf exp hpc
        simp only [Option.some.injEq, Prod.mk.injEq] at hs
        rw [← hs.1]
        rw [hpc] at hpci
        have h1 := sinv_owner_stay h e e o hact (hrun_of_quiet hpci) (.addS s.nextAid s.wall mf (maxDelay c exp s.height)) []
          (by simp only [OPcInv]; exact hpci) (by simp)
        exact sinv_frame h1 rfl rfl rfl rfl rfl rfl
      · simp at hs

/-- Every step of the system preserves the invariant (write faults included; read faults and lost
    writes excluded). -/
theorem sstep_inv (c : Cfg) {s s' : SState} {outs : List Out} (a : SAct) (h : SInv .current s)
    (hf : a.writeFaultOnly) (hs : sstep c .current s a = some (s', outs)) : SInv .current s' := by
  cases a with
  | arrive info amount expiry relExp total => exact sinv_arrive c h info amount expiry relExp total hs
  | tickMono dt =>
    simp only [sstep, Option.some.injEq, Prod.mk.injEq] at hs; rw [← hs.1]
    exact sinv_frame h rfl rfl rfl rfl rfl rfl
  | tickWall dt =>
    simp only [sstep, Option.some.injEq, Prod.mk.injEq] at hs; rw [← hs.1]
    exact sinv_frame h rfl rfl rfl rfl rfl rfl
  | block n =>
    simp only [sstep, Option.some.injEq, Prod.mk.injEq] at hs; rw [← hs.1]
    exact sinv_frame h rfl rfl rfl rfl rfl rfl
  | crash => exact sinv_crash c h hs
  | create id => exact sinv_create c h id hs
  | resolve id st => exact sinv_resolve c h id st hs
  | payEnd r => exact sinv_payEnd c h r hs
  | serve t q =>
    cases t with
    | owner => exact sinv_serve_owner c h q hs
    | bk id => exact sinv_serve_bk c h id q hs
  | fault t q f =>
    cases t with
    | owner => exact sinv_fault_owner c h q f hf hs
    | bk id => exact sinv_fault_bk c h id q f hf hs
  | deliver t q =>
    cases t with
    | owner => exact sinv_deliver_owner c h q hs
    | bk id => exact sinv_deliver_bk c h id q hs
  | timerFire => exact sinv_internal c h _ (Or.inl rfl) hs
  | takeFail => exact sinv_internal c h _ (Or.inr (Or.inl rfl)) hs
  | takeReady => exact sinv_internal c h _ (Or.inr (Or.inr (Or.inl rfl))) hs
  | readParams => exact sinv_internal c h _ (Or.inr (Or.inr (Or.inr (Or.inl rfl)))) hs
  | readHeight => exact sinv_internal c h _ (Or.inr (Or.inr (Or.inr (Or.inr rfl)))) hs

def WriteFaultsOnly (acts : List SAct) : Prop := ∀ a ∈ acts, a.writeFaultOnly

/-- the invariant holds in every reachable state, for every interleaving, crash point and write fault -/
theorem srun_inv (c : Cfg) (acts : List SAct) (s s' : SState) (h : SInv .current s)
    (hf : WriteFaultsOnly acts) (hr : srun c .current s acts = some s') : SInv .current s' := by
  induction acts generalizing s with
  | nil => simp [srun] at hr; subst hr; exact h
  | cons a as ih =>
    simp only [srun] at hr
    split at hr
    · rename_i s1 o1 h1
      exact ih s1 (sstep_inv c a h (hf a (by simp)) h1) (fun x hx => hf x (by simp [hx])) hr
    · simp at hr

theorem reachable_inv (c : Cfg) (acts : List SAct) (s : SState) (hf : WriteFaultsOnly acts)
    (hr : srun c .current SState.init acts = some s) : SInv .current s :=
  srun_inv c acts _ s (sinv_init _) hf hr

end Tramp
