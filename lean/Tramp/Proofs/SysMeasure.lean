/- A lifecycle cannot run forever on the plugin's side: every step the owner task takes — consuming
   the reply to one of its outstanding requests, or an internal step (`select!` branch, reading the
   parameters, reading the height) — either ends the lifecycle or strictly decreases a well-founded
   measure of its program counter (lexicographic: phase of the lifecycle, then number of
   `waitsendpay` calls still outstanding). Together with `c06_owner_progress` (a live owner always
   has a request in flight, an enabled internal step, or an armed timer) this is the plugin's half of
   "every call is eventually answered provided the node keeps answering" (C06). -/
import Tramp.Model.System

namespace Tramp

/-- lexicographic order on pairs of naturals -/
def lt2 (a b : Nat × Nat) : Prop := a.1 < b.1 ∨ (a.1 = b.1 ∧ a.2 < b.2)

theorem lt2_wf : WellFounded lt2 := by
  have h : ∀ a b, lt2 a b → Prod.Lex (· < ·) (· < ·) a b := by
    intro a b hab
    obtain ⟨a1, a2⟩ := a; obtain ⟨b1, b2⟩ := b
    rcases hab with h1 | ⟨h1, h2⟩
    · exact Prod.Lex.left _ _ h1
    · simp only at h1 h2; subst h1; exact Prod.Lex.right _ h2
  exact Subrelation.wf (fun {a b} hab => h a b hab) (Prod.lex (inferInstance : WellFoundedRelation Nat) (inferInstance : WellFoundedRelation Nat)).wf

def noneCount (x : Option (Option (List Nat))) : Nat := if x.isNone then 1 else 0

/-- measure of `wait_payment` -/
def WPc.meas : WPc → Nat × Nat
  | .seqPending    => (3, 0)
  | .seqComplete _ => (2, 0)
  | .conc c p      => (2, noneCount c + noneCount p)
  | .waiting rem   => (1, rem.length)
  | .ret _         => (0, 0)

/-- measure of the pay wrapper -/
def PPc.meas : PPc → Nat × Nat
  | .paying     => (6, 0)
  | .inWait _ w => (1 + w.meas.1, w.meas.2)
  | .retWait _  => (0, 0)
  | .retPay _   => (0, 0)

/-- measure of the lifecycle's program counter -/
def OPc.meas : OPc → Nat × Nat
  | .fetch          => (30, 0)
  | .rWait _ _ _ w  => (20 + w.meas.1, w.meas.2)
  | .rFailA _ _ _   => (14, 0)
  | .rFailS _ _ _   => (13, 0)
  | .waitHtlcs _    => (12, 0)
  | .gotReady       => (11, 0)
  | .gotParams _ _  => (10, 0)
  | .addS _ _ _ _   => (9, 0)
  | .addA _ _ _ _   => (8, 0)
  | .paying _ _ p   => p.meas
  | .panicked       => (0, 0)

theorem afterListings_meas (pres pend : List Nat) : lt2 (afterListings pres pend).meas (2, 0) := by
  unfold afterListings
  cases pres with
  | nil => simp only; split <;> simp [WPc.meas, lt2]
  | cons x xs => simp [WPc.meas, lt2]

theorem afterListings_meas' (pres pend : List Nat) (k : Nat) (hk : 0 < k) : lt2 (afterListings pres pend).meas (2, k) := by
  have := afterListings_meas pres pend
  rcases this with h | ⟨h1, h2⟩
  · exact Or.inl h
  · simp at h2

theorem length_erase_lt (l : List Nat) (a : Nat) (h : a ∈ l) : (l.erase a).length < l.length := by
  rw [List.length_erase_of_mem h]
  cases l with
  | nil => simp at h
  | cons x xs => simp

theorem concJoin_meas (c p : Option (Option (List Nat))) (k : Nat) (hk : noneCount c + noneCount p < k) :
    lt2 (concJoin c p).meas (2, k) := by
  cases c with
  | none => simp [concJoin, WPc.meas, lt2]; exact hk
  | some c1 =>
    cases p with
    | none => cases c1 <;> simp [concJoin, WPc.meas, lt2] <;> exact hk
    | some p1 =>
      have hk0 : 0 < k := by omega
      cases c1 with
      | none => simp [concJoin, WPc.meas, lt2]
      | some pres =>
        cases p1 with
        | none => simp [concJoin, WPc.meas, lt2]
        | some pend => simp only [concJoin]; exact afterListings_meas' pres pend k hk0

/-- consuming the reply to an OUTSTANDING request of `wait_payment` decreases its measure -/
theorem wDeliver_meas (w : WPc) (q : PReq) (r : PReply) (hq : q ∈ w.outstanding) : lt2 (wDeliver w q r).meas w.meas := by
  cases w with
  | seqPending =>
    simp only [WPc.outstanding, List.mem_singleton] at hq; subst hq
    cases r <;> simp [wDeliver, WPc.meas, lt2]
  | seqComplete pend =>
    simp only [WPc.outstanding, List.mem_singleton] at hq; subst hq
    cases r <;> simp only [wDeliver, WPc.meas] <;> first | exact afterListings_meas _ _ | simp [lt2]
  | conc c p =>
    simp only [WPc.outstanding, List.mem_append] at hq
    rcases hq with hq | hq
    · -- listComplete outstanding: c = none
      cases c with
      | some c1 => simp at hq
      | none =>
        simp only [Option.isNone_none, if_true, List.mem_singleton] at hq; subst hq
        cases r <;> simp only [wDeliver] <;> exact concJoin_meas _ _ _ (by simp [noneCount])
    · cases p with
      | some p1 => simp at hq
      | none =>
        simp only [Option.isNone_none, if_true, List.mem_singleton] at hq; subst hq
        cases c with
        | none => cases r <;> simp only [wDeliver] <;> exact concJoin_meas _ _ _ (by simp [noneCount])
        | some c1 => cases r <;> simp only [wDeliver] <;> exact concJoin_meas _ _ _ (by simp [noneCount])
  | waiting rem =>
    simp only [WPc.outstanding, List.mem_map] at hq
    obtain ⟨id, hid, rfl⟩ := hq
    cases r
    case waitCode =>
      simp only [wDeliver]
      by_cases he : (rem.erase id).isEmpty = true
      · rw [if_pos he]; simp [WPc.meas, lt2]
      · rw [if_neg he]; show lt2 (1, (rem.erase id).length) (1, rem.length)
        exact Or.inr ⟨rfl, length_erase_lt rem id hid⟩
    all_goals simp [wDeliver, WPc.meas, lt2]
  | ret res => simp [WPc.outstanding] at hq

theorem finishWait_meas (f : Bool) (w : WPc) : (finishWait f w).meas.1 ≤ 1 + w.meas.1 ∧
    ((finishWait f w).meas.1 = 1 + w.meas.1 → (finishWait f w).meas.2 = w.meas.2) := by
  cases w with
  | ret res => cases f <;> cases res <;> simp [finishWait, PPc.meas, WPc.meas]
  | seqPending => simp [finishWait, PPc.meas]
  | seqComplete p => simp [finishWait, PPc.meas]
  | conc a b => simp [finishWait, PPc.meas]
  | waiting rem => simp [finishWait, PPc.meas]

theorem start_meas (v : Variant) : (WPc.start v).meas.1 ≤ 3 := by
  unfold WPc.start; split <;> simp [WPc.meas]

/-- consuming the reply to an outstanding request of the pay wrapper decreases its measure -/
theorem pDeliver_meas (v : Variant) (p : PPc) (q : PReq) (r : PReply) (hq : q ∈ p.outstanding) :
    lt2 (pDeliver v p q r).meas p.meas := by
  cases p with
  | paying =>
    simp only [PPc.outstanding, List.mem_singleton] at hq; subst hq
    simp only [pDeliver, if_true]
    have hs := start_meas v
    have hstart : lt2 (PPc.inWait true (WPc.start v)).meas (6, 0) := by
      show lt2 (1 + (WPc.start v).meas.1, (WPc.start v).meas.2) (6, 0)
      left; show 1 + (WPc.start v).meas.1 < 6; omega
    show lt2 (payDeliver v r).meas (6, 0)
    cases r
    case payComplete pre => simp [payDeliver, PPc.meas, lt2]
    case payFailed warn =>
      cases warn
      · simp only [payDeliver]; split
        · simp [PPc.meas, lt2]
        · exact hstart
      · exact hstart
    all_goals exact hstart
  | inWait f w =>
    simp only [PPc.outstanding] at hq
    have hw := wDeliver_meas w q r hq
    have hf := finishWait_meas f (wDeliver w q r)
    show lt2 (finishWait f (wDeliver w q r)).meas (1 + w.meas.1, w.meas.2)
    simp only [lt2] at hw ⊢
    rcases hw with h1 | ⟨h1, h2⟩
    · left; omega
    · rcases Nat.lt_or_ge (finishWait f (wDeliver w q r)).meas.1 (1 + w.meas.1) with h3 | h3
      · left; exact h3
      · right
        have heq : (finishWait f (wDeliver w q r)).meas.1 = 1 + (wDeliver w q r).meas.1 := by omega
        exact ⟨by omega, by rw [hf.2 heq]; exact h2⟩
  | retWait res => simp [PPc.outstanding] at hq
  | retPay res => simp [PPc.outstanding] at hq

/-- Every continuation of the owner after the reply to an OUTSTANDING request either ends the
    lifecycle (answers everybody / hands over to a bookkeeper / the K4 panic) or moves to a program
    counter of strictly smaller measure. -/
theorem ownerCont_meas (c : Cfg) (v : SVariant) (s : SState) (pc : OPc) (q : SReq) (r : SReply)
    (hq : q ∈ pc.outstanding v) (hm : ∀ pq, q = .prov pq → ∃ pr, r = .prov pr) :
    (∀ pc', ownerCont c v s pc q r = .stay pc' → lt2 pc'.meas pc.meas) ∧
    (∀ pc' mf md, ownerCont c v s pc q r = .pay pc' mf md → lt2 pc'.meas pc.meas) := by
  cases pc with
  | fetch =>
    refine ⟨?_, ?_⟩
    · intro pc' h
      cases r with
      | listed cell =>
        rcases cell with _ | ⟨v0, g0⟩
        · simp only [ownerCont, enterWait] at h; split at h <;> simp at h; subst h; simp [OPc.meas, lt2]
        · cases v0 <;> simp only [ownerCont, enterWait] at h
          · split at h <;> simp at h; subst h; simp [OPc.meas, lt2]
          · simp at h; subst h
            have := start_meas v.prov
            simp only [OPc.meas, lt2]; left; omega
          · simp at h
      | listErr => simp [ownerCont] at h
      | written g0 => simp [ownerCont] at h
      | writeErr => simp [ownerCont] at h
      | prov pr => simp [ownerCont] at h
    · intro pc' mf md h
      cases r with
      | listed cell =>
        rcases cell with _ | ⟨v0, g0⟩
        · simp only [ownerCont, enterWait] at h; split at h <;> simp at h
        · cases v0 <;> simp only [ownerCont, enterWait] at h
          · split at h <;> simp at h
          · simp at h
          · simp at h
      | listErr => simp [ownerCont] at h
      | written g0 => simp [ownerCont] at h
      | writeErr => simp [ownerCont] at h
      | prov pr => simp [ownerCont] at h
  | rWait aid g t w =>
    simp only [OPc.outstanding, List.mem_map] at hq
    obtain ⟨pq, hpq, rfl⟩ := hq
    obtain ⟨pr, rfl⟩ := hm pq rfl
    simp only [ownerCont]
    have hw := wDeliver_meas w pq pr hpq
    refine ⟨?_, ?_⟩
    · intro pc' h
      cases hw' : wDeliver w pq pr with
      | ret res =>
        rw [hw'] at h
        cases res <;> simp [afterRestartWait] at h
        subst h; simp only [OPc.meas, lt2]; left; omega
      | seqPending => rw [hw'] at h hw; simp [afterRestartWait] at h; subst h; simp only [OPc.meas, lt2] at hw ⊢; omega
      | seqComplete p => rw [hw'] at h hw; simp [afterRestartWait] at h; subst h; simp only [OPc.meas, lt2] at hw ⊢; omega
      | conc a b => rw [hw'] at h hw; simp [afterRestartWait] at h; subst h; simp only [OPc.meas, lt2] at hw ⊢; omega
      | waiting rem => rw [hw'] at h hw; simp [afterRestartWait] at h; subst h; simp only [OPc.meas, lt2] at hw ⊢; omega
    · intro pc' mf md h
      cases hw' : wDeliver w pq pr with
      | ret res => rw [hw'] at h; cases res <;> simp [afterRestartWait] at h
      | seqPending => rw [hw'] at h; simp [afterRestartWait] at h
      | seqComplete p => rw [hw'] at h; simp [afterRestartWait] at h
      | conc a b => rw [hw'] at h; simp [afterRestartWait] at h
      | waiting rem => rw [hw'] at h; simp [afterRestartWait] at h
  | rFailA aid g t =>
    cases r <;> simp only [ownerCont] <;> refine ⟨?_, by intro pc' mf md h; simp at h⟩ <;> intro pc' h <;> simp at h
    subst h; simp [OPc.meas, lt2]
  | rFailS aid g t =>
    cases r <;> simp only [ownerCont, enterWait] <;> refine ⟨?_, ?_⟩
    all_goals first
      | (intro pc' h; split at h <;> simp at h; subst h; simp [OPc.meas, lt2])
      | (intro pc' mf md h; split at h <;> simp at h)
      | (intro pc' h; simp at h)
      | (intro pc' mf md h; simp at h)
  | waitHtlcs d => simp [OPc.outstanding] at hq
  | gotReady => simp [OPc.outstanding] at hq
  | gotParams a b => simp [OPc.outstanding] at hq
  | addS aid t mf0 md0 =>
    cases r <;> simp only [ownerCont] <;> refine ⟨?_, by intro pc' mf md h; simp at h⟩ <;> intro pc' h <;> simp at h
    subst h; simp [OPc.meas, lt2]
  | addA aid g mf0 md0 =>
    cases r <;> simp only [ownerCont] <;> refine ⟨by intro pc' h; simp at h, ?_⟩ <;> intro pc' mf md h <;> simp at h
    obtain ⟨rfl, _⟩ := h; simp [OPc.meas, PPc.meas, lt2]
  | paying aid g p =>
    simp only [OPc.outstanding, List.mem_map] at hq
    obtain ⟨pq, hpq, rfl⟩ := hq
    obtain ⟨pr, rfl⟩ := hm pq rfl
    simp only [ownerCont]
    have hp := pDeliver_meas v.prov p pq pr hpq
    refine ⟨?_, ?_⟩
    · intro pc' h
      cases hp' : pDeliver v.prov p pq pr with
      | retPay res => rw [hp'] at h; cases res <;> simp [afterPay] at h
      | paying => rw [hp'] at h hp; simp [afterPay] at h; subst h; exact hp
      | inWait f w => rw [hp'] at h hp; simp [afterPay] at h; subst h; exact hp
      | retWait res => rw [hp'] at h hp; simp [afterPay] at h; subst h; exact hp
    · intro pc' mf md h
      cases hp' : pDeliver v.prov p pq pr with
      | retPay res => rw [hp'] at h; cases res <;> simp [afterPay] at h
      | paying => rw [hp'] at h; simp [afterPay] at h
      | inWait f w => rw [hp'] at h; simp [afterPay] at h
      | retWait res => rw [hp'] at h; simp [afterPay] at h
  | panicked => simp [OPc.outstanding] at hq

end Tramp
