/- Lemmas about the framing (M8). -/
import Tramp.Model.Wire

namespace Tramp

theorem findSep_bound : ∀ (buf : Bytes) (i : Nat), findSep buf = some i → i + 2 ≤ buf.length
  | [], i, h => by simp [findSep] at h
  | [_], i, h => by simp [findSep] at h
  | a :: b :: rest, i, h => by
    simp only [findSep] at h
    split at h
    · simp at h; subst h; simp
    · simp only [Option.map_eq_some_iff] at h
      obtain ⟨j, hj, rfl⟩ := h
      have := findSep_bound (b :: rest) j hj
      simp at this ⊢; omega

theorem findSep_append : ∀ (a b : Bytes) (i : Nat), findSep a = some i → findSep (a ++ b) = some i
  | [], b, i, h => by simp [findSep] at h
  | [_], b, i, h => by simp [findSep] at h
  | x :: y :: rest, b, i, h => by
    simp only [findSep] at h
    simp only [List.cons_append, findSep]
    split at h
    · rename_i hc; simp at h; subst h; simp [hc]
    · rename_i hc
      simp only [Option.map_eq_some_iff] at h
      obtain ⟨j, hj, rfl⟩ := h
      have := findSep_append (y :: rest) b j hj
      simp only [List.cons_append] at this
      simp [hc, this]

theorem decodeOne_append (a b m r : Bytes) (h : decodeOne a = some (m, r)) :
    decodeOne (a ++ b) = some (m, r ++ b) := by
  unfold decodeOne at *
  split at h
  · rename_i i hi
    have hb := findSep_bound a i hi
    rw [findSep_append a b i hi]
    simp only [Option.some.injEq, Prod.mk.injEq] at h ⊢
    obtain ⟨rfl, rfl⟩ := h
    constructor
    · rw [List.take_append_of_le_length (by omega)]
    · rw [List.drop_append_of_le_length (by omega)]
  · simp at h

theorem decodeOne_shrinks (buf m r : Bytes) (h : decodeOne buf = some (m, r)) : r.length + 2 ≤ buf.length := by
  unfold decodeOne at h
  split at h
  · rename_i i hi
    have hb := findSep_bound buf i hi
    simp only [Option.some.injEq, Prod.mk.injEq] at h
    rw [← h.2]; simp; omega
  · simp at h

theorem decodeAllAux_fuel : ∀ (f1 f2 : Nat) (buf : Bytes), buf.length ≤ f1 → buf.length ≤ f2 →
    decodeAllAux f1 buf = decodeAllAux f2 buf
  | 0, f2, buf, h1, _ => by
    have : buf = [] := List.length_eq_zero_iff.mp (by omega)
    subst this
    cases f2 <;> simp [decodeAllAux, decodeOne, findSep]
  | f1 + 1, 0, buf, _, h2 => by
    have : buf = [] := List.length_eq_zero_iff.mp (by omega)
    subst this
    simp [decodeAllAux, decodeOne, findSep]
  | f1 + 1, f2 + 1, buf, h1, h2 => by
    simp only [decodeAllAux]
    split
    · rfl
    · rename_i m rest hd
      have := decodeOne_shrinks buf m rest hd
      rw [decodeAllAux_fuel f1 f2 rest (by omega) (by omega)]

/-- fuel-free unfolding of `decodeAll` -/
theorem decodeAll_unfold (buf : Bytes) :
    decodeAll buf = match decodeOne buf with
      | none => ([], buf)
      | some (m, rest) => (m :: (decodeAll rest).1, (decodeAll rest).2) := by
  unfold decodeAll
  cases hl : buf.length with
  | zero =>
    have : buf = [] := List.length_eq_zero_iff.mp hl
    subst this
    simp [decodeAllAux, decodeOne, findSep]
  | succ n =>
    simp only [decodeAllAux]
    cases hd : decodeOne buf with
    | none => rfl
    | some p =>
      obtain ⟨m, rest⟩ := p
      have := decodeOne_shrinks buf m rest hd
      simp only
      rw [decodeAllAux_fuel n rest.length rest (by omega) (Nat.le_refl _)]

/-- decoding is compositional over concatenation: what was left over is simply continued -/
theorem decodeAll_append (a b : Bytes) :
    decodeAll (a ++ b) =
      ((decodeAll a).1 ++ (decodeAll ((decodeAll a).2 ++ b)).1, (decodeAll ((decodeAll a).2 ++ b)).2) := by
  generalize hn : a.length = n
  induction n using Nat.strongRecOn generalizing a with
  | _ n ih =>
    rw [decodeAll_unfold a]
    cases hd : decodeOne a with
    | none => simp
    | some p =>
      obtain ⟨m, r⟩ := p
      simp only
      have hs := decodeOne_shrinks a m r hd
      rw [decodeAll_unfold (a ++ b), decodeOne_append a b m r hd]
      simp only
      rw [ih r.length (by omega) r rfl]
      simp

/-- after decoding, the residual buffer holds no complete message -/
theorem decodeAll_residual (buf : Bytes) : decodeOne (decodeAll buf).2 = none := by
  generalize hn : buf.length = n
  induction n using Nat.strongRecOn generalizing buf with
  | _ n ih =>
    rw [decodeAll_unfold buf]
    cases hd : decodeOne buf with
    | none => simpa using hd
    | some p =>
      obtain ⟨m, r⟩ := p
      simp only
      have hs := decodeOne_shrinks buf m r hd
      exact ih r.length (by omega) r rfl

theorem decodeAll_of_none (buf : Bytes) (h : decodeOne buf = none) : decodeAll buf = ([], buf) := by
  rw [decodeAll_unfold, h]

def NoNL (m : Bytes) : Prop := ∀ x ∈ m, x ≠ NL

theorem findSep_encoded : ∀ (m rest : Bytes), NoNL m → findSep (m ++ NL :: NL :: rest) = some m.length
  | [], rest, _ => by simp [findSep]
  | x :: m, rest, h => by
    have hx : x ≠ NL := h x (by simp)
    have hm : NoNL m := fun y hy => h y (by simp [hy])
    have ih := findSep_encoded m rest hm
    cases m with
    | nil =>
      simp [findSep, hx]
    | cons y m' =>
      simp only [List.cons_append] at ih ⊢
      simp only [findSep]
      rw [if_neg (by intro hc; exact hx hc.1)]
      rw [ih]; simp

theorem decodeOne_encoded (m rest : Bytes) (h : NoNL m) :
    decodeOne (encodeMsg m ++ rest) = some (m, rest) := by
  unfold decodeOne encodeMsg
  have : m ++ [NL, NL] ++ rest = m ++ NL :: NL :: rest := by simp
  rw [this, findSep_encoded m rest h]
  simp

end Tramp
