/-
The table-entry part of the system invariant (DESIGN.md §8.0 (B)): bookkeeping of amounts, expiries,
the single-shot channels, and what the owner's program counter implies about readiness.
Independent of the node: holds under every fault.
-/
import Tramp.Model.System
import Tramp.Props.C12

namespace Tramp

def sumAmounts (l : List Inv) : Nat := (l.map (·.amount)).sum

/-- the exact requirement `amount + base + ⌊amount·ppm/10⁶⌋` -/
def needFor (c : Cfg) (amount : Nat) : Nat := amount + c.feeBase + amount * c.feePpm / 1000000

def OPc.pastReady : OPc → Bool
  | .gotReady => true
  | .gotParams _ _ => true
  | .addS _ _ _ _ => true
  | .addA _ _ _ _ => true
  | .paying _ _ _ => true
  | _ => false

/-- the fee budget a program counter carries -/
def OPc.budget : OPc → Option Nat
  | .gotParams mf _ => some mf
  | .addS _ _ mf _ => some mf
  | .addA _ _ mf _ => some mf
  | _ => none

structure EInv (c : Cfg) (s : SState) (e : PEntry) (o : Owner) : Prop where
  recvLe   : e.received ≤ sumAmounts e.listeners
  cltvLe   : ∀ i ∈ e.listeners, e.cltv ≤ i.expiry
  ready    : e.readySent = true → needFor c e.info.amount ≤ e.received
  failBuf  : ∀ r, e.failBuf = some r → e.isFailReq = true ∧ ∃ fr, r = .fail fr
  readyBuf : e.readyBuf = true → e.readySent = true
  sentOr   : e.readySent = true → e.isReady = true ∨ e.isFailReq = true
  isReady  : e.isReady = true → e.readySent = true ∧ e.isFailReq = false
  past     : o.pc.pastReady = true → e.readySent = true
  budget   : ∀ mf, o.pc.budget = some mf → mf + e.info.amount ≤ e.received
  ids      : (e.listeners.map (·.id)).Nodup ∧ ∀ i ∈ e.listeners, i.id < s.nextInv

def EInvS (c : Cfg) (s : SState) : Prop := ∀ e o, s.active = some (e, o) → EInv c s e o

theorem feeOk_need {c : Cfg} {t a : Nat} (h : feeOk c t a = true) : needFor c a ≤ t := by
  unfold feeOk at h
  split at h
  · rename_i b hb
    subst h
    have := c12_sound c.feeBase c.feePpm t a hb
    unfold feeExact at this; unfold needFor; omega
  · simp at h

theorem satAdd_le (a b : Nat) : satAdd a b ≤ a + b := by unfold satAdd; split <;> omega
theorem le_satAdd (a b : Nat) (h : a < U64) : a ≤ satAdd a b := by unfold satAdd U64 at *; split <;> omega

theorem entry_fail_fields (e : PEntry) (r : Resp) :
    (e.fail r).listeners = e.listeners ∧ (e.fail r).received = e.received ∧ (e.fail r).cltv = e.cltv ∧
    (e.fail r).info = e.info ∧ (e.fail r).readySent = e.readySent ∧ (e.fail r).readyBuf = e.readyBuf := by
  unfold PEntry.fail; split <;> simp

/-- `fail` keeps the entry invariant (any response that is a failure) -/
theorem einv_fail {c : Cfg} {s : SState} {e : PEntry} {o : Owner} (h : EInv c s e o) (fr : FailReason) :
    EInv c s (e.fail (.fail fr)) o := by
  unfold PEntry.fail
  by_cases hf : e.isFailReq = true
  · rw [if_pos hf]; exact h
  · rw [if_neg hf]
    refine ⟨h.recvLe, h.cltvLe, h.ready, ?_, h.readyBuf, ?_, ?_, h.past, h.budget, h.ids⟩
    · intro r hr; simp only [Option.some.injEq] at hr; exact ⟨rfl, fr, hr.symm⟩
    · intro _; exact Or.inr rfl
    · intro hr; simp at hr

theorem einv_failIf {c : Cfg} {s : SState} {e : PEntry} {o : Owner} (h : EInv c s e o) (b : Bool) (fr : FailReason) :
    EInv c s (e.failIf b (.fail fr)) o := by
  unfold PEntry.failIf; split
  · exact einv_fail h fr
  · exact h

theorem einv_checks {c : Cfg} {s : SState} {e : PEntry} {o : Owner} (h : EInv c s e o) (info : SInfo)
    (relExp : Int) (total : Nat) : EInv c s (e.checks c info relExp total) o := by
  unfold PEntry.checks foei
  exact einv_failIf (einv_failIf (einv_failIf h _ _) _ _) _ _

theorem checks_info (c : Cfg) (e : PEntry) (info : SInfo) (relExp : Int) (total : Nat) :
    (e.checks c info relExp total).info = e.info := by
  unfold PEntry.checks PEntry.failIf
  repeat' split
  all_goals simp [(entry_fail_fields _ _).2.2.2.1]

/-- adding an HTLC keeps the entry invariant -/
theorem einv_add {c : Cfg} {s : SState} {e : PEntry} {o : Owner} (h : EInv c s e o) (amount expiry : Nat)
    (hrecv : e.received < U64) :
    EInv c { s with nextInv := s.nextInv + 1 } (e.add c ⟨s.nextInv, amount, expiry⟩) o := by
  have hpush_recv : (e.push ⟨s.nextInv, amount, expiry⟩).received ≤ sumAmounts (e.push ⟨s.nextInv, amount, expiry⟩).listeners := by
    simp only [PEntry.push, sumAmounts, List.map_append, List.map_cons, List.map_nil, List.sum_append, List.sum_cons, List.sum_nil]
    have := satAdd_le e.received amount
    have := h.recvLe
    unfold sumAmounts at this
    omega
  have hmono : e.received ≤ (e.push ⟨s.nextInv, amount, expiry⟩).received := le_satAdd _ _ hrecv
  have hcltv : ∀ i ∈ (e.push ⟨s.nextInv, amount, expiry⟩).listeners, (e.push ⟨s.nextInv, amount, expiry⟩).cltv ≤ i.expiry := by
    intro i hi
    simp only [PEntry.push, List.mem_append, List.mem_singleton] at hi ⊢
    rcases hi with hi | rfl
    · have := h.cltvLe i hi; omega
    · simp; omega
  have hids : ((e.push ⟨s.nextInv, amount, expiry⟩).listeners.map (·.id)).Nodup ∧
      ∀ i ∈ (e.push ⟨s.nextInv, amount, expiry⟩).listeners, i.id < s.nextInv + 1 := by
    simp only [PEntry.push, List.map_append, List.map_cons, List.map_nil]
    refine ⟨?_, ?_⟩
    · rw [List.nodup_append]
      refine ⟨h.ids.1, by simp, ?_⟩
      intro a ha b hb
      simp only [List.mem_singleton] at hb; subst hb
      simp only [List.mem_map] at ha
      obtain ⟨i, hi, rfl⟩ := ha
      have := h.ids.2 i hi
      omega
    · intro i hi
      simp only [List.mem_append, List.mem_singleton] at hi
      rcases hi with hi | rfl
      · have := h.ids.2 i hi; omega
      · simp
  unfold PEntry.add
  split
  · rename_i hc
    simp only [PEntry.canReady, Bool.and_eq_true, Bool.not_eq_true'] at hc
    have hneed := feeOk_need hc.2
    refine ⟨hpush_recv, hcltv, fun _ => hneed, ?_, fun _ => rfl, fun _ => Or.inl rfl, fun _ => ⟨rfl, hc.1.2⟩,
      fun _ => rfl, ?_, hids⟩
    · intro r hr; simp only [PEntry.markReady, PEntry.push] at hr; exact h.failBuf r hr
    · intro mf hmf
      have := h.budget mf hmf
      simp only [PEntry.markReady, PEntry.push] at hmono ⊢
      omega
  · refine ⟨hpush_recv, hcltv, ?_, ?_, ?_, ?_, ?_, ?_, ?_, hids⟩
    · intro hr; simp only [PEntry.push] at hr ⊢; have := h.ready hr; simp only [PEntry.push] at hmono; omega
    · intro r hr; simp only [PEntry.push] at hr; exact h.failBuf r hr
    · intro hr; simp only [PEntry.push] at hr ⊢; exact h.readyBuf hr
    · intro hr; simp only [PEntry.push] at hr ⊢; exact h.sentOr hr
    · intro hr; simp only [PEntry.push] at hr ⊢; exact h.isReady hr
    · intro hp; simp only [PEntry.push]; exact h.past hp
    · intro mf hmf
      have := h.budget mf hmf
      simp only [PEntry.push] at hmono ⊢
      omega

theorem einv_new (c : Cfg) (s : SState) (info : SInfo) : EInv c s (PEntry.new info) { pc := .fetch, served := [] } := by
  refine ⟨by simp [PEntry.new, sumAmounts], by simp [PEntry.new], by simp [PEntry.new], by simp [PEntry.new],
    by simp [PEntry.new], by simp [PEntry.new], by simp [PEntry.new], by simp [OPc.pastReady],
    by simp [OPc.budget], by simp [PEntry.new]⟩

/-- received amounts stay below 2⁶⁴ (saturating addition) -/
def RecvBounded (s : SState) : Prop := ∀ e o, s.active = some (e, o) → e.received < U64

end Tramp

namespace Tramp

theorem afterRestartWait_pc {aid g t : Nat} {w : WPc} {pc' : OPc} :
    (afterRestartWait aid g t w = .stay pc' → pc'.pastReady = false ∧ pc'.budget = none) ∧
    (∀ mf md, afterRestartWait aid g t w ≠ .pay pc' mf md) := by
  cases w with
  | ret res => cases res <;> simp [afterRestartWait] <;> (try (intro h; subst h; simp [OPc.pastReady, OPc.budget]))
  | seqPending => simp [afterRestartWait]; intro h; subst h; simp [OPc.pastReady, OPc.budget]
  | seqComplete p => simp [afterRestartWait]; intro h; subst h; simp [OPc.pastReady, OPc.budget]
  | conc a b => simp [afterRestartWait]; intro h; subst h; simp [OPc.pastReady, OPc.budget]
  | waiting rem => simp [afterRestartWait]; intro h; subst h; simp [OPc.pastReady, OPc.budget]

theorem afterPay_pc {aid g : Nat} {p : PPc} {pc' : OPc} :
    (afterPay aid g p = .stay pc' → pc'.pastReady = true ∧ pc'.budget = none) ∧
    (∀ mf md, afterPay aid g p ≠ .pay pc' mf md) := by
  cases p with
  | retPay res => cases res <;> simp [afterPay]
  | paying => simp [afterPay]; intro h; subst h; simp [OPc.pastReady, OPc.budget]
  | inWait f w => simp [afterPay]; intro h; subst h; simp [OPc.pastReady, OPc.budget]
  | retWait res => simp [afterPay]; intro h; subst h; simp [OPc.pastReady, OPc.budget]

/-- a continuation never invents readiness or a budget -/
theorem ownerCont_pcs (c : Cfg) (v : SVariant) (s : SState) (pc : OPc) (q : SReq) (r : SReply) (pc' : OPc) :
    (ownerCont c v s pc q r = .stay pc' →
      (pc'.pastReady = true → pc.pastReady = true) ∧ (∀ mf, pc'.budget = some mf → pc.budget = some mf)) ∧
    (∀ mf md, ownerCont c v s pc q r = .pay pc' mf md →
      pc.pastReady = true ∧ pc'.pastReady = true ∧ pc'.budget = none ∧ pc.budget = some mf) := by
  cases pc with
  | fetch =>
    cases r with
    | listed cell =>
      rcases cell with _ | ⟨v0, g0⟩
      · simp only [ownerCont, enterWait]
        refine ⟨?_, by intro mf md h; split at h <;> simp at h⟩
        intro h; split at h <;> simp at h; subst h; simp [OPc.pastReady, OPc.budget]
      · cases v0 <;> simp only [ownerCont, enterWait]
        · refine ⟨?_, by intro mf md h; split at h <;> simp at h⟩
          intro h; split at h <;> simp at h; subst h; simp [OPc.pastReady, OPc.budget]
        · refine ⟨?_, by intro mf md h; simp at h⟩
          intro h; simp at h; subst h; simp [OPc.pastReady, OPc.budget]
        · exact ⟨by intro h; simp at h, by intro mf md h; simp at h⟩
    | listErr => simp [ownerCont] <;> try (intro h; subst h; exact ⟨fun x => x, fun _ x => x⟩)
    | written g0 => simp [ownerCont] <;> try (intro h; subst h; exact ⟨fun x => x, fun _ x => x⟩)
    | writeErr => simp [ownerCont] <;> try (intro h; subst h; exact ⟨fun x => x, fun _ x => x⟩)
    | prov pr => simp [ownerCont] <;> try (intro h; subst h; exact ⟨fun x => x, fun _ x => x⟩)
  | rWait aid g t w =>
    cases r with
    | prov pr =>
      cases q with
      | prov pq =>
        simp only [ownerCont]
        have := @afterRestartWait_pc aid g t (wDeliver w pq pr) pc'
        exact ⟨fun h => by have h1 := this.1 h; simp [h1.1, h1.2], fun mf md h => absurd h (this.2 mf md)⟩
      | dsList => simp [ownerCont] <;> try (intro h; subst h; exact ⟨fun x => x, fun _ x => x⟩)
      | dsWriteState a b => simp [ownerCont] <;> try (intro h; subst h; exact ⟨fun x => x, fun _ x => x⟩)
      | dsWriteAttempt a b => simp [ownerCont] <;> try (intro h; subst h; exact ⟨fun x => x, fun _ x => x⟩)
    | listed cell => simp [ownerCont] <;> try (intro h; subst h; exact ⟨fun x => x, fun _ x => x⟩)
    | listErr => simp [ownerCont] <;> try (intro h; subst h; exact ⟨fun x => x, fun _ x => x⟩)
    | written g0 => simp [ownerCont] <;> try (intro h; subst h; exact ⟨fun x => x, fun _ x => x⟩)
    | writeErr => simp [ownerCont] <;> try (intro h; subst h; exact ⟨fun x => x, fun _ x => x⟩)
  | rFailA aid g t =>
    cases r <;> simp only [ownerCont] <;> refine ⟨?_, by intro mf md h; simp at h⟩ <;> intro h <;> simp at h
    subst h; simp [OPc.pastReady, OPc.budget]
  | rFailS aid g t =>
    cases r <;> simp only [ownerCont, enterWait]
    case written g0 =>
      refine ⟨?_, by intro mf md h; split at h <;> simp at h⟩
      intro h; split at h <;> simp at h; subst h; simp [OPc.pastReady, OPc.budget]
    all_goals exact ⟨by intro h; simp at h, by intro mf md h; simp at h⟩
  | waitHtlcs d => cases r <;> simp [ownerCont] <;> try (intro h; subst h; exact ⟨fun x => x, fun _ x => x⟩)
  | gotReady => cases r <;> simp [ownerCont] <;> try (intro h; subst h; exact ⟨fun x => x, fun _ x => x⟩)
  | gotParams a b => cases r <;> simp [ownerCont] <;> try (intro h; subst h; exact ⟨fun x => x, fun _ x => x⟩)
  | addS aid t mf0 md0 =>
    cases r <;> simp only [ownerCont]
    case written g0 =>
      refine ⟨?_, by intro mf md h; simp at h⟩
      intro h; simp at h; subst h; simp [OPc.pastReady, OPc.budget]
    all_goals exact ⟨by intro h; simp at h, by intro mf md h; simp at h⟩
  | addA aid g mf0 md0 =>
    cases r <;> simp only [ownerCont]
    case written g0 =>
      refine ⟨by intro h; simp at h, ?_⟩
      intro mf md h; simp at h
      obtain ⟨h1, h2, h3⟩ := h
      subst h1; subst h2
      simp [OPc.pastReady, OPc.budget]
    all_goals exact ⟨by intro h; simp at h, by intro mf md h; simp at h⟩
  | paying aid g p =>
    cases r with
    | prov pr =>
      cases q with
      | prov pq =>
        simp only [ownerCont]
        have := @afterPay_pc aid g (pDeliver v.prov p pq pr) pc'
        exact ⟨fun h => by have h1 := this.1 h; simp [h1.1, h1.2, OPc.pastReady], fun mf md h => absurd h (this.2 mf md)⟩
      | dsList => simp [ownerCont, OPc.pastReady] <;> try (intro h; subst h; first | exact ⟨fun x => x, fun _ x => x⟩ | exact fun _ x => x)
      | dsWriteState a b => simp [ownerCont, OPc.pastReady] <;> try (intro h; subst h; first | exact ⟨fun x => x, fun _ x => x⟩ | exact fun _ x => x)
      | dsWriteAttempt a b => simp [ownerCont, OPc.pastReady] <;> try (intro h; subst h; first | exact ⟨fun x => x, fun _ x => x⟩ | exact fun _ x => x)
    | listed cell => simp [ownerCont, OPc.pastReady] <;> try (intro h; subst h; first | exact ⟨fun x => x, fun _ x => x⟩ | exact fun _ x => x)
    | listErr => simp [ownerCont, OPc.pastReady] <;> try (intro h; subst h; first | exact ⟨fun x => x, fun _ x => x⟩ | exact fun _ x => x)
    | written g0 => simp [ownerCont, OPc.pastReady] <;> try (intro h; subst h; first | exact ⟨fun x => x, fun _ x => x⟩ | exact fun _ x => x)
    | writeErr => simp [ownerCont, OPc.pastReady] <;> try (intro h; subst h; first | exact ⟨fun x => x, fun _ x => x⟩ | exact fun _ x => x)
  | panicked => cases r <;> simp [ownerCont] <;> try (intro h; subst h; exact ⟨fun x => x, fun _ x => x⟩)

end Tramp

namespace Tramp

theorem einv_owner_change {c : Cfg} {s : SState} {e : PEntry} {o : Owner} (h : EInv c s e o) (pc' : OPc)
    (served' : List (SReq × SReply)) (n : Nat) (hn : s.nextInv ≤ n)
    (hp : pc'.pastReady = true → o.pc.pastReady = true)
    (hb : ∀ mf, pc'.budget = some mf → o.pc.budget = some mf) (s' : SState) (hs' : s'.nextInv = n) :
    EInv c s' e { pc := pc', served := served' } := by
  refine ⟨h.recvLe, h.cltvLe, h.ready, h.failBuf, h.readyBuf, h.sentOr, h.isReady, fun hx => h.past (hp hx),
    fun mf hmf => h.budget mf (hb mf hmf), h.ids.1, ?_⟩
  intro i hi; have := h.ids.2 i hi; omega

theorem satAdd_lt (a b : Nat) : satAdd a b < U64 := by unfold satAdd U64; split <;> omega

theorem add_received_lt (c : Cfg) (e : PEntry) (i : Inv) : (e.add c i).received < U64 := by
  unfold PEntry.add
  split <;> simp only [PEntry.markReady, PEntry.push] <;> exact satAdd_lt _ _

theorem checks_received (c : Cfg) (e : PEntry) (info : SInfo) (relExp : Int) (total : Nat) :
    (e.checks c info relExp total).received = e.received := by
  unfold PEntry.checks PEntry.failIf
  repeat' split
  all_goals simp [(entry_fail_fields _ _).2.1]

/-- the step did not touch the entry; the owner did not gain readiness or a budget -/
def EntryStable (s s' : SState) : Prop :=
  s'.nextInv = s.nextInv ∧
  (s'.active = none ∨
   ∃ e o o', s.active = some (e, o) ∧ s'.active = some (e, o') ∧
     (o'.pc.pastReady = true → o.pc.pastReady = true) ∧ (∀ mf, o'.pc.budget = some mf → o.pc.budget = some mf))

theorem einv_stable {c : Cfg} {s s' : SState} (h : EInvS c s) (hb : RecvBounded s) (hst : EntryStable s s') :
    EInvS c s' ∧ RecvBounded s' := by
  obtain ⟨hn, hcase⟩ := hst
  rcases hcase with hnone | ⟨e, o, o', ha, ha', hp, hbud⟩
  · exact ⟨by intro e o hact; rw [hnone] at hact; simp at hact, by intro e o hact; rw [hnone] at hact; simp at hact⟩
  · refine ⟨?_, ?_⟩
    · intro e1 o1 hact
      rw [ha'] at hact; simp only [Option.some.injEq, Prod.mk.injEq] at hact
      obtain ⟨rfl, rfl⟩ := hact
      have := einv_owner_change (h e o ha) o'.pc o'.served s.nextInv (Nat.le_refl _) hp hbud s' hn
      exact this
    · intro e1 o1 hact
      rw [ha'] at hact; simp only [Option.some.injEq, Prod.mk.injEq] at hact
      obtain ⟨rfl, _⟩ := hact
      exact hb e o ha

theorem stable_same {s s' : SState} (ha : s'.active = s.active) (hn : s'.nextInv = s.nextInv) : EntryStable s s' := by
  refine ⟨hn, ?_⟩
  cases hact : s.active with
  | none => left; rw [ha, hact]
  | some p => obtain ⟨e, o⟩ := p; right; exact ⟨e, o, o, rfl, by rw [ha, hact], fun x => x, fun _ x => x⟩

theorem nodeServe_frame {s s1 : SState} {q : SReq} {r : SReply} (h : nodeServe s q = some (s1, r)) :
    s1.active = s.active ∧ s1.nextInv = s.nextInv := by
  cases q with
  | dsList => simp [nodeServe] at h; obtain ⟨rfl, _⟩ := h; exact ⟨rfl, rfl⟩
  | dsWriteState v m =>
    simp only [nodeServe] at h
    split at h <;> simp only [Option.some.injEq, Prod.mk.injEq] at h <;> obtain ⟨rfl, _⟩ := h <;> exact ⟨rfl, rfl⟩
  | dsWriteAttempt a m =>
    simp only [nodeServe] at h
    split at h <;> simp only [Option.some.injEq, Prod.mk.injEq] at h <;> obtain ⟨rfl, _⟩ := h <;> exact ⟨rfl, rfl⟩
  | prov pq =>
    simp only [nodeServe] at h
    split at h
    · simp only [Option.some.injEq, Prod.mk.injEq] at h; obtain ⟨rfl, _⟩ := h; exact ⟨rfl, rfl⟩
    · simp at h

theorem nodeFault_frame {s s1 : SState} {q : SReq} {f : Fault} {r : SReply} (h : nodeFault s q f = some (s1, r)) :
    s1.active = s.active ∧ s1.nextInv = s.nextInv := by
  cases f with
  | writeReject =>
    simp only [nodeFault] at h
    split at h
    · simp only [Option.some.injEq, Prod.mk.injEq] at h; obtain ⟨rfl, _⟩ := h; exact ⟨rfl, rfl⟩
    · simp at h
  | writeLostAck =>
    simp only [nodeFault] at h
    split at h
    · cases hn : nodeServe s q with
      | none => rw [hn] at h; simp at h
      | some p =>
        obtain ⟨s2, r2⟩ := p
        rw [hn] at h; simp only [Option.some.injEq, Prod.mk.injEq] at h
        obtain ⟨rfl, _⟩ := h
        exact nodeServe_frame hn
    · simp at h
  | writeLost =>
    simp only [nodeFault] at h
    split at h
    · split at h
      · simp only [Option.some.injEq, Prod.mk.injEq] at h; obtain ⟨rfl, _⟩ := h; exact ⟨rfl, rfl⟩
      · simp at h
    · simp at h
  | readErr =>
    cases q with
    | dsList => simp [nodeFault] at h; obtain ⟨rfl, _⟩ := h; exact ⟨rfl, rfl⟩
    | dsWriteState v m => simp [nodeFault] at h
    | dsWriteAttempt a m => simp [nodeFault] at h
    | prov pq =>
      cases pq <;> simp [nodeFault] at h
      all_goals (obtain ⟨rfl, _⟩ := h; exact ⟨rfl, rfl⟩)

theorem stable_serveOwner {s s' : SState} {outs : List Out} (q : SReq) (res : Option (SState × SReply))
    (hres : ∀ s1 r, res = some (s1, r) → s1.active = s.active ∧ s1.nextInv = s.nextInv)
    (hs : stepServeOwner .current s q res = some (s', outs)) : EntryStable s s' := by
  unfold stepServeOwner at hs
  cases hact : s.active with
  | none => rw [hact] at hs; simp at hs
  | some p =>
    obtain ⟨e0, o0⟩ := p
    rw [hact] at hs
    cases hr : res with
    | none => rw [hr] at hs; simp at hs
    | some p1 =>
      obtain ⟨s1, r⟩ := p1
      rw [hr] at hs
      simp only at hs
      split at hs
      · simp only [Option.some.injEq, Prod.mk.injEq] at hs
        rw [← hs.1]
        have ⟨_, hn1⟩ := hres s1 r hr
        exact ⟨hn1, Or.inr ⟨e0, o0, _, hact, rfl, fun x => x, fun _ x => x⟩⟩
      · simp at hs

theorem stable_serveBk {s s' : SState} {outs : List Out} (id : Nat) (q : SReq) (res : Option (SState × SReply))
    (hres : ∀ s1 r, res = some (s1, r) → s1.active = s.active ∧ s1.nextInv = s.nextInv)
    (hs : stepServeBk .current s id q res = some (s', outs)) : EntryStable s s' := by
  unfold stepServeBk at hs
  cases hf : findBk s.bks id with
  | none => rw [hf] at hs; simp at hs
  | some b =>
    rw [hf] at hs
    cases hr : res with
    | none => rw [hr] at hs; simp at hs
    | some p1 =>
      obtain ⟨s1, r⟩ := p1
      rw [hr] at hs
      simp only at hs
      split at hs
      · simp only [Option.some.injEq, Prod.mk.injEq] at hs
        rw [← hs.1]
        have ⟨ha1, hn1⟩ := hres s1 r hr
        exact stable_same ha1 hn1
      · simp at hs

theorem applyONext_stable (c : Cfg) (s : SState) (e : PEntry) (o : Owner) (q : SReq) (r : SReply)
    (hact : s.active = some (e, o)) :
    EntryStable s (applyONext .current s e o q (ownerCont c .current s o.pc q r)).1 := by
  have hpcs := ownerCont_pcs c .current s o.pc q r
  cases hn : ownerCont c .current s o.pc q r with
  | stay pc' =>
    have := (hpcs pc').1 hn
    exact ⟨rfl, Or.inr ⟨e, o, _, hact, rfl, this.1, this.2⟩⟩
  | pay pc' mf md =>
    have := (hpcs pc').2 mf md hn
    exact ⟨rfl, Or.inr ⟨e, o, _, hact, rfl, fun _ => this.1, fun mf' h => by simp only at h; rw [this.2.2.1] at h; simp at h⟩⟩
  | finish r' => exact ⟨rfl, Or.inl rfl⟩
  | finishBk r' b => exact ⟨rfl, Or.inl rfl⟩
  | panic => exact ⟨rfl, Or.inr ⟨e, o, _, hact, rfl, by simp [OPc.pastReady], by simp [OPc.budget]⟩⟩

/-- the entry invariant and the bound on the received sum are inductive, under EVERY action -/
theorem estep_inv (c : Cfg) {s s' : SState} {outs : List Out} (a : SAct) (h : EInvS c s) (hb : RecvBounded s)
    (hs : sstep c .current s a = some (s', outs)) : EInvS c s' ∧ RecvBounded s' := by
  cases a with
  | arrive info amount expiry relExp total =>
    simp only [sstep, stepArrive, SVariant.current, Bool.false_and, Bool.false_eq_true, if_false] at hs
    cases hact : s.active with
    | none =>
      rw [hact] at hs
      simp only [Option.some.injEq, Prod.mk.injEq] at hs
      rw [← hs.1]
      refine ⟨?_, ?_⟩
      · intro e o ha
        simp only [Option.some.injEq, Prod.mk.injEq] at ha
        obtain ⟨rfl, rfl⟩ := ha
        have h0 : EInv c s (PEntry.new info) { pc := .fetch, served := [] } := einv_new c s info
        have h1 := einv_checks h0 info relExp total
        have h2 := einv_add (c := c) h1 amount expiry (by rw [checks_received]; simp [PEntry.new, U64])
        exact ⟨h2.recvLe, h2.cltvLe, h2.ready, h2.failBuf, h2.readyBuf, h2.sentOr, h2.isReady, h2.past, h2.budget, h2.ids⟩
      · intro e o ha
        simp only [Option.some.injEq, Prod.mk.injEq] at ha
        obtain ⟨rfl, _⟩ := ha
        exact add_received_lt _ _ _
    | some p =>
      obtain ⟨e0, o0⟩ := p
      rw [hact] at hs
      simp only [Option.some.injEq, Prod.mk.injEq] at hs
      rw [← hs.1]
      refine ⟨?_, ?_⟩
      · intro e o ha
        simp only [Option.some.injEq, Prod.mk.injEq] at ha
        obtain ⟨rfl, rfl⟩ := ha
        have h1 := einv_checks (h e0 o0 hact) info relExp total
        have h2 := einv_add (c := c) h1 amount expiry (by rw [checks_received]; exact hb e0 o0 hact)
        exact ⟨h2.recvLe, h2.cltvLe, h2.ready, h2.failBuf, h2.readyBuf, h2.sentOr, h2.isReady, h2.past, h2.budget, h2.ids⟩
      · intro e o ha
        simp only [Option.some.injEq, Prod.mk.injEq] at ha
        obtain ⟨rfl, _⟩ := ha
        exact add_received_lt _ _ _
  | tickMono dt => simp only [sstep, Option.some.injEq, Prod.mk.injEq] at hs; rw [← hs.1]; exact einv_stable h hb (stable_same rfl rfl)
  | tickWall dt => simp only [sstep, Option.some.injEq, Prod.mk.injEq] at hs; rw [← hs.1]; exact einv_stable h hb (stable_same rfl rfl)
  | block n => simp only [sstep, Option.some.injEq, Prod.mk.injEq] at hs; rw [← hs.1]; exact einv_stable h hb (stable_same rfl rfl)
  | crash => simp only [sstep, Option.some.injEq, Prod.mk.injEq] at hs; rw [← hs.1]; exact einv_stable h hb ⟨rfl, Or.inl rfl⟩
  | create id =>
    simp only [sstep] at hs
    split at hs
    · simp only [Option.some.injEq, Prod.mk.injEq] at hs; rw [← hs.1]; exact einv_stable h hb (stable_same rfl rfl)
    · simp at hs
  | resolve id st =>
    simp only [sstep] at hs
    split at hs
    · simp only [Option.some.injEq, Prod.mk.injEq] at hs; rw [← hs.1]; exact einv_stable h hb (stable_same rfl rfl)
    · simp at hs
  | payEnd r =>
    simp only [sstep] at hs
    cases hact : s.active with
    | none => rw [hact] at hs; simp at hs
    | some p =>
      obtain ⟨e0, o0⟩ := p
      rw [hact] at hs
      simp only at hs
      split at hs
      · rename_i aid g hpc
        split at hs
        · simp only [Option.some.injEq, Prod.mk.injEq] at hs
          rw [← hs.1]
          exact einv_stable h hb ⟨rfl, Or.inr ⟨e0, o0, _, hact, rfl, by rw [hpc]; simp, by rw [hpc]; simp⟩⟩
        · simp at hs
      · simp at hs
  | serve t q =>
    cases t with
    | owner =>
      simp only [sstep] at hs
      split at hs
      · simp at hs
      · exact einv_stable h hb (stable_serveOwner q _ (fun s1 r hr => nodeServe_frame hr) hs)
    | bk id =>
      simp only [sstep] at hs
      exact einv_stable h hb (stable_serveBk id q _ (fun s1 r hr => nodeServe_frame hr) hs)
  | fault t q f =>
    cases t with
    | owner =>
      simp only [sstep] at hs
      exact einv_stable h hb (stable_serveOwner q _ (fun s1 r hr => nodeFault_frame hr) hs)
    | bk id =>
      simp only [sstep] at hs
      exact einv_stable h hb (stable_serveBk id q _ (fun s1 r hr => nodeFault_frame hr) hs)
  | deliver t q =>
    cases t with
    | owner =>
      simp only [sstep, stepDeliverOwner] at hs
      cases hact : s.active with
      | none => rw [hact] at hs; simp at hs
      | some p =>
        obtain ⟨e0, o0⟩ := p
        rw [hact] at hs
        simp only at hs
        split at hs
        · cases hl : lookupS o0.served q with
          | none => rw [hl] at hs; simp at hs
          | some r =>
            rw [hl] at hs
            simp only [Option.some.injEq] at hs
            have hs1 : (applyONext .current s e0 o0 q (ownerCont c .current s o0.pc q r)).1 = s' := by rw [hs]
            rw [← hs1]
            exact einv_stable h hb (applyONext_stable c s e0 o0 q r hact)
        · simp at hs
    | bk id =>
      simp only [sstep, stepDeliverBk] at hs
      cases hf : findBk s.bks id with
      | none => rw [hf] at hs; simp at hs
      | some b =>
        rw [hf] at hs
        simp only at hs
        split at hs
        · cases hsv : b.served with
          | none => rw [hsv] at hs; simp at hs
          | some r =>
            rw [hsv] at hs
            simp only at hs
            split at hs <;> simp only [Option.some.injEq, Prod.mk.injEq] at hs <;> rw [← hs.1] <;>
              exact einv_stable h hb (stable_same rfl rfl)
        · simp at hs
  | timerFire =>
    simp only [sstep] at hs
    cases hact : s.active with
    | none => rw [hact] at hs; simp at hs
    | some p =>
      obtain ⟨e0, o0⟩ := p
      rw [hact] at hs
      simp only at hs
      split at hs
      · split at hs
        · simp only [Option.some.injEq, Prod.mk.injEq] at hs; rw [← hs.1]; exact einv_stable h hb ⟨rfl, Or.inl rfl⟩
        · simp at hs
      · simp at hs
  | takeFail =>
    simp only [sstep] at hs
    cases hact : s.active with
    | none => rw [hact] at hs; simp at hs
    | some p =>
      obtain ⟨e0, o0⟩ := p
      rw [hact] at hs
      simp only at hs
      split at hs
      · simp only [Option.some.injEq, Prod.mk.injEq] at hs; rw [← hs.1]; exact einv_stable h hb ⟨rfl, Or.inl rfl⟩
      · simp at hs
  | takeReady =>
    simp only [sstep] at hs
    cases hact : s.active with
    | none => rw [hact] at hs; simp at hs
    | some p =>
      obtain ⟨e0, o0⟩ := p
      rw [hact] at hs
      simp only at hs
      split at hs
      · split at hs
        · rename_i hrb
          simp only [Option.some.injEq, Prod.mk.injEq] at hs
          rw [← hs.1]
          have h0 := h e0 o0 hact
          refine ⟨?_, ?_⟩
          · intro e o ha
            simp only [Option.some.injEq, Prod.mk.injEq] at ha
            obtain ⟨rfl, rfl⟩ := ha
            exact ⟨h0.recvLe, h0.cltvLe, h0.ready, h0.failBuf, by simp, h0.sentOr, h0.isReady,
              fun _ => h0.readyBuf hrb, by simp [OPc.budget], h0.ids⟩
          · intro e o ha
            simp only [Option.some.injEq, Prod.mk.injEq] at ha
            obtain ⟨rfl, _⟩ := ha
            exact hb e0 o0 hact
        · simp at hs
      · simp at hs
  | readParams =>
    simp only [sstep] at hs
    cases hact : s.active with
    | none => rw [hact] at hs; simp at hs
    | some p =>
      obtain ⟨e0, o0⟩ := p
      rw [hact] at hs
      simp only at hs
      split at hs
      · rename_i hpc
        simp only [Option.some.injEq, Prod.mk.injEq] at hs
        rw [← hs.1]
        have h0 := h e0 o0 hact
        have hrs : e0.readySent = true := h0.past (by rw [hpc]; rfl)
        have hneed := h0.ready hrs
        refine ⟨?_, ?_⟩
        · intro e o ha
          simp only [Option.some.injEq, Prod.mk.injEq] at ha
          obtain ⟨rfl, rfl⟩ := ha
          refine ⟨h0.recvLe, h0.cltvLe, h0.ready, h0.failBuf, h0.readyBuf, h0.sentOr, h0.isReady, fun _ => hrs, ?_, h0.ids⟩
          intro mf hmf
          simp only [OPc.budget, Option.some.injEq] at hmf
          unfold needFor at hneed
          omega
        · intro e o ha
          simp only [Option.some.injEq, Prod.mk.injEq] at ha
          obtain ⟨rfl, _⟩ := ha
          exact hb e0 o0 hact
      · simp at hs
  | readHeight =>
    simp only [sstep] at hs
    cases hact : s.active with
    | none => rw [hact] at hs; simp at hs
    | some p =>
      obtain ⟨e0, o0⟩ := p
      rw [hact] at hs
      simp only at hs
      split at hs
      · rename_i mf exp hpc
        simp only [Option.some.injEq, Prod.mk.injEq] at hs
        rw [← hs.1]
        exact einv_stable h hb ⟨rfl, Or.inr ⟨e0, o0, _, hact, rfl, by rw [hpc]; simp [OPc.pastReady],
          by rw [hpc]; intro mf' hm; simp only [OPc.budget, Option.some.injEq] at hm ⊢; exact hm⟩⟩
      · simp at hs

theorem einv_reachable (c : Cfg) (acts : List SAct) (s : SState) (hr : srun c .current SState.init acts = some s) :
    EInvS c s ∧ RecvBounded s := by
  have gen : ∀ (acts : List SAct) (s0 s : SState), EInvS c s0 ∧ RecvBounded s0 → srun c .current s0 acts = some s →
      EInvS c s ∧ RecvBounded s := by
    intro acts
    induction acts with
    | nil => intro s0 s h hr; simp [srun] at hr; subst hr; exact h
    | cons a as ih =>
      intro s0 s h hr
      simp only [srun] at hr
      split at hr
      · rename_i s1 o1 h1
        exact ih s1 s (estep_inv c a h.1 h.2 h1) hr
      · simp at hr
  exact gen acts _ s ⟨by intro e o h; simp [SState.init] at h, by intro e o h; simp [SState.init] at h⟩ hr

end Tramp
