/- A reusable induction principle for invariants that only speak about the owner's program counter
   (and the monotonic clock): it is enough that the invariant holds of the program counters the
   internal steps and a fresh arrival create, and that every continuation preserves it. Instance:
   the delay stored in the attempt (and later passed to pay) is bounded by the policy delta (C04). -/
import Tramp.Proofs.SysDeadline

namespace Tramp

structure PcPred (c : Cfg) where
  P : Nat → OPc → Prop
  mono : ∀ {m m' : Nat} {pc : OPc}, m ≤ m' → P m pc → P m' pc
  fetch : ∀ m, P m .fetch
  gotReady : ∀ m, P m .gotReady
  gotParams : ∀ m mf exp, P m (.gotParams mf exp)
  addS : ∀ m aid t mf exp h, P m (.addS aid t mf (maxDelay c exp h))
  paying : ∀ m aid g, P m (.paying aid g .paying)
  panicked : ∀ m, P m .panicked
  cont : ∀ (s : SState) (pc : OPc) (q : SReq) (r : SReply) (pc' : OPc), P s.mono pc →
    (ownerCont c .current s pc q r = .stay pc' → P s.mono pc') ∧
    (∀ mf md, ownerCont c .current s pc q r = .pay pc' mf md → P s.mono pc')

def PcPred.Inv {c : Cfg} (p : PcPred c) (s : SState) : Prop := ∀ e o, s.active = some (e, o) → p.P s.mono o.pc

theorem PcPred.kept {c : Cfg} (p : PcPred c) {s s' : SState} (h : p.Inv s) (hk : PcKept s s') : p.Inv s' := by
  intro e' o' ha'
  obtain ⟨e, o, ha, hpc⟩ := hk.2 e' o' ha'
  rw [hpc]; exact p.mono hk.1 (h e o ha)

/-- the invariant is inductive under every action (faults of every kind included) -/
theorem PcPred.step {c : Cfg} (p : PcPred c) {s s' : SState} {outs : List Out} (a : SAct) (h : p.Inv s)
    (hs : sstep c .current s a = some (s', outs)) : p.Inv s' := by
  cases a with
  | arrive info amount expiry relExp total =>
    simp only [sstep, stepArrive, SVariant.current, Bool.false_and, Bool.false_eq_true, if_false] at hs
    cases hact : s.active with
    | none =>
      rw [hact] at hs
      simp only [Option.some.injEq, Prod.mk.injEq] at hs
      rw [← hs.1]
      intro e o ha
      simp only [Option.some.injEq, Prod.mk.injEq] at ha
      obtain ⟨_, rfl⟩ := ha
      exact p.fetch _
    | some p =>
      obtain ⟨e0, o0⟩ := p
      rw [hact] at hs
      simp only [Option.some.injEq, Prod.mk.injEq] at hs
      rw [← hs.1]
      intro e o ha
      simp only [Option.some.injEq, Prod.mk.injEq] at ha
      obtain ⟨_, rfl⟩ := ha
      exact h e0 o0 hact
  | tickMono dt =>
    simp only [sstep, Option.some.injEq, Prod.mk.injEq] at hs; rw [← hs.1]
    exact p.kept h (kept_same rfl (by simp))
  | tickWall dt =>
    simp only [sstep, Option.some.injEq, Prod.mk.injEq] at hs; rw [← hs.1]
    exact p.kept h (kept_same rfl (Nat.le_refl _))
  | block n =>
    simp only [sstep, Option.some.injEq, Prod.mk.injEq] at hs; rw [← hs.1]
    exact p.kept h (kept_same rfl (Nat.le_refl _))
  | crash =>
    simp only [sstep, Option.some.injEq, Prod.mk.injEq] at hs; rw [← hs.1]
    exact p.kept h (kept_none rfl (Nat.le_refl _))
  | create id =>
    simp only [sstep] at hs
    split at hs
    · simp only [Option.some.injEq, Prod.mk.injEq] at hs; rw [← hs.1]; exact p.kept h (kept_same rfl (Nat.le_refl _))
    · simp at hs
  | resolve id st =>
    simp only [sstep] at hs
    split at hs
    · simp only [Option.some.injEq, Prod.mk.injEq] at hs; rw [← hs.1]; exact p.kept h (kept_same rfl (Nat.le_refl _))
    · simp at hs
  | payEnd r =>
    simp only [sstep] at hs
    cases hact : s.active with
    | none => rw [hact] at hs; simp at hs
    | some p =>
      obtain ⟨e, o⟩ := p
      rw [hact] at hs
      simp only at hs
      split at hs
      · split at hs
        · simp only [Option.some.injEq, Prod.mk.injEq] at hs; rw [← hs.1]
          intro e1 o1 ha
          simp only [Option.some.injEq, Prod.mk.injEq] at ha
          obtain ⟨_, rfl⟩ := ha
          exact p.paying _ _ _
        · simp at hs
      · simp at hs
  | serve t q =>
    cases t with
    | owner =>
      simp only [sstep] at hs
      split at hs
      · simp at hs
      · exact p.kept h (kept_serveOwner q _ (fun s1 r hr => ⟨(nodeServe_frame hr).1, (nodeServe_node hr).2.2.2.1⟩) hs)
    | bk id =>
      simp only [sstep] at hs
      exact p.kept h (kept_serveBk id q _ (fun s1 r hr => ⟨(nodeServe_frame hr).1, (nodeServe_node hr).2.2.2.1⟩) hs)
  | fault t q f =>
    cases t with
    | owner =>
      simp only [sstep] at hs
      exact p.kept h (kept_serveOwner q _ (fun s1 r hr => ⟨(nodeFault_frame hr).1, (nodeFault_node hr).2.2.2.1⟩) hs)
    | bk id =>
      simp only [sstep] at hs
      exact p.kept h (kept_serveBk id q _ (fun s1 r hr => ⟨(nodeFault_frame hr).1, (nodeFault_node hr).2.2.2.1⟩) hs)
  | deliver t q =>
    cases t with
    | owner =>
      simp only [sstep, stepDeliverOwner] at hs
      cases hact : s.active with
      | none => rw [hact] at hs; simp at hs
      | some p =>
        obtain ⟨e, o⟩ := p
        rw [hact] at hs
        simp only at hs
        split at hs
        · cases hl : lookupS o.served q with
          | none => rw [hl] at hs; simp at hs
          | some r =>
            rw [hl] at hs
            simp only [Option.some.injEq] at hs
            have hok := p.cont s o.pc q r
            cases hn : ownerCont c .current s o.pc q r with
            | stay pc' =>
              rw [hn] at hs; simp only [applyONext, Prod.mk.injEq] at hs; rw [← hs.1]
              intro e1 o1 ha
              simp only [Option.some.injEq, Prod.mk.injEq] at ha
              obtain ⟨_, rfl⟩ := ha
              exact (hok pc' (h e o hact)).1 hn
            | pay pc' mf md =>
              rw [hn] at hs; simp only [applyONext, Prod.mk.injEq] at hs; rw [← hs.1]
              intro e1 o1 ha
              simp only [Option.some.injEq, Prod.mk.injEq] at ha
              obtain ⟨_, rfl⟩ := ha
              exact (hok pc' (h e o hact)).2 mf md hn
            | finish r' =>
              rw [hn] at hs; simp only [applyONext, Prod.mk.injEq] at hs; rw [← hs.1]
              exact p.kept h (kept_none rfl (Nat.le_refl _))
            | finishBk r' b =>
              rw [hn] at hs; simp only [applyONext, Prod.mk.injEq] at hs; rw [← hs.1]
              exact p.kept h (kept_none rfl (Nat.le_refl _))
            | panic =>
              rw [hn] at hs; simp only [applyONext, Prod.mk.injEq] at hs; rw [← hs.1]
              intro e1 o1 ha
              simp only [Option.some.injEq, Prod.mk.injEq] at ha
              obtain ⟨_, rfl⟩ := ha
              exact p.panicked _
        · simp at hs
    | bk id =>
      simp only [sstep, stepDeliverBk] at hs
      repeat' split at hs
      all_goals first
        | (simp only [Option.some.injEq, Prod.mk.injEq] at hs; rw [← hs.1]; exact p.kept h (kept_same rfl (Nat.le_refl _)))
        | simp at hs
  | timerFire =>
    simp only [sstep] at hs
    repeat' split at hs
    all_goals first
      | (simp only [Option.some.injEq, Prod.mk.injEq] at hs; rw [← hs.1]; exact p.kept h (kept_none rfl (Nat.le_refl _)))
      | simp at hs
  | takeFail =>
    simp only [sstep] at hs
    repeat' split at hs
    all_goals first
      | (simp only [Option.some.injEq, Prod.mk.injEq] at hs; rw [← hs.1]; exact p.kept h (kept_none rfl (Nat.le_refl _)))
      | simp at hs
  | takeReady =>
    simp only [sstep] at hs
    repeat' split at hs
    all_goals first
      | (simp only [Option.some.injEq, Prod.mk.injEq] at hs; rw [← hs.1]
         intro e1 o1 ha
         simp only [Option.some.injEq, Prod.mk.injEq] at ha
         obtain ⟨_, rfl⟩ := ha
         exact p.gotReady _)
      | simp at hs
  | readParams =>
    simp only [sstep] at hs
    repeat' split at hs
    all_goals first
      | (simp only [Option.some.injEq, Prod.mk.injEq] at hs; rw [← hs.1]
         intro e1 o1 ha
         simp only [Option.some.injEq, Prod.mk.injEq] at ha
         obtain ⟨_, rfl⟩ := ha
         exact p.gotParams _ _ _)
      | simp at hs
  | readHeight =>
    simp only [sstep] at hs
    repeat' split at hs
    all_goals first
      | (simp only [Option.some.injEq, Prod.mk.injEq] at hs; rw [← hs.1]
         intro e1 o1 ha
         simp only [Option.some.injEq, Prod.mk.injEq] at ha
         obtain ⟨_, rfl⟩ := ha
         exact p.addS _ _ _ _ _ _)
      | simp at hs

theorem PcPred.init {c : Cfg} (p : PcPred c) : p.Inv SState.init := by
  intro e o ha; simp [SState.init] at ha

theorem PcPred.run {c : Cfg} (p : PcPred c) (acts : List SAct) (s s' : SState) (h : p.Inv s)
    (hr : srun c .current s acts = some s') : p.Inv s' := by
  induction acts generalizing s with
  | nil => simp [srun] at hr; subst hr; exact h
  | cons a as ih =>
    simp only [srun] at hr
    split at hr
    · rename_i s1 o1 h1; exact ih s1 (p.step a h h1) hr
    · simp at hr



/-! ### the shape of continuations with respect to the three program counters that carry payment
    parameters (`gotParams`, `addS`, `addA`) -/

/-- program counters that carry no payment parameters -/
def OPc.free : OPc → Prop
  | .gotParams _ _ => False
  | .addS _ _ _ _ => False
  | .addA _ _ _ _ => False
  | _ => True

/-- after a continuation the owner is where it was, or went `addS → addA` with the same parameters, or
    is at a program counter without parameters -/
def Shape (pc pc' : OPc) : Prop :=
  pc' = pc ∨ (∃ aid t mf md g, pc = .addS aid t mf md ∧ pc' = .addA aid g mf md) ∨ pc'.free

theorem enterWait_free (s : SState) (tl : Nat) (pc' : OPc) :
    (enterWait s tl = .stay pc' → pc'.free) ∧ (∀ mf md, enterWait s tl ≠ .pay pc' mf md) := by
  unfold enterWait
  refine ⟨?_, ?_⟩
  · intro hh; split at hh
    · simp at hh
    · simp only [ONext.stay.injEq] at hh; subst hh; simp [OPc.free]
  · intro mf md hh; split at hh <;> simp at hh

theorem afterRestartWait_free (aid g t : Nat) (w : WPc) (pc' : OPc) :
    (afterRestartWait aid g t w = .stay pc' → pc'.free) ∧ (∀ mf md, afterRestartWait aid g t w ≠ .pay pc' mf md) := by
  cases w with
  | ret res => cases res <;> simp [afterRestartWait] <;> (try (intro hh; subst hh; simp [OPc.free]))
  | seqPending => simp [afterRestartWait]; intro hh; subst hh; simp [OPc.free]
  | seqComplete p => simp [afterRestartWait]; intro hh; subst hh; simp [OPc.free]
  | conc a b => simp [afterRestartWait]; intro hh; subst hh; simp [OPc.free]
  | waiting rem => simp [afterRestartWait]; intro hh; subst hh; simp [OPc.free]

theorem afterPay_free (aid g : Nat) (p : PPc) (pc' : OPc) :
    (afterPay aid g p = .stay pc' → pc'.free) ∧ (∀ mf md, afterPay aid g p ≠ .pay pc' mf md) := by
  cases p with
  | retPay res => cases res <;> simp [afterPay]
  | paying => simp [afterPay]; intro hh; subst hh; simp [OPc.free]
  | inWait f w => simp [afterPay]; intro hh; subst hh; simp [OPc.free]
  | retWait res => simp [afterPay]; intro hh; subst hh; simp [OPc.free]

theorem ownerCont_shape (c : Cfg) (v : SVariant) (s : SState) (pc : OPc) (q : SReq) (r : SReply) (pc' : OPc) :
    (ownerCont c v s pc q r = .stay pc' → Shape pc pc') ∧
    (∀ mf md, ownerCont c v s pc q r = .pay pc' mf md → pc'.free) := by
  have free : ∀ {x : OPc}, x.free → Shape pc x := fun h => Or.inr (Or.inr h)
  have same : ∀ {x : OPc}, x = pc → Shape pc x := fun h => Or.inl h
  cases pc with
  | fetch =>
    cases r with
    | listed cell =>
      rcases cell with _ | ⟨v0, g0⟩
      · simp only [ownerCont]
        exact ⟨fun hh => free ((enterWait_free s _ pc').1 hh), fun mf md hh => absurd hh ((enterWait_free s _ pc').2 mf md)⟩
      · cases v0 <;> simp only [ownerCont]
        · exact ⟨fun hh => free ((enterWait_free s _ pc').1 hh), fun mf md hh => absurd hh ((enterWait_free s _ pc').2 mf md)⟩
        · exact ⟨by intro hh; simp at hh; subst hh; exact free (by simp [OPc.free]), by intro mf md hh; simp at hh⟩
        · exact ⟨by intro hh; simp at hh, by intro mf md hh; simp at hh⟩
    | listErr => simp [ownerCont]
    | written g0 => simp [ownerCont]
    | writeErr => simp [ownerCont]
    | prov pr => simp [ownerCont]
  | rWait aid g t w =>
    cases r with
    | prov pr =>
      cases q with
      | prov pq =>
        simp only [ownerCont]
        exact ⟨fun hh => free ((afterRestartWait_free aid g t _ pc').1 hh), fun mf md hh => absurd hh ((afterRestartWait_free aid g t _ pc').2 mf md)⟩
      | dsList => simp only [ownerCont]; exact ⟨by intro hh; simp at hh; exact same hh.symm, by intro mf md hh; simp at hh⟩
      | dsWriteState a b => simp only [ownerCont]; exact ⟨by intro hh; simp at hh; exact same hh.symm, by intro mf md hh; simp at hh⟩
      | dsWriteAttempt a b => simp only [ownerCont]; exact ⟨by intro hh; simp at hh; exact same hh.symm, by intro mf md hh; simp at hh⟩
    | listed cell => simp only [ownerCont]; exact ⟨by intro hh; simp at hh; exact same hh.symm, by intro mf md hh; simp at hh⟩
    | listErr => simp only [ownerCont]; exact ⟨by intro hh; simp at hh; exact same hh.symm, by intro mf md hh; simp at hh⟩
    | written g0 => simp only [ownerCont]; exact ⟨by intro hh; simp at hh; exact same hh.symm, by intro mf md hh; simp at hh⟩
    | writeErr => simp only [ownerCont]; exact ⟨by intro hh; simp at hh; exact same hh.symm, by intro mf md hh; simp at hh⟩
  | rFailA aid g t =>
    cases r <;> simp only [ownerCont] <;> refine ⟨?_, by intro mf md hh; simp at hh⟩ <;> intro hh <;> simp at hh
    subst hh; exact free (by simp [OPc.free])
  | rFailS aid g t =>
    cases r with
    | written g0 =>
      simp only [ownerCont]
      exact ⟨fun hh => free ((enterWait_free s _ pc').1 hh), fun mf md hh => absurd hh ((enterWait_free s _ pc').2 mf md)⟩
    | listed cell => simp [ownerCont]
    | listErr => simp [ownerCont]
    | writeErr => simp [ownerCont]
    | prov pr => simp [ownerCont]
  | waitHtlcs d =>
    cases r <;> simp only [ownerCont] <;> refine ⟨?_, by intro mf md hh; simp at hh⟩ <;> intro hh <;> simp at hh <;> exact same hh.symm
  | gotReady =>
    cases r <;> simp only [ownerCont] <;> refine ⟨?_, by intro mf md hh; simp at hh⟩ <;> intro hh <;> simp at hh <;> exact same hh.symm
  | gotParams mf0 exp =>
    cases r <;> simp only [ownerCont] <;> refine ⟨?_, by intro mf md hh; simp at hh⟩ <;> intro hh <;> simp at hh <;> exact same hh.symm
  | addS aid t mf0 md0 =>
    cases r <;> simp only [ownerCont] <;> refine ⟨?_, by intro mf md hh; simp at hh⟩ <;> intro hh <;> simp at hh
    subst hh; exact Or.inr (Or.inl ⟨_, _, _, _, _, rfl, rfl⟩)
  | addA aid g mf0 md0 =>
    cases r <;> simp only [ownerCont] <;> refine ⟨by intro hh; simp at hh, ?_⟩ <;> intro mf md hh <;> simp at hh
    obtain ⟨rfl, _⟩ := hh; simp [OPc.free]
  | paying aid g p =>
    cases r with
    | prov pr =>
      cases q with
      | prov pq =>
        simp only [ownerCont]
        exact ⟨fun hh => free ((afterPay_free aid g _ pc').1 hh), fun mf md hh => absurd hh ((afterPay_free aid g _ pc').2 mf md)⟩
      | dsList => simp only [ownerCont]; exact ⟨by intro hh; simp at hh; exact same hh.symm, by intro mf md hh; simp at hh⟩
      | dsWriteState a b => simp only [ownerCont]; exact ⟨by intro hh; simp at hh; exact same hh.symm, by intro mf md hh; simp at hh⟩
      | dsWriteAttempt a b => simp only [ownerCont]; exact ⟨by intro hh; simp at hh; exact same hh.symm, by intro mf md hh; simp at hh⟩
    | listed cell => simp only [ownerCont]; exact ⟨by intro hh; simp at hh; exact same hh.symm, by intro mf md hh; simp at hh⟩
    | listErr => simp only [ownerCont]; exact ⟨by intro hh; simp at hh; exact same hh.symm, by intro mf md hh; simp at hh⟩
    | written g0 => simp only [ownerCont]; exact ⟨by intro hh; simp at hh; exact same hh.symm, by intro mf md hh; simp at hh⟩
    | writeErr => simp only [ownerCont]; exact ⟨by intro hh; simp at hh; exact same hh.symm, by intro mf md hh; simp at hh⟩
  | panicked =>
    cases r <;> simp only [ownerCont] <;> refine ⟨?_, by intro mf md hh; simp at hh⟩ <;> intro hh <;> simp at hh <;> exact same hh.symm

/-! ### instance: the delay recorded with the attempt -/

def DelayOk (c : Cfg) (md : Nat) : Prop := md ≤ c.policyDelta ∧ md ≤ 65535

def pcDelay (c : Cfg) : OPc → Prop
  | .addS _ _ _ md => DelayOk c md
  | .addA _ _ _ md => DelayOk c md
  | _ => True

theorem maxDelay_ok (c : Cfg) (exp h : Nat) : DelayOk c (maxDelay c exp h) := by
  unfold DelayOk maxDelay; omega

theorem ownerCont_pcDelay (c : Cfg) (s : SState) (pc : OPc) (q : SReq) (r : SReply) (pc' : OPc) (h : pcDelay c pc) :
    (ownerCont c .current s pc q r = .stay pc' → pcDelay c pc') ∧
    (∀ mf md, ownerCont c .current s pc q r = .pay pc' mf md → pcDelay c pc') := by
  -- the only continuations that produce `addS`/`addA` are `addS → addA` (same delay); everything else lands elsewhere
  cases pc with
  | addS aid t mf0 md0 =>
    cases r <;> simp only [ownerCont] <;> refine ⟨?_, by intro mf md hh; simp at hh⟩ <;> intro hh <;> simp at hh
    subst hh; exact h
  | addA aid g mf0 md0 =>
    cases r <;> simp only [ownerCont] <;> refine ⟨by intro hh; simp at hh, ?_⟩ <;> intro mf md hh <;> simp at hh
    obtain ⟨rfl, _⟩ := hh; simp [pcDelay]
  | fetch =>
    have hw : ∀ tl, (enterWait s tl = .stay pc' → pcDelay c pc') ∧ (∀ mf md, enterWait s tl ≠ .pay pc' mf md) := by
      intro tl; unfold enterWait
      refine ⟨?_, ?_⟩
      · intro hh; split at hh
        · simp at hh
        · simp only [ONext.stay.injEq] at hh; subst hh; simp [pcDelay]
      · intro mf md hh; split at hh <;> simp at hh
    cases r with
    | listed cell =>
      rcases cell with _ | ⟨v0, g0⟩
      · simp only [ownerCont]; exact ⟨(hw _).1, fun mf md hh => absurd hh ((hw _).2 mf md)⟩
      · cases v0 <;> simp only [ownerCont]
        · exact ⟨(hw _).1, fun mf md hh => absurd hh ((hw _).2 mf md)⟩
        · exact ⟨by intro hh; simp at hh; subst hh; simp [pcDelay], by intro mf md hh; simp at hh⟩
        · exact ⟨by intro hh; simp at hh, by intro mf md hh; simp at hh⟩
    | listErr => simp [ownerCont]
    | written g0 => simp [ownerCont]
    | writeErr => simp [ownerCont]
    | prov pr => simp [ownerCont]
  | rWait aid g t w =>
    have hw : ∀ w', (afterRestartWait aid g t w' = .stay pc' → pcDelay c pc') ∧ (∀ mf md, afterRestartWait aid g t w' ≠ .pay pc' mf md) := by
      intro w'
      cases w' with
      | ret res => cases res <;> simp [afterRestartWait] <;> (try (intro hh; subst hh; simp [pcDelay]))
      | seqPending => simp [afterRestartWait]; intro hh; subst hh; simp [pcDelay]
      | seqComplete p => simp [afterRestartWait]; intro hh; subst hh; simp [pcDelay]
      | conc a b => simp [afterRestartWait]; intro hh; subst hh; simp [pcDelay]
      | waiting rem => simp [afterRestartWait]; intro hh; subst hh; simp [pcDelay]
    cases r with
    | prov pr =>
      cases q with
      | prov pq => simp only [ownerCont]; exact ⟨(hw _).1, fun mf md hh => absurd hh ((hw _).2 mf md)⟩
      | dsList => simp [ownerCont]; intro hh; subst hh; simp [pcDelay]
      | dsWriteState a b => simp [ownerCont]; intro hh; subst hh; simp [pcDelay]
      | dsWriteAttempt a b => simp [ownerCont]; intro hh; subst hh; simp [pcDelay]
    | listed cell => simp [ownerCont]; intro hh; subst hh; simp [pcDelay]
    | listErr => simp [ownerCont]; intro hh; subst hh; simp [pcDelay]
    | written g0 => simp [ownerCont]; intro hh; subst hh; simp [pcDelay]
    | writeErr => simp [ownerCont]; intro hh; subst hh; simp [pcDelay]
  | rFailA aid g t =>
    cases r <;> simp only [ownerCont] <;> refine ⟨?_, by intro mf md hh; simp at hh⟩ <;> intro hh <;> simp at hh
    subst hh; simp [pcDelay]
  | rFailS aid g t =>
    have hw : ∀ tl, (enterWait s tl = .stay pc' → pcDelay c pc') ∧ (∀ mf md, enterWait s tl ≠ .pay pc' mf md) := by
      intro tl; unfold enterWait
      refine ⟨?_, ?_⟩
      · intro hh; split at hh
        · simp at hh
        · simp only [ONext.stay.injEq] at hh; subst hh; simp [pcDelay]
      · intro mf md hh; split at hh <;> simp at hh
    cases r with
    | written g0 => simp only [ownerCont]; exact ⟨(hw _).1, fun mf md hh => absurd hh ((hw _).2 mf md)⟩
    | listed cell => simp [ownerCont]
    | listErr => simp [ownerCont]
    | writeErr => simp [ownerCont]
    | prov pr => simp [ownerCont]
  | waitHtlcs d =>
    cases r <;> simp only [ownerCont] <;> refine ⟨?_, by intro mf md hh; simp at hh⟩ <;> intro hh <;> simp at hh <;> subst hh <;> exact h
  | gotReady =>
    cases r <;> simp only [ownerCont] <;> refine ⟨?_, by intro mf md hh; simp at hh⟩ <;> intro hh <;> simp at hh <;> subst hh <;> exact h
  | gotParams mf0 exp =>
    cases r <;> simp only [ownerCont] <;> refine ⟨?_, by intro mf md hh; simp at hh⟩ <;> intro hh <;> simp at hh <;> subst hh <;> exact h
  | paying aid g p =>
    have hw : ∀ p', (afterPay aid g p' = .stay pc' → pcDelay c pc') ∧ (∀ mf md, afterPay aid g p' ≠ .pay pc' mf md) := by
      intro p'
      cases p' with
      | retPay res => cases res <;> simp [afterPay]
      | paying => simp [afterPay]; intro hh; subst hh; simp [pcDelay]
      | inWait f w => simp [afterPay]; intro hh; subst hh; simp [pcDelay]
      | retWait res => simp [afterPay]; intro hh; subst hh; simp [pcDelay]
    cases r with
    | prov pr =>
      cases q with
      | prov pq => simp only [ownerCont]; exact ⟨(hw _).1, fun mf md hh => absurd hh ((hw _).2 mf md)⟩
      | dsList => simp [ownerCont]; intro hh; subst hh; simp [pcDelay]
      | dsWriteState a b => simp [ownerCont]; intro hh; subst hh; simp [pcDelay]
      | dsWriteAttempt a b => simp [ownerCont]; intro hh; subst hh; simp [pcDelay]
    | listed cell => simp [ownerCont]; intro hh; subst hh; simp [pcDelay]
    | listErr => simp [ownerCont]; intro hh; subst hh; simp [pcDelay]
    | written g0 => simp [ownerCont]; intro hh; subst hh; simp [pcDelay]
    | writeErr => simp [ownerCont]; intro hh; subst hh; simp [pcDelay]
  | panicked =>
    cases r <;> simp only [ownerCont] <;> refine ⟨?_, by intro mf md hh; simp at hh⟩ <;> intro hh <;> simp at hh <;> subst hh <;> exact h

/-- the delay predicate as a `PcPred` -/
def delayPred (c : Cfg) : PcPred c where
  P := fun _ pc => pcDelay c pc
  mono := fun _ h => h
  fetch := fun _ => trivial
  gotReady := fun _ => trivial
  gotParams := fun _ _ _ => trivial
  addS := fun _ _ _ _ exp h => maxDelay_ok c exp h
  paying := fun _ _ _ => trivial
  panicked := fun _ => trivial
  cont := fun s pc q r pc' h => ownerCont_pcDelay c s pc q r pc' h

end Tramp
