/-
The system invariant of M7 (DESIGN.md §8.0), node/owner/bookkeeper part:
  (P) a pay command runs only while the owner sits in `paying`, its reply not yet produced;
  (K) the owner is in a "known quiet" program point ⇒ nothing is live on the node;
  (W) something live on the node ⇒ the stored state is Pending or Succeeded;
  (S) a stored/announced preimage is the preimage of a complete part;
  (G) generations: a post-failure bookkeeper's guarded Free write can land only when nothing is live;
  plus the facts carried by replies that were computed by the node and not yet consumed.
Proved inductive for every action except lost writes (`Fault.writeLost`, C09's quantifier only);
read faults are excluded too (K2–K4 are what happens under them).
-/
import Tramp.Model.System
import Tramp.Proofs.Provider

namespace Tramp

/-! ### predicates -/

def dsNonFree (s : SState) : Prop := ∃ v g, s.ds = some (v, g) ∧ v ≠ .free
def dsGenIs (s : SState) (g : Nat) : Prop := ∃ v, s.ds = some (v, g)
def dsGenGe (s : SState) (g : Nat) : Prop := ∃ v g', s.ds = some (v, g') ∧ g ≤ g'

def BPc.failGen : BPc → Option Nat
  | .failA _ g => some g
  | .failS _ g => some g
  | _ => none

/-- every post-failure bookkeeper holds a generation strictly below `g` -/
def BkBelow (s : SState) (g : Nat) : Prop := ∀ b ∈ s.bks, ∀ gb, b.pc.failGen = some gb → gb < g

def ownerWpc : OPc → Option WPc
  | .rWait _ _ _ w => some w
  | .paying _ _ (.inWait _ w) => some w
  | _ => none

def WPc.notRet : WPc → Prop
  | .ret _ => False
  | _ => True

/-- the owner is past its own successful Pending write carrying generation `g` -/
def PastMarker (s : SState) (g : Nat) : Prop := BkBelow s g ∧ dsGenGe s g ∧ dsNonFree s

/-- what a reply computed by the node and not yet consumed by the owner guarantees NOW -/
def OFact (s : SState) (pc : OPc) : SReq × SReply → Prop
  | (.prov q, .prov r) => ServedFact s.parts (ownerWpc pc) False (q, r)
  | (.dsList, .listed none) => s.quiet
  | (.dsList, .listed (some (.free, _))) => s.quiet
  | (.dsList, .listed (some (.pending _ _, _))) => True
  | (.dsList, .listed (some (.succeeded pre, _))) => HasComplete s.parts pre
  | (.dsList, .listErr) => False
  | (.dsWriteState (.pending _ _) _, .written g) => PastMarker s g
  | (.dsWriteState .free _, .written _) => True
  | (.dsWriteState (.succeeded _) _, .written _) => True
  | (.dsWriteState _ _, .writeErr) => True
  | (.dsWriteAttempt _ _, .written _) => True
  | (.dsWriteAttempt _ _, .writeErr) => True
  | _ => False

def OPcInv (s : SState) : OPc → Prop
  | .fetch => True
  | .rWait _ _ _ w => WInv s.parts False w ∧ w.notRet ∧ s.payRunning = false
  | .rFailA _ _ _ => s.quiet
  | .rFailS _ _ _ => s.quiet
  | .waitHtlcs _ => s.quiet
  | .gotReady => s.quiet
  | .gotParams _ _ => s.quiet
  | .addS _ _ _ _ => s.quiet
  | .addA _ g _ _ => s.quiet ∧ PastMarker s g
  | .paying _ g .paying => PastMarker s g
  | .paying _ g (.inWait f w) => PastMarker s g ∧ WInv s.parts False w ∧ w.notRet ∧ s.payRunning = false ∧ f = true
  | .paying _ _ _ => False
  | .panicked => True

def BkInv (s : SState) (b : Bk) : Prop :=
  match b.pc with
  | .succS _ pre => HasComplete s.parts pre
  | .succA _ => True
  | .failA _ g => dsGenGe s g ∧ (dsGenIs s g → s.quiet)
  | .failS _ g => dsGenGe s g ∧ (dsGenIs s g → s.quiet)

structure SInv (v : SVariant) (s : SState) : Prop where
  nodup   : PartsNodup s.parts
  payOwn  : s.payRunning = true → ∃ e o aid g, s.active = some (e, o) ∧ o.pc = .paying aid g .paying ∧ o.served = []
  wal     : ¬ s.quiet → dsNonFree s
  succ    : ∀ pre g, s.ds = some (.succeeded pre, g) → HasComplete s.parts pre
  owner   : ∀ e o, s.active = some (e, o) →
              OPcInv s o.pc ∧ ∀ x ∈ o.served, x.1 ∈ o.pc.outstanding v ∧ OFact s o.pc x
  bks     : ∀ b ∈ s.bks, BkInv s b
  bkIds   : (s.bks.map (·.id)).Nodup ∧ ∀ b ∈ s.bks, b.id < s.nextBk

theorem sinv_init (v : SVariant) : SInv v SState.init := by
  refine ⟨by simp [PartsNodup, SState.init], by simp [SState.init], ?_, by simp [SState.init],
    by simp [SState.init], by simp [SState.init], by simp [SState.init]⟩
  intro h; exact absurd (by simp [SState.quiet, SState.init, partsQuiet]) h

/-! ### frame lemmas: predicates that only read some fields -/

theorem quiet_congr {s s' : SState} (hp : s'.parts = s.parts) (hr : s'.payRunning = s.payRunning) :
    s'.quiet ↔ s.quiet := by unfold SState.quiet; rw [hp, hr]

theorem dsNonFree_congr {s s' : SState} (h : s'.ds = s.ds) : dsNonFree s' ↔ dsNonFree s := by
  unfold dsNonFree; rw [h]

theorem dsGenGe_congr {s s' : SState} (h : s'.ds = s.ds) (g : Nat) : dsGenGe s' g ↔ dsGenGe s g := by
  unfold dsGenGe; rw [h]

theorem dsGenIs_congr {s s' : SState} (h : s'.ds = s.ds) (g : Nat) : dsGenIs s' g ↔ dsGenIs s g := by
  unfold dsGenIs; rw [h]

theorem bkBelow_congr {s s' : SState} (h : s'.bks = s.bks) (g : Nat) : BkBelow s' g ↔ BkBelow s g := by
  unfold BkBelow; rw [h]

theorem pastMarker_congr {s s' : SState} (hd : s'.ds = s.ds) (hb : s'.bks = s.bks) (g : Nat) :
    PastMarker s' g ↔ PastMarker s g := by
  unfold PastMarker; rw [bkBelow_congr hb, dsGenGe_congr hd, dsNonFree_congr hd]

/-- states that agree on the node and on the bookkeepers satisfy the same owner facts -/
theorem oFact_congr {s s' : SState} (hp : s'.parts = s.parts) (hr : s'.payRunning = s.payRunning)
    (hd : s'.ds = s.ds) (hb : s'.bks = s.bks) (pc : OPc) (x : SReq × SReply) :
    OFact s' pc x ↔ OFact s pc x := by
  obtain ⟨q, r⟩ := x
  cases q <;> cases r <;> simp only [OFact]
  case dsList.listed c =>
    rcases c with _ | ⟨v, g⟩
    · exact quiet_congr hp hr
    · cases v <;> simp only
      · exact quiet_congr hp hr
      · rw [hp]
  case dsWriteState.written v m g =>
    cases v <;> simp only
    exact pastMarker_congr hd hb g
  case prov.prov q r => rw [hp]

theorem oPcInv_congr {s s' : SState} (hp : s'.parts = s.parts) (hr : s'.payRunning = s.payRunning)
    (hd : s'.ds = s.ds) (hb : s'.bks = s.bks) (pc : OPc) : OPcInv s' pc ↔ OPcInv s pc := by
  cases pc <;> simp only [OPcInv] <;> try exact quiet_congr hp hr
  case rWait aid g t w => rw [hp, hr]
  case addA aid g mf md => rw [quiet_congr hp hr, pastMarker_congr hd hb]
  case paying aid g p =>
    cases p <;> simp only
    · exact pastMarker_congr hd hb g
    · rw [pastMarker_congr hd hb, hp, hr]

theorem bkInv_congr {s s' : SState} (hp : s'.parts = s.parts) (hr : s'.payRunning = s.payRunning)
    (hd : s'.ds = s.ds) (b : Bk) : BkInv s' b ↔ BkInv s b := by
  unfold BkInv
  cases b.pc <;> simp only
  · rw [hp]
  · rw [dsGenGe_congr hd, dsGenIs_congr hd, quiet_congr hp hr]
  · rw [dsGenGe_congr hd, dsGenIs_congr hd, quiet_congr hp hr]

end Tramp
