/-
What a step can emit, and what is true when it does (uses both invariants).
-/
import Tramp.Proofs.SysStep
import Tramp.Proofs.SysEntry

namespace Tramp

/-- a response is justified: a settlement carries the preimage of a complete part; a failure is
    given only when nothing is live on the node -/
def RespOk (s : SState) : Resp → Prop
  | .resolve pre => HasComplete s.parts pre
  | .fail _ => s.quiet

/-- what the owner's continuation can decide, given the invariant and the reply's fact -/
theorem ownerCont_out (c : Cfg) {s : SState} {pc : OPc} {q : SReq} {r : SReply}
    (hq : q ∈ pc.outstanding .current) (hpci : OPcInv s pc) (hfact : OFact s pc (q, r)) (hrun : s.payRunning = false) :
    (∀ r', ownerCont c .current s pc q r = .finish r' → RespOk s r') ∧
    (∀ r' b, ownerCont c .current s pc q r = .finishBk r' b → RespOk s r') ∧
    (∀ pc' mf md, ownerCont c .current s pc q r = .pay pc' mf md →
      ∃ aid g, pc = .addA aid g mf md ∧ pc' = .paying aid g .paying) := by
  cases pc with
  | waitHtlcs d => simp [OPc.outstanding] at hq
  | gotReady => simp [OPc.outstanding] at hq
  | gotParams a b => simp [OPc.outstanding] at hq
  | panicked => simp [OPc.outstanding] at hq
  | fetch =>
    simp only [OPc.outstanding, List.mem_singleton] at hq; subst hq
    cases r with
    | listed cell =>
      rcases cell with _ | ⟨v0, g0⟩
      · simp only [OFact] at hfact
        simp only [ownerCont, enterWait]
        refine ⟨?_, ?_, ?_⟩
        · intro r' h; split at h <;> simp at h; subst h; exact hfact
        · intro r' b h; split at h <;> simp at h
        · intro pc' mf md h; split at h <;> simp at h
      · cases v0 with
        | free =>
          simp only [OFact] at hfact
          simp only [ownerCont, enterWait]
          refine ⟨?_, ?_, ?_⟩
          · intro r' h; split at h <;> simp at h; subst h; exact hfact
          · intro r' b h; split at h <;> simp at h
          · intro pc' mf md h; split at h <;> simp at h
        | pending aid t => simp [ownerCont]
        | succeeded pre =>
          simp only [OFact] at hfact
          simp only [ownerCont]
          exact ⟨by intro r' h; simp at h; subst h; exact hfact, by intro r' b h; simp at h, by intro pc' mf md h; simp at h⟩
    | listErr => simp only [OFact] at hfact
    | written g => simp only [OFact] at hfact
    | writeErr => simp only [OFact] at hfact
    | prov pr => simp only [OFact] at hfact
  | rFailA aid g t =>
    simp only [OPc.outstanding, List.mem_singleton] at hq; subst hq
    simp only [OPcInv] at hpci
    cases r with
    | written g0 => simp [ownerCont]
    | writeErr => simp only [ownerCont]; exact ⟨by intro r' h; simp at h; subst h; exact hpci, by intro r' b h; simp at h, by intro pc' mf md h; simp at h⟩
    | listed cell => simp only [OFact] at hfact
    | listErr => simp only [OFact] at hfact
    | prov pr => simp only [OFact] at hfact
  | rFailS aid g t =>
    simp only [OPc.outstanding, List.mem_singleton] at hq; subst hq
    simp only [OPcInv] at hpci
    cases r with
    | written g0 =>
      simp only [ownerCont, enterWait]
      refine ⟨?_, ?_, ?_⟩
      · intro r' h; split at h <;> simp at h; subst h; exact hpci
      · intro r' b h; split at h <;> simp at h
      · intro pc' mf md h; split at h <;> simp at h
    | writeErr => simp only [ownerCont]; exact ⟨by intro r' h; simp at h; subst h; exact hpci, by intro r' b h; simp at h, by intro pc' mf md h; simp at h⟩
    | listed cell => simp only [OFact] at hfact
    | listErr => simp only [OFact] at hfact
    | prov pr => simp only [OFact] at hfact
  | addS aid t mf0 md0 =>
    simp only [OPc.outstanding, List.mem_singleton] at hq; subst hq
    simp only [OPcInv] at hpci
    cases r with
    | written g0 => simp [ownerCont]
    | writeErr => simp only [ownerCont]; exact ⟨by intro r' h; simp at h; subst h; exact hpci, by intro r' b h; simp at h, by intro pc' mf md h; simp at h⟩
    | listed cell => simp only [OFact] at hfact
    | listErr => simp only [OFact] at hfact
    | prov pr => simp only [OFact] at hfact
  | addA aid g mf0 md0 =>
    simp only [OPc.outstanding, List.mem_singleton] at hq; subst hq
    simp only [OPcInv] at hpci
    cases r with
    | written g0 =>
      simp only [ownerCont]
      refine ⟨by intro r' h; simp at h, by intro r' b h; simp at h, ?_⟩
      intro pc' mf md h; simp at h
      obtain ⟨h1, h2, h3⟩ := h
      exact ⟨aid, g, by rw [h2, h3], h1.symm⟩
    | writeErr => simp only [ownerCont]; exact ⟨by intro r' h; simp at h; subst h; exact hpci.1, by intro r' b h; simp at h, by intro pc' mf md h; simp at h⟩
    | listed cell => simp only [OFact] at hfact
    | listErr => simp only [OFact] at hfact
    | prov pr => simp only [OFact] at hfact
  | rWait aid g t w =>
    simp only [OPc.outstanding, List.mem_map] at hq
    obtain ⟨pq, hpq, rfl⟩ := hq
    simp only [OPcInv] at hpci
    cases r with
    | prov pr =>
      simp only [OFact, ownerWpc] at hfact
      have hw' := wDeliver_inv hpci.1 hpq hfact
      simp only [ownerCont]
      generalize wDeliver w pq pr = w' at hw'
      cases w' with
      | ret res =>
        cases res with
        | some pre => simp only [afterRestartWait]; exact ⟨by intro r' h; simp at h, by intro r' b h; simp at h; rw [← h.1]; exact hw', by intro pc' mf md h; simp at h⟩
        | none => simp [afterRestartWait]
        | err => exact hw'.elim
      | seqPending => simp [afterRestartWait]
      | seqComplete pend => simp [afterRestartWait]
      | waiting rem => simp [afterRestartWait]
      | conc c0 p0 => exact hw'.elim
    | listed cell => simp only [OFact] at hfact
    | listErr => simp only [OFact] at hfact
    | written g0 => simp only [OFact] at hfact
    | writeErr => simp only [OFact] at hfact
  | paying aid g p =>
    cases p with
    | retWait res => exact hpci.elim
    | retPay res => exact hpci.elim
    | paying =>
      simp only [OPc.outstanding, PPc.outstanding, List.map_cons, List.map_nil, List.mem_singleton] at hq
      subst hq
      cases r with
      | prov pr =>
        simp only [OFact, ownerWpc] at hfact
        simp only [ownerCont, pDeliver, if_true, payDeliver, SVariant.current, Variant.current, WPc.start,
          Bool.false_eq_true, if_false]
        cases pr with
        | payComplete pre =>
          simp only [afterPay]
          exact ⟨by intro r' h; simp at h, by intro r' b h; simp at h; rw [← h.1]; exact hfact, by intro pc' mf md h; simp at h⟩
        | payPending => simp [afterPay]
        | payFailed warn => cases warn <;> simp [afterPay]
        | rpcErr => simp [afterPay]
        | pendingIds ids => exact hfact.elim
        | completePres pres => exact hfact.elim
        | waitPre x => exact hfact.elim
        | waitCode => exact hfact.elim
      | listed cell => simp only [OFact] at hfact
      | listErr => simp only [OFact] at hfact
      | written g0 => simp only [OFact] at hfact
      | writeErr => simp only [OFact] at hfact
    | inWait f w =>
      simp only [OPc.outstanding, PPc.outstanding, List.mem_map] at hq
      obtain ⟨pq, hpq, rfl⟩ := hq
      simp only [OPcInv] at hpci
      cases r with
      | prov pr =>
        simp only [OFact, ownerWpc] at hfact
        have hw' := wDeliver_inv hpci.2.1 hpq hfact
        have hf : f = true := hpci.2.2.2.2
        subst hf
        simp only [ownerCont, pDeliver]
        generalize wDeliver w pq pr = w' at hw'
        cases w' with
        | ret res =>
          cases res with
          | some pre =>
            simp only [finishWait, afterPay, if_true]
            exact ⟨by intro r' h; simp at h, by intro r' b h; simp at h; rw [← h.1]; exact hw', by intro pc' mf md h; simp at h⟩
          | none =>
            simp only [finishWait, afterPay, if_true]
            exact ⟨by intro r' h; simp at h, by intro r' b h; simp at h; rw [← h.1]; exact ⟨hw', hrun⟩, by intro pc' mf md h; simp at h⟩
          | err => exact hw'.elim
        | seqPending => simp [finishWait, afterPay]
        | seqComplete pend => simp [finishWait, afterPay]
        | waiting rem => simp [finishWait, afterPay]
        | conc c0 p0 => exact hw'.elim
      | listed cell => simp only [OFact] at hfact
      | listErr => simp only [OFact] at hfact
      | written g0 => simp only [OFact] at hfact
      | writeErr => simp only [OFact] at hfact

end Tramp

namespace Tramp

/-- the three kinds of steps as seen from outside -/
inductive Emit (s s' : SState) (outs : List Out) : Prop where
  | silent : outs = [] → Emit s s' outs
  | answered (e : PEntry) (o : Owner) (r : Resp) :
      s.active = some (e, o) → outs = respAll e r → s'.active = none → RespOk s r → Emit s s' outs
  | paid (e : PEntry) (o : Owner) (aid g mf md : Nat) :
      s.active = some (e, o) → o.pc = .addA aid g mf md → outs = [payOut e mf md] →
      s.quiet → PastMarker s g → s'.payRunning = true → Emit s s' outs

theorem step_emit (c : Cfg) {s s' : SState} {outs : List Out} (a : SAct) (h : SInv .current s) (he : EInvS c s)
    (hs : sstep c .current s a = some (s', outs)) : Emit s s' outs := by
  cases a with
  | arrive info amount expiry relExp total =>
    simp only [sstep, stepArrive, SVariant.current, Bool.false_and, Bool.false_eq_true, if_false] at hs
    cases hact : s.active with
    | none => rw [hact] at hs; simp only [Option.some.injEq, Prod.mk.injEq] at hs; exact .silent hs.2.symm
    | some p => obtain ⟨e, o⟩ := p; rw [hact] at hs; simp only [Option.some.injEq, Prod.mk.injEq] at hs; exact .silent hs.2.symm
  | tickMono dt => simp only [sstep, Option.some.injEq, Prod.mk.injEq] at hs; exact .silent hs.2.symm
  | tickWall dt => simp only [sstep, Option.some.injEq, Prod.mk.injEq] at hs; exact .silent hs.2.symm
  | block n => simp only [sstep, Option.some.injEq, Prod.mk.injEq] at hs; exact .silent hs.2.symm
  | crash => simp only [sstep, Option.some.injEq, Prod.mk.injEq] at hs; exact .silent hs.2.symm
  | create id =>
    simp only [sstep] at hs
    split at hs
    · simp only [Option.some.injEq, Prod.mk.injEq] at hs; exact .silent hs.2.symm
    · simp at hs
  | resolve id st =>
    simp only [sstep] at hs
    split at hs
    · simp only [Option.some.injEq, Prod.mk.injEq] at hs; exact .silent hs.2.symm
    · simp at hs
  | payEnd r =>
    simp only [sstep] at hs
    cases hact : s.active with
    | none => rw [hact] at hs; simp at hs
    | some p =>
      obtain ⟨e, o⟩ := p
      rw [hact] at hs; simp only at hs
      split at hs
      · split at hs
        · simp only [Option.some.injEq, Prod.mk.injEq] at hs; exact .silent hs.2.symm
        · simp at hs
      · simp at hs
  | serve t q =>
    cases t with
    | owner =>
      simp only [sstep] at hs
      split at hs
      · simp at hs
      · unfold stepServeOwner at hs
        repeat' split at hs
        all_goals first | (simp only [Option.some.injEq, Prod.mk.injEq] at hs; exact .silent hs.2.symm) | simp at hs
    | bk id =>
      simp only [sstep] at hs
      unfold stepServeBk at hs
      repeat' split at hs
      all_goals first | (simp only [Option.some.injEq, Prod.mk.injEq] at hs; exact .silent hs.2.symm) | simp at hs
  | fault t q f =>
    cases t with
    | owner =>
      simp only [sstep] at hs
      unfold stepServeOwner at hs
      repeat' split at hs
      all_goals first | (simp only [Option.some.injEq, Prod.mk.injEq] at hs; exact .silent hs.2.symm) | simp at hs
    | bk id =>
      simp only [sstep] at hs
      unfold stepServeBk at hs
      repeat' split at hs
      all_goals first | (simp only [Option.some.injEq, Prod.mk.injEq] at hs; exact .silent hs.2.symm) | simp at hs
  | deliver t q =>
    cases t with
    | bk id =>
      simp only [sstep, stepDeliverBk] at hs
      repeat' split at hs
      all_goals first | (simp only [Option.some.injEq, Prod.mk.injEq] at hs; exact .silent hs.2.symm) | simp at hs
    | owner =>
      simp only [sstep, stepDeliverOwner] at hs
      cases hact : s.active with
      | none => rw [hact] at hs; simp at hs
      | some p =>
        obtain ⟨e, o⟩ := p
        rw [hact] at hs
        simp only at hs
        split at hs
        · rename_i hc
          simp only [List.contains_iff_mem] at hc
          cases hl : lookupS o.served q with
          | none => rw [hl] at hs; simp at hs
          | some r =>
            rw [hl] at hs
            simp only [Option.some.injEq] at hs
            have hmem := lookupS_mem hl
            have hrun : s.payRunning = false := not_running_of_nonempty h hact (by intro hn; rw [hn] at hmem; simp at hmem)
            have ⟨hpci, hserved⟩ := h.owner e o hact
            have hfact := (hserved _ hmem).2
            have ⟨o1, o2, o3⟩ := ownerCont_out c hc hpci hfact hrun
            cases hn : ownerCont c .current s o.pc q r with
            | stay pc' => rw [hn] at hs; simp only [applyONext, Prod.mk.injEq] at hs; exact .silent hs.2.symm
            | panic => rw [hn] at hs; simp only [applyONext, Prod.mk.injEq] at hs; exact .silent hs.2.symm
            | finish r' =>
              rw [hn] at hs; simp only [applyONext, Prod.mk.injEq] at hs
              exact .answered e o r' hact hs.2.symm (by rw [← hs.1]) (o1 r' hn)
            | finishBk r' b =>
              rw [hn] at hs; simp only [applyONext, Prod.mk.injEq] at hs
              exact .answered e o r' hact hs.2.symm (by rw [← hs.1]) (o2 r' b hn)
            | pay pc' mf md =>
              rw [hn] at hs; simp only [applyONext, Prod.mk.injEq] at hs
              obtain ⟨aid, g, hpc, _⟩ := o3 pc' mf md hn
              rw [hpc] at hpci
              exact .paid e o aid g mf md hact hpc hs.2.symm hpci.1 hpci.2 (by rw [← hs.1])
        · simp at hs
  | timerFire =>
    simp only [sstep] at hs
    cases hact : s.active with
    | none => rw [hact] at hs; simp at hs
    | some p =>
      obtain ⟨e, o⟩ := p
      rw [hact] at hs; simp only at hs
      split at hs
      · rename_i d hpc
        split at hs
        · simp only [Option.some.injEq, Prod.mk.injEq] at hs
          have ⟨hpci, _⟩ := h.owner e o hact
          rw [hpc] at hpci
          exact .answered e o (.fail .ttf) hact hs.2.symm (by rw [← hs.1]) hpci
        · simp at hs
      · simp at hs
  | takeFail =>
    simp only [sstep] at hs
    cases hact : s.active with
    | none => rw [hact] at hs; simp at hs
    | some p =>
      obtain ⟨e, o⟩ := p
      rw [hact] at hs; simp only at hs
      split at hs
      · rename_i d r hpc hfb
        simp only [Option.some.injEq, Prod.mk.injEq] at hs
        have ⟨hpci, _⟩ := h.owner e o hact
        rw [hpc] at hpci
        -- whatever sits in the fail channel: nothing is live (the owner is still collecting HTLCs)
        refine .answered e o r hact hs.2.symm (by rw [← hs.1]) ?_
        cases r with
        | fail fr => exact hpci
        | resolve pre =>
          -- only failures are ever put into the fail channel
          obtain ⟨_, fr, hfr⟩ := (he e o hact).failBuf _ hfb
          simp at hfr
      · simp at hs
  | takeReady =>
    simp only [sstep] at hs
    repeat' split at hs
    all_goals first | (simp only [Option.some.injEq, Prod.mk.injEq] at hs; exact .silent hs.2.symm) | simp at hs
  | readParams =>
    simp only [sstep] at hs
    repeat' split at hs
    all_goals first | (simp only [Option.some.injEq, Prod.mk.injEq] at hs; exact .silent hs.2.symm) | simp at hs
  | readHeight =>
    simp only [sstep] at hs
    repeat' split at hs
    all_goals first | (simp only [Option.some.injEq, Prod.mk.injEq] at hs; exact .silent hs.2.symm) | simp at hs

end Tramp
