/- Helper lemmas for M3. -/
import Tramp.Model.Classify
import Tramp.Proofs.Tlv

namespace Tramp

theorem toBytes_append (a b : List Entry) : toBytes (a ++ b) = toBytes a ++ toBytes b := by
  induction a with
  | nil => rfl
  | cons e a ih => simp [toBytes, ih, List.append_assoc]

/-- `remove` drops exactly the first record of the given type and nothing else -/
theorem removeEntry_spec (es : List Entry) (t : Nat) :
    (∀ x ∈ es, x.typ ≠ t) ∧ removeEntry es t = es ∨
    ∃ pre e post, es = pre ++ e :: post ∧ e.typ = t ∧ (∀ x ∈ pre, x.typ ≠ t) ∧
      removeEntry es t = pre ++ post := by
  induction es with
  | nil => left; simp [removeEntry]
  | cons e es ih =>
    by_cases h : e.typ = t
    · right
      refine ⟨[], e, es, rfl, h, by simp, ?_⟩
      simp [removeEntry, h]
    · have hb : (e.typ == t) = false := by simp [h]
      rcases ih with ⟨hall, heq⟩ | ⟨pre, e', post, hes, ht, hpre, hrm⟩
      · left
        refine ⟨?_, ?_⟩
        · intro x hx; simp at hx; rcases hx with rfl | hx; exact h; exact hall x hx
        · simp [removeEntry, hb, heq]
      · right
        refine ⟨e :: pre, e', post, by simp [hes], ht, ?_, ?_⟩
        · intro x hx; simp at hx; rcases hx with rfl | hx; exact h; exact hpre x hx
        · simp [removeEntry, hb, hrm]

theorem getEntry_some_typ (es : List Entry) (t : Nat) (e : Entry) (h : getEntry es t = some e) :
    e.typ = t ∧ e ∈ es := by
  unfold getEntry at h
  have h1 := List.find?_some h
  have h2 := List.mem_of_find?_eq_some h
  simp at h1
  exact ⟨h1, h2⟩

theorem c18_tu64_value' (bs : Bytes) (h : bs.length ≤ 8) : getTu64 bs = .ok (beVal bs) := by
  unfold getTu64
  split
  · rename_i h0
    have : bs = [] := List.length_eq_zero_iff.mp h0
    subst this; rfl
  · rw [if_neg (by omega)]

theorem c18_tu64_reject' (bs : Bytes) (h : bs.length > 8) : getTu64 bs = .err := by
  unfold getTu64
  rw [if_neg (by omega), if_pos h]

end Tramp
