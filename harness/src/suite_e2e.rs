//! Suite `e2e`: the REAL `trampoline` binary (built from /repo's working tree), real time. The
//! harness plays lightningd on the binary's stdin/stdout and serves its RPC socket.
//! `cf`: one option assignment per session → refused | started + what the plugin then enforces
//!       (policy bytes of a provoked failure, retry_for/maxdelay of a provoked pay, self-hint
//!       handling, time to MPP failure for small timeouts). Oracle for C19; process-level
//!       observations for C06/C13/C17 (malformed requests, stdout framing).
use std::process::Stdio;
use std::sync::{Arc, Mutex};
use std::time::{Duration, Instant};

use serde_json::{json, Value};
use tokio::io::{AsyncReadExt, AsyncWriteExt};
use tokio::process::{Child, ChildStdin, ChildStdout, Command};

use crate::node::{self, Node, NodeState};
use crate::out::{hex, Ctx};
use crate::rng::Rng;
use crate::suite_classify::{make_invoice, pubkey, LOCAL};
use crate::suite_tlv::{ref_encode, ref_put_bigsize};

const BIN: &str = "/verif/build/repo-target/debug/trampoline";

#[derive(Clone, Debug)]
pub struct Opts { pub cltv: i64, pub policy: i64, pub base: i64, pub ppm: i64, pub mpp: i64, pub pay: i64, pub noself: bool, pub xpay: bool }

struct Proc { child: Child, stdin: ChildStdin, stdout: ChildStdout, buf: Vec<u8>, all_out: Vec<u8>, err_path: String }

static ERR_SEQ: std::sync::atomic::AtomicU64 = std::sync::atomic::AtomicU64::new(0);

/// the real binary's stderr: a task that panics in the background leaves its message here and nowhere else
fn check_stderr(ctx: &mut Ctx, p: &Proc, what: &str) {
    if let Ok(t) = std::fs::read_to_string(&p.err_path) {
        if let Some(l) = t.lines().find(|l| l.contains("panicked at")) { ctx.violation("C06", "e2e-task-panic", &format!("a task of the real binary panicked during {}: {}", what, l)); }
    }
    let _ = std::fs::remove_file(&p.err_path);
}

impl Proc {
    async fn send(&mut self, v: &Value) { let mut b = v.to_string().into_bytes(); b.extend_from_slice(b"\n\n"); let _ = self.stdin.write_all(&b).await; let _ = self.stdin.flush().await; }
    /// next message from the plugin's stdout that is not a log notification; None on timeout/EOF
    async fn recv(&mut self, timeout: Duration) -> Option<Value> {
        let deadline = Instant::now() + timeout;
        loop {
            if let Some(p) = self.buf.windows(2).position(|w| w == b"\n\n") {
                let doc: Vec<u8> = self.buf.drain(..p + 2).collect();
                match serde_json::from_slice::<Value>(&doc[..p]) {
                    Ok(v) => { if v["method"] == "log" { continue; } return Some(v); }
                    Err(_) => return Some(json!({"__malformed__": String::from_utf8_lossy(&doc).to_string()})),
                }
            }
            let left = deadline.checked_duration_since(Instant::now())?;
            let mut tmp = [0u8; 8192];
            match tokio::time::timeout(left, self.stdout.read(&mut tmp)).await {
                Ok(Ok(n)) if n > 0 => { self.buf.extend_from_slice(&tmp[..n]); self.all_out.extend_from_slice(&tmp[..n]); }
                _ => return None,
            }
        }
    }
}

impl Proc {
    /// the reply carrying `id` (other replies are dropped: each probe uses its own id)
    async fn recv_id(&mut self, id: &str, timeout: Duration) -> Option<Value> {
        let deadline = Instant::now() + timeout;
        loop {
            let left = deadline.checked_duration_since(Instant::now())?;
            match self.recv(left).await { Some(v) if v["id"] == json!(id) => return Some(v), Some(_) => continue, None => return None }
        }
    }
}

/// serve every parked RPC truthfully and at once, except `pay` (left for the session to answer)
fn autopilot(node: Node) -> tokio::task::JoinHandle<()> {
    tokio::spawn(async move {
        loop {
            {
                let mut n = node.lock().unwrap();
                let mut i = 0;
                while i < n.parked.len() {
                    if n.parked[i].method != "pay" {
                        let (m, p) = (n.parked[i].method.clone(), n.parked[i].params.clone());
                        if let Some(r) = n.serve_truthful(&m, &p) { let mut pk = n.parked.remove(i); if let Some(tx) = pk.tx.take() { let _ = tx.send(r); } continue; }
                    }
                    i += 1;
                }
            }
            tokio::time::sleep(Duration::from_millis(2)).await;
        }
    })
}

pub fn htlc_request(id: u64, invoice: &str, hash: &[u8], amount: u64, total: Option<u64>, expiry: u32, rel: i64) -> Value {
    let md = ref_encode(&[(33001u64, invoice.as_bytes().to_vec())]);
    let stream = ref_encode(&[(16u64, md)]);
    let mut payload = Vec::new();
    ref_put_bigsize(stream.len() as u64, &mut payload);
    payload.extend_from_slice(&stream);
    let mut onion = json!({"payload": hex::encode(&payload), "forward_msat": amount, "outgoing_cltv_value": expiry, "shared_secret": "00".repeat(32), "next_onion": ""});
    if let Some(t) = total { onion["total_msat"] = json!(t); }
    json!({"jsonrpc": "2.0", "id": format!("h{}", id), "method": "htlc_accepted", "params": {
        "onion": onion,
        "htlc": {"short_channel_id": "4x5x6", "id": id, "amount_msat": amount, "cltv_expiry": expiry, "cltv_expiry_relative": rel, "payment_hash": hex::encode(hash)},
        "forward_to": "00".repeat(32)}})
}

async fn start(sock: &str, o: &Opts) -> Option<(Proc, bool)> {
    let err_path = format!("/verif/build/e2e-stderr-{}-{}.log", std::process::id(), ERR_SEQ.fetch_add(1, std::sync::atomic::Ordering::SeqCst));
    let err_file = std::fs::File::create(&err_path).ok()?;
    let mut child = Command::new(BIN).stdin(Stdio::piped()).stdout(Stdio::piped()).stderr(Stdio::from(err_file)).kill_on_drop(true).spawn().ok()?;
    let stdin = child.stdin.take()?;
    let stdout = child.stdout.take()?;
    let mut p = Proc { child, stdin, stdout, buf: vec![], all_out: vec![], err_path };
    p.send(&json!({"jsonrpc": "2.0", "id": "m1", "method": "getmanifest", "params": {"allow-deprecated-apis": false}})).await;
    let man = p.recv(Duration::from_secs(10)).await?;
    if man["id"] != "m1" { return None; }
    let mut options = json!({"trampoline-cltv-delta": o.cltv, "trampoline-policy-cltv-delta": o.policy, "trampoline-policy-fee-base": o.base,
        "trampoline-policy-fee-per-satoshi": o.ppm, "trampoline-mpp-timeout": o.mpp, "trampoline-payment-timeout": o.pay, "trampoline-xpay": o.xpay});
    options["trampoline-no-self-route-hints"] = json!(o.noself);
    p.send(&json!({"jsonrpc": "2.0", "id": 2, "method": "init", "params": {"options": options,
        "configuration": {"lightning-dir": "/tmp", "rpc-file": sock, "startup": true, "network": "regtest", "feature_set": {}}}})).await;
    // either the init reply arrives, or the process exits
    // either the init reply arrives, or stdout closes because the process exited (recv → None)
    let started = matches!(p.recv(Duration::from_secs(10)).await, Some(v) if v["id"] == 2 && v.get("result").is_some());
    Some((p, started))
}

async fn wait_pay(node: &Node, timeout: Duration) -> Option<Value> {
    let deadline = Instant::now() + timeout;
    while Instant::now() < deadline {
        { let n = node.lock().unwrap(); if let Some(p) = n.parked.iter().find(|p| p.method == "pay") { return Some(p.params.clone()); } }
        tokio::time::sleep(Duration::from_millis(3)).await;
    }
    None
}

fn answer_pay(node: &Node, reply: node::Reply) {
    let mut n = node.lock().unwrap();
    if let Some(i) = n.parked.iter().position(|p| p.method == "pay") { let mut pk = n.parked.remove(i); if let Some(tx) = pk.tx.take() { let _ = tx.send(reply); } }
}

async fn config_case(ctx: &mut Ctx, sock: &str, o: &Opts, x: u32, idx: u64) {
    let node: Node = Arc::new(Mutex::new(NodeState::default()));
    { let mut n = node.lock().unwrap(); n.height = 1000; n.node_id = pubkey(LOCAL).to_string(); }
    let server = node::listen(node.clone(), sock);
    let pilot = autopilot(node.clone());
    let input = format!("cf {} {} {} {} {} {} {} {} {}", o.cltv, o.policy, o.base, o.ppm, o.mpp, o.pay, o.noself as u8, o.xpay as u8, x);
    let observed;
    let in_range = |v: i64, hi: i64| v >= 0 && v <= hi;
    let should_start = in_range(o.cltv, 65535) && in_range(o.policy, 65535) && o.policy > o.cltv && in_range(o.base, u32::MAX as i64) && in_range(o.ppm, u32::MAX as i64) && o.mpp >= 0 && o.pay >= 0;
    match start(sock, o).await {
        None => { observed = "no-manifest".to_string(); ctx.violation("C19,C17", "e2e-no-manifest", &format!("the binary did not answer getmanifest REPLAY[{}]", input)); }
        Some((mut p, false)) => {
            observed = "refused".to_string();
            if should_start { ctx.violation("C19", "config-refused-valid", &format!("valid options were refused REPLAY[{}]", input)); }
            let _ = p.child.kill().await; check_stderr(ctx, &p, "an e2e session");
        }
        Some((mut p, true)) => {
            if !should_start { ctx.violation("C19", "config-accepted-invalid", &format!("out-of-range or inconsistent options were accepted REPLAY[{}]", input)); }
            let amount: u64 = 1_000_000;
            // (a) policy probe: declared total too low → fee_or_expiry_insufficient carrying the policy
            let pre_a = vec![idx as u8, 1, 7]; let hash_a = { use secp256k1::hashes::{sha256, Hash}; sha256::Hash::hash(&pre_a).to_byte_array().to_vec() };
            let inv_a = make_invoice(&pre_a, Some(amount), 0, 2);
            let mut pol = String::from("-");
            let need = amount as u128 + o.base as u128 + (amount as u128 * o.ppm as u128) / 1_000_000;
            if need > amount as u128 {
                p.send(&htlc_request(1, &inv_a, &hash_a, amount, Some(amount), 1000 + 70000, 70000)).await;
                if let Some(r) = p.recv_id("h1", Duration::from_secs(5)).await {
                    let fm = r["result"]["failure_message"].as_str().unwrap_or("").to_string();
                    if o.mpp == 0 { pol = format!("fail:{}", fm); if fm != "2019" { ctx.violation("C19,C11", "config-mpp-zero", &format!("mpp timeout 0 but got {} REPLAY[{}]", fm, input)); } }
                    else if let Ok(b) = hex::decode(&fm) { if b.len() == 12 && b[0] == 0x20 && b[1] == 26 {
                        let base = u32::from_be_bytes([b[2], b[3], b[4], b[5]]); let ppm = u32::from_be_bytes([b[6], b[7], b[8], b[9]]); let delta = u16::from_be_bytes([b[10], b[11]]);
                        pol = format!("{},{},{}", base, ppm, delta);
                        if base as i64 != o.base || ppm as i64 != o.ppm || delta as i64 != o.policy { ctx.violation("C19,C12", "config-policy", &format!("advertised policy {} differs from the options REPLAY[{}]", pol, input)); }
                    } else { pol = format!("fail:{}", fm); } } else { pol = format!("other:{}", r["result"]["result"]); }
                } else { pol = "timeout".into(); }
            }
            // (b) pay probe: fully funded htlc, expiry = height + x
            let pre_b = vec![idx as u8, 2, 7]; let hash_b = { use secp256k1::hashes::{sha256, Hash}; sha256::Hash::hash(&pre_b).to_byte_array().to_vec() };
            let inv_b = make_invoice(&pre_b, Some(amount), 0, 2);
            let total = need.min(u64::MAX as u128) as u64 + 5;
            let mut payobs = String::from("-");
            if o.mpp == 0 && x as i64 >= o.policy {
                // zero timeout: every set is failed at once, nothing is ever paid
                p.send(&htlc_request(2, &inv_b, &hash_b, total, Some(total), 1000 + x, x as i64)).await;
                payobs = match p.recv_id("h2", Duration::from_secs(5)).await { Some(r) if r["result"]["failure_message"] == "2019" => "ttf".into(), other => format!("other:{:?}", other) };
                if payobs != "ttf" { ctx.violation("C19,C11", "config-mpp-zero", &format!("mpp timeout 0 but the set was not failed at once: {} REPLAY[{}]", payobs, input)); }
            } else if x as i64 >= o.policy && total >= amount {
                p.send(&htlc_request(2, &inv_b, &hash_b, total, Some(total), 1000 + x, x as i64)).await;
                match wait_pay(&node, Duration::from_secs(5)).await {
                    Some(params) => {
                        let retry = params["retry_for"].as_u64().unwrap_or(u64::MAX); let maxdelay = params["maxdelay"].as_u64().unwrap_or(u64::MAX);
                        payobs = format!("{},{}", retry, maxdelay);
                        let want_retry = (o.pay as u64).min(65535);
                        let want_delay = ((x as u64).saturating_sub(o.cltv as u64)).min(65535).min(o.policy as u64);
                        if retry != want_retry { ctx.violation("C19", "config-retry-for", &format!("retry_for {} but payment timeout {} REPLAY[{}]", retry, o.pay, input)); }
                        if maxdelay != want_delay { ctx.violation("C19,C04", "config-maxdelay", &format!("maxdelay {} but expiry-height={} cltv-delta={} policy-delta={} REPLAY[{}]", maxdelay, x, o.cltv, o.policy, input)); }
                        answer_pay(&node, Ok(node::pay_reply_json(&hex::encode(&hash_b), "complete", 5, false)));
                        let r = p.recv_id("h2", Duration::from_secs(5)).await;
                        if !matches!(&r, Some(v) if v["result"]["result"] == "resolve") { ctx.violation("C06", "e2e-no-resolve", &format!("no resolve after pay completed: {:?} REPLAY[{}]", r, input)); }
                    }
                    None => { payobs = "nopay".into(); ctx.violation("C19,C06", "e2e-no-pay", &format!("fully funded htlc did not lead to a pay RPC REPLAY[{}]", input)); }
                }
            }
            // (c) self route hint
            let pre_c = vec![idx as u8, 3, 7]; let hash_c = { use secp256k1::hashes::{sha256, Hash}; sha256::Hash::hash(&pre_c).to_byte_array().to_vec() };
            let inv_c = make_invoice(&pre_c, Some(amount), 1, 2);
            p.send(&htlc_request(3, &inv_c, &hash_c, amount / 2, Some(total), 1000 + 70000, 70000)).await;
            // when a failure is expected wait long enough for a loaded machine; when the HTLC is expected to be held, a short
            // wait suffices (a late answer can only make the check miss a violation, never raise one)
            let selfobs = match p.recv_id("h3", Duration::from_millis(if o.noself { 5000 } else if o.mpp <= 1 { 300 } else { 600 })).await {
                Some(r) if r["result"]["failure_message"] == "2002" => "fail",
                Some(r) if r["result"]["failure_message"] == "2019" => "held",   // mpp timeout already fired: it was held
                Some(_) => "other", None => "held" };
            if (selfobs == "fail") != o.noself { ctx.violation("C19,C10", "config-self-hint", &format!("self route hint handling {} with no-self-route-hints={} REPLAY[{}]", selfobs, o.noself, input)); }
            // (d) time to MPP failure (small timeouts only)
            let mut mppobs = String::from("-");
            if o.mpp <= 2 {
                let pre_d = vec![idx as u8, 4, 7]; let hash_d = { use secp256k1::hashes::{sha256, Hash}; sha256::Hash::hash(&pre_d).to_byte_array().to_vec() };
                let inv_d = make_invoice(&pre_d, Some(amount), 0, 2);
                let t0 = Instant::now();
                p.send(&htlc_request(4, &inv_d, &hash_d, amount / 2, Some(total), 1000 + 70000, 70000)).await;
                loop {
                    match p.recv_id("h4", Duration::from_secs(6)).await {
                        Some(r) => {
                            let el = t0.elapsed().as_millis() as i64;
                            let ok = r["result"]["failure_message"] == "2019" && el >= o.mpp * 1000 - 20 && el <= o.mpp * 1000 + 4000;
                            mppobs = if ok { "ok".into() } else { format!("bad:{}ms:{}", el, r["result"]) };
                            if !ok { ctx.violation("C19,C11", "config-mpp-timeout", &format!("incomplete set failed after {} ms with {} (timeout {} s) REPLAY[{}]", el, r["result"], o.mpp, input)); }
                            break;
                        }
                        None => { mppobs = "timeout".into(); ctx.violation("C19,C11,C06", "config-mpp-timeout", &format!("incomplete set not failed within 6 s (timeout {} s) REPLAY[{}]", o.mpp, input)); break; }
                    }
                }
            }
            observed = format!("started pol={} pay={} self={} mpp={}", pol, payobs, selfobs, mppobs);
            // stdout framing (C17): everything written is JSON documents each followed by a blank line
            let _ = p.child.kill().await; check_stderr(ctx, &p, "an e2e session");
            let mut rest = Vec::new(); let _ = tokio::time::timeout(Duration::from_millis(200), p.stdout.read_to_end(&mut rest)).await; p.all_out.extend_from_slice(&rest);
            let mut start_i = 0; let mut i = 0; let b = &p.all_out;
            while i + 1 < b.len() { if b[i] == b'\n' && b[i + 1] == b'\n' { if serde_json::from_slice::<Value>(&b[start_i..i]).is_err() { ctx.violation("C17", "stdout-framing", &format!("stdout chunk is not a JSON document: {:?}", String::from_utf8_lossy(&b[start_i..i]))); } start_i = i + 2; i += 2; } else { i += 1; } }
        }
    }
    ctx.case(&input, &observed, should_start);
    ctx.count(if observed == "refused" { "refused" } else { "started" });
    pilot.abort(); server.abort();
}

/// malformed / hostile htlc_accepted requests against the running binary: every call gets one
/// well-formed response and the process stays alive
async fn hostile_session(ctx: &mut Ctx, sock: &str, rng: &mut Rng, n: usize) {
    let node: Node = Arc::new(Mutex::new(NodeState::default()));
    { let mut nn = node.lock().unwrap(); nn.height = 1000; nn.node_id = pubkey(LOCAL).to_string(); }
    let server = node::listen(node.clone(), sock);
    let pilot = autopilot(node.clone());
    let o = Opts { cltv: 34, policy: 1008, base: 0, ppm: 5000, mpp: 60, pay: 60, noself: false, xpay: false };
    if let Some((mut p, true)) = start(sock, &o).await {
        for k in 0..n {
            let payload: Vec<u8> = match rng.below(8) {
                0 => vec![0xfd], 1 => vec![0x03, 0x10, 0xfd, 0x00], 2 => { let l = rng.below(12) as usize; rng.bytes(l) }
                3 => { let md = vec![0xfd]; let s = ref_encode(&[(16u64, md)]); let mut v = vec![]; ref_put_bigsize(s.len() as u64, &mut v); v.extend(s); v }
                4 => { let md = ref_encode(&[(33001u64, b"not an invoice".to_vec())]); let s = ref_encode(&[(2, vec![1]), (16u64, md), (8, vec![2; 35])]); let mut v = vec![]; ref_put_bigsize(s.len() as u64, &mut v); v.extend(s); v }
                5 => vec![0xff, 0xff, 0xff], 6 => vec![], _ => { let mut v = rng.bytes(40); v[0] = 39; v } };
            let id = format!("x{}", k);
            let req = json!({"jsonrpc": "2.0", "id": id, "method": "htlc_accepted", "params": {
                "onion": {"payload": hex::encode(&payload), "forward_msat": rng.next() >> rng.below(64), "total_msat": rng.next() >> rng.below(64)},
                "htlc": {"short_channel_id": "4x5x6", "id": k, "amount_msat": rng.next() >> rng.below(64), "cltv_expiry": rng.next() as u32, "cltv_expiry_relative": (rng.next() as i64) >> rng.below(64), "payment_hash": hex::encode(rng.bytes(32))}}});
            p.send(&req).await;
            let r = p.recv(Duration::from_secs(5)).await;
            let shown = match &r { None => "none".to_string(), Some(v) if v.get("error").is_some() => "rpc-error".into(), Some(v) => v["result"]["result"].as_str().unwrap_or("?").to_string() };
            ctx.count(&format!("hostile:{}", shown));
            ctx.case(&format!("hx {}", hex(&payload)), &shown, payload.len() >= 2);
            match &r {
                None => ctx.violation("C06,C13", "e2e-no-response", &format!("no response to htlc_accepted with payload {} (process alive: {})", hex(&payload), p.child.try_wait().map(|s| s.is_none()).unwrap_or(false))),
                Some(v) if v["id"] != json!(id) => ctx.violation("C17", "e2e-wrong-id", &format!("reply id {} for request {}", v["id"], id)),
                Some(v) if v.get("error").is_some() => ctx.violation("C06", "hook-rpc-error", &format!("htlc_accepted with payload {} was answered with a JSON-RPC error instead of continue/fail/resolve: {}", hex(&payload), v["error"])),
                _ => {}
            }
        }
        let _ = p.child.kill().await; check_stderr(ctx, &p, "an e2e session");
    } else { ctx.violation("C19,C06", "e2e-no-start", "default options did not start"); }
    pilot.abort(); server.abort();
}

pub fn gen_opts(rng: &mut Rng) -> Opts {
    let e16: &[i64] = &[-1, 0, 1, 34, 144, 1008, 65534, 65535, 65536, 100000];
    let e32: &[i64] = &[-1, 0, 1, 1000, 5000, 4294967295, 4294967296, i64::MAX];
    let cltv = if rng.coin(2, 3) { *rng.pick(&[0i64, 1, 34, 100, 65534]) } else { *rng.pick(e16) };
    let policy = match rng.below(5) { 0 => cltv, 1 => cltv + 1, 2 => cltv - 1, 3 => *rng.pick(e16), _ => (cltv + 1 + rng.below(900) as i64).min(65535) };
    Opts { cltv, policy, base: if rng.coin(3, 4) { *rng.pick(&[0i64, 1, 1000, 4294967295]) } else { *rng.pick(e32) },
           ppm: if rng.coin(3, 4) { *rng.pick(&[0i64, 1, 5000, 4294967295]) } else { *rng.pick(e32) },
           mpp: *rng.pick(&[-1i64, 0, 1, 1, 2, 60, 60, 100000, i64::MAX]), pay: *rng.pick(&[-1i64, 0, 1, 60, 65535, 65536, 1 << 40, i64::MAX]),
           noself: rng.coin(1, 2), xpay: rng.coin(1, 3) }
}

pub fn run(mut ctx: Ctx) {
    let rt = tokio::runtime::Builder::new_multi_thread().worker_threads(2).enable_all().build().unwrap();
    let mut rng = Rng::new(ctx.seed);
    let sock = format!("{}/e2e.sock", ctx.dir);
    if !std::path::Path::new(BIN).exists() { eprintln!("missing {}", BIN); std::process::exit(3); }
    rt.block_on(async {
        let fixed = vec![
            Opts { cltv: 34, policy: 1008, base: 0, ppm: 5000, mpp: 1, pay: 60, noself: false, xpay: false },
            Opts { cltv: 34, policy: 34, base: 0, ppm: 5000, mpp: 60, pay: 60, noself: false, xpay: false },
            Opts { cltv: 1008, policy: 34, base: 0, ppm: 5000, mpp: 60, pay: 60, noself: true, xpay: false },
            Opts { cltv: 0, policy: 1, base: 4294967295, ppm: 4294967295, mpp: 0, pay: 100000, noself: true, xpay: true },
            Opts { cltv: 65534, policy: 65535, base: 1, ppm: 1, mpp: 2, pay: 65535, noself: false, xpay: false },
        ];
        let n = if ctx.thorough { 150 } else { 14 };
        let mut idx = 0u64;
        for o in fixed { let x = (o.policy.max(0) as u32).saturating_add(500); config_case(&mut ctx, &sock, &o, x, idx).await; idx += 1; }
        for _ in 0..n {
            let o = gen_opts(&mut rng);
            let x = match rng.below(4) { 0 => o.policy.clamp(0, 70000) as u32, 1 => (o.policy.clamp(0, 70000) + o.cltv.clamp(0, 70000)) as u32 + rng.below(3) as u32, 2 => 70000 + rng.below(100000) as u32, _ => o.policy.clamp(0, 70000) as u32 + rng.below(2000) as u32 };
            config_case(&mut ctx, &sock, &o, x, idx).await; idx += 1;
        }
        let nh = if ctx.thorough { 400 } else { 40 };
        hostile_session(&mut ctx, &sock, &mut rng, nh).await;
    });
    let _ = std::fs::remove_file(&sock);
    ctx.finish(
        "option assignments (each option from its range edges: negatives, 0, u16/u32/i64 boundaries; equal/swapped/adjacent deltas; both flags) × probe expiry; one process per assignment; plus a session of malformed htlc_accepted requests; non-trivial = the assignment is valid (plugin runs and is probed) or the hostile payload has ≥2 bytes; distinct = distinct protocol line",
        "",
    );
}
