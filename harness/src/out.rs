//! Output plumbing shared by all suites: protocol file, oracle verdicts, statistics.
use std::collections::BTreeMap;
use std::fs::File;
use std::io::{BufWriter, Write};

pub struct Ctx {
    pub suite: String,
    pub seed: u64,
    pub thorough: bool,
    pub dir: String,
    pub replay: Option<String>,
    cases: BufWriter<File>,
    oracle: BufWriter<File>,
    pub n_cases: u64,
    pub n_viol: u64,
    pub dist: BTreeMap<String, u64>,
    pub samples: Vec<String>,
    pub distinct: std::collections::HashSet<u64>,
    pub nontrivial: u64,
    pub hangs: u64,
}

fn fnv(s: &str) -> u64 {
    let mut h: u64 = 0xcbf29ce484222325;
    for b in s.bytes() { h ^= b as u64; h = h.wrapping_mul(0x100000001b3); }
    h
}

impl Ctx {
    pub fn new(suite: &str, seed: u64, thorough: bool, dir: &str, replay: Option<String>) -> Self {
        std::fs::create_dir_all(dir).expect("out dir");
        let cases = BufWriter::new(File::create(format!("{}/{}.cases", dir, suite)).expect("cases"));
        let oracle = BufWriter::new(File::create(format!("{}/{}.oracle", dir, suite)).expect("oracle"));
        Ctx { suite: suite.into(), seed, thorough, dir: dir.into(), replay, cases, oracle, n_cases: 0, n_viol: 0,
              dist: BTreeMap::new(), samples: Vec::new(), distinct: Default::default(), nontrivial: 0, hangs: 0 }
    }
    /// One protocol line: the model must reproduce `observed` from `input`.
    /// `nontrivial`: the case reaches past the first guard of the code under test (suite-specific rule).
    pub fn case(&mut self, input: &str, observed: &str, nontrivial: bool) {
        writeln!(self.cases, "{} => {}", input, observed).unwrap();
        self.n_cases += 1;
        if nontrivial && self.distinct.insert(fnv(input)) { self.nontrivial += 1; }
        if self.samples.len() < 12 && (self.n_cases % 997 == 1 || self.samples.len() < 3) {
            self.samples.push(format!("{} => {}", input, observed));
        }
    }
    pub fn comment(&mut self, s: &str) { writeln!(self.cases, "# {}", s).unwrap(); }
    /// An implementation-level oracle verdict. `props`: comma separated property ids;
    /// `sig`: stable signature used to match known findings; `detail`: the replayable input.
    pub fn violation(&mut self, props: &str, sig: &str, detail: &str) {
        writeln!(self.oracle, "VIOL {} {} :: {}", props, sig, detail).unwrap();
        self.n_viol += 1;
        if sig.starts_with("hang") { self.hangs += 1; }
    }
    pub fn count(&mut self, key: &str) { *self.dist.entry(key.to_string()).or_insert(0) += 1; }
    pub fn add(&mut self, key: &str, n: u64) { *self.dist.entry(key.to_string()).or_insert(0) += n; }
    pub fn finish(mut self, rule: &str, exhaustive_note: &str) {
        self.cases.flush().unwrap();
        self.oracle.flush().unwrap();
        let stats = serde_json::json!({
            "suite": self.suite, "seed": self.seed, "tier": if self.thorough {"thorough"} else {"quick"},
            "cases": self.n_cases, "oracle_violations": self.n_viol,
            "distinct_nontrivial": self.nontrivial, "rule": rule, "exhaustive_part": exhaustive_note,
            "distribution": self.dist, "samples": self.samples,
        });
        std::fs::write(format!("{}/{}.stats.json", self.dir, self.suite), serde_json::to_string_pretty(&stats).unwrap()).unwrap();
        println!("harness suite={} cases={} oracle_violations={}", self.suite, self.n_cases, self.n_viol);
    }
}

pub fn hex(b: &[u8]) -> String { if b.is_empty() { "-".into() } else { hex::encode(b) } }
pub fn unhex(s: &str) -> Vec<u8> { if s == "-" { vec![] } else { hex::decode(s).expect("hex") } }
