//! Suite `fee`: the real `fee_sufficient` and `HtlcFailReason::encode` against a 128-bit reference.
//! Built twice by the check (profiles `dev` = overflow checks on, `wrapping` = off).
use std::panic::{catch_unwind, AssertUnwindSafe};

use crate::messages::{HtlcFailReason, TrampolineRoutingPolicy};
use crate::out::{hex, Ctx};
use crate::rng::Rng;

pub fn overflow_checks_on() -> bool {
    catch_unwind(|| { let x: u8 = std::hint::black_box(255); std::hint::black_box(x + std::hint::black_box(1)) }).is_err()
}

pub fn real_fee(base: u32, ppm: u32, total: u64, inv: u64) -> Result<bool, ()> {
    let p = TrampolineRoutingPolicy { fee_base_msat: base, fee_proportional_millionths: ppm, cltv_expiry_delta: 144 };
    catch_unwind(AssertUnwindSafe(|| p.fee_sufficient(total, inv))).map_err(|_| ())
}

pub fn exact(base: u32, ppm: u32, total: u64, inv: u64) -> bool {
    (total as u128) >= inv as u128 + base as u128 + (inv as u128 * ppm as u128) / 1_000_000
}

fn one(ctx: &mut Ctx, mode: &str, base: u32, ppm: u32, total: u64, inv: u64) {
    let got = real_fee(base, ppm, total, inv);
    let shown = match got { Ok(true) => "ok true", Ok(false) => "ok false", Err(_) => "panic" };
    let want = exact(base, ppm, total, inv);
    let mul_over = (inv as u128 * ppm as u128) >= (1u128 << 64);
    ctx.case(&format!("fs {} {} {} {} {}", mode, base, ppm, total, inv), shown, total >= inv);
    ctx.count(&format!("fs:{}:{}{}", shown.replace(' ', "-"), if want { "exact-true" } else { "exact-false" }, if mul_over { ":mul-overflow" } else { "" }));
    let input = format!("fee_sufficient(base={}, ppm={}, total={}, amount={}) [{}]", base, ppm, total, inv, mode);
    match got {
        Err(_) => ctx.violation("C12,C06", "fee-panic", &format!("{} panicked; exact predicate is {}", input, want)),
        Ok(g) if g != want => {
            if mul_over && !g { ctx.violation("C12", "fee-mul-overflow-conservative", &format!("{} = false; exact predicate is true (amount*ppm >= 2^64)", input)); }
            else { ctx.violation("C12,C03", "fee-mismatch", &format!("{} = {}; exact predicate is {}", input, g, want)); }
        }
        _ => {}
    }
}

fn enc(ctx: &mut Ctx, base: u32, ppm: u32, delta: u16) {
    let p = TrampolineRoutingPolicy { fee_base_msat: base, fee_proportional_millionths: ppm, cltv_expiry_delta: delta };
    let got = HtlcFailReason::TrampolineFeeOrExpiryInsufficient(p).encode();
    ctx.case(&format!("ef foei {} {} {}", base, ppm, delta), &hex(&got), true);
    let mut want = vec![0x20u8, 26];
    for s in (0..4).rev() { want.push((base >> (8 * s)) as u8); }
    for s in (0..4).rev() { want.push((ppm >> (8 * s)) as u8); }
    want.push((delta >> 8) as u8); want.push(delta as u8);
    if got != want { ctx.violation("C12", "failure-encoding", &format!("encode(foei base={} ppm={} delta={}) = {}", base, ppm, delta, hex(&got))); }
}

const E32: &[u32] = &[0, 1, 2, 10, 999, 1000, 5000, 999_999, 1_000_000, 1_000_001, 0x7fff_ffff, 0xffff_fffe, 0xffff_ffff];

pub fn run(mut ctx: Ctx) {
    let mut rng = Rng::new(ctx.seed);
    let mode = if overflow_checks_on() { "checked" } else { "wrapping" };
    ctx.count(&format!("profile:{}", mode));
    if let Some(path) = ctx.replay.clone() {
        for line in std::fs::read_to_string(path).expect("replay").lines() {
            let w: Vec<&str> = line.split_whitespace().collect();
            if let ["fs", b, p, t, a] = w.as_slice() { one(&mut ctx, mode, b.parse().unwrap(), p.parse().unwrap(), t.parse().unwrap(), a.parse().unwrap()); }
        }
        ctx.finish("replay", "");
        return;
    }
    if let Ok(c) = std::fs::read_to_string("/verif/corpus/fee/cases.txt") {
        for line in c.lines() {
            let w: Vec<&str> = line.split_whitespace().collect();
            if let ["fs", b, p, t, a] = w.as_slice() { one(&mut ctx, mode, b.parse().unwrap(), p.parse().unwrap(), t.parse().unwrap(), a.parse().unwrap()); ctx.count("corpus"); }
        }
    }
    // the repository's own table
    for (b, p, t, a) in [(0u32, 5000u32, 1_005_000u64, 1_000_000u64), (0, 5000, 1_004_999, 1_000_000), (1000, 0, 1_001_000, 1_000_000), (1000, 5000, 1_006_000, 1_000_000),
                         (0, 1, 999_999, 999_999), (0, 1, 1_000_000, 1_000_000), (0, 2, u64::MAX, u64::MAX / 2 + 1), (0, 2, u64::MAX, u64::MAX / 2)] {
        one(&mut ctx, mode, b, p, t, a);
    }
    let n = if ctx.thorough { 400_000 } else { 12_000 };
    for _ in 0..n {
        let base = if rng.coin(2, 3) { *rng.pick(E32) } else { rng.next() as u32 };
        let ppm = if rng.coin(2, 3) { *rng.pick(E32) } else { (rng.next() as u32) >> rng.below(32) };
        // amount: small / around the multiplication-overflow edge / around the addition-overflow edge / anything
        let inv: u64 = match rng.below(6) {
            0 => rng.below(2_000_000),
            1 => rng.next() >> rng.below(64),
            2 => { let e = if ppm == 0 { u64::MAX } else { u64::MAX / ppm as u64 }; e.wrapping_add(rng.below(5)).wrapping_sub(2) }
            3 => u64::MAX - rng.below(3 + base as u64 * 2),
            4 => { let fee = base as u128 + ((1u128 << 63) * ppm as u128) / 1_000_000; (u64::MAX as u128).saturating_sub(fee.min(u64::MAX as u128)) as u64 ^ rng.below(4) }
            _ => *rng.pick(&[0u64, 1, 999_999, 1_000_000, 1 << 32, 1 << 63, u64::MAX]),
        };
        let need: u128 = inv as u128 + base as u128 + (inv as u128 * ppm as u128) / 1_000_000;
        let around = |d: i128| -> u64 { let v = need as i128 + d; if v < 0 { 0 } else if v > u64::MAX as i128 { u64::MAX } else { v as u64 } };
        for t in [around(-1), around(0), around(1)] { one(&mut ctx, mode, base, ppm, t, inv); }
        match rng.below(4) { 0 => one(&mut ctx, mode, base, ppm, u64::MAX, inv), 1 => one(&mut ctx, mode, base, ppm, inv, inv),
                             2 => one(&mut ctx, mode, base, ppm, inv.wrapping_sub(1), inv), _ => one(&mut ctx, mode, base, ppm, rng.next(), inv) }
    }
    for &b in E32 { for &p in E32 { for d in [0u16, 1, 34, 144, 1008, 0xff, 0x100, 0xffff] { enc(&mut ctx, b, p, d); } } }
    let tnf = HtlcFailReason::TemporaryNodeFailure.encode();
    ctx.case("ef tnf", &hex(&tnf), true);
    if tnf != vec![0x20, 2] { ctx.violation("C06", "failure-encoding", "temporary_node_failure bytes"); }
    let ttf = HtlcFailReason::TemporaryTrampolineFailure.encode();
    ctx.case("ef ttf", &hex(&ttf), true);
    if ttf != vec![0x20, 25] { ctx.violation("C11", "failure-encoding", "temporary_trampoline_failure bytes"); }
    ctx.finish(
        "(base, ppm, total, amount) tuples: policy values from 32-bit edges or random; amount small / random width / at the checked_mul edge / at the final-addition edge; total = need-1, need, need+1 (128-bit need) plus extremes; non-trivial = total ≥ amount (passes the first guard); distinct = distinct tuple+profile",
        "",
    );
}
