//! Suite `classify`: the real `HtlcManager::handle_htlc` on generated requests built from really
//! signed BOLT11 invoices, with a recording store that never answers (a trampoline HTLC stays held).
//! Protocol op `cl`; oracles for C10, C13, C01 (hash), C06 (no panic).
use std::panic::AssertUnwindSafe;
use std::str::FromStr;
use std::sync::{Arc, Mutex};
use std::time::{Duration, SystemTime};

use async_trait::async_trait;
use futures::FutureExt;
use lightning_invoice::{Bolt11Invoice, Currency, InvoiceBuilder, PaymentSecret, RouteHint, RouteHintHop, RoutingFees};
use secp256k1::hashes::{sha256, Hash};
use secp256k1::{PublicKey, Secp256k1, SecretKey};

use crate::block_watcher::BlockProvider;
use crate::email::{NotificationService, NotifyPaymentFailedRequest};
use crate::htlc_manager::{HtlcManager, HtlcManagerParams};
use crate::messages::{Htlc, HtlcAcceptedRequest, HtlcAcceptedResponse, Onion, TrampolineInfo, TrampolineRoutingPolicy};
use crate::out::{hex, Ctx};
use crate::payment_provider::{PaymentProvider, PaymentRequest};
use crate::rng::Rng;
use crate::store::{AttemptId, Datastore, PaymentState};
use crate::suite_tlv::{ref_encode, show_entries, stream_of, real_fb, Rec};

#[derive(Default)]
pub struct Calls {
    pub fetch: Vec<(Vec<u8>, u64, String, Vec<u8>)>, // bolt11, amount, payee, invoice hash
    pub other: Vec<String>,
}

pub struct RecStore(pub Arc<Mutex<Calls>>);
#[async_trait]
impl Datastore for RecStore {
    async fn add_payment_attempt(&self, _t: &TrampolineInfo) -> anyhow::Result<AttemptId> {
        self.0.lock().unwrap().other.push("add_payment_attempt".into());
        std::future::pending().await
    }
    async fn fetch_payment_info(&self, t: &TrampolineInfo) -> anyhow::Result<PaymentState> {
        self.0.lock().unwrap().fetch.push((t.bolt11.as_bytes().to_vec(), t.amount_msat, t.payee.to_string(),
            t.invoice.payment_hash().to_byte_array().to_vec()));
        std::future::pending().await
    }
    async fn mark_failed(&self, _t: &TrampolineInfo, _a: &AttemptId) -> anyhow::Result<()> {
        self.0.lock().unwrap().other.push("mark_failed".into());
        std::future::pending().await
    }
    async fn mark_succeeded(&self, _t: &TrampolineInfo, _a: &AttemptId, _p: Vec<u8>) -> anyhow::Result<()> {
        self.0.lock().unwrap().other.push("mark_succeeded".into());
        std::future::pending().await
    }
}
pub struct RecProvider(pub Arc<Mutex<Calls>>);
#[async_trait]
impl PaymentProvider for RecProvider {
    async fn pay(&self, _r: PaymentRequest) -> anyhow::Result<Vec<u8>> {
        self.0.lock().unwrap().other.push("pay".into());
        std::future::pending().await
    }
    async fn wait_payment(&self, _h: sha256::Hash) -> anyhow::Result<Option<Vec<u8>>> {
        self.0.lock().unwrap().other.push("wait_payment".into());
        std::future::pending().await
    }
}
pub struct FixedHeight(pub u32);
#[async_trait]
impl BlockProvider for FixedHeight {
    async fn current_height(&self) -> u32 { self.0 }
}
pub struct NoNotify;
#[async_trait]
impl NotificationService for NoNotify {
    async fn notify_payment_failed(&self, _r: NotifyPaymentFailedRequest) {}
}

pub fn key(n: u8) -> SecretKey {
    let mut k = [0x11u8; 32];
    k[31] = n;
    SecretKey::from_slice(&k).unwrap()
}
pub fn pubkey(n: u8) -> PublicKey { PublicKey::from_secret_key(&Secp256k1::new(), &key(n)) }
pub const LOCAL: u8 = 1;

pub fn hop(src: PublicKey) -> RouteHintHop {
    RouteHintHop { cltv_expiry_delta: 80, fees: RoutingFees { base_msat: 1000, proportional_millionths: 10 },
        htlc_maximum_msat: Some(1_000_000_000), htlc_minimum_msat: Some(1_000), short_channel_id: 7, src_node_id: src }
}

/// hints: 0 none, 1 self last (single hop), 2 other only, 3 [other, self] (self last), 4 [self, other] (self not last),
/// 5 two hints: [other] and [self], 6 two hints: [] and [other]
pub fn make_invoice(preimage: &[u8], amount: Option<u64>, hints: u8, signer: u8) -> String {
    let mut b = InvoiceBuilder::new(Currency::Bitcoin)
        .description("verif".into())
        .payment_hash(sha256::Hash::hash(preimage))
        .payment_secret(PaymentSecret([42u8; 32]))
        .timestamp(SystemTime::UNIX_EPOCH)
        .min_final_cltv_expiry_delta(144);
    if let Some(a) = amount { b = b.amount_milli_satoshis(a); }
    let me = pubkey(LOCAL);
    let other = pubkey(9);
    match hints {
        1 => { b = b.private_route(RouteHint(vec![hop(me)])); }
        2 => { b = b.private_route(RouteHint(vec![hop(other)])); }
        3 => { b = b.private_route(RouteHint(vec![hop(other), hop(me)])); }
        4 => { b = b.private_route(RouteHint(vec![hop(me), hop(other)])); }
        5 => { b = b.private_route(RouteHint(vec![hop(other)])).private_route(RouteHint(vec![hop(me)])); }
        6 => { b = b.private_route(RouteHint(vec![])).private_route(RouteHint(vec![hop(other)])); }   // a hint without hops
        _ => {}
    }
    let sk = key(signer);
    b.build_signed(|h| Secp256k1::new().sign_ecdsa_recoverable(h, &sk)).unwrap().to_string()
}

/// What the code reads off an invoice blob, computed by an independent call into the same crate.
pub struct View { pub hash: Vec<u8>, pub amount: Option<u64>, pub sig_ok: bool, pub self_last: bool, pub payee: String }

pub fn view_of(blob: &[u8]) -> Option<View> {
    let s = std::str::from_utf8(blob).ok()?;
    let inv = Bolt11Invoice::from_str(s).ok()?;
    let me = pubkey(LOCAL);
    Some(View {
        hash: inv.payment_hash().to_byte_array().to_vec(),
        amount: inv.amount_milli_satoshis(),
        sig_ok: inv.check_signature().is_ok(),
        self_last: inv.route_hints().iter().any(|h| h.0.last().map(|x| x.src_node_id == me).unwrap_or(false)),
        payee: inv.recover_payee_pub_key().to_string(),
    })
}
fn payee_id(p: &str) -> u64 { let mut h: u64 = 1469598103934665603; for b in p.bytes() { h ^= b as u64; h = h.wrapping_mul(1099511628211); } h % 1_000_000 }
fn show_view(v: &Option<View>) -> String {
    match v { None => "none".into(), Some(v) => format!("{},{},{},{},{}", hex(&v.hash), v.amount.map(|a| a.to_string()).unwrap_or("-".into()),
        v.sig_ok as u8, v.self_last as u8, payee_id(&v.payee)) }
}

pub fn policy() -> TrampolineRoutingPolicy {
    TrampolineRoutingPolicy { fee_base_msat: 1000, fee_proportional_millionths: 5000, cltv_expiry_delta: 144 }
}

pub struct Case {
    pub allow: bool, pub scid: bool, pub fwd: Option<u64>, pub tot: Option<u64>, pub htlc_hash: Vec<u8>,
    pub payload: Vec<Rec>, pub amount_msat: u64, pub cltv_rel: i64,
}

fn be_trunc(v: u64, len: usize) -> Vec<u8> {
    // `len` bytes, big-endian, value in the low-order bytes (len may exceed 8)
    let mut out = vec![0u8; len];
    for i in 0..len.min(8) { out[len - 1 - i] = (v >> (8 * i)) as u8; }
    out
}

async fn run_case(ctx: &mut Ctx, c: &Case) {
    let calls = Arc::new(Mutex::new(Calls::default()));
    let mgr = Arc::new(HtlcManager::new(HtlcManagerParams {
        allow_self_route_hints: c.allow,
        block_provider: Arc::new(FixedHeight(100)),
        cltv_delta: 34,
        local_pubkey: pubkey(LOCAL),
        mpp_timeout: Duration::from_secs(60),
        notification_service: Arc::new(NoNotify),
        payment_provider: Arc::new(RecProvider(calls.clone())),
        routing_policy: policy(),
        store: Arc::new(RecStore(calls.clone())),
    }));
    let req = HtlcAcceptedRequest {
        onion: Onion { payload: stream_of(&c.payload), short_channel_id: if c.scid { Some("1x2x3".parse().unwrap()) } else { None },
            forward_msat: c.fwd, total_msat: c.tot },
        htlc: Htlc { short_channel_id: "4x5x6".parse().unwrap(), id: 1, amount_msat: c.amount_msat, cltv_expiry: 1000,
            cltv_expiry_relative: c.cltv_rel, payment_hash: c.htlc_hash.clone() },
    };
    let m2 = mgr.clone();
    let jh = tokio::spawn(async move { AssertUnwindSafe(m2.handle_htlc(&req)).catch_unwind().await });
    for _ in 0..30 { tokio::task::yield_now().await; if jh.is_finished() { break; } }
    // independent view of what the metadata carries
    let md = c.payload.iter().find(|(t, _)| *t == 16).map(|(_, v)| v.clone());
    let md_entries = md.as_ref().and_then(|v| match real_fb(v) { Ok(Ok(es)) => Some(es), _ => None });
    let blob = md_entries.as_ref().and_then(|es| es.iter().find(|(t, _)| *t == 33001).map(|(_, v)| v.clone()));
    let view = blob.as_ref().and_then(|b| view_of(b));
    let amt_rec = md_entries.as_ref().and_then(|es| es.iter().find(|(t, _)| *t == 33003).map(|(_, v)| v.clone()));

    let observed: String;
    let mut held = false;
    let mut resp: Option<HtlcAcceptedResponse> = None;
    if jh.is_finished() {
        match jh.await {
            Ok(Ok(r)) => {
                observed = match &r {
                    HtlcAcceptedResponse::Continue { payload: None } => "cont -".into(),
                    HtlcAcceptedResponse::Continue { payload: Some(p) } => format!("cont {}", hex(p)),
                    HtlcAcceptedResponse::Fail { failure_message } if *failure_message == vec![0x20, 2] => "failtnf".into(),
                    HtlcAcceptedResponse::Fail { failure_message } => format!("fail {}", hex(failure_message)),
                    HtlcAcceptedResponse::Resolve { payment_key } => format!("resolve {}", hex(payment_key)),
                };
                resp = Some(r);
            }
            _ => { observed = "panic".into(); }
        }
    } else {
        held = true;
        jh.abort();
        let calls = calls.lock().unwrap();
        observed = match calls.fetch.first() {
            Some((b11, amt, _, _)) => format!("tramp {} {} {}", hex(b11), amt, c.fwd.map(|f| f.to_string()).unwrap_or("-".into())),
            None => "held-without-fetch".into(),
        };
    }
    let input = format!("cl {} {} {} {} {} {} {} {}", c.allow as u8, c.scid as u8,
        c.fwd.map(|f| f.to_string()).unwrap_or("-".into()), c.tot.map(|f| f.to_string()).unwrap_or("-".into()),
        hex(&c.htlc_hash), show_entries(&c.payload), blob.as_ref().map(|b| hex(b)).unwrap_or("-".into()), show_view(&view));
    ctx.case(&input, &observed, view.is_some());
    ctx.count(&format!("class:{}", observed.split(' ').next().unwrap()));
    let replay = format!("REPLAY[{}]", input);

    // ---- oracles (no Lean model involved) ----
    let calls = calls.lock().unwrap();
    if observed == "panic" { ctx.violation("C06,C13,C10", "classify-panic", &format!("handle_htlc panicked {}", replay)); }
    if held {
        let (_, amt, payee, ihash) = calls.fetch.first().cloned().unwrap_or_default();
        match &view {
            None => ctx.violation("C10", "tramp-without-invoice", &format!("held as trampoline without a parsable invoice {}", replay)),
            Some(v) => {
                if !v.sig_ok { ctx.violation("C10", "tramp-bad-signature", &format!("held as trampoline with an invalid signature {}", replay)); }
                if v.hash != c.htlc_hash || ihash != c.htlc_hash {
                    ctx.violation("C10,C01", "tramp-hash-mismatch", &format!("held as trampoline although invoice hash {} != htlc hash {} {}", hex(&v.hash), hex(&c.htlc_hash), replay));
                }
                if payee != v.payee { ctx.violation("C10", "tramp-payee", &format!("payee {} is not the key the signature verifies against {} {}", payee, v.payee, replay)); }
                if v.self_last && !c.allow { ctx.violation("C10", "tramp-self-hint", &format!("held although the local node is the last hop of a hint and that is disallowed {}", replay)); }
                let tlv_amt: Option<u64> = match &amt_rec { Some(b) if b.len() <= 8 => Some(b.iter().fold(0u64, |a, x| (a << 8) | *x as u64)), _ => None };
                let want: Option<u64> = match (v.amount, tlv_amt) { (Some(a), Some(t)) => if a == t { Some(a) } else { None }, (Some(a), None) => Some(a), (None, Some(t)) => Some(t), (None, None) => None };
                match want { Some(w) if w == amt => {} _ => ctx.violation("C10,C03", "tramp-amount", &format!("held with amount {} but invoice amount {:?}, amount record {:?} {}", amt, v.amount, amt_rec.as_ref().map(|b| hex(b)), replay)) }
            }
        }
        if c.scid { ctx.violation("C10,C13", "tramp-forward", &format!("a plain forward was held as trampoline {}", replay)); }
        if c.fwd.is_none() { ctx.violation("C10,C13", "tramp-no-forward-msat", &format!("held without forward_msat {}", replay)); }
    } else if let Some(r) = &resp {
        // not held: no side effects at all (C13)
        if !calls.fetch.is_empty() || !calls.other.is_empty() {
            ctx.violation("C13", "sidefx", &format!("answered immediately but touched store/provider: fetch={} other={:?} {}", calls.fetch.len(), calls.other, replay));
        }
        match r {
            HtlcAcceptedResponse::Continue { payload: Some(p) } => {
                let mut want = c.payload.clone();
                if let Some(pos) = want.iter().position(|(t, _)| *t == 16) { want.remove(pos); }
                if *p != ref_encode(&want) || !c.payload.iter().any(|(t, _)| *t == 16) {
                    ctx.violation("C13", "payload-rewrite", &format!("rewritten payload {} is not the input minus the metadata record {}", hex(p), replay));
                }
            }
            HtlcAcceptedResponse::Continue { payload: None } => {}
            HtlcAcceptedResponse::Fail { failure_message } => {
                // the self-route-hint failure is only for requests that would otherwise be trampoline payments: a plain forward
                // (short_channel_id present) passes through whatever its metadata says (C13)
                let self_case = !c.scid && view.as_ref().map(|v| v.self_last && !c.allow).unwrap_or(false);
                if !(self_case && *failure_message == vec![0x20, 2]) {
                    ctx.violation("C13,C10", "fail-non-trampoline", &format!("non-trampoline htlc failed with {} {}", hex(failure_message), replay));
                }
            }
            HtlcAcceptedResponse::Resolve { .. } => ctx.violation("C13,C01", "resolve-non-trampoline", &format!("resolved without any payment {}", replay)),
        }
        // completeness direction of C10's self-hint clause
        if let Some(v) = &view {
            let ok_tramp = !c.scid && v.sig_ok && v.hash == c.htlc_hash;
            if ok_tramp && v.self_last && !c.allow {
                let tlv_amt_ok = match (&amt_rec, v.amount) { (Some(b), Some(a)) if b.len() <= 8 => b.iter().fold(0u64, |x, y| (x << 8) | *y as u64) == a, (Some(b), None) => b.len() <= 8, (None, None) => false, _ => true };
                if tlv_amt_ok && !matches!(r, HtlcAcceptedResponse::Fail { .. }) {
                    ctx.violation("C10", "self-hint-not-failed", &format!("local node is the last hop, disallowed, but the htlc was not failed {}", replay));
                }
            }
        }
    }
}

pub fn gen_case(rng: &mut Rng, invoices: &[(Vec<u8>, Vec<u8>, Option<u64>)]) -> Case {
    // invoices: (blob, hash, amount)
    let (blob, ihash, iamt) = rng.pick(invoices).clone();
    let mut blob = blob;
    match rng.below(14) {
        0 => { let n = blob.len(); if n > 10 { let at = 10 + rng.below(n as u64 - 10) as usize; blob[at] = if blob[at] == b'q' { b'p' } else { b'q' }; } } // bech32 checksum breaks
        1 => { blob = blob.to_ascii_uppercase(); }               // valid bech32, different string
        2 => { blob.push(0xff); }                                 // not UTF-8
        3 => { let n = rng.below(40) as usize; blob = rng.bytes(n); }        // noise
        4 => { blob.truncate(blob.len() / 2); }
        _ => {}
    }
    let mut md: Vec<Rec> = Vec::new();
    let with_invoice = rng.coin(9, 10);
    if with_invoice { md.push((33001, blob)); }
    // amount record: absent / 0..9 bytes / agreeing or not
    match rng.below(6) {
        0 | 1 => {}
        2 => { let v = iamt.unwrap_or(rng.below(5_000_000)); let minlen = (64 - v.leading_zeros() as usize + 7) / 8; let len = rng.range(minlen as u64, 9) as usize; md.push((33003, be_trunc(v, len))); }
        3 => { let v = iamt.unwrap_or(1_000_000).wrapping_add(rng.range(1, 3)); md.push((33003, be_trunc(v, 8))); }
        4 => { let len = rng.below(10) as usize; md.push((33003, rng.bytes(len))); }
        _ => { md.push((33003, be_trunc(rng.below(3_000_000), 4))); }
    }
    if rng.coin(1, 8) { let n = rng.below(5) as usize; md.push((rng.below(70000), rng.bytes(n))); }
    if rng.coin(1, 6) { md.reverse(); }
    if rng.coin(1, 12) { let dup = md.clone(); md.extend(dup.into_iter().map(|(t, mut v)| { v.push(1); (t, v) })); }
    let mut md_bytes = ref_encode(&md);
    match rng.below(16) {
        0 => { let n = md_bytes.len(); md_bytes.truncate(n.saturating_sub(1 + rng.below(4) as usize)); }
        1 => { md_bytes.push(0xfd); }
        2 => { md_bytes.insert(0, md_bytes.len() as u8); }   // looks length-prefixed (default_response's parser)
        3 => { md_bytes = vec![0xfd]; }
        _ => {}
    }
    let mut payload: Vec<Rec> = Vec::new();
    if rng.coin(3, 4) { payload.push((2, be_trunc(rng.below(2_000_000), 3))); payload.push((4, be_trunc(800_000, 3))); }
    if rng.coin(14, 15) { payload.push((16, md_bytes.clone())); }
    if rng.coin(1, 3) { payload.push((8, rng.bytes(35))); }
    if rng.coin(1, 10) { payload.push((16, vec![1, 2])); }
    if rng.coin(1, 10) { payload.push((65537 + rng.below(10), rng.bytes(3))); }
    // neighbours at the boundaries of the variable-length integers (type and length), and an empty value last
    if rng.coin(1, 4) {
        let t = *rng.pick(&[252u64, 253, 254, 255, 0xffff, 0x10000, 0xffff_ffff, 0x1_0000_0000]);
        let l = *rng.pick(&[0usize, 1, 252, 253, 254, 255, 256]);
        payload.push((t, rng.bytes(l)));
    }
    if rng.coin(1, 12) { payload.push((0x1_0000_0001 + rng.below(5), vec![])); }
    let htlc_hash = match rng.below(10) { 0 => rng.bytes(32), 1 => { let mut h = ihash.clone(); h[31] ^= 1; h } 2 => ihash[..31].to_vec(), _ => ihash.clone() };
    let amt = iamt.unwrap_or(1_000_000);
    Case {
        allow: rng.coin(1, 2), scid: rng.coin(1, 10),
        fwd: if rng.coin(9, 10) { Some(amt + rng.below(20_000)) } else { None },
        tot: if rng.coin(1, 2) { Some(amt + rng.below(20_000)) } else { None },
        htlc_hash, payload, amount_msat: amt + 10_000, cltv_rel: 200,
    }
}

pub fn invoice_table() -> Vec<(Vec<u8>, Vec<u8>, Option<u64>)> {
    let mut out = Vec::new();
    for (i, amount) in [Some(1_000_000u64), None, Some(1), Some(2_100_000_000_000_000_000u64 / 1000), Some(123_456_789)].iter().enumerate() {
        for hints in 0..=6u8 {
            for signer in [2u8, 3] {
                if signer == 3 && hints > 1 { continue; }
                let pre = vec![i as u8 * 16 + hints; 32];
                let s = make_invoice(&pre, *amount, hints, signer);
                out.push((s.into_bytes(), sha256::Hash::hash(&pre).to_byte_array().to_vec(), *amount));
            }
        }
    }
    out
}

fn parse_replay(line: &str) -> Option<Case> {
    // `cl allow scid fwd tot hash payload blob view`
    let w: Vec<&str> = line.split_whitespace().collect();
    if w.len() < 7 || w[0] != "cl" { return None; }
    let opt = |s: &str| if s == "-" { None } else { Some(s.parse::<u64>().unwrap()) };
    Some(Case { allow: w[1] == "1", scid: w[2] == "1", fwd: opt(w[3]), tot: opt(w[4]), htlc_hash: crate::out::unhex(w[5]),
        payload: crate::suite_tlv::parse_entries(w[6]), amount_msat: 1_010_000, cltv_rel: 200 })
}

pub fn run(mut ctx: Ctx) {
    let rt = tokio::runtime::Builder::new_current_thread().enable_all().start_paused(true).build().unwrap();
    let mut rng = Rng::new(ctx.seed);
    let invoices = invoice_table();
    rt.block_on(async {
        if let Some(path) = ctx.replay.clone() {
            for line in std::fs::read_to_string(path).expect("replay").lines() {
                if let Some(c) = parse_replay(line) { run_case(&mut ctx, &c).await; }
            }
            return;
        }
        if let Ok(c) = std::fs::read_to_string("/verif/corpus/classify/cases.txt") {
            for line in c.lines() { if let Some(c) = parse_replay(line) { run_case(&mut ctx, &c).await; ctx.count("corpus"); } }
        }
        let n = if ctx.thorough { 60_000 } else { 4_000 };
        for _ in 0..n {
            let c = gen_case(&mut rng, &invoices);
            run_case(&mut ctx, &c).await;
        }
    });
    ctx.finish(
        "requests built from 40 really signed BOLT11 invoices (amount present/absent/extreme, route hints none/self-last/other/self-inner/two hints, two signers) × mutated blob (bech32 break, upper-case, non-UTF-8, noise, truncation) × amount record (absent, 0–9 bytes, agreeing or not) × metadata malformations × payload neighbours × htlc hash equal/different/short × flags; non-trivial = the metadata carries an invoice that parses; distinct = distinct protocol line",
        "",
    );
}
