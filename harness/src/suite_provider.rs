//! Suite `provider`: the real `PayPaymentProvider::{wait_payment, pay}` over the in-memory fake node,
//! under random and adversarial schedules of: part creation/resolution, serving a request (reply
//! computed at that instant), delivering a served reply, ending the pay command, read faults.
//! Protocol op `pw` (whole schedule per line) and `pa` (pay RPC arguments). Oracles for C15, C16.
use std::sync::{Arc, Mutex};
use std::time::Duration;

use secp256k1::hashes::{sha256, Hash};
use serde_json::{json, Value};

use crate::node::{self, Node, NodeState, PSt, Part, Reply};
use crate::out::Ctx;
use crate::payment_provider::{PayPaymentProvider, PaymentProvider, PaymentRequest};
use crate::rng::Rng;

fn tok(method: &str, params: &Value) -> String {
    match method {
        "listsendpays" => if params["status"] == "pending" { "lp".into() } else if params["status"] == "complete" { "lc".into() } else { "l?".into() },
        "waitsendpay" => format!("w{}", params["partid"].as_u64().unwrap_or(0)),
        "pay" => "pay".into(),
        m => m.to_string(),
    }
}

enum Ret { Running, Wait(Result<Option<Vec<u8>>, String>), Pay(Result<Vec<u8>, String>) }

fn show_parts(ps: &[Part]) -> String {
    if ps.is_empty() { return "-".into(); }
    ps.iter().map(|p| format!("{}:{}", p.id, match p.st { PSt::Pending => "p".to_string(), PSt::Failed => "f".to_string(), PSt::Complete(x) => format!("c{}", x) })).collect::<Vec<_>>().join(",")
}

struct Sched { acts: Vec<String>, obs: Vec<String> }

async fn settle() { for _ in 0..12 { tokio::task::yield_now().await; } }

fn observe(node: &Node, ret: &Ret) -> String {
    node::reap(node);
    let n = node.lock().unwrap();
    let mut out: Vec<String> = n.parked.iter().map(|p| tok(&p.method, &p.params)).collect();
    out.sort();
    let r = match ret {
        Ret::Running => "-".to_string(),
        Ret::Wait(Ok(Some(p))) => format!("some:{}", node::preimage_num(p)),
        Ret::Wait(Ok(None)) => "none".into(),
        Ret::Wait(Err(_)) => "err".into(),
        Ret::Pay(Ok(p)) => format!("ok:{}", node::preimage_num(p)),
        Ret::Pay(Err(_)) => "perr".into(),
    };
    format!("out=[{}] ret={}", out.join(","), r)
}

/// One schedule. `script`: forced prefix of action tokens (used for directed cases and replay).
async fn one(ctx: &mut Ctx, rng: &mut Rng, is_pay: bool, init: Vec<Part>, script: Vec<String>, faults: bool, adversarial: bool) {
    let hash = sha256::Hash::hash(&[7u8; 32]);
    let hh = hash.to_string();
    let node: Node = Arc::new(Mutex::new(NodeState::default()));
    node.lock().unwrap().parts.insert(hh.clone(), init.clone());
    if is_pay { node.lock().unwrap().pay_running.insert(hh.clone(), 1); }
    let provider = PayPaymentProvider::new(Arc::new(node::MemRpc(node.clone())), Duration::from_secs(60), false);
    let jh = if is_pay {
        tokio::spawn(async move {
            Ret::Pay(provider.pay(PaymentRequest { bolt11: "lnbc1fake".into(), payment_hash: hash, amount_msat: None, max_fee_msat: 10, max_cltv_delta: 100 }).await.map_err(|e| e.to_string()))
        })
    } else {
        tokio::spawn(async move { Ret::Wait(provider.wait_payment(hash).await.map_err(|e| e.to_string())) })
    };
    let mut s = Sched { acts: vec![], obs: vec![] };
    let mut ret = Ret::Running;
    let mut jh = Some(jh);
    let mut fault_seen = false;
    let mut pay_complete_reply: Option<u64> = None;
    let mut next_id = init.iter().map(|p| p.id).max().unwrap_or(0) + 1;
    let mut script = script.into_iter();
    settle().await;
    s.obs.push(observe(&node, &ret));
    for _step in 0..60 {
        if !matches!(ret, Ret::Running) { break; }
        // enabled actions
        let mut cands: Vec<String> = Vec::new();
        {
            let n = node.lock().unwrap();
            let parts = n.parts_of(&hh);
            let running = n.pay_running.get(&hh).copied().unwrap_or(0) > 0;
            for p in &parts { if p.st == PSt::Pending { cands.push(format!("r{}:f", p.id)); cands.push(format!("r{}:c{}", p.id, 70 + p.id)); } }
            if running && parts.len() < 4 { cands.push(format!("c{}", next_id)); }
            for p in &n.parked {
                let t = tok(&p.method, &p.params);
                if p.served.is_some() { cands.push(format!("d:{}", t)); cands.push(format!("d:{}", t)); }
                else if p.method == "pay" {
                    if running {
                        cands.push("pe:pending".into()); cands.push("pe:failed".into()); cands.push("pe:failedwarn".into()); cands.push("pe:err".into()); cands.push("pe:conn".into());
                        if let Some(x) = parts.iter().find_map(|q| if let PSt::Complete(x) = q.st { Some(x) } else { None }) { cands.push(format!("pe:complete{}", x)); cands.push(format!("pe:complete{}", x)); }
                    }
                } else {
                    let can = match p.method.as_str() { "waitsendpay" => { let id = p.params["partid"].as_u64().unwrap_or(0); parts.iter().any(|q| q.id == id && q.st != PSt::Pending) } _ => true };
                    if can { cands.push(format!("s:{}", t)); cands.push(format!("s:{}", t)); }
                    if faults && rng.coin(1, 12) { cands.push(format!("e:{}", t)); }
                    // a waitsendpay that gives up (documented code 200, the part is still pending) — likelier than other errors
                    if faults && !can && p.method == "waitsendpay" && rng.coin(1, 3) { cands.push(format!("e:{}", t)); cands.push(format!("e:{}", t)); }
                }
            }
            // adversarial: between the two listings, complete a pending part
            if adversarial {
                let unserved: Vec<String> = n.parked.iter().filter(|p| p.served.is_none()).map(|p| tok(&p.method, &p.params)).collect();
                if unserved.contains(&"lc".to_string()) && unserved.contains(&"lp".to_string()) { cands = vec!["s:lc".into()]; }
                else if unserved.contains(&"lp".to_string()) && n.parked.iter().any(|p| p.served.is_some() && tok(&p.method, &p.params) == "lc") {
                    if let Some(p) = parts.iter().find(|p| p.st == PSt::Pending) { cands = vec![format!("r{}:c{}", p.id, 70 + p.id)]; } else { cands = vec!["s:lp".into()]; }
                }
            }
        }
        let act = match script.next() { Some(a) => a, None => { if cands.is_empty() { break; } rng.pick(&cands).clone() } };
        // apply
        {
            let mut n = node.lock().unwrap();
            if let Some(rest) = act.strip_prefix("r") {
                let mut it = rest.split(':'); let id: u64 = it.next().unwrap().parse().unwrap(); let st = it.next().unwrap();
                let st = if st == "f" { PSt::Failed } else { PSt::Complete(st[1..].parse().unwrap()) };
                for p in n.parts.entry(hh.clone()).or_default().iter_mut() { if p.id == id && p.st == PSt::Pending { p.st = st.clone(); } }
            } else if let Some(id) = act.strip_prefix("c") {
                let id: u64 = id.parse().unwrap();
                n.parts.entry(hh.clone()).or_default().push(Part { id, st: PSt::Pending });
                next_id = id + 1;
            } else if let Some(t) = act.strip_prefix("s:") {
                let idx = n.parked.iter().position(|p| p.served.is_none() && tok(&p.method, &p.params) == t);
                if let Some(i) = idx {
                    let (m, pr) = (n.parked[i].method.clone(), n.parked[i].params.clone());
                    let mut r = n.serve_truthful(&m, &pr);
                    if let Some(Err((Some(203), msg))) = &r { r = Some(Err((Some(*rng.pick(&[202, 203, 204, 208, 209])), msg.clone()))); }
                    if let Some(r) = r { n.parked[i].served = Some(r); }
                }
            } else if let Some(t) = act.strip_prefix("e:") {
                if let Some(i) = n.parked.iter().position(|p| p.served.is_none() && tok(&p.method, &p.params) == t) {
                    let code = if n.parked[i].method == "waitsendpay" { *rng.pick(&[Some(200), Some(200), Some(200), Some(-1), Some(210), None, Some(node::CONNECT)]) } else { *rng.pick(&[Some(-1), Some(200), Some(210), None, Some(-32602), Some(node::CONNECT)]) };
                    n.parked[i].served = Some(Err((code, "injected read fault".into())));
                    fault_seen = true;
                }
            } else if let Some(k) = act.strip_prefix("pe:") {
                if let Some(i) = n.parked.iter().position(|p| p.served.is_none() && p.method == "pay") {
                    let r: Reply = if let Some(x) = k.strip_prefix("complete") { let x: u64 = x.parse().unwrap(); pay_complete_reply = Some(x); Ok(node::pay_reply_json(&hh, "complete", x, false)) }
                        else if k == "pending" { Ok(node::pay_reply_json(&hh, "pending", 0, false)) }
                        else if k == "failed" { Ok(node::pay_reply_json(&hh, "failed", 0, false)) }
                        else if k == "failedwarn" { Ok(node::pay_reply_json(&hh, "failed", 0, true)) }
                        else if k == "conn" { Err((Some(node::CONNECT), "Connection refused".into())) }
                        else { Err((Some(210), "Ran out of routes to try".into())) };
                    n.parked[i].served = Some(r);
                    n.pay_running.insert(hh.clone(), 0);
                }
            } else if let Some(t) = act.strip_prefix("d:") {
                if let Some(i) = n.parked.iter().position(|p| p.served.is_some() && tok(&p.method, &p.params) == t) {
                    let mut p = n.parked.remove(i);
                    if let (Some(tx), Some(r)) = (p.tx.take(), p.served.take()) { let _ = tx.send(r); }
                }
            }
        }
        settle().await;
        if jh.as_ref().map(|j| j.is_finished()).unwrap_or(false) {
            ret = match jh.take().unwrap().await { Ok(r) => r, Err(_) => { ctx.violation("C06,C15,C16", "provider-panic", &format!("provider panicked REPLAY[{}]", s.acts.join(" "))); Ret::Running } };
        }
        s.acts.push(act);
        s.obs.push(observe(&node, &ret));
        if jh.is_none() { break; }
    }
    if let Some(j) = jh { j.abort(); }
    let kind = if is_pay { "pay" } else { "wait" };
    let input = format!("pw {} {} {}", kind, show_parts(&init), if s.acts.is_empty() { "-".to_string() } else { s.acts.join(" ") });
    let finished = !matches!(ret, Ret::Running);
    ctx.case(&input, &s.obs.join(" | "), finished);
    let replay = format!("REPLAY[{}]", input);
    // ---- oracles against the node's table at return time ----
    let n = node.lock().unwrap();
    let parts = n.parts_of(&hh);
    let live = parts.iter().any(|p| p.st != PSt::Failed);
    let running = n.pay_running.get(&hh).copied().unwrap_or(0) > 0;
    match &ret {
        Ret::Running => ctx.count("end:unfinished"),
        Ret::Wait(Ok(Some(p))) => { ctx.count("end:wait-some");
            let x = node::preimage_num(p);
            if !parts.iter().any(|q| q.st == PSt::Complete(x)) { ctx.violation("C15,C01", "wait-some-without-complete", &format!("wait_payment returned preimage {} but no part is complete with it; table {} {}", x, show_parts(&parts), replay)); } }
        Ret::Wait(Ok(None)) => { ctx.count("end:wait-none");
            if live { ctx.violation("C15,C02,C05,C08", "wait-none-while-live", &format!("wait_payment returned None while the table is {} {}", show_parts(&parts), replay)); } }
        Ret::Wait(Err(_)) => { ctx.count("end:wait-err");
            if !fault_seen { ctx.violation("C15,C06", "wait-err-without-fault", &format!("wait_payment returned Err without any RPC error {}", replay)); } }
        Ret::Pay(Ok(p)) => { ctx.count("end:pay-ok");
            let x = node::preimage_num(p);
            if !parts.iter().any(|q| q.st == PSt::Complete(x)) && pay_complete_reply != Some(x) { ctx.violation("C16,C01", "pay-ok-without-complete", &format!("pay returned preimage {} but no part is complete with it; table {} {}", x, show_parts(&parts), replay)); } }
        Ret::Pay(Err(_)) => { ctx.count("end:pay-err");
            if (live || running) && !fault_seen { ctx.violation("C16,C02,C05,C08", "pay-err-while-live", &format!("pay returned Err while the table is {} (pay running: {}) {}", show_parts(&parts), running, replay)); } }
    }
}

fn gen_parts(rng: &mut Rng) -> Vec<Part> {
    let n = rng.below(4) as u64;
    (1..=n).map(|id| Part { id, st: match rng.below(5) { 0 | 1 => PSt::Pending, 2 => PSt::Complete(70 + id), _ => PSt::Failed } }).collect()
}

fn parse_parts(s: &str) -> Vec<Part> {
    if s == "-" { return vec![]; }
    s.split(',').map(|x| { let mut it = x.split(':'); let id = it.next().unwrap().parse().unwrap(); let st = it.next().unwrap();
        Part { id, st: if st == "p" { PSt::Pending } else if st == "f" { PSt::Failed } else { PSt::Complete(st[1..].parse().unwrap()) } } }).collect()
}

/// the arguments of the `pay` RPC as built by the wrapper (protocol op `pa`)
async fn pay_args(ctx: &mut Ctx, timeout_secs: u64, xpay: bool, amount: Option<u64>, maxfee: u64, maxdelay: u16) {
    let node: Node = Arc::new(Mutex::new(NodeState::default()));
    let provider = PayPaymentProvider::new(Arc::new(node::MemRpc(node.clone())), Duration::from_secs(timeout_secs), xpay);
    let hash = sha256::Hash::hash(&[7u8; 32]);
    let jh = tokio::spawn(async move { let _ = provider.pay(PaymentRequest { bolt11: "lnbc1fake".into(), payment_hash: hash, amount_msat: amount, max_fee_msat: maxfee, max_cltv_delta: maxdelay }).await; });
    settle().await;
    let n = node.lock().unwrap();
    let p = n.parked.iter().find(|p| p.method == "pay").map(|p| p.params.clone()).unwrap_or(json!({}));
    let msat = |v: &Value| -> Option<u64> { v.as_u64().or_else(|| v.as_str().and_then(|s| s.trim_end_matches("msat").parse().ok())) };
    let opt = |v: &Value| if v.is_null() { "-".to_string() } else { msat(v).map(|x| x.to_string()).unwrap_or(v.to_string()) };
    let observed = format!("{} {} {} {} {}", opt(&p["retry_for"]), opt(&p["amount_msat"]), opt(&p["maxfee"]), opt(&p["maxdelay"]), p["bolt11"].as_str().unwrap_or("?"));
    ctx.case(&format!("pa {} {} {} {} {}", timeout_secs, xpay as u8, amount.map(|a| a.to_string()).unwrap_or("-".into()), maxfee, maxdelay), &observed, true);
    let want_retry = timeout_secs.min(65535);
    if p["retry_for"].as_u64() != Some(want_retry) { ctx.violation("C19", "retry-for", &format!("payment timeout {} s gives retry_for {}", timeout_secs, p["retry_for"])); }
    if msat(&p["maxfee"]) != Some(maxfee) || p["maxdelay"].as_u64() != Some(maxdelay as u64) || msat(&p["amount_msat"]) != amount {
        ctx.violation("C03,C04", "pay-args-passthrough", &format!("pay arguments {} do not carry maxfee={} maxdelay={} amount={:?}", p, maxfee, maxdelay, amount));
    }
    jh.abort();
}

pub fn run(mut ctx: Ctx) {
    let rt = tokio::runtime::Builder::new_current_thread().enable_all().start_paused(true).build().unwrap();
    let mut rng = Rng::new(ctx.seed);
    rt.block_on(async {
        if let Some(path) = ctx.replay.clone() {
            for line in std::fs::read_to_string(path).expect("replay").lines() {
                let w: Vec<&str> = line.split_whitespace().collect();
                if w.len() >= 3 && w[0] == "pw" {
                    let script: Vec<String> = w[3..].iter().filter(|x| **x != "-").map(|x| x.to_string()).collect();
                    one(&mut ctx, &mut rng, w[1] == "pay", parse_parts(w[2]), script, true, false).await;
                }
            }
            return;
        }
        if let Ok(c) = std::fs::read_to_string("/verif/corpus/provider/cases.txt") {
            for line in c.lines() {
                let w: Vec<&str> = line.split_whitespace().collect();
                if w.len() >= 3 && w[0] == "pw" {
                    let script: Vec<String> = w[3..].iter().filter(|x| **x != "-").map(|x| x.to_string()).collect();
                    one(&mut ctx, &mut rng, w[1] == "pay", parse_parts(w[2]), script, true, false).await; ctx.count("corpus");
                }
            }
        }
        let n = if ctx.thorough { 300_000 } else { 15_000 };
        for i in 0..n {
            let is_pay = rng.coin(1, 2);
            let init = gen_parts(&mut rng);
            let faults = i % 5 == 4;
            let adversarial = i % 7 == 3;
            one(&mut ctx, &mut rng, is_pay, init, vec![], faults, adversarial).await;
        }
        for t in [0u64, 1, 59, 60, 65534, 65535, 65536, 100_000, u32::MAX as u64, u64::MAX / 2] {
            for xpay in [false, true] {
                pay_args(&mut ctx, t, xpay, None, 0, 0).await;
                pay_args(&mut ctx, t, xpay, Some(1_000_000), u64::MAX, u16::MAX).await;
                let (a, f, d) = (rng.next() >> 20, rng.next() >> 30, rng.next() as u16);
                pay_args(&mut ctx, t, xpay, Some(a), f, d).await;
            }
        }
    });
    ctx.finish(
        "schedules of ≤60 actions over a table of 0–4 parts (pending/complete/failed): create (while pay runs), resolve, serve (reply computed at that instant), deliver, end of the pay command with every status, read faults in 1/5 of the cases, adversarial listing order in 1/7; non-trivial = the call returned; distinct = distinct schedule line",
        "",
    );
}
