//! Suite `wire`: the real `cln_plugin::Builder` / driver loop / codecs over in-memory pipes.
//! `wf`: a stream of valid JSON-RPC messages fed in an arbitrary partition into chunks → the
//!       messages the dispatcher saw, in order.
//! `wd`: requests with ids, handlers released in an arbitrary order → reply ids in output order.
//! Oracles for C17: the output splits into complete JSON documents each followed by a blank line,
//! one reply per call carrying the call's id; the last session also has logging on.
use std::collections::HashMap;
use std::sync::{Arc, Mutex};

use serde_json::{json, Value};
use tokio::io::{AsyncReadExt, AsyncWriteExt, DuplexStream};
use tokio::sync::oneshot;

use crate::cln_plugin::Builder;
use crate::out::{hex, Ctx};
use crate::rng::Rng;

#[derive(Clone, Default)]
struct Shared {
    seen: Arc<Mutex<Vec<u64>>>,                                   // tokens in dispatch order
    gates: Arc<Mutex<HashMap<u64, oneshot::Sender<()>>>>,         // parked handlers
    log: bool,
}

async fn settle() { for _ in 0..40 { tokio::task::yield_now().await; } }

async fn drain(out: &mut DuplexStream, acc: &mut Vec<u8>) {
    let mut tmp = [0u8; 65536];
    loop {
        match tokio::time::timeout(std::time::Duration::from_millis(0), out.read(&mut tmp)).await {
            Ok(Ok(n)) if n > 0 => acc.extend_from_slice(&tmp[..n]),
            _ => break,
        }
    }
}

fn split_docs(buf: &[u8]) -> (Vec<Vec<u8>>, Vec<u8>) {
    let mut docs = Vec::new();
    let mut start = 0;
    let mut i = 0;
    while i + 1 < buf.len() {
        if buf[i] == b'\n' && buf[i + 1] == b'\n' { docs.push(buf[start..i].to_vec()); start = i + 2; i += 2; } else { i += 1; }
    }
    (docs, buf[start..].to_vec())
}

struct Session { inp: DuplexStream, out: DuplexStream, shared: Shared, acc: Vec<u8>, task: tokio::task::JoinHandle<()> }

async fn open(logging: bool) -> Session { open_with(logging, 1 << 22).await }

/// `out_cap`: capacity of the pipe the plugin writes to (small = the node reads slowly: writes block)
async fn open_with(logging: bool, out_cap: usize) -> Session {
    let (inp, plugin_in) = tokio::io::duplex(1 << 20);
    let (plugin_out, out) = tokio::io::duplex(out_cap);
    let shared = Shared { log: logging, ..Default::default() };
    let st = shared.clone();
    let task = tokio::spawn(async move {
        let b = Builder::new(plugin_in, plugin_out)
            .with_logging(logging)
            .hook("slow", |p: crate::cln_plugin::Plugin<Shared>, v: Value| {
                let tok = v["tok"].as_u64().unwrap_or(u64::MAX);
                // a pad starting with 'E' is echoed in the reply (large replies: more than the writer buffers)
                let echo = v["pad"].as_str().filter(|p| p.starts_with('E')).map(|p| p.to_string());
                let (tx, rx) = oneshot::channel();
                p.state().seen.lock().unwrap().push(tok);
                p.state().gates.lock().unwrap().insert(tok, tx);
                let log = p.state().log;
                async move {
                    let _ = rx.await;
                    if log { tracing::info!("handler {} finishing \u{00e9}\u{4e16}", tok); }
                    if tok % 5 == 4 { Err(anyhow::anyhow!("handler error {}", tok)) } else if let Some(e) = echo { Ok(json!({"result": "continue", "tok": tok, "echo": e})) } else { Ok(json!({"result": "continue", "tok": tok})) }
                }
            })
            .subscribe("ping", |p: crate::cln_plugin::Plugin<Shared>, v: Value| {
                let tok = v["ping"]["tok"].as_u64().or(v["tok"].as_u64()).unwrap_or(u64::MAX);
                p.state().seen.lock().unwrap().push(tok);
                async move { Ok(()) }
            });
        if let Ok(Some(plugin)) = b.start(st).await { let _ = plugin.join().await; }
    });
    let mut s = Session { inp, out, shared, acc: Vec::new(), task };
    let rounds = if out_cap < 100_000 { 200 } else { 1 };   // a small pipe has to be read while the handshake replies are written
    s.inp.write_all(b"{\"jsonrpc\":\"2.0\",\"id\":\"m1\",\"method\":\"getmanifest\",\"params\":{\"allow-deprecated-apis\":false}}\n\n").await.unwrap();
    for _ in 0..rounds { settle().await; drain(&mut s.out, &mut s.acc).await; }
    s.inp.write_all(b"{\"jsonrpc\":\"2.0\",\"id\":2,\"method\":\"init\",\"params\":{\"options\":{},\"configuration\":{\"lightning-dir\":\"/tmp\",\"rpc-file\":\"none\",\"startup\":true,\"network\":\"regtest\",\"feature_set\":{}}}}\n\n").await.unwrap();
    for _ in 0..rounds { settle().await; drain(&mut s.out, &mut s.acc).await; }
    s
}

fn msg_request(id: &Value, tok: u64, pad: &str) -> Vec<u8> {
    json!({"jsonrpc": "2.0", "id": id, "method": "slow", "params": {"tok": tok, "pad": pad}}).to_string().into_bytes()
}
fn msg_notification(tok: u64, pad: &str) -> Vec<u8> {
    json!({"jsonrpc": "2.0", "method": "ping", "params": {"tok": tok, "pad": pad}}).to_string().into_bytes()
}

fn check_output(ctx: &mut Ctx, acc: &[u8], calls: &[(u64, Value)], what: &str) -> Vec<(Value, Value)> {
    // every written message is a complete JSON document followed by a blank line
    let (docs, tail) = split_docs(acc);
    if !tail.is_empty() { ctx.violation("C17", "output-tail", &format!("{}: output does not end with a blank line: {:?}", what, String::from_utf8_lossy(&tail))); }
    let mut replies = Vec::new();
    for d in &docs {
        match serde_json::from_slice::<Value>(d) {
            Ok(v) => { if v.get("id").is_some() { replies.push((v["id"].clone(), v.clone())); } else if v["method"] != "log" { ctx.violation("C17", "output-unknown", &format!("{}: unexpected message {}", what, v)); } else { ctx.count("log-notifications"); } }
            Err(_) => ctx.violation("C17", "output-interleaved", &format!("{}: a written message is not a JSON document: {:?}", what, String::from_utf8_lossy(d))),
        }
    }
    // one reply per call carrying that call's id and (for results) its token
    let mut used = vec![false; replies.len()];
    for (tok, id) in calls {
        let pos = replies.iter().enumerate().position(|(i, (rid, body))| !used[i] && rid == id && (body["result"]["tok"].as_u64() == Some(*tok) || (tok % 5 == 4 && body.get("error").is_some())));
        match pos { Some(i) => used[i] = true, None => ctx.violation("C17,C06", "reply-missing", &format!("{}: no reply carrying id {} for call {}", what, id, tok)) }
    }
    // the first two replies are getmanifest/init
    let extra = used.iter().filter(|u| !**u).count();
    if extra != 2 { ctx.violation("C17", "reply-extra", &format!("{}: {} replies beyond one per call (+2 handshake expected)", what, extra)); }
    replies.into_iter().skip(2).collect()
}

async fn framing_case(ctx: &mut Ctx, rng: &mut Rng, logging: bool) {
    let mut s = open(logging).await;
    let n = 1 + rng.below(6);
    let mut msgs: Vec<Vec<u8>> = Vec::new();
    let mut calls: Vec<(u64, Value)> = Vec::new();
    for tok in 0..n {
        let pad = match rng.below(5) { 0 => "".to_string(), 1 => "é世界🙂".to_string(), 2 => "a\\n\\nb".to_string(), 3 => "x".repeat(rng.below(300) as usize), _ => "\n \n".to_string() };
        if rng.coin(1, 4) { msgs.push(msg_notification(tok, &pad)); }
        else { let id = match rng.below(3) { 0 => json!(tok + 10), 1 => json!(format!("id-{}", tok)), _ => json!(7) }; msgs.push(msg_request(&id, tok, &pad)); calls.push((tok, id)); }
    }
    let mut stream: Vec<u8> = Vec::new();
    for m in &msgs { stream.extend_from_slice(m); stream.extend_from_slice(b"\n\n"); }
    // a trailing incomplete message must not be dispatched
    if rng.coin(1, 3) { let m = msg_request(&json!(99), 99, "tail"); let cut = 1 + rng.below(m.len() as u64 - 1) as usize; stream.extend_from_slice(&m[..cut]); if rng.coin(1, 2) { stream.push(b'\n'); } }
    // partition into chunks: sizes 1.. with a bias to tiny chunks and to cuts inside separators
    let mut chunks: Vec<Vec<u8>> = Vec::new();
    let mut at = 0;
    while at < stream.len() {
        let mut len = match rng.below(4) { 0 => 1, 1 => 1 + rng.below(3) as usize, 2 => 1 + rng.below(40) as usize, _ => 1 + rng.below(400) as usize };
        if let Some(p) = stream[at..].windows(2).position(|w| w == b"\n\n") { if rng.coin(1, 3) && p + 1 > 0 { len = p + 1; } }
        let end = (at + len.max(1)).min(stream.len());
        chunks.push(stream[at..end].to_vec());
        at = end;
    }
    // a write error means the plugin closed its input (its read loop ended): the oracles below report what is missing
    for c in &chunks { if s.inp.write_all(c).await.is_err() { ctx.count("input-closed-by-plugin"); break; } settle().await; }
    let seen = s.shared.seen.lock().unwrap().clone();
    let observed = if seen.is_empty() { "-".to_string() } else { seen.iter().map(|t| msgs.get(*t as usize).map(|m| hex(m)).unwrap_or("?".into())).collect::<Vec<_>>().join(";") };
    ctx.case(&format!("wf {}", chunks.iter().map(|c| hex(c)).collect::<Vec<_>>().join(",")), &observed, chunks.len() > msgs.len());
    ctx.add("chunks", chunks.len() as u64);
    let want: Vec<u64> = (0..n).collect();
    if seen != want { ctx.violation("C17", "decode-order", &format!("dispatched tokens {:?}, sent {:?}, chunks {}", seen, want, chunks.iter().map(|c| hex(c)).collect::<Vec<_>>().join(","))); }
    // release all handlers in a random order, then check the output
    let mut order: Vec<u64> = calls.iter().map(|c| c.0).collect();
    for i in (1..order.len()).rev() { let j = rng.below(i as u64 + 1) as usize; order.swap(i, j); }
    for t in order { if let Some(g) = s.shared.gates.lock().unwrap().remove(&t) { let _ = g.send(()); } if rng.coin(1, 2) { settle().await; } }
    settle().await; settle().await;
    drain(&mut s.out, &mut s.acc).await;
    let acc = s.acc.clone();
    check_output(ctx, &acc, &calls, "framing");
    s.task.abort();
}

async fn dispatch_case(ctx: &mut Ctx, rng: &mut Rng, logging: bool) {
    let mut s = open(logging).await;
    let n = 2 + rng.below(7);
    let mut acts: Vec<String> = Vec::new();
    let mut calls: Vec<(u64, Value)> = Vec::new();
    let mut pending: Vec<u64> = Vec::new();
    let mut next = 0u64;
    while next < n || !pending.is_empty() {
        let do_recv = next < n && (pending.is_empty() || rng.coin(1, 2));
        if do_recv {
            let id = if rng.coin(1, 3) { 7 } else { next + 10 };
            let mut m = msg_request(&json!(id), next, ""); m.extend_from_slice(b"\n\n");
            if s.inp.write_all(&m).await.is_err() { ctx.count("input-closed-by-plugin"); } settle().await;
            acts.push(format!("r{}:{}", next, id)); calls.push((next, json!(id))); pending.push(next); next += 1;
        } else {
            let i = rng.below(pending.len() as u64) as usize; let t = pending.remove(i);
            if let Some(g) = s.shared.gates.lock().unwrap().remove(&t) { let _ = g.send(()); }
            settle().await;
            acts.push(format!("c{}", t));
        }
    }
    settle().await;
    drain(&mut s.out, &mut s.acc).await;
    let acc = s.acc.clone();
    let replies = check_output(ctx, &acc, &calls, "dispatch");
    let observed = replies.iter().map(|(id, _)| id.to_string()).collect::<Vec<_>>().join(" ");
    ctx.case(&format!("wd {}", acts.join(" ")), &observed, true);
    s.task.abort();
}

/// the node reads the plugin's output slowly: replies pile up behind a blocked write while further
/// requests keep arriving and handlers keep finishing; when the node finally reads, every call must
/// have exactly one reply (C17, C06). Same `wd` protocol line as `dispatch_case`.
async fn backpressure_case(ctx: &mut Ctx, rng: &mut Rng, logging: bool) {
    let cap = *rng.pick(&[64usize, 200, 1024]);
    let mut s = open_with(logging, cap).await;
    let n = 3 + rng.below(6);
    let mut acts: Vec<String> = Vec::new();
    let mut calls: Vec<(u64, Value)> = Vec::new();
    let mut pending: Vec<u64> = Vec::new();
    let mut released: Vec<u64> = Vec::new();
    let mut next = 0u64;
    while next < n || !pending.is_empty() {
        let do_recv = next < n && (pending.is_empty() || rng.coin(1, 2));
        if do_recv {
            let id = if rng.coin(1, 3) { 7 } else { next + 10 };
            let pad = if rng.coin(1, 3) { format!("E{}", "e".repeat(8000 + rng.below(12000) as usize)) } else { "p".repeat(rng.below(3 * cap as u64) as usize) };
            let mut m = msg_request(&json!(id), next, &pad); m.extend_from_slice(b"\n\n");
            if s.inp.write_all(&m).await.is_err() { ctx.count("input-closed-by-plugin"); } settle().await;
            acts.push(format!("r{}:{}", next, id)); calls.push((next, json!(id))); pending.push(next); next += 1;
        } else {
            let i = rng.below(pending.len() as u64) as usize; let t = pending.remove(i);
            // under backpressure the request may not have been dispatched yet: the handler is released as soon as it exists
            released.push(t);
            settle().await;
            acts.push(format!("c{}", t));
        }
        // handlers finish in the order of the `c` actions
        while let Some(t) = released.first().copied() { let g = s.shared.gates.lock().unwrap().remove(&t); match g { Some(g) => { let _ = g.send(()); released.remove(0); settle().await; } None => break } }
        // the node reads a little, sometimes
        if rng.coin(1, 4) { let mut tmp = vec![0u8; 1 + rng.below(cap as u64) as usize]; if let Ok(Ok(k)) = tokio::time::timeout(std::time::Duration::from_millis(0), s.out.read(&mut tmp)).await { s.acc.extend_from_slice(&tmp[..k]); } settle().await; }
    }
    // the node now reads everything: until nothing has come for a long while and every handler was released
    let mut quiet = 0;
    for _ in 0..400_000 {
        for _ in 0..6 { tokio::task::yield_now().await; }
        while let Some(t) = released.first().copied() { let g = s.shared.gates.lock().unwrap().remove(&t); match g { Some(g) => { let _ = g.send(()); released.remove(0); settle().await; } None => break } }
        let before = s.acc.len(); drain(&mut s.out, &mut s.acc).await;
        if s.acc.len() == before && released.is_empty() { quiet += 1; if quiet > 60 { break; } } else { quiet = 0; }
    }
    let acc = s.acc.clone();
    let v0 = ctx.n_viol;
    let replies = check_output(ctx, &acc, &calls, "backpressure");
    if ctx.n_viol > v0 && std::env::var("WIRE_DEBUG").is_ok() { eprintln!("BP cap={} acts={} out={:?} task_finished={}", cap, acts.join(" "), String::from_utf8_lossy(&acc[acc.len().saturating_sub(300)..]), s.task.is_finished()); }
    let observed = replies.iter().map(|(id, _)| id.to_string()).collect::<Vec<_>>().join(" ");
    ctx.case(&format!("wd {}", acts.join(" ")), &observed, true);
    ctx.count("backpressure");
    s.task.abort();
}

pub fn run(mut ctx: Ctx) {
    std::env::set_var("CLN_PLUGIN_LOG", "trace");
    let rt = tokio::runtime::Builder::new_current_thread().enable_all().start_paused(true).build().unwrap();
    let mut rng = Rng::new(ctx.seed);
    rt.block_on(async {
        let n = if ctx.thorough { 20000 } else { 1500 };
        for i in 0..n { framing_case(&mut ctx, &mut rng, false).await; dispatch_case(&mut ctx, &mut rng, false).await; if i % (if ctx.thorough { 4 } else { 12 }) == 0 { backpressure_case(&mut ctx, &mut rng, false).await; } }
        // last: one session with the plugin's own logging layer on (global subscriber, once per
        // process): log notifications are written concurrently with replies through the shared writer
        backpressure_case(&mut ctx, &mut rng, true).await;
    });
    ctx.finish(
        "streams of 1–6 valid JSON-RPC messages (requests with numeric/string/repeated ids, notifications; params with multi-byte UTF-8, escaped newlines, long padding; optional truncated tail) cut into chunks of 1..400 bytes with a bias to 1-byte chunks and cuts inside the separator; request/completion interleavings of 2–8 calls; non-trivial = more chunks than messages, or any dispatch case; distinct = distinct protocol line",
        "",
    );
}
