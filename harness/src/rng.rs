//! One PRNG state per run (splitmix64): every random choice derives from VERIF_SEED.
pub struct Rng(pub u64);

impl Rng {
    pub fn new(seed: u64) -> Self { Rng(seed ^ 0x9E37_79B9_7F4A_7C15) }
    pub fn next(&mut self) -> u64 {
        self.0 = self.0.wrapping_add(0x9E37_79B9_7F4A_7C15);
        let mut z = self.0;
        z = (z ^ (z >> 30)).wrapping_mul(0xBF58_476D_1CE4_E5B9);
        z = (z ^ (z >> 27)).wrapping_mul(0x94D0_49BB_1331_11EB);
        z ^ (z >> 31)
    }
    /// uniform in 0..n (n > 0)
    pub fn below(&mut self, n: u64) -> u64 { self.next() % n }
    pub fn range(&mut self, lo: u64, hi: u64) -> u64 { lo + self.below(hi - lo + 1) }
    pub fn coin(&mut self, num: u64, den: u64) -> bool { self.below(den) < num }
    pub fn pick<'a, T>(&mut self, xs: &'a [T]) -> &'a T { &xs[self.below(xs.len() as u64) as usize] }
    pub fn bytes(&mut self, n: usize) -> Vec<u8> { (0..n).map(|_| self.next() as u8).collect() }
}
