//! Suite `height`: the real `BlockWatcher` over the fake node's unix socket, virtual time.
//! Protocol op `hw`; oracle for C20 (register = running maximum of everything told).
use std::sync::{Arc, Mutex};
use std::time::Duration;

use crate::block_watcher::{BlockProvider, BlockWatcher};
use crate::messages::BlockAdded;
use crate::node::{self, Node, NodeState};
use crate::out::Ctx;
use crate::rng::Rng;
use crate::rpc::Rpc;

const QUIET: u32 = 400;

async fn one(ctx: &mut Ctx, rng: &mut Rng, sock: &str, script: Vec<String>, len: usize) {
    let node: Node = Arc::new(Mutex::new(NodeState::default()));
    { let mut n = node.lock().unwrap(); n.height = rng.below(1000) as u32; n.node_id = crate::suite_classify::pubkey(1).to_string(); }
    let h0 = node.lock().unwrap().height;
    let server = node::listen(node.clone(), sock);
    let rpc = Arc::new(Rpc::new(sock.to_string()));
    let (shutdown_tx, shutdown_rx) = tokio::sync::mpsc::channel::<()>(1);
    let watcher: Arc<tokio::sync::Mutex<Option<Arc<BlockWatcher>>>> = Arc::new(tokio::sync::Mutex::new(None));
    let w2 = watcher.clone();
    let start = tokio::spawn(async move {
        let mut bw = BlockWatcher::new(rpc);
        match bw.start(shutdown_rx).await { Ok(_jh) => { *w2.lock().await = Some(Arc::new(bw)); true } Err(_) => false }
    });
    let mut told: Vec<u32> = Vec::new();
    let mut acts: Vec<String> = Vec::new();
    let mut obs: Vec<String> = Vec::new();
    let mut script = script.into_iter();
    let mut dead = false;
    let mut now: u64 = 0;                 // virtual seconds
    let mut last_done: Option<u64> = None; // when the last getinfo reply (result or error) was delivered
    node::quiesce(&node, QUIET).await;
    let observe = |node: &Node, h: Option<u32>, dead: bool| {
        node::reap(node);
        let n = node.lock().unwrap();
        format!("h={} out={}{}", h.map(|x| x.to_string()).unwrap_or("-".into()), n.parked.iter().filter(|p| p.method == "getinfo").count(), if dead { " dead" } else { "" })
    };
    obs.push(observe(&node, None, false));
    for _ in 0..len {
        let started = watcher.lock().await.is_some();
        let mut cands: Vec<String> = vec![format!("a{}", *rng.pick(&[1u64, 10, 29, 30, 31, 59, 60, 61, 120, 200]))];
        if rng.coin(1, 5) { cands.push(format!("n{}", rng.below(1200))); }
        {
            let n = node.lock().unwrap();
            if started && !dead { for _ in 0..2 { cands.push(format!("b{}", match rng.below(4) { 0 => n.height as u64, 1 => rng.below(1200), 2 => (n.height as u64).saturating_sub(rng.below(5)), _ => n.height as u64 + rng.below(4) })); } }
            for p in &n.parked { if p.method == "getinfo" { if p.served.is_some() { cands.push("d".into()); cands.push("d".into()); } else { cands.push("s".into()); cands.push("s".into()); cands.push("e".into()); } } }
        }
        let act = match script.next() { Some(a) => a, None => rng.pick(&cands).clone() };
        if let Some(v) = act.strip_prefix("n") { node.lock().unwrap().height = v.parse().unwrap(); }
        else if let Some(v) = act.strip_prefix("a") { let dt: u64 = v.parse().unwrap(); tokio::time::advance(Duration::from_secs(dt)).await; now += dt; }
        else if let Some(v) = act.strip_prefix("b") {
            let h: u32 = v.parse().unwrap();
            if let Some(w) = watcher.lock().await.clone() { w.new_block(&BlockAdded { height: h }).await; told.push(h); }
        } else if act == "s" || act == "e" {
            let mut n = node.lock().unwrap();
            if let Some(i) = n.parked.iter().position(|p| p.method == "getinfo" && p.served.is_none()) {
                let r = if act == "s" { n.serve_truthful("getinfo", &serde_json::json!({})).unwrap() } else { Err((Some(-1), "injected".into())) };
                n.parked[i].served = Some(r);
            }
        } else if act == "d" {
            let mut n = node.lock().unwrap();
            if let Some(i) = n.parked.iter().position(|p| p.method == "getinfo" && p.served.is_some()) {
                let mut p = n.parked.remove(i);
                if let Some(Ok(v)) = &p.served { told.push(v["blockheight"].as_u64().unwrap() as u32); }
                if let (Some(tx), Some(r)) = (p.tx.take(), p.served.take()) { let _ = tx.send(r); }
                last_done = Some(now);
            }
        }
        node::quiesce(&node, QUIET).await;
        if start.is_finished() && watcher.lock().await.is_none() { dead = true; }
        let h = match watcher.lock().await.clone() { Some(w) => Some(w.current_height().await), None => None };
        acts.push(act);
        obs.push(observe(&node, h, dead));
        // oracle (catch-up): the node is polled again at the latest one interval after the previous poll ended,
        // whatever that poll's outcome was
        if h.is_some() && !dead {
            let outstanding = { let n = node.lock().unwrap(); n.parked.iter().filter(|p| p.method == "getinfo").count() };
            if outstanding == 0 { if let Some(t) = last_done { if now >= t + 61 { ctx.violation("C20", "poll-missing", &format!("no getinfo poll {} s after the previous one ended (interval 60 s) REPLAY[hw {} {}]", now - t, h0, acts.join(" "))); last_done = None; } } }
        }
        // oracle: the register is the maximum of everything told
        if let Some(h) = h {
            let want = told.iter().copied().max().unwrap_or(0);
            if h != want { ctx.violation("C20,C04", "height-not-max", &format!("current_height() = {} but the heights told so far are {:?} REPLAY[hw {} {}]", h, told, h0, acts.join(" "))); }
        }
    }
    drop(shutdown_tx);
    server.abort();
    start.abort();
    ctx.case(&format!("hw {} {}", h0, if acts.is_empty() { "-".into() } else { acts.join(" ") }), &obs.join(" | "), told.len() >= 2);
    ctx.add("told-events", told.len() as u64);
}

pub fn run(mut ctx: Ctx) {
    let mut rng = Rng::new(ctx.seed);
    let sock = format!("{}/height.sock", ctx.dir);
    let n = if ctx.thorough { 4000 } else { 250 };
    let replay = ctx.replay.clone();
    for i in 0..n {
        // one runtime per case: paused clock starts at 0, no timers leak between cases
        let rt = tokio::runtime::Builder::new_current_thread().enable_all().start_paused(true).build().unwrap();
        rt.block_on(async {
            if let Some(path) = &replay {
                if i == 0 {
                    for line in std::fs::read_to_string(path).expect("replay").lines() {
                        let w: Vec<&str> = line.split_whitespace().collect();
                        if w.len() >= 2 && w[0] == "hw" { let sc: Vec<String> = w[2..].iter().map(|x| x.to_string()).collect(); let l = sc.len(); one(&mut ctx, &mut rng, &sock, sc, l).await; }
                    }
                }
                return;
            }
            let len = 10 + rng.below(30) as usize;
            one(&mut ctx, &mut rng, &sock, vec![], len).await;
        });
        if replay.is_some() { break; }
    }
    let _ = std::fs::remove_file(&sock);
    ctx.finish(
        "event sequences of 10–40 steps over the real BlockWatcher: node height changes, block_added notifications (current/stale/repeated/ahead), virtual time steps around the 60 s interval, getinfo served / failed / delivered late; non-trivial = at least two heights were told; distinct = distinct schedule line",
        "",
    );
}
