//! A fake lightningd (my reading of lightning-datastore(7), listsendpays, waitsendpay, pay, getinfo;
//! response shapes from cln-rpc 0.1.9 model.rs). Every RPC is PARKED until the scheduler first
//! *serves* it (the reply is computed from, and the effect applied to, the node state at that
//! instant) and later *delivers* it (the plugin gets the bytes). Part of the trusted base.
use std::collections::BTreeMap;
use std::sync::{Arc, Mutex};

use async_trait::async_trait;
use serde_json::{json, Value};
use tokio::sync::oneshot;

use crate::rpc::{ClnRpc, RpcError};

#[derive(Clone, Debug, PartialEq)]
pub enum PSt { Pending, Complete(u64), Failed }

#[derive(Clone, Debug)]
pub struct Part { pub id: u64, pub st: PSt }

pub type Reply = Result<Value, (Option<i32>, String)>;

pub struct Parked {
    pub seq: u64,
    pub method: String,
    pub params: Value,
    pub served: Option<Reply>,
    pub tx: Option<oneshot::Sender<Reply>>,
}

#[derive(Default)]
pub struct NodeState {
    pub ds: BTreeMap<Vec<String>, (String, u64)>,
    pub parts: BTreeMap<String, Vec<Part>>,     // by payment hash (hex)
    pub pay_running: BTreeMap<String, u32>,     // by payment hash (hex)
    pub height: u32,
    pub node_id: String,
    pub parked: Vec<Parked>,
    pub next_seq: u64,
    pub activity: u64,                           // bumped whenever a request arrives
    pub log: Vec<String>,                        // every request in arrival order (method + key info)
}

pub type Node = Arc<Mutex<NodeState>>;

pub fn preimage_bytes(n: u64) -> Vec<u8> { let mut b = vec![0u8; 32]; b[24..].copy_from_slice(&n.to_be_bytes()); b }
pub fn preimage_num(b: &[u8]) -> u64 { let mut x = [0u8; 8]; x.copy_from_slice(&b[24..32]); u64::from_be_bytes(x) }

fn part_json(hash: &str, p: &Part) -> Value {
    let mut v = json!({"status": match p.st { PSt::Pending => "pending", PSt::Complete(_) => "complete", PSt::Failed => "failed" },
        "amount_sent_msat": 1000, "created_at": 0, "groupid": 1, "partid": p.id, "id": p.id, "payment_hash": hash});
    if let PSt::Complete(x) = p.st { v["payment_preimage"] = json!(hex::encode(preimage_bytes(x))); }
    v
}

impl NodeState {
    pub fn parts_of(&self, hash: &str) -> Vec<Part> { self.parts.get(hash).cloned().unwrap_or_default() }
    pub fn quiet(&self, hash: &str) -> bool {
        self.parts_of(hash).iter().all(|p| p.st == PSt::Failed) && self.pay_running.get(hash).copied().unwrap_or(0) == 0
    }

    /// `datastore` per lightning-datastore(7). Returns the generation on success.
    pub fn datastore_write(&mut self, key: &[String], value: &str, mode: &str, generation: Option<u64>) -> Result<u64, (Option<i32>, String)> {
        let cur = self.ds.get(key).cloned();
        match (cur, mode) {
            (None, "must-replace") => Err((Some(1201), "does not exist".into())),
            (Some(_), "must-create") => Err((Some(1202), "already exists".into())),
            (Some((_, g)), _) if generation.is_some() && generation != Some(g) => Err((Some(1204), "generation is different".into())),
            (None, _) => { self.ds.insert(key.to_vec(), (value.to_string(), 0)); Ok(0) }
            (Some((_, g)), _) => { self.ds.insert(key.to_vec(), (value.to_string(), g + 1)); Ok(g + 1) }
        }
    }

    /// Truthful reply to a request, computed NOW; applies the effect (writes). `None` = cannot be
    /// answered yet (waitsendpay on a pending part; `pay` is ended by the scheduler, not here).
    pub fn serve_truthful(&mut self, method: &str, params: &Value) -> Option<Reply> {
        match method {
            "getinfo" => Some(Ok(json!({"id": self.node_id, "alias": "fake", "color": "000000", "num_peers": 0, "num_pending_channels": 0,
                "num_active_channels": 0, "num_inactive_channels": 0, "version": "v24.02", "lightning-dir": "/tmp", "blockheight": self.height,
                "network": "regtest", "fees_collected_msat": 0, "address": [], "binding": []}))),
            "listdatastore" => {
                let key: Vec<String> = serde_json::from_value(params["key"].clone()).unwrap_or_default();
                let entries: Vec<Value> = self.ds.iter().filter(|(k, _)| k.len() >= key.len() && k[..key.len()] == key[..])
                    .map(|(k, (s, g))| json!({"key": k, "generation": g, "hex": hex::encode(s.as_bytes()), "string": s})).collect();
                Some(Ok(json!({"datastore": entries})))
            }
            "datastore" => {
                let key: Vec<String> = serde_json::from_value(params["key"].clone()).unwrap_or_default();
                let value = params["string"].as_str().unwrap_or("").to_string();
                let mode = params["mode"].as_str().unwrap_or("must-create").to_string();
                let generation = params["generation"].as_u64();
                Some(match self.datastore_write(&key, &value, &mode, generation) {
                    Ok(g) => Ok(json!({"key": key, "generation": g, "hex": hex::encode(value.as_bytes()), "string": value})),
                    Err(e) => Err(e),
                })
            }
            "listsendpays" => {
                let hash = params["payment_hash"].as_str().unwrap_or("").to_string();
                let status = params["status"].as_str().map(|s| s.to_string());
                let ps: Vec<Value> = self.parts_of(&hash).iter().filter(|p| match status.as_deref() {
                    Some("pending") => p.st == PSt::Pending, Some("complete") => matches!(p.st, PSt::Complete(_)), Some("failed") => p.st == PSt::Failed, _ => true,
                }).map(|p| part_json(&hash, p)).collect();
                Some(Ok(json!({"payments": ps})))
            }
            "waitsendpay" => {
                let hash = params["payment_hash"].as_str().unwrap_or("").to_string();
                let partid = params["partid"].as_u64().unwrap_or(0);
                match self.parts_of(&hash).iter().find(|p| p.id == partid) {
                    Some(p) => match p.st {
                        PSt::Pending => None,
                        PSt::Complete(_) => Some(Ok(part_json(&hash, p))),
                        PSt::Failed => Some(Err((Some(203), "WIRE_TEMPORARY_CHANNEL_FAILURE".into()))),
                    },
                    None => Some(Err((Some(208), "never heard of it".into()))),
                }
            }
            _ => None,
        }
    }
}

/// Park a request and wait for the scheduler to deliver its reply.
pub async fn park(node: &Node, method: &str, params: Value) -> Reply {
    let (tx, rx) = oneshot::channel();
    {
        let mut n = node.lock().unwrap();
        let seq = n.next_seq;
        n.next_seq += 1;
        n.activity += 1;
        n.log.push(format!("{} {}", method, params));
        n.parked.push(Parked { seq, method: method.to_string(), params, served: None, tx: Some(tx) });
    }
    match rx.await { Ok(r) => r, Err(_) => Err((None, "connection lost".into())) }
}

/// drop parked entries whose caller is gone (future dropped / connection closed)
pub fn reap(node: &Node) {
    let mut n = node.lock().unwrap();
    n.parked.retain(|p| p.tx.as_ref().map(|t| !t.is_closed()).unwrap_or(false));
}

/// In-memory transport: the repository's `ClnRpc` trait straight onto the fake node.
pub struct MemRpc(pub Node);

/// error code standing for "the connection to lightning-rpc could not be opened": the repository's
/// transport reports that as `RpcError::General` (no error object), every other failure as `RpcError::Rpc`
pub const CONNECT: i32 = i32::MIN;

fn conv<T: serde::de::DeserializeOwned>(r: Reply) -> Result<T, RpcError> {
    match r {
        Err((Some(CONNECT), message)) => Err(RpcError::General(anyhow::anyhow!("Error connecting to lightning-rpc: {}", message))),
        Ok(v) => serde_json::from_value(v).map_err(|e| RpcError::Rpc(cln_rpc::RpcError { code: None, message: format!("Failed to parse response {:?}", e), data: None })),
        Err((code, message)) => Err(RpcError::Rpc(cln_rpc::RpcError { code, message, data: None })),
    }
}

#[async_trait]
impl ClnRpc for MemRpc {
    async fn datastore(&self, request: &cln_rpc::model::requests::DatastoreRequest) -> Result<cln_rpc::model::responses::DatastoreResponse, RpcError> {
        conv(park(&self.0, "datastore", serde_json::to_value(request).unwrap()).await)
    }
    async fn get_info(&self) -> Result<cln_rpc::model::responses::GetinfoResponse, RpcError> {
        conv(park(&self.0, "getinfo", json!({})).await)
    }
    async fn listdatastore(&self, request: &cln_rpc::model::requests::ListdatastoreRequest) -> Result<cln_rpc::model::responses::ListdatastoreResponse, RpcError> {
        conv(park(&self.0, "listdatastore", serde_json::to_value(request).unwrap()).await)
    }
    async fn listsendpays(&self, request: &cln_rpc::model::requests::ListsendpaysRequest) -> Result<cln_rpc::model::responses::ListsendpaysResponse, RpcError> {
        conv(park(&self.0, "listsendpays", serde_json::to_value(request).unwrap()).await)
    }
    async fn pay(&self, request: &cln_rpc::model::requests::PayRequest) -> Result<cln_rpc::model::responses::PayResponse, RpcError> {
        conv(park(&self.0, "pay", serde_json::to_value(request).unwrap()).await)
    }
    async fn waitsendpay(&self, request: cln_rpc::model::requests::WaitsendpayRequest) -> Result<cln_rpc::model::responses::WaitsendpayResponse, RpcError> {
        conv(park(&self.0, "waitsendpay", serde_json::to_value(&request).unwrap()).await)
    }
}

pub fn pay_reply_json(hash: &str, status: &str, preimage: u64, warning: bool) -> Value {
    let mut v = json!({"status": status, "amount_msat": 1000, "amount_sent_msat": 1001, "created_at": 0.0, "parts": 1,
        "payment_hash": hash, "payment_preimage": hex::encode(preimage_bytes(preimage))});
    if warning { v["warning_partial_completion"] = json!("Some parts of the payment are not yet completed, but we have the confirmation from the recipient."); }
    v
}

// ---------------------------------------------------------------------------------------------
// Unix-socket transport: what `cln_rpc::ClnRpc::new(path)` talks to (one connection per call,
// `\n\n`-terminated JSON both ways).
// ---------------------------------------------------------------------------------------------
use tokio::io::{AsyncReadExt, AsyncWriteExt};

async fn handle_conn(node: Node, mut stream: tokio::net::UnixStream) {
    let mut buf: Vec<u8> = Vec::new();
    let mut tmp = [0u8; 4096];
    let req: Value = loop {
        match stream.read(&mut tmp).await {
            Ok(0) | Err(_) => return,
            Ok(n) => {
                buf.extend_from_slice(&tmp[..n]);
                if let Some(pos) = buf.windows(2).position(|w| w == b"\n\n") {
                    match serde_json::from_slice::<Value>(&buf[..pos]) { Ok(v) => break v, Err(_) => return }
                }
            }
        }
    };
    let id = req["id"].clone();
    let method = req["method"].as_str().unwrap_or("").to_string();
    let params = req["params"].clone();
    let reply_fut = park(&node, &method, params);
    tokio::pin!(reply_fut);
    // wait for the scheduler's reply, or for the client to hang up (its future was dropped)
    let reply = loop {
        tokio::select! {
            r = &mut reply_fut => break r,
            n = stream.read(&mut tmp) => { match n { Ok(0) | Err(_) => return, _ => {} } }
        }
    };
    let msg = match reply {
        Ok(v) => json!({"jsonrpc": "2.0", "id": id, "result": v}),
        Err((code, message)) => json!({"jsonrpc": "2.0", "id": id, "error": {"code": code, "message": message}}),
    };
    let mut out = msg.to_string().into_bytes();
    out.extend_from_slice(b"\n\n");
    let _ = stream.write_all(&out).await;
    let _ = stream.flush().await;
    node.lock().unwrap().activity += 1;
}

/// Start the fake lightningd on `path` inside the current runtime.
pub fn listen(node: Node, path: &str) -> tokio::task::JoinHandle<()> {
    let _ = std::fs::remove_file(path);
    let listener = tokio::net::UnixListener::bind(path).expect("bind rpc socket");
    tokio::spawn(async move {
        loop {
            match listener.accept().await {
                Ok((stream, _)) => { node.lock().unwrap().activity += 1; tokio::spawn(handle_conn(node.clone(), stream)); }
                Err(_) => return,
            }
        }
    })
}

/// Spin until nothing has happened on the node for `quiet` consecutive yields (virtual time frozen).
pub async fn quiesce(node: &Node, quiet: u32) {
    let mut last = node.lock().unwrap().activity;
    let mut calm = 0u32;
    let mut total = 0u64;
    while calm < quiet && total < 200_000 {
        tokio::task::yield_now().await;
        total += 1;
        let now = node.lock().unwrap().activity;
        if now != last { last = now; calm = 0; } else { calm += 1; }
    }
}
