//! Suite `system`: the real `HtlcManager` + `ClnDatastore` + `PayPaymentProvider<Rpc>` + `BlockWatcher`
//! over the fake lightningd socket, one payment hash, scheduled action by action under virtual time.
//! A crash drops the whole tokio runtime and starts a new plugin over the same node state.
//! Protocol op `sy`: the whole schedule with the observation after every action.
//! Implementation-level oracles for C01–C09, C11 are evaluated after every action.
use std::collections::BTreeMap;
use std::panic::AssertUnwindSafe;
use std::sync::{Arc, Mutex};
use std::time::{Duration, SystemTime, UNIX_EPOCH};

use futures::FutureExt;
use secp256k1::hashes::{sha256, Hash};
use serde_json::{json, Value};

use crate::block_watcher::BlockWatcher;
use crate::htlc_manager::{HtlcManager, HtlcManagerParams};
use crate::messages::{BlockAdded, Htlc, HtlcAcceptedRequest, HtlcAcceptedResponse, Onion, TrampolineRoutingPolicy};
use crate::node::{self, Node, NodeState, PSt, Part, Reply};
use crate::out::{hex, Ctx};
use crate::payment_provider::PayPaymentProvider;
use crate::rng::Rng;
use crate::rpc::Rpc;
use crate::store::ClnDatastore;
use crate::suite_classify::{make_invoice, pubkey, NoNotify, LOCAL};
use crate::suite_tlv::{ref_encode, stream_of, Rec};

pub const QUIET: u32 = 250;
pub const PRE: u64 = 77;

#[derive(Clone, Debug)]
pub struct SCfg { pub cltv_delta: u16, pub policy_delta: u16, pub base: u32, pub ppm: u32, pub mpp: u64 }

pub fn default_cfg() -> SCfg { SCfg { cltv_delta: 34, policy_delta: 144, base: 1000, ppm: 5000, mpp: 60 } }

type Mgr = HtlcManager<BlockWatcher, NoNotify, PayPaymentProvider<Rpc>, ClnDatastore>;

/// one delivered `htlc_accepted` call
pub struct Call { pub id: u64, pub a: u64, pub b11: u8, pub t: u64, pub rejecting: bool, pub is_tramp: bool, pub policy_reject: bool, pub first_of_set: bool, pub amount: u64, pub expiry: u32, pub hash: Vec<u8>, pub jh: Option<tokio::task::JoinHandle<Result<HtlcAcceptedResponse, ()>>>, pub resp: Option<String>, pub life: u32 }

/// everything that survives a crash
pub struct World {
    pub node: Node,
    pub hash_hex: String,
    pub hash: Vec<u8>,
    pub inv_fixed: String,       // invoice with amount
    pub inv_open: String,        // amountless invoice (same hash)
    pub open: bool,              // which one this case uses
    pub inv_amount: u64,
    pub cfg: SCfg,
    pub calls: Vec<Call>,
    pub aids: Vec<String>,       // canonical attempt ids a1.. in order of first appearance
    pub acts: Vec<String>,
    pub obs: Vec<String>,
    pub life: u32,
    pub fault_read: bool,        // a read fault was injected (known-finding territory)
    pub lost_write: bool,        // an acknowledged write was dropped (C09's quantifier only)
    pub key_reported: bool,      // the datastore-key oracle fired in this case (report once)
    pub wfault: bool,            // a write fault (refused / applied-but-failed) was injected
    pub fault_kind: String,      // which read was made to fail last: `dl` or `wait`
    pub height: u32,
    pub model_wall: u64,         // what the trace has told the model about the wall clock
    pub stamp: BTreeMap<String, (u64, u64)>, // aid -> (real stored secs as currently in the node, model wall at write)
    pub mono: u64,               // virtual seconds elapsed in this lifetime (+ earlier ones)
    pub wait_started: Option<u64>,
    pub next_part: u64,
    pub restart_aid: Option<String>,
    pub init_snap: Option<(u64, u32)>,
    pub other: Option<(String, Vec<u8>, String)>,   // a second payment hash frozen at its first RPC: (hash hex, hash, invoice)
    pub other_call: Option<tokio::task::JoinHandle<Result<HtlcAcceptedResponse, ()>>>,
    pub select_seed: u64,        // seed of tokio's runtime RNG (select! polling order), part of the schedule line
    pub other_depth: usize,      // how many of the other hash's RPCs are answered before it is frozen
    pub other_frozen_log: usize, // number of requests the other hash had issued when it was frozen (this lifetime)
    pub waiting_since: Option<u64>, // C11: since when the held set has had no request outstanding (value before the current step)
    pub idle_since: Option<u64>, // C11: since when (virtual s) HTLCs are held with no RPC outstanding and no pay running
    pub no_pay: Vec<u64>,        // C07: calls of a set that was rejected while incomplete (no pay until they are answered)
    pub hold: Vec<u64>,          // parked requests (by seq) the cooperative environment leaves unanswered for now
}

fn state_key(hash_hex: &str) -> Vec<String> { vec!["trampoline".into(), "payments".into(), hash_hex.into(), "state".into()] }

impl World {
    pub fn new(seed_byte: u8, open: bool, cfg: SCfg) -> World {
        let _ = seed_byte;
        let pre = preimage();
        let hash = sha256::Hash::hash(&pre);
        let node: Node = Arc::new(Mutex::new(NodeState::default()));
        { let mut n = node.lock().unwrap(); n.height = 1000; n.node_id = pubkey(LOCAL).to_string(); }
        World { node, hash_hex: hash.to_string(), hash: hash.to_byte_array().to_vec(),
            inv_fixed: make_invoice(&pre, Some(1_000_000), 0, 2), inv_open: make_invoice(&pre, None, 0, 2), open, inv_amount: 1_000_000, cfg,
            calls: vec![], aids: vec![], acts: vec![], obs: vec![], life: 0, fault_read: false, lost_write: false, key_reported: false, wfault: false, fault_kind: String::new(), height: 1000, model_wall: 1_000_000, stamp: BTreeMap::new(), mono: 0, wait_started: None, next_part: 1, restart_aid: None, init_snap: None, other: None, other_call: None, select_seed: 0, other_depth: 0, other_frozen_log: 0, waiting_since: None, idle_since: None, no_pay: vec![], hold: vec![] }
    }
    fn aid_canon(&mut self, aid: &str) -> usize {
        if let Some(p) = self.aids.iter().position(|a| a == aid) { return p + 1; }
        self.aids.push(aid.to_string()); self.aids.len()
    }
}

pub fn preimage() -> Vec<u8> { node::preimage_bytes(PRE) }

/// canonical token of a parked request
fn req_token(w: &mut World, method: &str, params: &Value) -> String {
    match method {
        "listdatastore" => "dl".into(),
        "datastore" => {
            let key: Vec<String> = serde_json::from_value(params["key"].clone()).unwrap_or_default();
            let mode = match (params["mode"].as_str().unwrap_or("?"), params["generation"].as_u64()) {
                ("create-or-replace", None) => "cor".to_string(), ("must-create", None) => "mc".into(), ("must-replace", None) => "mr".into(),
                ("must-replace", Some(g)) => format!("mr{}", g), (m, g) => format!("{}{:?}", m, g) };
            let val = params["string"].as_str().unwrap_or("");
            if key.last().map(|s| s.as_str()) == Some("state") {
                let v: Value = serde_json::from_str(val).unwrap_or(Value::Null);
                if v == "Free" { format!("wsF:{}", mode) }
                else if let Some(p) = v.get("Pending") { let aid = p["attempt_id"].as_str().unwrap_or("?").to_string(); let c = w.aid_canon(&aid); format!("wsP{}:{}", c, mode) }
                else if let Some(s) = v.get("Succeeded") { let pre: Vec<u8> = serde_json::from_value(s["preimage"].clone()).unwrap_or_default(); format!("wsS{}:{}", if pre.len() == 32 { node::preimage_num(&pre).to_string() } else { "?".into() }, mode) }
                else { format!("ws?:{}", mode) }
            } else {
                let aid = key.last().cloned().unwrap_or_default(); let c = w.aid_canon(&aid);
                format!("wa{}:{}", c, mode)
            }
        }
        "listsendpays" => if params["status"] == "pending" { "lp".into() } else if params["status"] == "complete" { "lc".into() } else { "l?".into() },
        "waitsendpay" => format!("w{}", params["partid"].as_u64().unwrap_or(0)),
        "pay" => "pay".into(),
        m => m.to_string(),
    }
}

/// parked requests (not getinfo) as (index in parked, token with ordinal)
fn parked_tokens(w: &mut World) -> Vec<(usize, String, bool)> {
    node::reap(&w.node);
    let other_keys = w.other.as_ref().map(|o| (o.0.clone(), o.2.clone()));
    let snapshot: Vec<(usize, String, Value, bool)> = { let n = w.node.lock().unwrap(); n.parked.iter().enumerate().filter(|(_, p)| p.method != "getinfo")
        .filter(|(_, p)| other_keys.as_ref().map(|(h, inv)| { let t = p.params.to_string(); !t.contains(h.as_str()) && !t.contains(inv.as_str()) }).unwrap_or(true))
        .map(|(i, p)| (i, p.method.clone(), p.params.clone(), p.served.is_some())).collect() };
    let mut seen: BTreeMap<String, u32> = BTreeMap::new();
    let mut out = Vec::new();
    for (i, m, p, served) in snapshot {
        let t = req_token(w, &m, &p);
        let k = seen.entry(t.clone()).or_insert(0);
        let tok = if *k == 0 { t.clone() } else { format!("{}#{}", t, k) };
        *k += 1;
        out.push((i, tok, served));
    }
    out
}

fn resp_str(r: &HtlcAcceptedResponse) -> String {
    match r {
        HtlcAcceptedResponse::Continue { payload } => format!("cont:{}", payload.as_ref().map(|p| hex(p)).unwrap_or("-".into())),
        HtlcAcceptedResponse::Fail { failure_message } => format!("fail:{}", hex(failure_message)),
        HtlcAcceptedResponse::Resolve { payment_key } => format!("res:{}", if payment_key.len() == 32 { node::preimage_num(payment_key).to_string() } else { hex(payment_key) }),
    }
}

pub struct Plugin { pub mgr: Arc<Mgr>, pub watcher: Arc<BlockWatcher>, pub server: tokio::task::JoinHandle<()>, pub shutdown: tokio::sync::mpsc::Sender<()> }

/// auto-serve getinfo (startup query and 60 s polls are not part of the schedule)
fn serve_getinfo(node: &Node) {
    let mut n = node.lock().unwrap();
    let mut i = 0;
    while i < n.parked.len() {
        if n.parked[i].method == "getinfo" { let r = n.serve_truthful("getinfo", &json!({})).unwrap(); let mut p = n.parked.remove(i); if let Some(tx) = p.tx.take() { let _ = tx.send(r); } } else { i += 1; }
    }
}

pub async fn settle(node: &Node) {
    for _ in 0..6 { node::quiesce(node, QUIET).await; let had = node.lock().unwrap().parked.iter().any(|p| p.method == "getinfo"); if had { serve_getinfo(node); } else { break; } }
}

pub async fn boot(w: &World, sock: &str) -> Plugin {
    let server = node::listen(w.node.clone(), sock);
    let rpc = Arc::new(Rpc::new(sock.to_string()));
    let (shutdown, rx) = tokio::sync::mpsc::channel::<()>(1);
    let rpc2 = rpc.clone();
    let start = tokio::spawn(async move { let mut bw = BlockWatcher::new(rpc2); let r = bw.start(rx).await; (bw, r.is_ok()) });
    settle(&w.node).await;
    let (bw, _ok) = start.await.expect("watcher start");
    let watcher = Arc::new(bw);
    let c = &w.cfg;
    let mgr = Arc::new(HtlcManager::new(HtlcManagerParams {
        allow_self_route_hints: true, block_provider: watcher.clone(), cltv_delta: c.cltv_delta, local_pubkey: pubkey(LOCAL),
        mpp_timeout: Duration::from_secs(c.mpp), notification_service: Arc::new(NoNotify),
        payment_provider: Arc::new(PayPaymentProvider::new(rpc.clone(), Duration::from_secs(60), false)),
        routing_policy: TrampolineRoutingPolicy { fee_base_msat: c.base, fee_proportional_millionths: c.ppm, cltv_expiry_delta: c.policy_delta },
        store: Arc::new(ClnDatastore::new(rpc.clone())),
    }));
    Plugin { mgr, watcher, server, shutdown }
}

/// the htlc_accepted request for (bolt11 variant, declared amount, htlc amount, expiry, relative expiry, total)
pub fn make_req(w: &World, b11: u8, tlv_amount: Option<u64>, amount: u64, expiry: u32, rel: i64, total: Option<u64>, id: u64, fwd: Option<u64>) -> HtlcAcceptedRequest {
    let inv = if w.open { w.inv_open.clone() } else { w.inv_fixed.clone() };
    let inv = if b11 == 1 { inv.to_ascii_uppercase() } else { inv };
    let mut md: Vec<Rec> = vec![(33001, inv.into_bytes())];
    if let Some(a) = tlv_amount { md.push((33003, a.to_be_bytes().to_vec())); }
    let payload: Vec<Rec> = vec![(2, vec![1]), (16, ref_encode(&md))];
    HtlcAcceptedRequest {
        onion: Onion { payload: stream_of(&payload), short_channel_id: None, forward_msat: Some(fwd.unwrap_or(amount)), total_msat: total },
        htlc: Htlc { short_channel_id: "4x5x6".parse().unwrap(), id, amount_msat: amount, cltv_expiry: expiry, cltv_expiry_relative: rel, payment_hash: w.hash.clone() },
    }
}

pub fn need(w: &World, amt: u64) -> u128 { amt as u128 + w.cfg.base as u128 + (amt as u128 * w.cfg.ppm as u128) / 1_000_000 }

/// Observation after an action: outstanding requests, new responses, new pay requests.
async fn observe(w: &mut World, ctx: &mut Ctx, pay_seen: &mut Vec<u64>, act: &str) -> String {
    // C14 / C01: every record the plugin reads or writes is addressed by the FULL payment hash of the payment it
    // belongs to (the main hash, or the second, frozen one): a key that is not a function of the whole hash is shared
    // by different payments (stored state pooled across hashes; a `Succeeded` record of one settles the other)
    {
        let other_hex = w.other.as_ref().map(|o| o.0.clone());
        let bad: Vec<String> = { let n = w.node.lock().unwrap(); n.parked.iter().filter(|p| p.method == "datastore" || p.method == "listdatastore")
            .filter_map(|p| { let key: Vec<String> = serde_json::from_value(p.params["key"].clone()).unwrap_or_default();
                let ok = key.iter().any(|k| *k == w.hash_hex) || other_hex.as_ref().map(|h| key.iter().any(|k| k == h)).unwrap_or(false);
                if ok { None } else { Some(format!("{} {:?}", p.method, key)) } }).collect() };
        if let Some(b) = bad.first() { if !w.key_reported { w.key_reported = true; ctx.violation("C14,C01", "datastore-key-not-per-hash", &format!("{} is not addressed by the full payment hash {} REPLAY[{}]", b, w.hash_hex, replay(w))); } }
    }
    let toks = parked_tokens(w);
    let mut out: Vec<String> = toks.iter().map(|t| t.1.clone()).collect();
    out.sort();
    // payment initiation: the Pending marker write has just been issued
    if out.iter().any(|t| t.starts_with("wsP")) { if w.init_snap.is_none() { let h = held(w); w.init_snap = Some((h.iter().map(|c| c.expiry as u64).min().unwrap_or(0), w.height)); } } else if !out.iter().any(|t| t.starts_with("wa") && t.ends_with(":mc")) && !out.iter().any(|t| t == "pay") { w.init_snap = None; }
    // responses
    let mut resps: Vec<(u64, String)> = Vec::new();
    let mut panicked = false;
    for c in w.calls.iter_mut() {
        if c.resp.is_none() && c.jh.as_ref().map(|j| j.is_finished()).unwrap_or(false) {
            match c.jh.take().unwrap().await { Ok(Ok(r)) => { let s = resp_str(&r); c.resp = Some(s.clone()); resps.push((c.id, s)); } _ => { c.resp = Some("panic".into()); panicked = true; resps.push((c.id, "panic".into())); } }
        }
    }
    // new pay requests
    let mut pays: Vec<String> = Vec::new();
    let other_inv = w.other.as_ref().map(|o| o.2.clone());
    let pay_params: Vec<(u64, Value)> = { let n = w.node.lock().unwrap(); n.parked.iter().filter(|p| p.method == "pay" && other_inv.as_ref().map(|i| p.params["bolt11"].as_str() != Some(i.as_str())).unwrap_or(true)).map(|p| (p.seq, p.params.clone())).collect() };
    let msat = |v: &Value| -> Option<u64> { v.as_u64().or_else(|| v.as_str().and_then(|s| s.trim_end_matches("msat").parse().ok())) };
    for (seq, p) in pay_params {
        if pay_seen.contains(&seq) { continue; }
        pay_seen.push(seq);
        let b11 = p["bolt11"].as_str().unwrap_or("");
        let bid = if b11 == w.inv_open || b11 == w.inv_fixed { 0 } else if b11.eq_ignore_ascii_case(&w.inv_open) || b11.eq_ignore_ascii_case(&w.inv_fixed) { 1 } else { 9 };
        let amount = msat(&p["amount_msat"]); let maxfee = msat(&p["maxfee"]).unwrap_or(u64::MAX); let maxdelay = p["maxdelay"].as_u64().unwrap_or(u64::MAX);
        pays.push(format!("{}:{}:{}:{}", bid, amount.map(|a| a.to_string()).unwrap_or("-".into()), maxfee, maxdelay));
        oracle_pay(w, ctx, amount, maxfee, maxdelay, act);
        let marked: Vec<u64> = w.calls.iter().filter(|c| c.resp.is_none() && c.life == w.life && w.no_pay.contains(&c.id)).map(|c| c.id).collect();
        if !marked.is_empty() { ctx.violation("C07", "pay-after-reject", &format!("pay issued although htlcs {:?} belong to a set that was rejected while incomplete REPLAY[{}]", marked, replay(w))); }
        { let mut n = w.node.lock().unwrap(); *n.pay_running.entry(w.hash_hex.clone()).or_insert(0) += 1; }
    }
    oracle_step(w, ctx, &resps, act);
    // C11 (upper bound): HTLCs held, nothing outstanding, no pay running = the plugin waits on its MPP timer.
    // That state may last at most one timeout (after a restart path: at most the remaining time, which is less).
    let incomplete = { let h = held(w); let sum: u128 = h.iter().map(|c| c.amount as u128).sum(); h.first().map(|c| sum < need(w, c.a)).unwrap_or(false) };
    let quiet_now = w.node.lock().unwrap().quiet(&w.hash_hex);
    let idle = !held(w).is_empty() && held(w).iter().all(|c| c.is_tramp) && out.is_empty() && incomplete && quiet_now && w.other.is_none();
    if idle && !w.fault_read {
        match w.idle_since {
            None => w.idle_since = Some(w.mono),
            Some(t0) => if w.mono.saturating_sub(t0) >= w.cfg.mpp && w.mono > t0 { ctx.violation("C11,C06", "timeout-late", &format!("htlcs {:?} still held {} s after the plugin began waiting (mpp timeout {} s) REPLAY[{}]", held(w).iter().map(|c| c.id).collect::<Vec<_>>(), w.mono.saturating_sub(t0), w.cfg.mpp, replay(w))); w.idle_since = Some(u64::MAX / 2); }
        }
    } else { w.idle_since = None; }
    // C11 (lower bound): a set with no attempt ever on record and no rejecting member is not failed before the timeout
    if w.aids.is_empty() && !w.fault_read && !resps.is_empty() && resps.iter().all(|(_, r)| r == "fail:2019") {
        let set: Vec<&Call> = resps.iter().map(|(i, _)| &w.calls[*i as usize]).collect();
        if !set.iter().any(|c| c.rejecting) && set.iter().all(|c| c.is_tramp) {
            // "since the plugin began waiting": since the stored state was read and nothing was outstanding any more
            // (`waiting_since`); the first arrival is an upper bound for it
            let first = w.waiting_since.unwrap_or_else(|| set.iter().map(|c| c.t).min().unwrap_or(0)).max(set.iter().map(|c| c.t).min().unwrap_or(0));
            if w.mono - first < w.cfg.mpp { ctx.violation("C11", "timeout-early", &format!("htlcs {:?} failed {} s after the first arrived (mpp timeout {} s, no policy rejection, no earlier attempt) REPLAY[{}]", set.iter().map(|c| c.id).collect::<Vec<_>>(), w.mono - first, w.cfg.mpp, replay(w))); }
        }
    }
    // C12: a fee-or-expiry-insufficient failure carries exactly the configured policy
    let foei: String = { let mut v = vec![0x20u8, 26]; v.extend_from_slice(&w.cfg.base.to_be_bytes()); v.extend_from_slice(&w.cfg.ppm.to_be_bytes()); v.extend_from_slice(&w.cfg.policy_delta.to_be_bytes()); format!("fail:{}", hex(&v)) };
    for (id, r) in &resps { if r.starts_with("fail:201a") && *r != foei { ctx.violation("C12,C19", "foei-policy-mismatch", &format!("htlc {} answered {} but the configured policy encodes as {} REPLAY[{}]", id, r, foei, replay(w))); } }
    // C12: the first HTLC of a payment with no attempt ever on record that fails the policy is answered with that failure
    if w.aids.is_empty() && w.cfg.mpp != 0 && !w.fault_read && !w.lost_write {
        for (id, r) in &resps { let c = &w.calls[*id as usize]; if c.first_of_set && c.policy_reject && *r != foei && r != "panic" && stored_state(w).is_none() && !w.wfault {
            ctx.violation("C12", "first-htlc-not-foei", &format!("htlc {} (first of its payment, declared total or relative expiry below the policy, nothing on record) answered {} instead of {} REPLAY[{}]", id, r, foei, replay(w))); } }
    }
    // C13/C10: an HTLC that is not a trampoline request (amount TLV contradicting a fixed-amount invoice) is answered at once
    for c in w.calls.iter() { if !c.is_tramp && c.resp.is_none() && c.life == w.life { ctx.violation("C13,C10", "non-trampoline-held", &format!("htlc {} is not a trampoline request but was not answered at once REPLAY[{}]", c.id, replay(w))); } }
    // (kept for the next step) the held set has nothing outstanding since …
    if !held(w).is_empty() && out.is_empty() { if w.waiting_since.is_none() { w.waiting_since = Some(w.mono); } } else { w.waiting_since = None; }
    if panicked { ctx.violation("C06", "system-panic", &format!("an htlc_accepted call panicked REPLAY[{}]", replay(w))); }
    format!("out=[{}] resp=[{}] pay=[{}]", out.join(","), resps.iter().map(|(i, s)| format!("{}={}", i, s)).collect::<Vec<_>>().join(","), pays.join(","))
}

fn replay(w: &World) -> String { format!("sy {} {}", header(w), w.acts.join(" ")) }
/// the 7th field: 0 = no second hash; d+1 = a second hash frozen after d of its RPCs
/// the 8th field seeds tokio's per-runtime RNG (which `select!` branch is polled first)
pub fn header(w: &World) -> String { format!("{},{},{},{},{},{},{},{}", w.cfg.cltv_delta, w.cfg.policy_delta, w.cfg.base, w.cfg.ppm, w.cfg.mpp, w.open as u8, if w.other.is_some() { w.other_depth + 1 } else { 0 }, w.select_seed) }

fn held(w: &World) -> Vec<&Call> { w.calls.iter().filter(|c| c.resp.is_none() && c.life == w.life).collect() }

fn stored_state(w: &World) -> Option<Value> {
    let n = w.node.lock().unwrap();
    n.ds.get(&state_key(&w.hash_hex)).and_then(|(s, _)| serde_json::from_str(s).ok())
}

/// oracles evaluated at every pay RPC (C03, C04, C05)
fn oracle_pay(w: &World, ctx: &mut Ctx, amount: Option<u64>, maxfee: u64, maxdelay: u64, _act: &str) {
    let h = held(w);
    let sum: u128 = h.iter().map(|c| c.amount as u128).sum();
    // amount to deliver: the invoice's own, or the declared one (every held htlc declared the same, else the set was rejected)
    let amt = if w.open { amount.unwrap_or(0) } else { w.inv_amount };
    if w.open != amount.is_some() { ctx.violation("C03,C10", "pay-amount-param", &format!("amount_msat={:?} for an invoice {} amount REPLAY[{}]", amount, if w.open { "without" } else { "with" }, replay(w))); }
    if sum < need(w, amt) { ctx.violation("C03", "pay-underfunded", &format!("pay issued with held total {} < {} REPLAY[{}]", sum, need(w, amt), replay(w))); }
    if maxfee as u128 > sum.saturating_sub(amt as u128) { ctx.violation("C03", "pay-overbudget", &format!("maxfee {} > held {} - amount {} REPLAY[{}]", maxfee, sum, amt, replay(w))); }
    // "those held when the payment was initiated": snapshot taken when the in-flight marker write appeared
    let (minexp, height) = w.init_snap.map(|(e, h)| (e, h as u64)).unwrap_or((h.iter().map(|c| c.expiry as u64).min().unwrap_or(0), w.height as u64));
    let bound = minexp.saturating_sub(height).saturating_sub(w.cfg.cltv_delta as u64);
    if maxdelay > bound || maxdelay > w.cfg.policy_delta as u64 { ctx.violation("C04", "pay-maxdelay", &format!("maxdelay {} > min(expiry {} - height {} - delta {}, policy {}) REPLAY[{}]", maxdelay, minexp, height, w.cfg.cltv_delta, w.cfg.policy_delta, replay(w))); }
    // C05 and C08 do not quantify over read faults or lost (acknowledged but dropped) writes
    if w.fault_read || w.lost_write { return; }
    let n = w.node.lock().unwrap();
    if !n.quiet(&w.hash_hex) { ctx.violation("C05", "pay-while-live", &format!("pay issued while parts {:?} / pay running {:?} REPLAY[{}]", n.parts_of(&w.hash_hex), n.pay_running.get(&w.hash_hex), replay(w))); }
    drop(n);
    match stored_state(w) { Some(v) if v.get("Pending").is_some() => {}, other => ctx.violation("C08", "pay-without-marker", &format!("pay issued while the stored state is {:?} REPLAY[{}]", other, replay(w))) }
}

/// oracles evaluated after every action (C01, C02, C07, C08)
fn oracle_step(w: &World, ctx: &mut Ctx, resps: &[(u64, String)], _act: &str) {
    let (quiet, parts) = { let n = w.node.lock().unwrap(); (n.quiet(&w.hash_hex), n.parts_of(&w.hash_hex)) };
    for (id, r) in resps {
        if let Some(k) = r.strip_prefix("res:") {
            // C01: the key hashes to the htlc's own hash and comes from a completed part
            let ok_hash = k.parse::<u64>().ok().map(|n| sha256::Hash::hash(&node::preimage_bytes(n)).to_byte_array().to_vec() == w.calls[*id as usize].hash).unwrap_or(false);
            let from_part = k.parse::<u64>().ok().map(|n| parts.iter().any(|p| p.st == PSt::Complete(n))).unwrap_or(false);
            if !ok_hash || !from_part { ctx.violation("C01", "resolve-bad-key", &format!("htlc {} resolved with {} (hash ok: {}, completed part: {}) REPLAY[{}]", id, k, ok_hash, from_part, replay(w))); }
        } else if r.starts_with("fail:") && !quiet && !w.lost_write {
            let sig = if w.fault_read { format!("fail-while-live:read-fault:{}", w.fault_kind) } else { "fail-while-live".to_string() };
            ctx.violation("C02", &sig, &format!("htlc {} failed with {} while parts are {:?} REPLAY[{}]", id, r, parts, replay(w)));
        }
    }
    // C07: one resolution for everybody answered in the same step
    if resps.len() > 1 && resps.iter().any(|(_, r)| r != &resps[0].1) { ctx.violation("C07", "mixed-resolution", &format!("responses of one step differ: {:?} REPLAY[{}]", resps, replay(w))); }
    // C07: a step that answers a trampoline HTLC answers every trampoline HTLC held for the hash (they are decided together)
    if resps.iter().any(|(i, r)| w.calls[*i as usize].is_tramp && r != "panic") {
        let left: Vec<u64> = w.calls.iter().filter(|c| c.resp.is_none() && c.life == w.life && c.is_tramp).map(|c| c.id).collect();
        if !left.is_empty() { ctx.violation("C07", "partial-resolution", &format!("htlcs {:?} were answered ({:?}) while htlcs {:?} of the same hash stay held REPLAY[{}]", resps.iter().map(|x| x.0).collect::<Vec<_>>(), resps.iter().map(|x| x.1.clone()).collect::<Vec<_>>(), left, replay(w))); }
    }
    // C08: the durable record never understates
    let live = parts.iter().any(|p| p.st != PSt::Failed);
    if live && !w.fault_read && !w.lost_write {
        match stored_state(w) {
            Some(v) if v.get("Pending").is_some() => {}
            Some(v) if v.get("Succeeded").is_some() => {
                let pre: Vec<u8> = serde_json::from_value(v["Succeeded"]["preimage"].clone()).unwrap_or_default();
                if sha256::Hash::hash(&pre).to_byte_array().to_vec() != w.hash { ctx.violation("C08,C01", "succeeded-bad-preimage", &format!("stored preimage does not hash to the payment hash REPLAY[{}]", replay(w))); }
            }
            other => { let sig = "record-understates"; ctx.violation("C08", sig, &format!("parts {:?} but the stored state is {:?} REPLAY[{}]", parts, other, replay(w))); }
        }
    }
}

/// can this scripted action be taken in the real system right now? (corpus lines and replays recorded on
/// another tree must not feed the model steps that never happened)
fn applicable(w: &mut World, act: &str) -> bool {
    let toks = parked_tokens(w);
    let (parts, running) = { let n = w.node.lock().unwrap(); (n.parts_of(&w.hash_hex), n.pay_running.get(&w.hash_hex).copied().unwrap_or(0) > 0) };
    if let Some(t) = act.strip_prefix("s:") {
        // E4: a waitsendpay is answered only once its part has left `pending`
        if t.starts_with('w') && !t.starts_with("ws") && !t.starts_with("wa") { let id: u64 = t[1..].split('#').next().unwrap_or("").parse().unwrap_or(u64::MAX); if parts.iter().any(|p| p.id == id && p.st == PSt::Pending) || !parts.iter().any(|p| p.id == id) { return false; } }
        return toks.iter().any(|x| x.1 == t && !x.2);
    }
    if let Some(t) = act.strip_prefix("d:") { return toks.iter().any(|x| x.1 == t && x.2); }
    if act.len() > 3 && act.starts_with('f') && &act[2..3] == ":" { let t = &act[3..]; return toks.iter().any(|x| x.1 == t && !x.2); }
    if let Some(k) = act.strip_prefix("pe:") {
        // E3: a COMPLETE reply carries the preimage of a part that is complete
        if let Some(x) = k.strip_prefix("complete") { let x: u64 = x.parse().unwrap_or(u64::MAX); if !parts.iter().any(|p| p.st == PSt::Complete(x)) { return false; } }
        return running && toks.iter().any(|x| x.1 == "pay" && !x.2);
    }
    if act.starts_with("ar:") || act.starts_with("tm") || act.starts_with("tw") || act.starts_with("tb") || act.starts_with("bl") || act == "cr" { return true; }
    if let Some(id) = act.strip_prefix("c") { return running && id.parse::<u64>().map(|i| !parts.iter().any(|p| p.id == i)).unwrap_or(false); }
    if let Some(rest) = act.strip_prefix("r") { let id: u64 = rest.split(':').next().unwrap_or("").parse().unwrap_or(u64::MAX); return parts.iter().any(|p| p.id == id && p.st == PSt::Pending); }
    false
}

pub enum Step { Continue, Crash, Stop }

/// apply one action token to the real system
pub async fn apply(w: &mut World, p: &Plugin, rng: &mut Rng, act: &str) -> Step {
    let hh = w.hash_hex.clone();
    if let Some(rest) = act.strip_prefix("ar:") {
        // ar:<b11>:<amount to deliver>:<htlc amount>:<expiry>:<rel>:<total|->
        let f: Vec<&str> = rest.split(':').collect();
        let b11: u8 = f[0].parse().unwrap(); let amt: u64 = f[1].parse().unwrap(); let hamt: u64 = f[2].parse().unwrap();
        let expiry: u32 = f[3].parse().unwrap(); let rel: i64 = f[4].parse().unwrap(); let total: Option<u64> = if f[5] == "-" { None } else { Some(f[5].parse().unwrap()) };
        // optional 7th field: what the onion says is forwarded (defaults to the HTLC's own amount); it is the declared total when none is given
        let fwd: Option<u64> = f.get(6).and_then(|x| x.parse().ok());
        let declared = total.unwrap_or(fwd.unwrap_or(hamt));
        let id = w.calls.len() as u64;
        let tlv = if w.open { Some(amt) } else if amt != w.inv_amount { Some(amt) } else { None };
        let req = make_req(w, b11, tlv, hamt, expiry, rel, total, id, fwd);
        // C07 bookkeeping, from the property's own words: does this HTLC trigger a rejection of a still-incomplete set?
        let is_tramp = w.open || amt == w.inv_amount;
        let mut rejecting_flag = false;
        let policy_reject = is_tramp && (rel < w.cfg.policy_delta as i64 || (declared as u128) < need(w, amt));
        let first_of_set = held(w).is_empty();
        if is_tramp {
            let (first, sum): (Option<(u8, u64)>, u128) = { let h = held(w); (h.first().map(|c| (c.b11, c.a)), h.iter().map(|c| c.amount as u128).sum()) };
            let (b0, a0) = first.unwrap_or((b11, amt));
            let rejecting = (b11, amt) != (b0, a0) || rel < w.cfg.policy_delta as i64 || (declared as u128) < need(w, amt);
            rejecting_flag = rejecting;
            if rejecting && sum < need(w, a0) { let mut ids: Vec<u64> = held(w).iter().map(|c| c.id).collect(); ids.push(id); w.no_pay = ids; }
        }
        let m = p.mgr.clone();
        let jh = tokio::spawn(async move { AssertUnwindSafe(m.handle_htlc(&req)).catch_unwind().await.map_err(|_| ()) });
        w.calls.push(Call { id, a: amt, b11, t: w.mono, rejecting: rejecting_flag, is_tramp, policy_reject, first_of_set, amount: hamt, expiry, hash: w.hash.clone(), jh: Some(jh), resp: None, life: w.life });
    } else if let Some(dt) = act.strip_prefix("tm") { let dt: u64 = dt.parse().unwrap(); tokio::time::advance(Duration::from_secs(dt)).await; w.mono += dt; }
    else if let Some(dt) = act.strip_prefix("tw") {
        let dt: u64 = dt.parse().unwrap(); w.model_wall += dt;
        // equivalent to the wall clock moving on: every stored attempt time gets older
        let mut n = w.node.lock().unwrap();
        let key = state_key(&hh);
        if let Some((s, g)) = n.ds.get(&key).cloned() {
            if let Ok(mut v) = serde_json::from_str::<Value>(&s) { if let Some(pd) = v.get_mut("Pending") { let t = pd["attempt_time_seconds"].as_u64().unwrap_or(0); pd["attempt_time_seconds"] = json!(t.saturating_sub(dt)); let aid = pd["attempt_id"].as_str().unwrap_or("").to_string(); n.ds.insert(key, (v.to_string(), g)); drop(n); if let Some(st) = w.stamp.get_mut(&aid) { st.0 = st.0.saturating_sub(dt); } } }
        }
    }
    else if let Some(dt) = act.strip_prefix("tb") {
        // the wall clock is stepped BACK by dt: every stored attempt time moves into the future by dt
        let dt: u64 = dt.parse().unwrap(); w.model_wall = w.model_wall.saturating_sub(dt);
        let mut n = w.node.lock().unwrap();
        let key = state_key(&hh);
        if let Some((s, g)) = n.ds.get(&key).cloned() {
            if let Ok(mut v) = serde_json::from_str::<Value>(&s) { if let Some(pd) = v.get_mut("Pending") { let t = pd["attempt_time_seconds"].as_u64().unwrap_or(0); pd["attempt_time_seconds"] = json!(t + dt); let aid = pd["attempt_id"].as_str().unwrap_or("").to_string(); n.ds.insert(key, (v.to_string(), g)); drop(n); if let Some(st) = w.stamp.get_mut(&aid) { st.0 += dt; } } }
        }
    }
    else if let Some(h) = act.strip_prefix("bl") { let h: u32 = h.parse().unwrap(); { let mut n = w.node.lock().unwrap(); if h > n.height { n.height = h; } } p.watcher.new_block(&BlockAdded { height: h }).await; if h > w.height { w.height = h; } }
    else if act == "cr" { return Step::Crash; }
    else if let Some(id) = act.strip_prefix("c") { let id: u64 = id.parse().unwrap(); w.node.lock().unwrap().parts.entry(hh).or_default().push(Part { id, st: PSt::Pending }); w.next_part = id + 1; }
    else if let Some(rest) = act.strip_prefix("r") {
        let mut it = rest.split(':'); let id: u64 = it.next().unwrap().parse().unwrap(); let st = it.next().unwrap();
        let st = if st == "f" { PSt::Failed } else { PSt::Complete(st[1..].parse().unwrap()) };
        for q in w.node.lock().unwrap().parts.entry(hh).or_default().iter_mut() { if q.id == id && q.st == PSt::Pending { q.st = st.clone(); } }
    } else if let Some(k) = act.strip_prefix("pe:") {
        let oinv = w.other.as_ref().map(|o| o.2.clone());
        let mut n = w.node.lock().unwrap();
        if let Some(i) = n.parked.iter().position(|q| q.served.is_none() && q.method == "pay" && oinv.as_ref().map(|i| q.params["bolt11"].as_str() != Some(i.as_str())).unwrap_or(true)) {
            let r: Reply = if let Some(x) = k.strip_prefix("complete") { Ok(node::pay_reply_json(&hh, "complete", x.parse().unwrap(), false)) }
                else if k == "pending" { Ok(node::pay_reply_json(&hh, "pending", 0, false)) } else if k == "failed" { Ok(node::pay_reply_json(&hh, "failed", 0, false)) }
                else if k == "failedwarn" { Ok(node::pay_reply_json(&hh, "failed", 0, true)) }
                else if k == "conn" { Err((Some(node::CONNECT), "Connection refused".into())) } else { Err((Some(210), "Ran out of routes to try".into())) };
            n.parked[i].served = Some(r);
            n.pay_running.insert(hh, 0);
        }
    } else if act.starts_with("s:") || act.starts_with("f") {
        // s:<tok> truthful | fR:<tok> write rejected | fA:<tok> applied, error reported | fL:<tok> acked, lost | fE:<tok> read error
        let (kind, tok) = if let Some(t) = act.strip_prefix("s:") { ("s", t) } else { (&act[..2], &act[3..]) };
        let toks = parked_tokens(w);
        if let Some((i, _, _)) = toks.iter().find(|t| t.1 == tok && !t.2) {
            let mut n = w.node.lock().unwrap();
            let (m, pr) = (n.parked[*i].method.clone(), n.parked[*i].params.clone());
            // shape of an injected failure: an error object with code -1, or (every third request) the connection could not be opened
            let fcode = if n.parked[*i].seq % 3 == 2 { node::CONNECT } else { -1 };
            let r: Option<Reply> = match kind {
                "s" => { let mut r = n.serve_truthful(&m, &pr); if let Some(Err((Some(203), msg))) = &r { r = Some(Err((Some(*rng.pick(&[202, 203, 204, 208, 209])), msg.clone()))); } r }
                "fR" => Some(Err((Some(fcode), "injected: write refused".into()))),
                "fA" => { let _ = n.serve_truthful(&m, &pr); Some(Err((Some(fcode), "injected: applied but reported failed".into()))) }
                "fL" => { let key: Vec<String> = serde_json::from_value(pr["key"].clone()).unwrap_or_default(); let g = n.ds.get(&key).map(|x| x.1 + 1).unwrap_or(0); Some(Ok(json!({"key": key, "generation": g, "string": pr["string"]}))) }
                _ => Some(Err((Some(fcode), "injected: read failed".into()))),
            };
            if let Some(r) = r { n.parked[*i].served = Some(r); }
            drop(n);
            if kind == "fE" { w.fault_read = true; w.fault_kind = if tok.starts_with("dl") { "dl".into() } else { "wait".into() }; }
            if kind == "fL" { w.lost_write = true; }
            if kind == "fR" || kind == "fA" { w.wfault = true; }
            if m == "listdatastore" && kind == "s" { w.restart_aid = stored_state(w).and_then(|v| v.get("Pending").and_then(|p| p["attempt_id"].as_str().map(|x| x.to_string()))); }
            // remember when a Pending marker was really written (for the wall-clock alignment)
            if m == "datastore" && (kind == "s" || kind == "fA") { if let Ok(v) = serde_json::from_str::<Value>(pr["string"].as_str().unwrap_or("")) { if let Some(pd) = v.get("Pending") { w.stamp.insert(pd["attempt_id"].as_str().unwrap_or("").to_string(), (pd["attempt_time_seconds"].as_u64().unwrap_or(0), w.model_wall)); } } }
        }
    } else if let Some(tok) = act.strip_prefix("d:") {
        let toks = parked_tokens(w);
        if let Some((i, _, _)) = toks.iter().find(|t| t.1 == tok && t.2) {
            let mut n = w.node.lock().unwrap();
            let mut pk = n.parked.remove(*i);
            if let (Some(tx), Some(r)) = (pk.tx.take(), pk.served.take()) { let _ = tx.send(r); }
        }
    }
    Step::Continue
}

/// Before the reply to the restart path's Free write is delivered the code reads the wall clock:
/// tell the model how many whole seconds the wall clock is ahead of what the trace said so far,
/// and stay clear of a second boundary.
async fn align_wall(w: &mut World, tok: &str) -> Option<String> {
    if !tok.starts_with("wsF") { return None; }
    let aid = match w.restart_aid.clone() { Some(a) => a, None => return None };
    let (real_stamp, model_stamp) = *w.stamp.get(&aid)?;
    loop {
        let now = SystemTime::now().duration_since(UNIX_EPOCH).unwrap();
        if now.subsec_millis() > 900 { std::thread::sleep(Duration::from_millis(120)); continue; }
        let k_real = now.as_secs().saturating_sub(real_stamp);
        let k_model = w.model_wall.saturating_sub(model_stamp);
        return if k_real > k_model { Some(format!("tw{}", k_real - k_model)) } else { None };
    }
}


/// would the parked datastore write with this token be accepted right now?
fn would_succeed(w: &mut World, tok: &str) -> bool {
    let toks = parked_tokens(w);
    let n = w.node.lock().unwrap();
    match toks.iter().find(|t| t.1 == tok) {
        Some((i, _, _)) => {
            let pr = &n.parked[*i].params;
            let key: Vec<String> = serde_json::from_value(pr["key"].clone()).unwrap_or_default();
            let cur = n.ds.get(&key).cloned();
            match (cur, pr["mode"].as_str().unwrap_or(""), pr["generation"].as_u64()) {
                (None, "must-replace", _) => false, (Some(_), "must-create", _) => false,
                (Some((_, g)), _, Some(want)) => g == want, _ => true }
        }
        None => false,
    }
}

pub struct Gen { pub faults_w: bool, pub faults_r: bool, pub crashes: bool, pub lost: bool, pub replay: bool, pub coop: Option<bool>, pub other: bool, pub other_depth: usize, pub hold_first: usize, pub select_seed: Option<u64> }

/// enabled actions of the real system, with multiplicity as weight
pub fn candidates(w: &mut World, rng: &mut Rng, g: &Gen, step: usize) -> Vec<String> {
    let mut c: Vec<String> = Vec::new();
    let toks = parked_tokens(w);
    let (parts, running) = { let n = w.node.lock().unwrap(); (n.parts_of(&w.hash_hex), n.pay_running.get(&w.hash_hex).copied().unwrap_or(0) > 0) };
    for (_, tok, served) in &toks {
        if *served { for _ in 0..4 { c.push(format!("d:{}", tok)); } continue; }
        if tok == "pay" { if running { for k in ["pending", "failed", "failedwarn", "err", "conn"] { c.push(format!("pe:{}", k)); } if parts.iter().any(|p| p.st == PSt::Complete(PRE)) { for _ in 0..4 { c.push(format!("pe:complete{}", PRE)); } } } continue; }
        let waiting_on_pending = tok.starts_with('w') && !tok.starts_with("ws") && !tok.starts_with("wa") && { let id: u64 = tok[1..].split('#').next().unwrap().parse().unwrap_or(0); parts.iter().any(|p| p.id == id && p.st == PSt::Pending) };
        if !waiting_on_pending { for _ in 0..4 { c.push(format!("s:{}", tok)); } }
        let is_write = tok.starts_with("ws") || tok.starts_with("wa");
        if is_write && g.faults_w && rng.coin(1, 6) { c.push(format!("fR:{}", tok)); c.push(format!("fA:{}", tok)); }
        if is_write && g.lost && rng.coin(1, 10) && would_succeed(w, tok) { c.push(format!("fL:{}", tok)); }
        if !is_write && g.faults_r && rng.coin(1, 8) { c.push(format!("fE:{}", tok)); }
    }
    for p in &parts { if p.st == PSt::Pending { c.push(format!("r{}:f", p.id)); c.push(format!("r{}:c{}", p.id, PRE)); } }
    if running && parts.len() < 4 { c.push(format!("c{}", w.next_part)); c.push(format!("c{}", w.next_part)); }
    // arrivals
    let amt = w.inv_amount; let nd = need(w, amt) as u64;
    let n_calls = w.calls.len();
    if n_calls < 7 && (step < 25 || rng.coin(1, 4)) {
        let weight = if held(w).is_empty() { 4 } else { 2 };
        for _ in 0..weight {
            let hamt = if rng.coin(1, 40) { *rng.pick(&[u64::MAX, u64::MAX / 2 + 1, u64::MAX - nd]) } else { *rng.pick(&[nd, nd, nd / 2, nd - nd / 2, nd / 2, nd - nd / 2, nd / 3, 1000, nd + 5000, nd - 1, 2 * nd]) };
            let total = match rng.below(16) { 0 => None, 1 => Some(nd - 1), 2 => Some(amt), _ => Some(nd.max(hamt)) };
            let pd = w.cfg.policy_delta as u32;
            let (expiry, rel) = match rng.below(24) { 0 => (w.height + pd.saturating_sub(44), pd as i64 - 44), 1 => (w.height + pd, pd as i64), 2 => (w.height + pd.saturating_sub(1), pd as i64 - 1), 3 => (w.height + 70_000, 70_000), 4 => (w.height + pd + 56, -5), 5 => (w.height + pd + 6, pd as i64 + 6), _ => (w.height + pd + 156 + rng.below(300) as u32, pd as i64 + 156) };
            let b11 = if rng.coin(1, 25) { 1 } else { 0 };
            let a = if rng.coin(1, 12) { if w.open { *rng.pick(&[amt + 1, amt / 2, amt / 1000]) } else { *rng.pick(&[amt / 1000, amt + 1, amt / 2]) } } else { amt };
            // the onion's forward amount is the sender's claim: usually the HTLC's own amount, sometimes more or less
            let fwd = if rng.coin(1, 12) { format!(":{}", *rng.pick(&[nd, hamt / 2, hamt.saturating_add(nd), 2 * nd, 1])) } else { String::new() };
            c.push(format!("ar:{}:{}:{}:{}:{}:{}{}", b11, a, hamt, expiry, rel, total.map(|t| t.to_string()).unwrap_or("-".into()), fwd));
        }
    }
    c.push(format!("tm{}", *rng.pick(&[1u64, 10, 29, 30, 31, 59, 60, 61])));
    // the wall clock is only moved while no lifecycle holds a fetched attempt time (e.g. while the node was down)
    if toks.is_empty() && held(w).is_empty() && rng.coin(1, 2) { c.push(format!("tw{}", *rng.pick(&[1u64, 30, 59, 60, 61, 100]))); }
    if toks.is_empty() && held(w).is_empty() && rng.coin(1, 6) { c.push(format!("tb{}", *rng.pick(&[1u64, 5, 30, 61, 600]))); }
    if rng.coin(1, 6) { c.push(format!("bl{}", w.height + rng.below(120) as u32)); }
    if g.crashes && rng.coin(1, 14) { c.push("cr".into()); }
    c
}

/// cooperative environment: answer everything truthfully and at once. `complete`: parts complete
/// (probe) or fail (drain).
fn cooperative(w: &mut World, complete: bool) -> Option<String> {
    let toks = parked_tokens(w);
    let (parts, running) = { let n = w.node.lock().unwrap(); (n.parts_of(&w.hash_hex), n.pay_running.get(&w.hash_hex).copied().unwrap_or(0) > 0) };
    if let Some((_, tok, _)) = toks.iter().find(|t| t.2) { return Some(format!("d:{}", tok)); }
    let held_idx: Vec<usize> = { let n = w.node.lock().unwrap(); n.parked.iter().enumerate().filter(|(_, p)| w.hold.contains(&p.seq)).map(|(i, _)| i).collect() };
    for (i, tok, _) in &toks {
        if held_idx.contains(i) { continue; }
        if tok == "pay" { continue; }
        let is_wait = tok.starts_with('w') && !tok.starts_with("ws") && !tok.starts_with("wa");
        if is_wait { let id: u64 = tok[1..].split('#').next().unwrap().parse().unwrap_or(0); if parts.iter().any(|p| p.id == id && p.st == PSt::Pending) { continue; } }
        return Some(format!("s:{}", tok));
    }
    if let Some(p) = parts.iter().find(|p| p.st == PSt::Pending) { return Some(if complete { format!("r{}:c{}", p.id, PRE) } else { format!("r{}:f", p.id) }); }
    if toks.iter().any(|t| t.1 == "pay") && running {
        if complete { if parts.iter().any(|p| p.st == PSt::Complete(PRE)) { return Some(format!("pe:complete{}", PRE)); } return Some(format!("c{}", w.next_part)); }
        return Some("pe:failed".into());
    }
    if !held(w).is_empty() { return Some("tm61".into()); }
    None
}

#[derive(PartialEq, Clone, Copy)]
enum Phase { Random, Drain, Probe(u8), Done }

/// Run one schedule. `script`: forced action tokens (directed cases, corpus, replay); then `len`
/// random actions; then the environment turns cooperative (everything answered, parts fail) until
/// every call is answered (C06), then a fresh fully funded set with a cooperative recipient is
/// injected (C09: it must settle, at the latest at the second attempt).
pub fn run_case(ctx: &mut Ctx, rng: &mut Rng, sock: &str, open: bool, cfg: SCfg, script: Vec<String>, len: usize, g: &Gen) -> Vec<String> {
    let mut w = World::new(0, open, cfg);
    w.select_seed = match g.select_seed { Some(x) => x, None => rng.below(1 << 32) };
    if g.other {
        let pre_b = node::preimage_bytes(78);
        let hb = sha256::Hash::hash(&pre_b);
        w.other = Some((hb.to_string(), hb.to_byte_array().to_vec(), make_invoice(&pre_b, Some(1_000_000), 0, 2)));
        w.other_depth = g.other_depth;
    }
    let mut script: std::collections::VecDeque<String> = script.into();
    let replaying = g.replay;
    let panics_before = crate::PANICS.lock().map(|v| v.len()).unwrap_or(0);
    let mut step = 0usize;
    let mut phase = Phase::Random;
    let mut phase_steps = 0usize;
    let mut probe_call: Option<usize> = None;
    let mut hold_pending = false;
    let mut pending_control: Option<String> = None;
    loop {
        let rt = tokio::runtime::Builder::new_current_thread().enable_all().start_paused(true)
            .rng_seed(tokio::runtime::RngSeed::from_bytes(format!("{}-{}", w.select_seed, w.life).as_bytes())).build().unwrap();
        let crashed = rt.block_on(async {
            let p = boot(&w, sock).await;
            let mut pay_seen: Vec<u64> = Vec::new();
            if let Some((_, oh, oinv)) = w.other.clone() {
                // hash B: a fully funded trampoline HTLC whose very first RPC is never answered
                let md: Vec<Rec> = vec![(33001, oinv.clone().into_bytes())];
                let payload: Vec<Rec> = vec![(16, ref_encode(&md))];
                let req = HtlcAcceptedRequest {
                    onion: Onion { payload: stream_of(&payload), short_channel_id: None, forward_msat: Some(1_006_000), total_msat: Some(1_006_000) },
                    htlc: Htlc { short_channel_id: "4x5x6".parse().unwrap(), id: 999, amount_msat: 1_006_000, cltv_expiry: w.height + 400, cltv_expiry_relative: 400, payment_hash: oh },
                };
                let m = p.mgr.clone();
                w.other_call = Some(tokio::spawn(async move { AssertUnwindSafe(m.handle_htlc(&req)).catch_unwind().await.map_err(|_| ()) }));
                settle(&w.node).await;
                // answer the first `other_depth` RPCs of hash B truthfully (its pay command, the 4th, completes), then never again
                let (ohex, oinv2) = { let o = w.other.as_ref().unwrap(); (o.0.clone(), o.2.clone()) };
                let is_b = |p: &node::Parked| { let t = p.params.to_string(); p.method != "getinfo" && (t.contains(ohex.as_str()) || t.contains(oinv2.as_str())) };
                let answered = match w.other_depth { 6 => 4, 7 => 5, d => d };
                for _ in 0..answered {
                    let done = {
                        let mut n = w.node.lock().unwrap();
                        match n.parked.iter().position(|p| is_b(p) && p.served.is_none()) {
                            Some(i) => {
                                let (m2, pr) = (n.parked[i].method.clone(), n.parked[i].params.clone());
                                // hash B's pay command completes with B's own preimage (78): B is then frozen in its bookkeeping
                                // depths 4–5: B's pay completes (78) and B is frozen in its bookkeeping; depths 6–7: it returns
                                // `pending` with no parts and B is frozen inside wait_payment (at the first / second listing)
                                let r = if m2 == "pay" { Some(Ok(if w.other_depth >= 6 { node::pay_reply_json(&ohex, "pending", 0, false) } else { node::pay_reply_json(&ohex, "complete", 78, false) })) } else { n.serve_truthful(&m2, &pr) };
                                let mut pk = n.parked.remove(i);
                                if let (Some(tx), Some(r)) = (pk.tx.take(), r) { let _ = tx.send(r); }
                                false
                            }
                            _ => true,
                        }
                    };
                    if done { break; }
                    settle(&w.node).await;
                }
                w.other_frozen_log = { let n = w.node.lock().unwrap(); n.log.iter().filter(|l| l.contains(ohex.as_str()) || l.contains(oinv2.as_str())).count() };
            }
            if w.life == 0 { let o = observe(&mut w, ctx, &mut pay_seen, "boot").await; w.obs.push(o); }
            loop {
                if script.len() == 1 && g.hold_first > 0 { hold_pending = true; }
                let act = if let Some(a) = script.pop_front() { if !applicable(&mut w, &a) { ctx.count("script:skipped-inapplicable"); continue; } a } else if replaying { return false; } else {
                    if hold_pending { hold_pending = false; let n = w.node.lock().unwrap(); w.hold = n.parked.iter().filter(|p| p.method != "getinfo" && p.served.is_none()).take(g.hold_first).map(|p| p.seq).collect(); }
                    if phase == Phase::Random && step >= len { phase = Phase::Drain; phase_steps = 0; }
                    if phase != Phase::Random { w.hold.clear(); }
                    match phase {
                        Phase::Random => {
                            if let Some(complete) = g.coop { match cooperative(&mut w, complete) { Some(a) => a, None => { phase = Phase::Drain; w.hold.clear(); continue; } } }
                            else { let c = candidates(&mut w, rng, g, step); if c.is_empty() { phase = Phase::Drain; continue; } rng.pick(&c).clone() }
                        }
                        Phase::Drain => {
                            phase_steps += 1;
                            match cooperative(&mut w, false) {
                                Some(a) if phase_steps < 200 => a,
                                other => {
                                    if w.cfg.mpp == 0 { phase = Phase::Done; continue; }   // nothing is payable by configuration
                                    if other.is_some() || !held(&w).is_empty() {
                                        let sig = if w.fault_read { format!("hang:read-fault:{}", w.fault_kind) } else { "hang".to_string() };
                                        let detail = format!("calls {:?} still unanswered after the environment answered everything and time passed REPLAY[{}]", held(&w).iter().map(|c| c.id).collect::<Vec<_>>(), replay(&w));
                                        // with a second hash frozen: is that hash the cause? decided by a control run after this runtime is gone
                                        if w.other.is_some() && !w.fault_read { pending_control = Some(detail); } else { ctx.violation("C06", &sig, &detail); }
                                        phase = Phase::Done; continue;
                                    }
                                    phase = Phase::Probe(0); phase_steps = 0; continue;
                                }
                            }
                        }
                        Phase::Probe(round) => {
                            phase_steps += 1;
                            if probe_call.is_none() {
                                let nd = need(&w, w.inv_amount) as u64;
                                probe_call = Some(w.calls.len());
                                let pd = w.cfg.policy_delta as u32;
                                format!("ar:0:{}:{}:{}:{}:{}", w.inv_amount, nd, w.height + pd + 256, pd + 156, nd)
                            } else {
                                let pc = probe_call.unwrap();
                                match w.calls[pc].resp.clone() {
                                    Some(r) if r.starts_with("res:") => { ctx.count("probe:settled"); phase = Phase::Done; continue; }
                                    Some(r) => {
                                        if round == 0 && r == "fail:2019" { ctx.count("probe:retry"); probe_call = None; phase = Phase::Probe(1); continue; }
                                        let sig = if w.fault_read { "unpayable:after-read-fault" } else { "unpayable" };
                                        ctx.violation("C09", sig, &format!("a fresh fully funded set with a cooperative recipient is answered {} (attempt {}) REPLAY[{}]", r, round + 1, replay(&w)));
                                        phase = Phase::Done; continue;
                                    }
                                    None => match cooperative(&mut w, true) {
                                        Some(a) if phase_steps < 200 => a,
                                        _ => { ctx.violation("C09,C06", "probe-hang", &format!("the probe payment is never answered REPLAY[{}]", replay(&w))); phase = Phase::Done; continue; }
                                    },
                                }
                            }
                        }
                        Phase::Done => return false,
                    }
                };
                step += 1;
                if let Some(tok) = act.strip_prefix("d:") { if !replaying { if let Some(extra) = align_wall(&mut w, tok).await { let _ = apply(&mut w, &p, rng, &extra).await; settle(&w.node).await; w.acts.push(extra.clone()); let o = observe(&mut w, ctx, &mut pay_seen, &extra).await; w.obs.push(o); } } }
                match apply(&mut w, &p, rng, &act).await {
                    Step::Crash => { w.acts.push(act); return true; }
                    _ => {}
                }
                settle(&w.node).await;
                w.acts.push(act.clone());
                let o = observe(&mut w, ctx, &mut pay_seen, &act).await;
                w.obs.push(o);
            }
        });
        drop(rt);
        if !crashed { break; }
        // whole-node crash: the plugin and the pay commands are gone, datastore and parts stay
        { let mut n = w.node.lock().unwrap(); n.parked.clear(); n.pay_running.clear(); }
        for c in w.calls.iter_mut() { if c.resp.is_none() { c.resp = Some("lost".into()); } c.jh = None; }
        w.life += 1;
        w.init_snap = None;
        w.no_pay.clear();
        w.idle_since = None;
        w.waiting_since = None;
        w.obs.push("out=[] resp=[] pay=[]".into());
        ctx.count("crashes");
    }
    // a task of the plugin that panicked in the background (the calls themselves are guarded separately): C06's "no request can
    // make the handler panic" covers the lifecycle task a request starts. K4's `todo!()` is reported through its hang.
    {
        let msgs: Vec<String> = crate::PANICS.lock().map(|v| v[panics_before.min(v.len())..].to_vec()).unwrap_or_default();
        for m in msgs {
            if m.contains("Failed to await pending payment") { ctx.count("panic:todo(K4)"); continue; }
            let first = m.replace('\n', " ");
            ctx.violation("C06", "task-panic", &format!("a task of the plugin panicked: {} REPLAY[{}]", first, replay(&w)));
            break;
        }
    }
    if let Some(detail) = pending_control.take() {
        // the same actions without the second hash: if the calls are answered then, the frozen hash was the cause
        let mut ctrl = Ctx::new("control", ctx.seed, false, &format!("{}/control", ctx.dir), None);
        // the branch `select!` polls first depends on how many RNG draws the runtime has made, which the second hash's
        // tasks shift: the control is repeated for several select seeds, a hang under any of them exonerates the other hash
        for k in 0..32u64 {
            let gc = Gen { faults_w: false, faults_r: false, crashes: false, lost: false, replay: false, coop: None, other: false, other_depth: 0, hold_first: 0, select_seed: Some(w.select_seed.wrapping_add(k)) };
            run_case(&mut ctrl, rng, sock, open, SCfg { ..w.cfg }, w.acts.clone(), 0, &gc);
            if ctrl.hangs > 0 { break; }
        }
        if ctrl.hangs > 0 { ctx.violation("C06", "hang", &detail); }
        else { ctx.violation("C14,C06", "hang:other-hash-frozen", &format!("(answered when the other hash is absent; other hash frozen after {} of its RPCs) {}", w.other_depth, detail)); }
    }
    if let Some((oh, _, _)) = w.other.clone() {
        ctx.count("case:with-frozen-other-hash");
        // the frozen hash must have issued exactly its own state lookup and nothing else, and must still be held
        let oinv3 = w.other.as_ref().map(|o| o.2.clone()).unwrap_or_default();
        let n = w.node.lock().unwrap();
        let mine: Vec<String> = n.log.iter().filter(|l| l.contains(oh.as_str()) || l.contains(oinv3.as_str())).cloned().collect();
        if mine.len() > w.other_frozen_log { ctx.violation("C14", "other-hash-progressed", &format!("the frozen hash issued {:?} after it was frozen (depth {}) REPLAY[{}]", &mine[w.other_frozen_log..], w.other_depth, replay(&w))); }
        if w.other_depth == 0 {
            if mine.iter().any(|l| !l.starts_with("listdatastore")) { ctx.violation("C14", "other-hash-progressed", &format!("the frozen hash issued {:?} although its first RPC was never answered REPLAY[{}]", mine, replay(&w))); }
            let state_b = n.ds.keys().any(|k| k.iter().any(|x| x == &oh));
            if state_b { ctx.violation("C14", "other-hash-stored", &format!("datastore holds entries of the frozen hash REPLAY[{}]", replay(&w))); }
        }
        ctx.count(&format!("case:other-frozen-depth-{}", w.other_depth));
    }
    let line = format!("sy {} {}", header(&w), if w.acts.is_empty() { "-".to_string() } else { w.acts.join(" ") });
    let paid = w.obs.iter().any(|o| !o.ends_with("pay=[]"));
    ctx.case(&line, &w.obs.join(" | "), paid || w.life > 0);
    ctx.count(if paid { "case:pay-issued" } else { "case:no-pay" });
    if w.calls.iter().any(|c| c.resp.as_deref().map(|r| r.starts_with("res:")).unwrap_or(false)) { ctx.count("case:resolved"); }
    if w.calls.iter().any(|c| c.resp.as_deref().map(|r| r.starts_with("fail:")).unwrap_or(false)) { ctx.count("case:failed"); }
    ctx.add("actions", w.acts.len() as u64);
    w.acts.clone()
}

/// every crash point and every single write fault along a cooperative run (C08/C09 enumeration)
fn enumerate_faults(ctx: &mut Ctx, rng: &mut Rng, sock: &str, lost: bool) {
    for complete in [true, false] {
        for open in [false, true] {
            let nd = 1_006_000u64;
            let first = format!("ar:0:1000000:{}:1400:300:{}", nd, nd);
            let g0 = Gen { faults_w: false, faults_r: false, crashes: false, lost: false, replay: false, coop: Some(complete), other: false, other_depth: 0, hold_first: 0, select_seed: None };
            let base = run_case(ctx, rng, sock, open, default_cfg(), vec![first.clone()], 60, &g0);
            // the cooperative part ends where the drain would start: keep the prefix up to the first probe arrival
            let end = base.iter().skip(1).position(|a| a.starts_with("ar:")).map(|p| p + 1).unwrap_or(base.len());
            let base: Vec<String> = base[..end].to_vec();
            for k in 1..=base.len() {
                // crash after the k-th action
                let mut sc: Vec<String> = base[..k].to_vec(); sc.push("cr".into());
                let g = Gen { faults_w: false, faults_r: false, crashes: false, lost: false, replay: false, coop: None, other: false, other_depth: 0, hold_first: 0, select_seed: None };
                run_case(ctx, rng, sock, open, default_cfg(), sc, 0, &g); ctx.count("enum:crash-point");
                // the k-th action, if it serves a write, with each fault
                if k < base.len() { if let Some(tok) = base[k].strip_prefix("s:") { if tok.starts_with("ws") || tok.starts_with("wa") {
                    let kinds: &[&str] = if lost { &["fL"] } else { &["fR", "fA"] };
                    for f in kinds {
                        let mut sc: Vec<String> = base[..k].to_vec(); sc.push(format!("{}:{}", f, tok));
                        let g = Gen { faults_w: false, faults_r: false, crashes: false, lost, replay: false, coop: Some(complete), other: false, other_depth: 0, hold_first: 0, select_seed: None };
                        run_case(ctx, rng, sock, open, default_cfg(), sc.clone(), 80, &g); ctx.count("enum:write-fault");
                        // … and a crash right after the faulty write
                        sc.push(format!("d:{}", tok)); sc.push("cr".into());
                        let g = Gen { faults_w: false, faults_r: false, crashes: false, lost, replay: false, coop: None, other: false, other_depth: 0, hold_first: 0, select_seed: None };
                        run_case(ctx, rng, sock, open, default_cfg(), sc, 0, &g); ctx.count("enum:write-fault-then-crash");
                    }
                } } }
            }
        }
    }
}

/// a bookkeeper of a finished lifecycle (still writing its result) overlapping with the next
/// lifecycle of the same hash: hold the bookkeeper's first or second write, let a retry run k steps
/// in a cooperative environment, release the write, continue (C05/C08: generation guard).
fn enumerate_overlap(ctx: &mut Ctx, rng: &mut Rng, sock: &str) {
    let nd = 1_006_000u64;
    let ar = format!("ar:0:1000000:{}:1400:300:{}", nd, nd);
    for open in [false, true] {
        for first_complete in [false, true] {
            let g0 = Gen { faults_w: false, faults_r: false, crashes: false, lost: false, replay: false, coop: Some(first_complete), other: false, other_depth: 0, hold_first: 0, select_seed: None };
            let base = run_case(ctx, rng, sock, open, default_cfg(), vec![ar.clone()], 60, &g0);
            let first_bk = if first_complete { format!("s:wsS{}:cor", PRE) } else { "s:wa1:cor".to_string() };
            let j = match base.iter().position(|a| *a == first_bk) { Some(j) => j, None => continue };
            for hold_at in [j, j + 2] {
                if hold_at >= base.len() || !base[hold_at].starts_with("s:w") { continue; }
                let held_tok = base[hold_at].clone();
                for second_complete in [true, false] {
                    let mut s0: Vec<String> = base[..hold_at].to_vec(); s0.push(ar.clone());
                    let g = Gen { faults_w: false, faults_r: false, crashes: false, lost: false, replay: false, coop: Some(second_complete), other: false, other_depth: 0, hold_first: 1, select_seed: None };
                    let full = run_case(ctx, rng, sock, open, default_cfg(), s0.clone(), 80, &g); ctx.count("enum:overlap");
                    let tail: Vec<String> = full[s0.len().min(full.len())..].to_vec();
                    let cut = tail.iter().position(|a| *a == held_tok).unwrap_or(tail.len());
                    for k in 0..cut {
                        let mut sc = s0.clone(); sc.extend(tail[..k].iter().cloned());
                        // release: the held write is the oldest parked request, the cooperative environment serves it first
                        let g = Gen { faults_w: false, faults_r: false, crashes: false, lost: false, replay: false, coop: Some(second_complete), other: false, other_depth: 0, hold_first: 0, select_seed: None };
                        run_case(ctx, rng, sock, open, default_cfg(), sc.clone(), 80, &g); ctx.count("enum:overlap");
                        // … and the same with a crash right after the released write was applied
                        sc.push(held_tok.clone()); sc.push(format!("d:{}", &held_tok[2..])); sc.push("cr".into());
                        let g = Gen { faults_w: false, faults_r: false, crashes: false, lost: false, replay: false, coop: None, other: false, other_depth: 0, hold_first: 0, select_seed: None };
                        run_case(ctx, rng, sock, open, default_cfg(), sc, 0, &g); ctx.count("enum:overlap-then-crash");
                    }
                }
            }
        }
    }
}

/// the interrupted attempt still has pending parts when the HTLCs are replayed (restart path inside
/// `wait_payment`), and the same inside the pay wrapper without a restart: every outcome and order of
/// one or two parts, including a part that resolves between the two listings (C02, C15, C16).
fn enumerate_restart(ctx: &mut Ctx, rng: &mut Rng, sock: &str) {
    let nd = 1_006_000u64;
    let ar = format!("ar:0:1000000:{}:1400:300:{}", nd, nd);
    let pre: Vec<String> = [ar.as_str(), "s:dl", "d:dl", "s:wsP1:cor", "d:wsP1:cor", "s:wa1:mc", "d:wa1:mc"].iter().map(|x| x.to_string()).collect();
    let outcomes1: Vec<Vec<&str>> = vec![vec!["r1:c77", "s:w1", "d:w1"], vec!["r1:f", "s:w1", "d:w1"]];
    let outcomes2: Vec<Vec<&str>> = vec![
        vec!["r1:f", "s:w1", "d:w1", "r2:c77", "s:w2", "d:w2"], vec!["r2:c77", "s:w2", "d:w2", "r1:f", "s:w1", "d:w1"],
        vec!["r1:f", "r2:f", "s:w2", "d:w2", "s:w1", "d:w1"], vec!["r1:f", "s:w1", "r2:c77", "s:w2", "d:w2", "d:w1"],
        vec!["r1:c77", "r2:f", "s:w2", "d:w2", "s:w1", "d:w1"], vec!["r1:f", "s:w1", "d:w1", "r2:f", "s:w2", "d:w2"]];
    for open in [false, true] {
        for nparts in [1usize, 2] {
            let creates: Vec<String> = (1..=nparts).map(|i| format!("c{}", i)).collect();
            let outs = if nparts == 1 { &outcomes1 } else { &outcomes2 };
            for restart in [true, false] {
                // how the plugin gets into wait_payment: after a crash (replayed HTLC) or because pay returned without a result
                let enter: Vec<String> = if restart { vec!["cr".into(), ar.clone(), "s:dl".into(), "d:dl".into()] } else { vec![(*rng.pick(&["pe:pending", "pe:failed", "pe:failedwarn", "pe:err", "pe:conn"])).to_string(), "d:pay".into()] };
                for between in [false, true] {
                    for o in outs.iter() {
                        let mut sc = pre.clone(); sc.extend(creates.iter().cloned()); sc.extend(enter.iter().cloned());
                        sc.push("s:lp".into()); sc.push("d:lp".into());
                        if between { sc.push("r1:c77".into()); }
                        sc.push("s:lc".into()); sc.push("d:lc".into());
                        sc.extend(o.iter().map(|x| x.to_string()));
                        let g = Gen { faults_w: false, faults_r: false, crashes: false, lost: false, replay: false, coop: Some(true), other: false, other_depth: 0, hold_first: 0, select_seed: None };
                        run_case(ctx, rng, sock, open, default_cfg(), sc, 40, &g); ctx.count("enum:restart-pending-parts");
                    }
                }
            }
        }
    }
}

/// restart with a stored in-flight marker whose attempt time is older / newer than the wall clock by a
/// chosen amount (the clock may have been stepped back), nothing live, an INCOMPLETE replayed set: the
/// set must be failed after exactly what is left of one timeout, never more than one timeout (C11)
fn enumerate_restart_clock(ctx: &mut Ctx, rng: &mut Rng, sock: &str) {
    let nd = 1_006_000u64;
    let full = format!("ar:0:1000000:{}:1400:300:{}", nd, nd);
    let part = format!("ar:0:1000000:{}:1400:300:{}", nd / 2, nd);
    for open in [false, true] {
        for shift in ["tb600", "tb61", "tb5", "tw1", "tw30", "tw59", "tw60", "tw61", "tw600"] {
            for crash_at in [5usize, 7] {   // after the marker write / after both writes of add_payment_attempt
                let pre: Vec<&str> = vec![full.as_str(), "s:dl", "d:dl", "s:wsP1:cor", "d:wsP1:cor", "s:wa1:mc", "d:wa1:mc"];
                let mut sc: Vec<String> = pre[..crash_at].iter().map(|x| x.to_string()).collect();
                sc.push("cr".into()); sc.push(shift.into()); sc.push(part.clone());
                for t in ["s:dl", "d:dl", "s:lp", "d:lp", "s:lc", "d:lc", "s:wa1:cor", "d:wa1:cor", "s:wsF:mr0", "d:wsF:mr0", "tm29", "tm1", "tm29", "tm1", "tm1", "tm59", "tm1", "tm1"] { sc.push(t.into()); }
                let g = Gen { faults_w: false, faults_r: false, crashes: false, lost: false, replay: false, coop: Some(false), other: false, other_depth: 0, hold_first: 0, select_seed: None };
                run_case(ctx, rng, sock, open, default_cfg(), sc, 40, &g); ctx.count("enum:restart-clock");
            }
        }
    }
}

/// the chain advances while a set is being collected until the earliest held expiry is closer than /
/// exactly at / just beyond the safety delta when the payment is initiated (C04: the delay granted must be
/// floored at zero, never the policy delta)
fn enumerate_height(ctx: &mut Ctx, rng: &mut Rng, sock: &str) {
    let nd = 1_006_000u64;
    for open in [false, true] {
        for d in [0u32, 1, 10, 33, 34, 35, 36, 100, 178] {
            // first part: expiry 1300 (height 1000); the chain then advances to 1300 - d; the second part completes the set
            let sc: Vec<String> = vec![
                format!("ar:0:1000000:{}:1300:300:{}", nd / 2, nd), "s:dl".into(), "d:dl".into(),
                format!("bl{}", 1300 - d),
                format!("ar:0:1000000:{}:{}:{}:{}", nd - nd / 2, 1300 - d + 500, 500, nd)];
            let g = Gen { faults_w: false, faults_r: false, crashes: false, lost: false, replay: false, coop: Some(true), other: false, other_depth: 0, hold_first: 0, select_seed: None };
            run_case(ctx, rng, sock, open, default_cfg(), sc, 40, &g); ctx.count("enum:height-near-expiry");
        }
    }
}

pub fn run(mut ctx: Ctx) {
    let mut rng = Rng::new(ctx.seed);
    let sock = format!("{}/system.sock", ctx.dir);
    if let Some(path) = ctx.replay.clone() {
        for line in std::fs::read_to_string(path).expect("replay").lines() {
            // VERIF_REPLAY_DRAIN=1: after the script the drain and probe phases run (hang / unpayable verdicts need them)
            let drain = std::env::var("VERIF_REPLAY_DRAIN").map(|v| v == "1").unwrap_or(false);
            let od = parse_other(line);
            if let Some((cfg, open, script)) = parse_line(line) { let l = script.len(); run_case(&mut ctx, &mut rng, &sock, open, cfg, script, if drain { 0 } else { l }, &Gen { faults_w: false, faults_r: false, crashes: false, lost: false, replay: !drain, coop: None, other: od.is_some(), other_depth: od.unwrap_or(0), hold_first: 0, select_seed: parse_select_seed(line) }); }
        }
        ctx.finish("replay", "");
        return;
    }
    // the witnesses of the known findings K2, K3, K4 (read faults: thorough tier only), so that they are exercised on every
    // thorough run whatever the random schedules happen to reach
    if ctx.thorough { if let Ok(c) = std::fs::read_to_string("/verif/corpus/system/cases-thorough.txt") {
        for line in c.lines() { if let Some((cfg, open, script)) = parse_line(line) { let l = script.len(); run_case(&mut ctx, &mut rng, &sock, open, cfg, script, l, &Gen { faults_w: false, faults_r: true, crashes: false, lost: false, replay: false, coop: None, other: false, other_depth: 0, hold_first: 0, select_seed: parse_select_seed(line) }); ctx.count("corpus:known-findings"); } }
    } }
    if let Ok(c) = std::fs::read_to_string("/verif/corpus/system/cases.txt") {
        for line in c.lines() { let od = parse_other(line); if let Some((cfg, open, script)) = parse_line(line) { let l = script.len(); run_case(&mut ctx, &mut rng, &sock, open, cfg, script, l, &Gen { faults_w: false, faults_r: false, crashes: false, lost: false, replay: false, coop: None, other: od.is_some(), other_depth: od.unwrap_or(0), hold_first: 0, select_seed: parse_select_seed(line) }); ctx.count("corpus"); } }
    }
    enumerate_faults(&mut ctx, &mut rng, &sock, false);
    enumerate_overlap(&mut ctx, &mut rng, &sock);
    enumerate_restart(&mut ctx, &mut rng, &sock);
    enumerate_restart_clock(&mut ctx, &mut rng, &sock);
    enumerate_height(&mut ctx, &mut rng, &sock);
    if ctx.thorough { enumerate_faults(&mut ctx, &mut rng, &sock, true); }
    let n = if ctx.thorough { 6000 } else { 300 };
    for i in 0..n {
        let open = i % 4 == 3;
        let mut cfg = default_cfg();
        if i % 9 == 8 { cfg.mpp = *rng.pick(&[0u64, 1, 30]); }
        // other policies (validated combinations only: policy delta > safety delta)
        if i % 7 == 6 {
            let (cd, pd) = *rng.pick(&[(10u16, 40u16), (34, 35), (100, 2016), (1, 65535), (143, 144)]);
            cfg.cltv_delta = cd; cfg.policy_delta = pd;
            cfg.base = *rng.pick(&[0u32, 1, 1000, 4_294_967_295]);
            cfg.ppm = *rng.pick(&[0u32, 1, 5000, 1_000_000, 4_294_967_295]);
        }
        let g = Gen { faults_w: i % 3 == 1, faults_r: ctx.thorough && i % 10 == 9, crashes: i % 2 == 1, lost: ctx.thorough && i % 17 == 16, replay: false, coop: None, other: i % 4 == 2, other_depth: (i / 4) % 8, hold_first: 0, select_seed: None };
        let len = 25 + rng.below(40) as usize;
        run_case(&mut ctx, &mut rng, &sock, open, cfg, vec![], len, &g);
    }
    let _ = std::fs::remove_file(&sock);
    ctx.finish(
        "schedules of 25–65 actions over the real HtlcManager+ClnDatastore+PayPaymentProvider<Rpc>+BlockWatcher: 1–7 HTLC calls (under/exact/over-funded, low/negative relative expiry, declared total too low, conflicting invoice string or amount), every RPC served and delivered separately, part creation/resolution, every pay outcome, virtual and wall time steps, blocks, write faults in 1/3, crashes in 1/2 (read faults in 1/10 of the thorough tier); non-trivial = a pay RPC was issued or a crash happened; distinct = distinct schedule line",
        "",
    );
}

pub fn parse_other(line: &str) -> Option<usize> {
    let w: Vec<&str> = line.split_whitespace().collect();
    let h: Vec<u64> = w.get(1)?.split(',').map(|x| x.parse().unwrap_or(0)).collect();
    match h.get(6) { Some(d) if *d > 0 => Some(*d as usize - 1), _ => None }
}

pub fn parse_select_seed(line: &str) -> Option<u64> {
    let w: Vec<&str> = line.split_whitespace().collect();
    w.get(1)?.split(',').nth(7).and_then(|x| x.parse().ok())
}

pub fn parse_line(line: &str) -> Option<(SCfg, bool, Vec<String>)> {
    let w: Vec<&str> = line.split_whitespace().collect();
    if w.len() < 2 || w[0] != "sy" { return None; }
    let h: Vec<u64> = w[1].split(',').map(|x| x.parse().unwrap_or(0)).collect();
    if h.len() < 6 { return None; }
    Some((SCfg { cltv_delta: h[0] as u16, policy_delta: h[1] as u16, base: h[2] as u32, ppm: h[3] as u32, mpp: h[4] }, h[5] == 1, w[2..].iter().filter(|x| **x != "-").map(|x| x.to_string()).collect()))
}
