//! Correspondence harness: compiles the CURRENT /repo/src into this crate (by path) and drives the
//! real code; writes protocol files that the Lean `driver` re-computes from the model, plus
//! implementation-level oracle verdicts that do not involve the Lean model at all.
#![allow(dead_code, unused_imports, clippy::all)]

use anyhow::Error; // codec.rs refers to crate::Error

#[path = "/repo/src/block_watcher.rs"]
mod block_watcher;
#[path = "/repo/src/cln_plugin/mod.rs"]
mod cln_plugin;
#[path = "/repo/src/email.rs"]
mod email;
#[path = "/repo/src/htlc_manager.rs"]
mod htlc_manager;
#[path = "/repo/src/messages.rs"]
mod messages;
#[path = "/repo/src/payment_provider.rs"]
mod payment_provider;
#[path = "/repo/src/plugin.rs"]
mod plugin;
#[path = "/repo/src/rpc.rs"]
mod rpc;
#[path = "/repo/src/store.rs"]
mod store;
#[path = "/repo/src/tlv.rs"]
mod tlv;

mod node;
mod out;
mod rng;
mod suite_classify;
mod suite_e2e;
mod suite_fee;
mod suite_height;
mod suite_provider;
mod suite_system;
mod suite_tlv;
mod suite_wire;

fn main() {
    let args: Vec<String> = std::env::args().collect();
    if args.len() < 2 {
        eprintln!("usage: harness <suite> [--seed N] [--tier quick|thorough] [--out DIR] [--replay FILE]");
        std::process::exit(2);
    }
    let suite = args[1].clone();
    let mut seed: u64 = 1;
    let mut tier = String::from("quick");
    let mut out = String::from("/verif/build/run");
    let mut replay: Option<String> = None;
    let mut i = 2;
    while i < args.len() {
        match args[i].as_str() {
            "--seed" => { seed = args[i + 1].parse().expect("seed"); i += 2; }
            "--tier" => { tier = args[i + 1].clone(); i += 2; }
            "--out" => { out = args[i + 1].clone(); i += 2; }
            "--replay" => { replay = Some(args[i + 1].clone()); i += 2; }
            other => { eprintln!("unknown argument {}", other); std::process::exit(2); }
        }
    }
    // Panics of the code under test are caught per case; keep stderr quiet.
    std::panic::set_hook(Box::new(|info| { if let Ok(mut l) = LAST_PANIC.lock() { *l = info.to_string(); } if let Ok(mut v) = PANICS.lock() { v.push(info.to_string()); } }));
    let thorough = tier == "thorough";
    let ctx = out::Ctx::new(&suite, seed, thorough, &out, replay);
    let r = std::panic::catch_unwind(std::panic::AssertUnwindSafe(move || run_suite(&suite, ctx)));
    if r.is_err() {
        eprintln!("HARNESS-PANIC (outside any per-case guard): {}", LAST_PANIC.lock().map(|l| l.clone()).unwrap_or_default());
        std::process::exit(101);
    }
}

static LAST_PANIC: std::sync::Mutex<String> = std::sync::Mutex::new(String::new());
/// every panic message seen by the hook (tasks of the code under test that panic in the background are only visible here)
pub static PANICS: std::sync::Mutex<Vec<String>> = std::sync::Mutex::new(Vec::new());

fn run_suite(suite: &str, ctx: out::Ctx) {
    match suite {
        "tlv" => suite_tlv::run(ctx),
        "fee" => suite_fee::run(ctx),
        "classify" => suite_classify::run(ctx),
        "provider" => suite_provider::run(ctx),
        "height" => suite_height::run(ctx),
        "wire" => suite_wire::run(ctx),
        "e2e" => suite_e2e::run(ctx),
        "system" => suite_system::run(ctx),
        other => { eprintln!("unknown suite {}", other); std::process::exit(2); }
    }
}
