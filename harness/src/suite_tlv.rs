//! Suite `tlv`: drives the real `SerializedTlvStream::{from_bytes,try_from,to_bytes,get,remove}`,
//! `get_tu64`, `get_compact_size`, `put_compact_size` and checks them against an independent
//! BigSize/TLV reference codec (oracle for C18; panics also concern C06/C13).
use std::panic::{catch_unwind, AssertUnwindSafe};

use crate::out::{hex, unhex, Ctx};
use crate::rng::Rng;
use crate::tlv::{FromBytes, ProtoBuf, ProtoBufMut, SerializedTlvStream, TlvEntry, ToBytes};

pub type Rec = (u64, Vec<u8>);

// ---------- observation of the real code ----------

/// `get_compact_size` returns `u64` on the pinned tree and a `Result` once reads are checked;
/// accept both so that the harness compiles against either.
pub trait CsOut { fn norm(self) -> Result<u64, ()>; }
impl CsOut for u64 { fn norm(self) -> Result<u64, ()> { Ok(self) } }
impl<E> CsOut for Result<u64, E> { fn norm(self) -> Result<u64, ()> { self.map_err(|_| ()) } }

/// The entries are private; `Debug` is the only complete view. Parse
/// `SerializedTlvStream { entries: [TlvEntry { typ: 1, value: [170, 187] }, ...] }`.
pub fn entries_of(s: &SerializedTlvStream) -> Vec<Rec> {
    let d = format!("{:?}", s);
    let mut out = Vec::new();
    let mut rest = d.as_str();
    while let Some(p) = rest.find("typ: ") {
        rest = &rest[p + 5..];
        let end = rest.find(',').expect("typ end");
        let typ: u64 = rest[..end].trim().parse().expect("typ");
        let vp = rest.find("value: [").expect("value");
        rest = &rest[vp + 8..];
        let ve = rest.find(']').expect("value end");
        let body = rest[..ve].trim();
        let value: Vec<u8> = if body.is_empty() { vec![] } else {
            body.split(',').map(|x| x.trim().parse::<u8>().expect("byte")).collect()
        };
        out.push((typ, value));
        rest = &rest[ve..];
    }
    out
}

pub fn show_entries(es: &[Rec]) -> String {
    if es.is_empty() { return "-".into(); }
    es.iter().map(|(t, v)| format!("{}:{}", t, hex(v))).collect::<Vec<_>>().join(";")
}

pub fn parse_entries(s: &str) -> Vec<Rec> {
    if s == "-" { return vec![]; }
    s.split(';').map(|e| { let mut it = e.split(':'); (it.next().unwrap().parse().unwrap(), unhex(it.next().unwrap())) }).collect()
}

pub fn stream_of(es: &[Rec]) -> SerializedTlvStream {
    SerializedTlvStream::from(es.iter().map(|(t, v)| TlvEntry { typ: *t, value: v.clone() }).collect::<Vec<_>>())
}

pub fn real_fb(b: &[u8]) -> Result<Result<Vec<Rec>, ()>, ()> {
    let v = b.to_vec();
    catch_unwind(AssertUnwindSafe(|| SerializedTlvStream::from_bytes(v).map(|s| entries_of(&s)).map_err(|_| ()))).map_err(|_| ())
}
pub fn real_tf(b: &[u8]) -> Result<Result<Vec<Rec>, ()>, ()> {
    let v = b.to_vec();
    catch_unwind(AssertUnwindSafe(|| SerializedTlvStream::try_from(v).map(|s| entries_of(&s)).map_err(|_| ()))).map_err(|_| ())
}
fn show_dec(r: &Result<Result<Vec<Rec>, ()>, ()>) -> String {
    match r { Err(_) => "panic".into(), Ok(Err(_)) => "err".into(), Ok(Ok(es)) => format!("ok {}", show_entries(es)) }
}
pub fn real_tb(es: &[Rec]) -> Result<Vec<u8>, ()> {
    let s = stream_of(es);
    catch_unwind(AssertUnwindSafe(|| SerializedTlvStream::to_bytes(s))).map_err(|_| ())
}
fn real_tu(b: &[u8]) -> String {
    let v = b.to_vec();
    match catch_unwind(AssertUnwindSafe(|| { let mut bb: bytes::Bytes = v.into(); bb.get_tu64().map_err(|_| ()) })) {
        Err(_) => "panic".into(), Ok(Err(_)) => "err".into(), Ok(Ok(n)) => format!("ok {}", n),
    }
}
fn real_gcs(b: &[u8]) -> String {
    let v = b.to_vec();
    match catch_unwind(AssertUnwindSafe(|| { let mut s: &[u8] = &v; let r = s.get_compact_size().norm(); r.map(|n| (n, s.to_vec())) })) {
        Err(_) => "panic".into(), Ok(Err(_)) => "err".into(), Ok(Ok((n, rest))) => format!("ok {} {}", n, hex(&rest)),
    }
}
fn real_pcs(n: u64) -> Vec<u8> { let mut b = bytes::BytesMut::new(); b.put_compact_size(n); b.to_vec() }

// ---------- independent reference (BOLT 1 BigSize, strict) ----------

pub fn ref_put_bigsize(n: u64, out: &mut Vec<u8>) {
    if n < 0xfd { out.push(n as u8) }
    else if n <= 0xffff { out.push(0xfd); out.extend_from_slice(&(n as u16).to_be_bytes()) }
    else if n <= 0xffff_ffff { out.push(0xfe); out.extend_from_slice(&(n as u32).to_be_bytes()) }
    else { out.push(0xff); out.extend_from_slice(&n.to_be_bytes()) }
}
/// strict: minimal encodings only
fn ref_get_bigsize(b: &[u8]) -> Option<(u64, &[u8])> {
    let (&f, r) = b.split_first()?;
    let (w, min): (usize, u128) = match f { 0xfd => (2, 0xfd), 0xfe => (4, 0x1_0000), 0xff => (8, 0x1_0000_0000), v => return Some((v as u64, r)) };
    if r.len() < w { return None; }
    let mut n: u128 = 0;
    for x in &r[..w] { n = (n << 8) | (*x as u128); }
    if n < min { return None; }
    Some((n as u64, &r[w..]))
}
pub fn ref_encode(rs: &[Rec]) -> Vec<u8> {
    let mut out = Vec::new();
    for (t, v) in rs { ref_put_bigsize(*t, &mut out); ref_put_bigsize(v.len() as u64, &mut out); out.extend_from_slice(v); }
    out
}
/// Some(records) iff `b` is exactly a concatenation of canonically encoded records.
pub fn ref_decode(mut b: &[u8]) -> Option<Vec<Rec>> {
    let mut out = Vec::new();
    while !b.is_empty() {
        let (t, r) = ref_get_bigsize(b)?;
        let (l, r) = ref_get_bigsize(r)?;
        if (r.len() as u128) < l as u128 { return None; }
        out.push((t, r[..l as usize].to_vec()));
        b = &r[l as usize..];
    }
    Some(out)
}

// ---------- cases ----------

fn one_bytes(ctx: &mut Ctx, b: &[u8]) {
    let nontriv = b.len() >= 2;
    let fb = real_fb(b);
    ctx.case(&format!("fb {}", hex(b)), &show_dec(&fb), nontriv);
    let tf = real_tf(b);
    ctx.case(&format!("tf {}", hex(b)), &show_dec(&tf), nontriv);
    match &fb { Err(_) => ctx.count("fb:panic"), Ok(Err(_)) => ctx.count("fb:err"), Ok(Ok(es)) => ctx.count(&format!("fb:ok:{}rec", es.len().min(3))) }
    match &tf { Err(_) => ctx.count("tf:panic"), Ok(Err(_)) => ctx.count("tf:err"), Ok(Ok(_)) => ctx.count("tf:ok") }
    // oracle: totality
    if fb.is_err() { ctx.violation("C18,C06,C13", "tlv-panic:from_bytes", &format!("from_bytes({}) panicked", hex(b))); }
    if tf.is_err() { ctx.violation("C18,C06,C13", "tlv-panic:try_from", &format!("try_from({}) panicked", hex(b))); }
    // oracle: decode∘encode on valid streams
    if let Some(recs) = ref_decode(b) {
        ctx.count("canonical-input");
        match &fb {
            Ok(Ok(es)) if *es == recs => {
                match real_tb(es) {
                    Ok(back) if back == b => {}
                    other => ctx.violation("C18", "tlv-roundtrip:decode-encode", &format!("to_bytes(from_bytes({})) = {:?}", hex(b), other.map(|x| hex(&x)))),
                }
            }
            other => ctx.violation("C18", "tlv-roundtrip:decode", &format!("from_bytes({}) = {} but the reference decodes {}", hex(b), show_dec(other), show_entries(&recs))),
        }
    }
}

fn one_records(ctx: &mut Ctx, rs: &[Rec]) {
    let enc = real_tb(rs);
    let shown = match &enc { Ok(b) => hex(b), Err(_) => "panic".into() };
    ctx.case(&format!("tb {}", show_entries(rs)), &shown, !rs.is_empty());
    ctx.count(&format!("tb:{}rec", rs.len().min(4)));
    match enc {
        Err(_) => ctx.violation("C18,C06", "tlv-panic:to_bytes", &format!("to_bytes({}) panicked", show_entries(rs))),
        Ok(b) => {
            if b != ref_encode(rs) { ctx.violation("C18", "tlv-encode", &format!("to_bytes({}) = {} differs from the reference", show_entries(rs), hex(&b))); }
            match real_fb(&b) {
                Ok(Ok(es)) if es == rs => {}
                other => ctx.violation("C18", "tlv-roundtrip:encode-decode", &format!("from_bytes(to_bytes({})) = {}", show_entries(rs), show_dec(&other))),
            }
            one_bytes(ctx, &b);
        }
    }
}

fn one_tu(ctx: &mut Ctx, b: &[u8]) {
    let got = real_tu(b);
    ctx.case(&format!("tu {}", hex(b)), &got, !b.is_empty());
    ctx.count(&format!("tu:len{}", b.len().min(10)));
    let want = if b.len() > 8 { "err".to_string() } else { let mut n: u64 = 0; for x in b { n = (n << 8) | *x as u64; } format!("ok {}", n) };
    if got != want { ctx.violation("C18,C10", "tu64", &format!("get_tu64({}) = {} expected {}", hex(b), got, want)); }
}

fn one_cs(ctx: &mut Ctx, n: u64) {
    let b = real_pcs(n);
    ctx.case(&format!("pcs {}", n), &hex(&b), true);
    let mut r = Vec::new(); ref_put_bigsize(n, &mut r);
    if b != r { ctx.violation("C18", "bigsize-encode", &format!("put_compact_size({}) = {}", n, hex(&b))); }
    let mut with_tail = b.clone(); with_tail.push(0x5a);
    let g = real_gcs(&with_tail);
    ctx.case(&format!("gcs {}", hex(&with_tail)), &g, true);
    if g != format!("ok {} 5a", n) { ctx.violation("C18", "bigsize-decode", &format!("get_compact_size({}) = {}", hex(&with_tail), g)); }
}

fn one_getrm(ctx: &mut Ctx, rs: &[Rec], t: u64) {
    let s = stream_of(rs);
    let g = match s.get(t) { None => "none".to_string(), Some(e) => format!("{}:{}", e.typ, hex(&e.value)) };
    ctx.case(&format!("get {} {}", show_entries(rs), t), &g, !rs.is_empty());
    let mut s2 = stream_of(rs);
    s2.remove(t);
    let after = entries_of(&s2);
    ctx.case(&format!("rm {} {}", show_entries(rs), t), &show_entries(&after), !rs.is_empty());
    // oracle (C13): remove drops exactly the first record of that type and keeps everything else in order
    let mut want = rs.to_vec();
    if let Some(p) = want.iter().position(|(ty, _)| *ty == t) { want.remove(p); }
    if after != want { ctx.violation("C13", "tlv-remove", &format!("remove({}, {}) = {}", show_entries(rs), t, show_entries(&after))); }
}

pub const BOUNDARY: &[u64] = &[0, 1, 2, 15, 16, 17, 0xfc, 0xfd, 0xfe, 0xff, 0x100, 33001, 33003, 0xffff, 0x1_0000, 0x1_0001,
    0xffff_fffe, 0xffff_ffff, 0x1_0000_0000, 0x1_0000_0001, u64::MAX - 1, u64::MAX];
const VLEN: &[usize] = &[0, 0, 1, 1, 2, 3, 8, 9, 32, 0xfc, 0xfd, 0xfe, 300];

pub fn gen_records(rng: &mut Rng, big: bool) -> Vec<Rec> {
    let n = rng.below(5) as usize;
    (0..n).map(|_| {
        let t = if rng.coin(3, 4) { *rng.pick(BOUNDARY) } else { rng.next() >> rng.below(64) };
        let l = if big && rng.coin(1, 300) { *rng.pick(&[0xffffusize, 0x1_0000, 70000]) } else { *rng.pick(VLEN) };
        (t, rng.bytes(l))
    }).collect()
}

fn widen(rng: &mut Rng, rs: &[Rec]) -> Vec<u8> {
    // re-encode with a randomly non-minimal width for some integers
    let mut out = Vec::new();
    let put = |n: u64, out: &mut Vec<u8>, rng: &mut Rng| {
        let minw = if n < 0xfd { 1 } else if n <= 0xffff { 3 } else if n <= 0xffff_ffff { 5 } else { 9 };
        let w = *rng.pick(&[1usize, 3, 5, 9]);
        let w = w.max(minw);
        match w { 1 => out.push(n as u8), 3 => { out.push(0xfd); out.extend_from_slice(&(n as u16).to_be_bytes()) }
                  5 => { out.push(0xfe); out.extend_from_slice(&(n as u32).to_be_bytes()) }
                  _ => { out.push(0xff); out.extend_from_slice(&n.to_be_bytes()) } }
    };
    for (t, v) in rs { put(*t, &mut out, rng); put(v.len() as u64, &mut out, rng); out.extend_from_slice(v); }
    out
}

pub fn run(mut ctx: Ctx) {
    let mut rng = Rng::new(ctx.seed);
    if let Some(path) = ctx.replay.clone() {
        // replay file: lines `fb <hex>` / `tf <hex>` / `tb <entries>` / `tu <hex>`
        for line in std::fs::read_to_string(path).expect("replay").lines() {
            let w: Vec<&str> = line.split_whitespace().collect();
            match w.as_slice() {
                ["fb", h] | ["tf", h] | ["bytes", h] => one_bytes(&mut ctx, &unhex(h)),
                ["tb", e] => one_records(&mut ctx, &parse_entries(e)),
                ["tu", h] => one_tu(&mut ctx, &unhex(h)),
                _ => {}
            }
        }
        ctx.finish("replay", "");
        return;
    }
    // corpus of past failures first
    if let Ok(c) = std::fs::read_to_string("/verif/corpus/tlv/cases.txt") {
        for line in c.lines() {
            let w: Vec<&str> = line.split_whitespace().collect();
            match w.as_slice() { ["bytes", h] => { one_bytes(&mut ctx, &unhex(h)); ctx.count("corpus"); } ["tu", h] => one_tu(&mut ctx, &unhex(h)), _ => {} }
        }
    }
    // 1. exhaustive: every byte string of length ≤ 2
    one_bytes(&mut ctx, &[]);
    for a in 0..=255u8 { one_bytes(&mut ctx, &[a]); }
    for a in 0..=255u8 { for b in 0..=255u8 { one_bytes(&mut ctx, &[a, b]); } }
    // 2. reduced alphabet, lengths 3..=L
    let alpha: &[u8] = &[0x00, 0x01, 0x02, 0x10, 0xfc, 0xfd, 0xfe, 0xff];
    let maxlen = if ctx.thorough { 6 } else { 5 };
    for len in 3..=maxlen {
        let total = (alpha.len() as u64).pow(len as u32);
        for mut k in 0..total {
            let mut s = Vec::with_capacity(len);
            for _ in 0..len { s.push(alpha[(k % alpha.len() as u64) as usize]); k /= alpha.len() as u64; }
            one_bytes(&mut ctx, &s);
        }
    }
    if ctx.thorough {
        // all 3-byte strings over a 64-symbol alphabet
        let mut a64: Vec<u8> = (0..32u8).collect(); a64.extend(0xe0..=0xffu8);
        for &a in &a64 { for &b in &a64 { for &c in &a64 { one_bytes(&mut ctx, &[a, b, c]); } } }
    }
    // 3. BigSize boundaries and random values of every width
    for &n in BOUNDARY { one_cs(&mut ctx, n); }
    let n_cs = if ctx.thorough { 20000 } else { 2000 };
    for _ in 0..n_cs { let n = rng.next() >> rng.below(64); one_cs(&mut ctx, n); }
    // 4. tu64: every length 0..=10 with boundary contents
    for len in 0..=10usize {
        one_tu(&mut ctx, &vec![0u8; len]); one_tu(&mut ctx, &vec![0xffu8; len]);
        for _ in 0..(if ctx.thorough { 2000 } else { 200 }) { let b = rng.bytes(len); one_tu(&mut ctx, &b); }
    }
    // 5. structured streams, truncated at every offset, widened, spliced, both entry points
    let n_struct = if ctx.thorough { 60000 } else { 3000 };
    for i in 0..n_struct {
        let rs = gen_records(&mut rng, true);
        one_records(&mut ctx, &rs);
        let t = if rs.is_empty() || rng.coin(1, 4) { *rng.pick(BOUNDARY) } else { rs[rng.below(rs.len() as u64) as usize].0 };
        one_getrm(&mut ctx, &rs, t);
        let enc = ref_encode(&rs);
        if enc.len() <= 48 {
            for cut in 0..enc.len() { one_bytes(&mut ctx, &enc[..cut]); ctx.count("truncated"); }
        } else if enc.len() < 2000 || i % 20 == 0 {
            // record boundaries ±2 and a few random offsets
            let mut cuts: Vec<usize> = Vec::new();
            let mut off = 0usize;
            for r in &rs { let l = ref_encode(std::slice::from_ref(r)).len(); for d in 0..4 { cuts.push((off + d).min(enc.len())); } off += l; cuts.push(off.saturating_sub(1)); }
            for _ in 0..4 { cuts.push(rng.below(enc.len() as u64) as usize); }
            cuts.sort(); cuts.dedup();
            for cut in cuts { one_bytes(&mut ctx, &enc[..cut]); ctx.count("truncated"); }
        }
        let w = widen(&mut rng, &rs);
        one_bytes(&mut ctx, &w); ctx.count("widened");
        // length-prefixed entry point with correct / wrong / non-minimal prefix
        let mut pre = Vec::new();
        let plen = match rng.below(4) { 0 => enc.len() as u64, 1 => rng.below(enc.len() as u64 + 3), 2 => *rng.pick(BOUNDARY), _ => enc.len() as u64 + 1 };
        ref_put_bigsize(plen, &mut pre); pre.extend_from_slice(&enc);
        one_bytes(&mut ctx, &pre); ctx.count("prefixed");
        if enc.len() > 2 {
            let mut sp = enc.clone();
            let at = rng.below(sp.len() as u64) as usize;
            sp[at] = *rng.pick(&[0xfd, 0xfe, 0xff, 0x00, 0xfc]);
            one_bytes(&mut ctx, &sp); ctx.count("spliced");
        }
    }
    ctx.finish(
        "byte strings: exhaustive ≤2 bytes, 8-symbol alphabet to 5 (quick) / 6 (thorough) bytes, structured record lists with every BigSize width and boundary value, truncated at every offset, non-minimally widened, spliced, length-prefixed; non-trivial = input of ≥2 bytes (reaches the decode loop body) or a non-empty record list; distinct = distinct protocol input line",
        "all byte strings of length ≤ 2 through both entry points",
    );
}
