"""Tables used by bin/check: which theorems, suites and protocol ops each property rests on."""

TRUSTED_BASE = [
    "Lean 4.33 kernel (thorough tier: clean rebuild + leanchecker re-check of the property modules)",
    "axioms at most propext, Classical.choice, Quot.sound (audited per theorem with #print axioms on every run)",
    "the hand-written Lean model Tramp/Model/*.lean: it is tied to /repo/src only by the differential correspondence suites",
    "the Rust harness (/verif/harness), its generators' reach and its reference oracles; rustc/cargo",
]

# property -> Lean modules holding its theorems
PROP_MODULES = {
    "C18": ["Tramp.Props.C18"],
    "C12": ["Tramp.Props.C12", "Tramp.Props.C12Sys"],
    "C10": ["Tramp.Props.C10"],
    "C13": ["Tramp.Props.C13", "Tramp.Props.C18", "Tramp.Props.C13Sys"],
    "C15": ["Tramp.Props.C15"],
    "C16": ["Tramp.Props.C16"],
    "C20": ["Tramp.Props.C20"],
    "C17": ["Tramp.Props.C17"],
    "C19": ["Tramp.Props.C19"],
    "C01": ["Tramp.Props.C01"],
    "C02": ["Tramp.Props.C02", "Tramp.Props.C15", "Tramp.Props.C16"],
    "C03": ["Tramp.Props.C03", "Tramp.Props.C12"],
    "C04": ["Tramp.Props.C04", "Tramp.Props.C20"],
    "C05": ["Tramp.Props.C05"],
    "C07": ["Tramp.Props.C07"],
    "C08": ["Tramp.Props.C08"],
    "C11": ["Tramp.Props.C11"],
    "C06": ["Tramp.Props.C06", "Tramp.Props.C06Live", "Tramp.Props.C06Term", "Tramp.Props.C06Fair", "Tramp.Props.C11", "Tramp.Props.C17"],
    "C09": ["Tramp.Props.C09"],
    "C14": ["Tramp.Props.C14", "Tramp.Props.C14Live", "Tramp.Props.C14Term", "Tramp.Props.C14Fair"],
}

# property -> theorem names (in namespace Tramp) = the proof obligations
OBLIGATIONS = {
    "C18": [
        "c18_total_fromBytes", "c18_total_tryFrom", "c18_decode_encode", "c18_encode_decode", "c18_encode_injective",
        "c18_tu64_value", "c18_tu64_reject", "c18_bigsize_roundtrip", "c18_pinned_counterexample",
    ],
    "C12": [
        "c12_sound", "c12_exact_partial", "c12_mono_total", "c12_anti_policy", "c12_mul_overflow_false", "c12_total", "c12_encode",
        "c12_pinned_panics", "c12_pinned_wraps_true", "c12_mul_overflow_counterexample",
        "c12_failure_is_policy", "c12_first_htlc_rejected", "c12_first_htlc_answer", "c12_failure_bytes",
    ],
    "C10": [
        "c10_classify_iff", "c10_hash_eq", "c10_invoice_source", "c10_amount_rule", "c10_tlvAmount_wellformed",
        "c10_amount", "c10_selfhint_fails", "c10_pinned_counterexample",
    ],
    "C13": [
        "c13_immediate", "c13_forward", "c13_rewrite_records", "c13_rewrite_bytes",
        "c18_total_fromBytes", "c18_total_tryFrom", "c13_no_effect", "c13_tramp_one_component",
    ],
    "C15": ["pstep_inv", "c15_some", "c15_none", "c15_err_only_on_fault", "c15_codes", "c15_pinned_counterexample"],
    "C16": ["pstep_inv", "c16_ok", "c16_err", "c16_pinned_counterexample"],
    "C17": ["c17_chunking", "c17_chunking_from_start", "c17_roundtrip", "c17_writer", "c17_dispatch"],
    "C01": ["sstep_inv", "estep_inv", "c01_resolve_key", "c01_key_valid", "c01_pay_is_entry_invoice", "c10_hash_eq"],
    "C02": ["sstep_inv", "c02_fail_only_when_quiet", "c02_live_means_held_or_settled", "c02_restart_settles",
            "c02_readfault_counterexample", "c15_none", "c16_err"],
    "C03": ["sstep_inv", "estep_inv", "c03_pay_args", "c03_stay_held", "c03_ready_is_fee_test", "c12_sound"],
    "C04": ["sstep_inv", "estep_inv", "c04_bound", "c04_params", "c04_height", "c04_carried", "c04_unchanged",
            "c04_low_expiry_rejects", "c20_max", "PcPred.step", "exp_step", "c04_pay_delay_bounded", "c04_end_to_end"],
    "C05": ["sstep_inv", "c05_pay_only_when_quiet", "c05_never_again"],
    "C07": ["sstep_inv", "estep_inv", "c07_same_response", "c07_reject_sticks", "c07_reject_no_pay", "c07_single_shot"],
    "C08": ["sstep_inv", "c08_write_ahead", "c08_marker_while_paying", "c08_pending_before_pay",
            "c08_free_only_when_quiet", "c08_succeeded_preimage"],
    "C11": ["c11_timeout_fails", "c11_not_before", "c11_fresh_deadline", "c11_restart_budget", "c11_ttf_sources",
            "dl_step", "c11_deadline_bound", "c11_due_after_one_timeout"],
    "C06": ["sstep_inv", "estep_inv", "c06_no_panic", "c06_bytes_total", "c06_immediate_or_held", "c06_at_most_once",
            "c06_nonblocking_sends", "c06_owner_progress", "c06_pinned_overflow_panics", "c06_todo_counterexample",
            "c11_timeout_fails", "c17_dispatch", "once_step", "c06_at_most_once_run", "c11_deadline_bound",
            "c11_due_after_one_timeout", "ownerCont_meas", "c06_owner_steps_decrease", "c06_measure_wf",
            "linv_step", "progress_any", "c06_can_always_answer",
            "c06_internal_steps_decrease", "c06_term_measure_wf", "c06_no_infinite_internal_run", "c06_rest_waits",
            "keep_step", "owner_step_result", "FairRun.stuck_contra", "FairRun.c06_fair_run_answers", "FairRun.c06_fair_run_exactly_once"],
    "C09": ["c09_succeeded_settles", "c09_free_settles", "c09_pending_completed_settles", "c09_stale_pending_frees",
            "c09_pending_pays", "c09_from_wait", "c09_pinned_wedge"],
    "C14": ["c14_frame", "c14_own_state_only", "c14_frozen", "c14_no_pooling", "lift_run", "c14_progress_despite_frozen", "grun_reach", "c14_progress_despite_frozen_global", "c01_global", "c02_global", "c05_global", "c08_global", "c04_global", "c11_global", "rh_wf", "c14_no_infinite_internal_run", "GFairRun.c14_fair_run_answers", "GFairRun.c14_fair_run_exactly_once"],
    "C19": ["c19_iff", "c19_refuses_deltas", "c19_faithful", "c19_retry_cap", "c19_policy_fits", "c19_failure_carries_options"],
    "C20": ["c20_max", "c20_monotone", "c20_monotone_run", "c20_told_le", "c20_poll_catches_up", "c20_serve_truthful", "c20_timer_armed", "c20_timer_fires"],
}

# suite -> harness parameters
SUITES = {
    "tlv": {"profiles": ["dev"]},
    "fee": {"profiles": ["dev", "wrapping"]},
    "classify": {"profiles": ["dev"]},
    "provider": {"profiles": ["dev"]},
    "height": {"profiles": ["dev"]},
    "wire": {"profiles": ["dev"]},
    "e2e": {"profiles": ["dev"], "needs_repo_bin": True},
    "system": {"profiles": ["dev"]},
}

# property -> suites whose correspondence it depends on
PROP_SUITES = {
    "C18": ["tlv"],
    "C12": ["fee", "system"],
    "C10": ["classify", "tlv"],
    "C13": ["classify", "tlv", "e2e", "system"],
    "C15": ["provider"],
    "C16": ["provider"],
    "C20": ["height"],
    "C17": ["wire", "e2e"],
    "C19": ["e2e", "provider"],
    "C01": ["system", "classify"],
    "C02": ["system", "provider"],
    "C03": ["system", "fee", "classify"],
    "C04": ["system", "height"],
    "C05": ["system", "provider"],
    "C07": ["system", "classify"],
    "C08": ["system"],
    "C11": ["system"],
    "C06": ["system", "tlv", "classify", "e2e", "fee"],
    "C09": ["system"],
    "C14": ["system"],
}

# protocol op -> properties that a model/implementation divergence on that op un-proves
OP_PROPS = {
    "fb": ["C18", "C13", "C06", "C10"], "tf": ["C18", "C13", "C06"], "tb": ["C18", "C13"],
    "tu": ["C18", "C10"], "gcs": ["C18", "C13", "C06", "C10"], "pcs": ["C18", "C13"],
    "get": ["C13", "C10"], "rm": ["C13"],
    "fs": ["C12", "C03", "C06", "C07", "C04"], "ef": ["C12", "C11", "C06"],
    "cl": ["C10", "C13", "C01", "C06", "C03", "C07"],
    "hw": ["C20", "C04"], "wf": ["C17"], "wd": ["C17", "C06"],
    "sy": ["C01", "C02", "C03", "C04", "C05", "C06", "C07", "C08", "C09", "C11", "C12", "C13", "C14"],
    "cf": ["C19"], "hx": ["C06", "C13"],
    "pw": ["C15", "C16", "C02", "C05", "C08"], "pa": ["C16", "C19", "C03", "C04"],
}

PROP_TRUST = {}
PROP_ASSUME = {
    "C18": ["`valid BOLT TLV stream` is read as: a concatenation of records whose type and length are minimally encoded BigSize values (the ordering rule of BOLT 1 is not needed by the codec and not assumed)"],
    "C12": ["exactness is claimed for amount*ppm < 2^64; beyond it the code answers false (known finding K1, pinned by the repository's own test fee_mul_overflow)"],
}
