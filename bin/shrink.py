"""Shrinking of failing schedules of the `system` suite (delta debugging over action tokens).

A candidate schedule is written to a replay file and run by the harness on the real code
(`harness system --replay FILE`, with VERIF_REPLAY_DRAIN=1 the drain and probe phases run after the
script, which the hang/unpayable verdicts need); it is kept if the oracle reports the same
(property, signature) again. Tokens that are no longer applicable are skipped by the harness itself.
"""
import os, re, subprocess, tempfile, time, shutil

DRAIN_SIGS = ("hang", "unpayable", "probe-hang")


def _run(harness, line, prop, sig, workdir, drain):
    f = os.path.join(workdir, "cand.txt")
    open(f, "w").write(line + "\n")
    env = dict(os.environ)
    if drain:
        env["VERIF_REPLAY_DRAIN"] = "1"
    out = os.path.join(workdir, "out")
    try:
        subprocess.run([harness, "system", "--seed", "1", "--tier", "quick", "--out", out, "--replay", f],
                       env=env, stdout=subprocess.DEVNULL, stderr=subprocess.DEVNULL, timeout=60)
    except subprocess.TimeoutExpired:
        return None
    try:
        for l in open(os.path.join(out, "system.oracle")):
            m = re.match(r"VIOL (\S+) (\S+) :: (.*)", l)
            if m and prop in m.group(1).split(",") and m.group(2) == sig:
                r = re.search(r"REPLAY\[(.*?)\]", m.group(3))
                return (m.group(3), r.group(1) if r else line)
    except FileNotFoundError:
        pass
    return None


def shrink_system(harness, line, prop, sig, budget_s=90):
    """returns (shrunk_line, detail, runs) or None when the violation does not reproduce in replay mode"""
    w = line.split()
    if len(w) < 3 or w[0] != "sy":
        return None
    head, toks = w[:2], w[2:]
    drain = sig.startswith(DRAIN_SIGS)
    workdir = tempfile.mkdtemp(prefix="shrink-", dir=os.path.join(os.path.dirname(os.path.dirname(os.path.abspath(__file__))), "build"))
    t0 = time.time()
    runs = 0
    try:
        base = _run(harness, " ".join(head + toks), prop, sig, workdir, drain)
        runs += 1
        if base is None:
            return None
        detail = base[0]
        # the harness reports the schedule it actually executed (inapplicable tokens dropped, drain steps added):
        # in drain mode keep our own token list, otherwise adopt the executed one
        if not drain:
            toks = base[1].split()[2:]
        n = 2
        while len(toks) >= 2 and time.time() - t0 < budget_s:
            chunk = max(1, len(toks) // n)
            removed = False
            i = 0
            while i < len(toks) and time.time() - t0 < budget_s:
                cand = toks[:i] + toks[i + chunk:]
                r = _run(harness, " ".join(head + cand), prop, sig, workdir, drain)
                runs += 1
                if r is not None:
                    toks = cand if drain else r[1].split()[2:]
                    detail = r[0]
                    removed = True
                    n = max(n - 1, 2)
                else:
                    i += chunk
            if not removed:
                if chunk == 1:
                    break
                n = min(n * 2, len(toks))
        return (" ".join(head + toks), detail, runs)
    finally:
        shutil.rmtree(workdir, ignore_errors=True)
